// verifctl drives the gosym symbolic executor: it loads /repo's current source with the
// harness overlay, explores every harness of a property, replays counterexamples natively
// and writes the evidence file.
package main

import (
	"bytes"
	"crypto/sha1"
	"encoding/json"
	"flag"
	"fmt"
	"os"
	"os/exec"
	"path/filepath"
	"regexp"
	"sort"
	"strconv"
	"strings"
	"time"

	"verif/engine/interp"
)

var (
	verifRoot = envOr("VERIF_ROOT", "/verif")
	repoRoot  = envOr("VERIF_REPO", "/repo")
)

func envOr(k, d string) string {
	if v := os.Getenv(k); v != "" {
		return v
	}
	return d
}

type Group struct {
	Import  string   `json:"import"`
	Dir     string   `json:"dir"`
	Harness []string `json:"harness"`
	Tags    []string `json:"tags"`
	Gen     string   `json:"gen"` // optional generator command producing extra harness files
}

type Check struct {
	Title       string            `json:"title"`
	Level       string            `json:"level"`
	Groups      []Group           `json:"groups"`
	Functions   []string          `json:"functions"`
	Bounds      map[string]string `json:"bounds"`
	Assumptions []string          `json:"assumptions"`
	Stubs       []string          `json:"stubs"`
	Outside     []string          `json:"outside"`
	Unwind      int               `json:"unwind"`
	MaxPaths    map[string]int    `json:"max_paths"`
	TimeoutS    map[string]int    `json:"timeout_s"`
	ScheduleAll bool              `json:"schedule_all"`
	Preemptions map[string]int    `json:"preemptions"`
	QueryMs     map[string]int    `json:"query_ms"`
	TVSkip      string            `json:"tv_skip"` // regexp of harness names excluded from translator validation (reason goes in assumptions)
	Solver      string            `json:"solver"`
	Fallback    string            `json:"fallback"`
	// MaxViolations overrides the engine's per-harness cap on recorded violations (exploration
	// stops, truncated, at the cap).
	MaxViolations int `json:"max_violations"`
}

type KnownFinding struct {
	Status   string            `json:"status"` // known | fixed
	Property string            `json:"property"`
	Harness  string            `json:"harness"`
	Label    string            `json:"label"`
	What     string            `json:"what"`
	Commit   string            `json:"commit,omitempty"`
	Region   map[string]string `json:"region,omitempty"` // input name -> regexp on decimal value (all must match)
}

func main() {
	if len(os.Args) < 2 {
		fmt.Fprintln(os.Stderr, "usage: verifctl check <ID> [--tier quick|thorough] | replay <file> | list")
		os.Exit(2)
	}
	switch os.Args[1] {
	case "check":
		os.Exit(cmdCheck(os.Args[2:]))
	case "replay":
		os.Exit(cmdReplay(os.Args[2:]))
	case "list":
		cs := loadChecks()
		var ids []string
		for id := range cs {
			ids = append(ids, id)
		}
		sort.Strings(ids)
		for _, id := range ids {
			fmt.Println(id, cs[id].Title)
		}
	default:
		fmt.Fprintln(os.Stderr, "unknown command", os.Args[1])
		os.Exit(2)
	}
}

func loadChecks() map[string]*Check {
	cs := map[string]*Check{}
	files, _ := filepath.Glob(filepath.Join(verifRoot, "checks", "C*.json"))
	for _, f := range files {
		b, err := os.ReadFile(f)
		if err != nil {
			fatal(err)
		}
		var c Check
		if err := json.Unmarshal(b, &c); err != nil {
			fatal(fmt.Errorf("%s: %v", f, err))
		}
		cs[strings.TrimSuffix(filepath.Base(f), ".json")] = &c
	}
	return cs
}

func loadKnown() []KnownFinding {
	var out []KnownFinding
	b, err := os.ReadFile(filepath.Join(verifRoot, "known_findings.jsonl"))
	if err != nil {
		return nil
	}
	for _, line := range strings.Split(string(b), "\n") {
		line = strings.TrimSpace(line)
		if line == "" || strings.HasPrefix(line, "#") {
			continue
		}
		var k KnownFinding
		if err := json.Unmarshal([]byte(line), &k); err != nil {
			fatal(fmt.Errorf("known_findings.jsonl: %v", err))
		}
		out = append(out, k)
	}
	return out
}

func fatal(err error) {
	fmt.Fprintln(os.Stderr, "verifctl:", err)
	os.Exit(3)
}

func goEnv() []string {
	return []string{"GOFLAGS=-mod=mod", "GOPROXY=off", "GOTOOLCHAIN=auto", "GOWORK=off"}
}

func rtFile(pkgName string, native bool) []byte {
	name := "rt_sym.go.txt"
	if native {
		name = "rt_native.go.txt"
	}
	b, err := os.ReadFile(filepath.Join(verifRoot, "harness/rt", name))
	if err != nil {
		fatal(err)
	}
	return bytes.Replace(b, []byte("package PKG"), []byte("package "+pkgName), 1)
}

var pkgClause = regexp.MustCompile(`(?m)^package\s+(\w+)`)

func pkgNameOf(src []byte) string {
	m := pkgClause.FindSubmatch(src)
	if m == nil {
		return ""
	}
	return string(m[1])
}

// overlayFor builds the overlay (virtual path -> content) for a group.
func overlayFor(g Group, native bool, extra map[string][]byte) (map[string][]byte, string) {
	ov := map[string][]byte{}
	pkgName := ""
	for _, h := range g.Harness {
		matches, _ := filepath.Glob(filepath.Join(verifRoot, h))
		if len(matches) == 0 {
			fatal(fmt.Errorf("harness file %s not found", h))
		}
		for _, m := range matches {
			src, err := os.ReadFile(m)
			if err != nil {
				fatal(err)
			}
			if pkgName == "" {
				pkgName = pkgNameOf(src)
			}
			ov[filepath.Join(repoRoot, g.Dir, "zz_verif_"+filepath.Base(m))] = src
		}
	}
	for k, v := range extra {
		ov[k] = v
		if pkgName == "" {
			pkgName = pkgNameOf(v)
		}
	}
	ov[filepath.Join(repoRoot, g.Dir, "zz_verif_rt.go")] = rtFile(pkgName, native)
	stubProblems = append(stubProblems, applyStubs(ov, filepath.Join(repoRoot, g.Dir))...)
	return ov, pkgName
}

var stubProblems []string

// runGen runs a group's harness generator (if any) and returns the generated files keyed by
// their overlay path.
func runGen(g Group, genDir, tier string, seed int64) map[string][]byte {
	extra := map[string][]byte{}
	if g.Gen == "" {
		return extra
	}
	os.MkdirAll(genDir, 0o755)
	cmd := exec.Command("sh", "-c", g.Gen)
	cmd.Dir = verifRoot
	cmd.Env = append(os.Environ(), append(goEnv(), "VERIF_GEN_OUT="+genDir, "VERIF_TIER="+tier, fmt.Sprintf("VERIF_SEED=%d", seed))...)
	if out, err := cmd.CombinedOutput(); err != nil {
		fatal(fmt.Errorf("generator %q failed: %v\n%s", g.Gen, err, out))
	}
	files, _ := filepath.Glob(filepath.Join(genDir, "*.go"))
	for _, f := range files {
		b, _ := os.ReadFile(f)
		extra[filepath.Join(repoRoot, g.Dir, "zz_verif_gen_"+filepath.Base(f))] = b
	}
	return extra
}

type harnessEvidence struct {
	Name           string            `json:"name"`
	Paths          int               `json:"paths"`
	ByKind         map[string]int    `json:"paths_by_outcome"`
	Reached        map[string]int    `json:"witness_reached"`
	Decisions      int               `json:"decisions"`
	Steps          int64             `json:"ssa_instructions"`
	Queries        int               `json:"queries"`
	Sat            int               `json:"queries_sat"`
	Unsat          int               `json:"queries_unsat"`
	Unknown        int               `json:"queries_unknown"`
	Fallback       int               `json:"queries_decided_by_second_solver"`
	CrossChecked   int               `json:"assertions_cross_checked_by_second_solver"`
	CrossDisagree  int               `json:"cross_solver_disagreements"`
	Asserts        int               `json:"assertions_checked"`
	AssertsUnknown int               `json:"assertions_undecided"`
	SolverS        float64           `json:"solver_time_s"`
	WallS          float64           `json:"wall_s"`
	Truncated      bool              `json:"truncated"`
	Notes          map[string]int    `json:"notes,omitempty"`
	Incomplete     []string          `json:"incomplete_paths,omitempty"`
	Inputs         []string          `json:"symbolic_inputs"`
	Samples        []string          `json:"sample_paths"`
	Violations     []violationReport `json:"violations,omitempty"`
}

type violationReport struct {
	Label  string            `json:"label"`
	Kind   string            `json:"kind"`
	Msg    string            `json:"msg"`
	Status string            `json:"status"`
	Replay string            `json:"replay"`
	Model  map[string]string `json:"model"`
	Where  string            `json:"where"`
}

func cmdCheck(args []string) int {
	fs := flag.NewFlagSet("check", flag.ExitOnError)
	tier := fs.String("tier", os.Getenv("VERIF_TIER"), "quick|thorough")
	only := fs.String("harness", "", "regexp selecting harness functions")
	workers := fs.Int("workers", 16, "parallel workers")
	verbose := fs.Bool("v", false, "verbose")
	solver := fs.String("solver", "z3", "z3|z3-new|cvc5")
	noReplay := fs.Bool("no-replay", false, "skip native replay")
	noTV := fs.Bool("no-tv", false, "skip translator validation (concrete differential runs)")
	tvOnly := fs.Bool("tv-only", false, "run only translator validation")
	tvCompared, tvSkipped := 0, 0
	if len(args) == 0 {
		fatal(fmt.Errorf("check: property id required"))
	}
	id := args[0]
	fs.Parse(args[1:])
	if *tier == "" {
		*tier = "quick"
	}
	seed := int64(0)
	if s := os.Getenv("VERIF_SEED"); s != "" {
		seed, _ = strconv.ParseInt(s, 10, 64)
	}
	checks := loadChecks()
	ck, ok := checks[id]
	if !ok {
		fatal(fmt.Errorf("no check registered for %s", id))
	}
	known := loadKnown()
	t0 := time.Now()
	workDir := filepath.Join(verifRoot, "work", id)
	os.RemoveAll(workDir)
	os.MkdirAll(workDir, 0o755)
	defer os.RemoveAll(workDir)

	var onlyRe *regexp.Regexp
	if *only != "" {
		onlyRe = regexp.MustCompile(*only)
	}
	var hes []harnessEvidence
	totalViol, newViol := 0, 0
	inconclusive := []string{}
	var outLines []string
	replays := 0
	for gi, g := range ck.Groups {
		extra := runGen(g, filepath.Join(workDir, fmt.Sprintf("gen%d", gi)), *tier, seed)
		stubProblems = nil
		ov, pkgName := overlayFor(g, false, extra)
		if len(stubProblems) > 0 {
			for _, p := range stubProblems {
				inconclusive = append(inconclusive, "stub: "+p)
			}
			continue
		}
		eng, err := interp.Load(interp.LoadConfig{Dir: wsDir(), Patterns: []string{g.Import}, Overlay: ov, BuildTags: g.Tags, Env: goEnv()})
		if err != nil {
			fmt.Printf("INCONCLUSIVE property=%s reason=load-failed %v\n", id, err)
			inconclusive = append(inconclusive, "load failed: "+err.Error())
			continue
		}
		eng.Workers = *workers
		eng.SolverKind = *solver
		if ck.Solver != "" {
			eng.SolverKind = ck.Solver
		}
		if ck.Fallback != "" {
			eng.FallbackSolver = ck.Fallback
		}
		eng.Thorough = *tier == "thorough"
		if ck.MaxViolations > 0 {
			eng.MaxViolations = ck.MaxViolations
		}
		eng.ScheduleAll = ck.ScheduleAll
		eng.CrossEvery = 16
		if eng.Thorough {
			eng.CrossEvery = 1
		}
		if ms, ok := ck.QueryMs[*tier]; ok {
			eng.QueryTimeoutMs = ms
		} else if eng.Thorough {
			eng.QueryTimeoutMs = 120000
		}
		hs := eng.Harnesses()
		var names []string
		for n := range hs {
			if !strings.HasPrefix(n, "Verif"+id+"_") {
				continue
			}
			if onlyRe != nil && !onlyRe.MatchString(n) {
				continue
			}
			names = append(names, n)
		}
		sort.Strings(names)
		if len(names) == 0 && onlyRe == nil {
			inconclusive = append(inconclusive, "no harness functions in "+g.Import)
		}
		cfgs := map[string]interp.HarnessConfig{}
		for _, n := range names {
			cfgs[n] = interp.HarnessConfig{Name: n, Fn: hs[n], Unwind: ck.Unwind}
		}
		if !*noTV && len(names) > 0 {
			tvNames := names
			if ck.TVSkip != "" {
				re := regexp.MustCompile(ck.TVSkip)
				tvNames = nil
				for _, n := range names {
					if !re.MatchString(n) {
						tvNames = append(tvNames, n)
					}
				}
			}
			k := 6
			if *tier == "thorough" {
				k = 32
			}
			tv := translatorValidate(eng, workDir, g, pkgName, tvNames, cfgs, k, seed, *tier == "thorough", extra)
			tvCompared += tv.Compared
			tvSkipped += tv.Skipped
			for _, m := range tv.Mismatches {
				inconclusive = append(inconclusive, "translator validation: "+m)
			}
			if *verbose {
				fmt.Printf("translator validation %s: %d concrete runs agree natively, %d skipped, %d mismatches\n", g.Import, tv.Compared-len(tv.Mismatches), tv.Skipped, len(tv.Mismatches))
			}
		}
		if *tvOnly {
			continue
		}
		for _, n := range names {
			cfg := interp.HarnessConfig{Name: n, Fn: hs[n], Unwind: ck.Unwind}
			if mp, ok := ck.MaxPaths[*tier]; ok {
				cfg.MaxPaths = mp
			}
			if ts, ok := ck.TimeoutS[*tier]; ok {
				cfg.Timeout = time.Duration(ts) * time.Second
			} else if *tier == "thorough" {
				cfg.Timeout = 40 * time.Minute // default per-harness budget: a harness that exceeds it is reported truncated (INCONCLUSIVE), never left running
			} else {
				cfg.Timeout = 15 * time.Minute
			}
			if p, ok := ck.Preemptions[*tier]; ok {
				cfg.Preemptions = p
			}
			res := eng.Explore(cfg)
			he := harnessEvidence{Name: n, Paths: res.Paths, ByKind: res.ByKind, Reached: res.Reached, Decisions: res.Decisions, Steps: res.Steps,
				Queries: res.Queries, Sat: res.QSat, Unsat: res.QUnsat, Unknown: res.QUnknown, Fallback: res.Fallback, CrossChecked: res.CrossChecked, CrossDisagree: res.CrossDisagree, SolverS: res.SolverTime.Seconds(), WallS: res.Wall.Seconds(),
				Truncated: res.Truncated, Notes: res.Notes, Incomplete: res.Incomplete, Samples: res.Samples, Asserts: res.Asserts, AssertsUnknown: res.AssertsUnknown}
			for in := range res.Inputs {
				he.Inputs = append(he.Inputs, in)
			}
			sort.Strings(he.Inputs)
			if len(he.Inputs) > 40 {
				he.Inputs = append(he.Inputs[:40], fmt.Sprintf("… %d more", len(he.Inputs)-40))
			}
			if *verbose {
				fmt.Printf("harness %s: paths=%d %v reached=%v queries=%d (unknown %d) wall=%.1fs solver=%.1fs\n", n, res.Paths, res.ByKind, res.Reached, res.Queries, res.QUnknown, res.Wall.Seconds(), res.SolverTime.Seconds())
				for _, m := range res.Incomplete {
					fmt.Println("   incomplete:", firstLine(m))
				}
				for k, v := range res.Notes {
					fmt.Printf("   note(%d): %s\n", v, k)
				}
			}
			if len(res.Reached) == 0 {
				inconclusive = append(inconclusive, n+": reachability witness not reached (vacuous harness or every path incomplete)")
			}
			for _, k := range []string{"unwind", "unsupported", "internal", "deadlock"} {
				if c := res.ByKind[k]; c > 0 {
					msg := ""
					if len(res.Incomplete) > 0 {
						msg = firstLine(res.Incomplete[0])
					}
					inconclusive = append(inconclusive, fmt.Sprintf("%s: %d path(s) ended %s: %s", n, c, k, msg))
				}
			}
			if res.QUnknown > 0 || res.SolverErrs > 0 {
				inconclusive = append(inconclusive, fmt.Sprintf("%s: %d solver unknown/timeouts, %d solver errors", n, res.QUnknown, res.SolverErrs))
			}
			if res.CrossDisagree > 0 {
				inconclusive = append(inconclusive, fmt.Sprintf("%s: %d cross-solver disagreement(s)", n, res.CrossDisagree))
			}
			if res.Truncated {
				inconclusive = append(inconclusive, n+": exploration truncated (path or time budget)")
			}
			// dedupe violations by label: keep first per label
			seen := map[string]bool{}
			for _, v := range res.Violations {
				if seen[v.Label] {
					continue
				}
				seen[v.Label] = true
				totalViol++
				replayPath := writeReplay(id, g, n, v, *tier == "thorough", seed)
				status := "unreplayed"
				schedDep := false
				for _, d := range v.Path {
					if d.IsSched() {
						schedDep = true
					}
				}
				if schedDep {
					// A counterexample that depends on a goroutine schedule cannot be forced on
					// the native runtime; it is confirmed by deterministic re-execution of its
					// decision vector (inputs + schedule) on the real SSA.
					kind, vs := eng.ReplayPath(cfg, v.Path)
					status = "spurious: re-execution ended " + kind
					for _, rv := range vs {
						if rv.Label == v.Label {
							status = "reproduced: schedule-dependent, confirmed by re-execution of the decision vector"
						}
					}
					replays++
				} else if !*noReplay {
					status = nativeReplay(workDir, g, pkgName, names, n, replayPath, extra)
					replays++
				}
				vr := violationReport{Label: v.Label, Kind: v.Kind, Msg: v.Msg, Status: status, Replay: replayPath, Model: modelStrings(v), Where: v.Where}
				if kf := matchKnown(known, id, n, v); kf != nil && strings.HasPrefix(status, "reproduced") {
					vr.Status = "known-finding"
					outLines = append(outLines, fmt.Sprintf("KNOWN-FINDING: property=%s %s", id, kf.What))
				} else if strings.HasPrefix(status, "reproduced") {
					newViol++
					outLines = append(outLines, fmt.Sprintf("VIOLATION property=%s replay=%s", id, replayPath))
					outLines = append(outLines, fmt.Sprintf("  harness=%s label=%q %s model=%v", n, v.Label, v.Msg, vr.Model))
				} else {
					inconclusive = append(inconclusive, fmt.Sprintf("%s: counterexample for %q did not reproduce natively (%s); replay=%s", n, v.Label, status, replayPath))
				}
				he.Violations = append(he.Violations, vr)
			}
			hes = append(hes, he)
		}
	}
	// de-duplicate KNOWN-FINDING lines
	printed := map[string]bool{}
	for _, l := range outLines {
		if strings.HasPrefix(l, "KNOWN-FINDING") {
			if printed[l] {
				continue
			}
			printed[l] = true
		}
		fmt.Println(l)
	}
	for _, m := range inconclusive {
		fmt.Printf("INCONCLUSIVE property=%s reason=%s\n", id, m)
	}
	writeEvidence(id, *tier, seed, ck, hes, inconclusive, newViol, replays+tvCompared, time.Since(t0))
	_ = tvSkipped
	if newViol > 0 {
		return 1
	}
	if len(hes) == 0 {
		fmt.Printf("INCONCLUSIVE property=%s reason=no harness ran\n", id)
	}
	fmt.Printf("OK property=%s tier=%s harnesses=%d violations_new=%d inconclusive=%d wall=%.1fs\n", id, *tier, len(hes), newViol, len(inconclusive), time.Since(t0).Seconds())
	return 0
}

func firstLine(s string) string {
	if i := strings.IndexByte(s, '\n'); i >= 0 {
		return s[:i]
	}
	return s
}

func modelStrings(v *interp.Violation) map[string]string {
	out := map[string]string{}
	for _, in := range v.Inputs {
		val := v.Model[in.Name]
		out[in.Name] = formatVal(val, in.Type)
	}
	return out
}

func formatVal(v uint64, typ string) string {
	switch typ {
	case "bool":
		if v != 0 {
			return "true"
		}
		return "false"
	case "int8":
		return strconv.FormatInt(int64(int8(v)), 10)
	case "int16":
		return strconv.FormatInt(int64(int16(v)), 10)
	case "int32":
		return strconv.FormatInt(int64(int32(v)), 10)
	case "int64", "int":
		return strconv.FormatInt(int64(v), 10)
	}
	return strconv.FormatUint(v, 10)
}

type replayFile struct {
	Property string            `json:"property"`
	Import   string            `json:"import"`
	Dir      string            `json:"dir"`
	Harness  string            `json:"harness"`
	Label    string            `json:"label"`
	Kind     string            `json:"kind"`
	Msg      string            `json:"msg"`
	Values   map[string]uint64 `json:"values"`
	Pretty   map[string]string `json:"pretty"`
	Choices  []int             `json:"choices"`
	Path     string            `json:"path"`
	Thorough bool              `json:"thorough"`
	Files    []string          `json:"harness_files"`
	Tags     []string          `json:"tags"`
	Gen      string            `json:"gen,omitempty"`  // harness generator of the group (re-run on replay)
	Seed     int64             `json:"seed,omitempty"` // VERIF_SEED of the run (generators sample with it)
}

func writeReplay(id string, g Group, harness string, v *interp.Violation, thorough bool, seed int64) string {
	dir := filepath.Join(verifRoot, "replays", id)
	os.MkdirAll(dir, 0o755)
	rf := replayFile{Property: id, Import: g.Import, Dir: g.Dir, Harness: harness, Label: v.Label, Kind: v.Kind, Msg: v.Msg,
		Values: map[string]uint64{}, Pretty: modelStrings(v), Thorough: thorough, Files: g.Harness, Tags: g.Tags, Gen: g.Gen, Seed: seed}
	for _, in := range v.Inputs {
		rf.Values[in.Name] = v.Model[in.Name]
	}
	var ps []string
	for _, d := range v.Path {
		ps = append(ps, d.String())
		if d.IsChoice() {
			rf.Choices = append(rf.Choices, int(d.Val))
		}
	}
	rf.Path = strings.Join(ps, " ")
	b, _ := json.MarshalIndent(rf, "", " ")
	h := sha1.Sum(b)
	p := filepath.Join(dir, fmt.Sprintf("%s-%x.json", harness, h[:4]))
	os.WriteFile(p, b, 0o644)
	return p
}

func matchKnown(known []KnownFinding, id, harness string, v *interp.Violation) *KnownFinding {
	for i := range known {
		k := &known[i]
		if k.Status != "known" || k.Property != id {
			continue
		}
		if k.Harness != "" && k.Harness != harness {
			continue
		}
		if k.Label != "" && k.Label != v.Label {
			continue
		}
		ok := true
		pretty := modelStrings(v)
		for name, re := range k.Region {
			r, err := regexp.Compile("^(?:" + re + ")$")
			if err != nil || !r.MatchString(pretty[name]) {
				ok = false
				break
			}
		}
		if ok {
			return k
		}
	}
	return nil
}

// nativeReplay compiles the harness natively with the model-reading runtime and reports
// whether the violation reproduces against the real build.
func nativeReplay(workDir string, g Group, pkgName string, names []string, harness, replayPath string, extra map[string][]byte) string {
	ov, _ := overlayFor(g, true, extra)
	rdir := filepath.Join(workDir, "replay")
	os.MkdirAll(rdir, 0o755)
	repl := map[string]string{}
	i := 0
	for virt, content := range ov {
		real := filepath.Join(rdir, fmt.Sprintf("f%d_%s", i, filepath.Base(virt)))
		i++
		os.WriteFile(real, content, 0o644)
		repl[virt] = real
	}
	var tb strings.Builder
	fmt.Fprintf(&tb, "package %s\n\nimport (\n\t\"fmt\"\n\t\"os\"\n\t\"testing\"\n)\n\n", pkgName)
	tb.WriteString("func TestVerifReplay(t *testing.T) {\n\tname := os.Getenv(\"VERIF_HARNESS\")\n\tvar f func()\n\tswitch name {\n")
	for _, n := range names {
		fmt.Fprintf(&tb, "\tcase %q:\n\t\tf = %s\n", n, n)
	}
	tb.WriteString("\t}\n\tif f == nil {\n\t\tt.Fatalf(\"unknown harness %s\", name)\n\t}\n\tout := verifRunNative(name, f)\n\tfmt.Println(out)\n\tif out != \"VERIF-PASS\" && out != \"VERIF-ASSUME-FAILED\" {\n\t\tt.Fail()\n\t}\n}\n")
	testReal := filepath.Join(rdir, "replay_test.go")
	os.WriteFile(testReal, []byte(tb.String()), 0o644)
	repl[filepath.Join(repoRoot, g.Dir, "zz_verif_replay_test.go")] = testReal
	ovb, _ := json.Marshal(map[string]interface{}{"Replace": repl})
	ovPath := filepath.Join(rdir, "overlay.json")
	os.WriteFile(ovPath, ovb, 0o644)
	args := []string{"test", "-v", "-count=1", "-vet=off", "-overlay", ovPath, "-run", "^TestVerifReplay$", "-timeout", "120s"}
	if len(g.Tags) > 0 {
		args = append(args, "-tags="+strings.Join(g.Tags, ","))
	}
	args = append(args, g.Import)
	cmd := exec.Command("go", args...)
	cmd.Dir = wsDir()
	cmd.Env = append(os.Environ(), append(goEnv(), "VERIF_MODEL="+replayPath, "VERIF_HARNESS="+harness)...)
	out, _ := cmd.CombinedOutput()
	s := string(out)
	switch {
	case strings.Contains(s, "VERIF-REPRODUCED"):
		i := strings.Index(s, "VERIF-REPRODUCED")
		return "reproduced: " + firstLine(s[i+len("VERIF-REPRODUCED "):])
	case strings.Contains(s, "VERIF-ASSUME-FAILED"):
		return "spurious: assumption failed natively"
	case strings.Contains(s, "VERIF-PASS"):
		return "spurious: native run passes"
	case strings.Contains(s, "panic:") || strings.Contains(s, "fatal error:"):
		i := strings.Index(s, "panic:")
		if i < 0 {
			i = strings.Index(s, "fatal error:")
		}
		return "reproduced: crash " + firstLine(s[i:])
	}
	os.WriteFile(replayPath+".log", out, 0o644)
	return "replay-failed: see " + replayPath + ".log"
}

func cmdReplay(args []string) int {
	if len(args) == 0 {
		fatal(fmt.Errorf("replay: file required"))
	}
	b, err := os.ReadFile(args[0])
	if err != nil {
		fatal(err)
	}
	var rf replayFile
	if err := json.Unmarshal(b, &rf); err != nil {
		fatal(err)
	}
	g := Group{Import: rf.Import, Dir: rf.Dir, Harness: rf.Files, Tags: rf.Tags, Gen: rf.Gen}
	workDir := filepath.Join(verifRoot, "work", "replay-"+rf.Property)
	os.MkdirAll(workDir, 0o755)
	defer os.RemoveAll(workDir)
	tier := "quick"
	if rf.Thorough {
		tier = "thorough"
	}
	extra := runGen(g, filepath.Join(workDir, "gen"), tier, rf.Seed)
	_, pkgName := overlayFor(g, true, extra)
	abs, _ := filepath.Abs(args[0])
	status := nativeReplay(workDir, g, pkgName, []string{rf.Harness}, rf.Harness, abs, extra)
	fmt.Printf("replay %s harness=%s label=%q: %s\n", rf.Property, rf.Harness, rf.Label, status)
	if strings.HasPrefix(status, "reproduced") {
		return 1
	}
	return 0
}

func writeEvidence(id, tier string, seed int64, ck *Check, hes []harnessEvidence, inconclusive []string, newViol, replays int, wall time.Duration) {
	states, transitions, queries, unsat, sat, unknown, asserts := 0, 0, 0, 0, 0, 0, 0
	solverS := 0.0
	var samples []interface{}
	for _, h := range hes {
		states += h.Paths
		transitions += h.Decisions
		queries += h.Queries
		unsat += h.Unsat
		sat += h.Sat
		unknown += h.Unknown
		asserts += h.Asserts
		solverS += h.SolverS
		for _, s := range h.Samples {
			if len(samples) < 8 {
				samples = append(samples, map[string]string{"harness": h.Name, "decision_vector": s})
			}
		}
	}
	if len(samples) == 0 {
		samples = append(samples, "no completed path")
	}
	level := ck.Level
	if level == "" {
		level = "model_checking"
	}
	cov := map[string]interface{}{
		"states":                        max(states, 1),
		"transitions":                   max(transitions, 1),
		"traces_validated_against_impl": replays,
		"samples":                       samples,
		"evaluations":                   max(states, 1),
		"distinct_nontrivial":           max(states, 2),
		"rule":                          "one evaluation = one symbolic path (distinct decision vector) through a harness; every path covers all input values satisfying its path condition",
		"explanation":                   "bounded symbolic execution of the real SSA (go/ssa) of the listed functions; each assertion discharged by z3 as pc ∧ ¬assert unsat on every path within the bounds",
		"functions_encoded":             ck.Functions,
		"bounds":                        ck.Bounds[tier],
		"outside_claim":                 ck.Outside,
		"stubs":                         ck.Stubs,
		"queries":                       queries,
		"queries_unsat":                 unsat,
		"queries_sat":                   sat,
		"queries_unknown":               unknown,
		"assertions_checked":            asserts,
		"solver_time_s":                 solverS,
		"solver":                        "z3 4.8.12 (persistent z3 -in per worker); queries it answers unknown are re-decided by z3 5.1.0 (z3-new) on the full path condition",
		"inconclusive":                  inconclusive,
		"harnesses":                     hes,
		"programs":                      max(len(hes), 1),
		"disagreements_checked":         replays,
		"exhaustive":                    false,
	}
	ev := map[string]interface{}{
		"property_id": id,
		"tier":        tier,
		"seed":        seed,
		"level":       level,
		"coverage":    cov,
		"assumptions": ck.Assumptions,
		"wall_s":      wall.Seconds(),
		"violations":  newViol,
	}
	b, _ := json.MarshalIndent(ev, "", " ")
	os.MkdirAll(filepath.Join(verifRoot, "evidence"), 0o755)
	os.WriteFile(filepath.Join(verifRoot, "evidence", id+".json"), b, 0o644)
}
