package main

import (
	"bytes"
	"fmt"
	"go/ast"
	"go/parser"
	"go/printer"
	"go/token"
	"os"
	"path/filepath"
	"regexp"
	"strings"
)

// Source-level stubbing. A harness function preceded by
//
//	//verif:replace (*broker).loadConnection
//	//verif:replace parseReadSize
//
// replaces the named function/method of the package under test: the runner produces an overlay
// copy of the /repo file that declares the target with that declaration renamed to
// <name>__real, and renames the harness function to the original name. The same overlay is
// used for symbolic execution and for native replay. A missing target makes the check
// INCONCLUSIVE (the stub no longer matches the code), never a violation.

var replaceRe = regexp.MustCompile(`(?m)^//verif:replace\s+(\(\*?\w+\)\.)?(\w+)\s*$`)

type stubSpec struct {
	recv string // "" | "T" | "*T"
	name string
}

func recvString(fd *ast.FuncDecl) string {
	if fd.Recv == nil || len(fd.Recv.List) == 0 {
		return ""
	}
	t := fd.Recv.List[0].Type
	star := ""
	if s, ok := t.(*ast.StarExpr); ok {
		star = "*"
		t = s.X
	}
	switch x := t.(type) {
	case *ast.Ident:
		return star + x.Name
	case *ast.IndexExpr: // generic receiver T[P]
		if id, ok := x.X.(*ast.Ident); ok {
			return star + id.Name
		}
	case *ast.IndexListExpr:
		if id, ok := x.X.(*ast.Ident); ok {
			return star + id.Name
		}
	}
	return "?"
}

// applyStubs rewrites the overlay in place. It returns the list of problems (missing targets).
func applyStubs(ov map[string][]byte, repoDir string) []string {
	var problems []string
	type job struct {
		spec     stubSpec
		harness  string // overlay key of the harness file
		stubName string
	}
	var jobs []job
	for path, src := range ov {
		if !bytes.Contains(src, []byte("//verif:replace")) {
			continue
		}
		fset := token.NewFileSet()
		f, err := parser.ParseFile(fset, path, src, parser.ParseComments)
		if err != nil {
			problems = append(problems, fmt.Sprintf("cannot parse harness %s: %v", path, err))
			continue
		}
		changed := false
		for _, d := range f.Decls {
			fd, ok := d.(*ast.FuncDecl)
			if !ok || fd.Doc == nil {
				continue
			}
			for _, c := range fd.Doc.List {
				m := replaceRe.FindStringSubmatch(c.Text)
				if m == nil {
					continue
				}
				recv := strings.TrimSuffix(strings.TrimPrefix(strings.TrimSuffix(m[1], "."), "("), ")")
				spec := stubSpec{recv: recv, name: m[2]}
				if recvString(fd) != spec.recv {
					problems = append(problems, fmt.Sprintf("stub %s: receiver %q does not match directive %q", fd.Name.Name, recvString(fd), spec.recv))
					continue
				}
				jobs = append(jobs, job{spec: spec, harness: path, stubName: fd.Name.Name})
				fd.Name.Name = spec.name
				changed = true
			}
		}
		if changed {
			var buf bytes.Buffer
			if err := printer.Fprint(&buf, fset, f); err != nil {
				problems = append(problems, err.Error())
				continue
			}
			ov[path] = buf.Bytes()
		}
	}
	if len(jobs) == 0 {
		return problems
	}
	// find and rename the originals in the package directory
	files, _ := filepath.Glob(filepath.Join(repoDir, "*.go"))
	for _, j := range jobs {
		found := false
		for _, file := range files {
			if strings.HasSuffix(file, "_test.go") {
				continue
			}
			src, ok := ov[file]
			if !ok {
				b, err := os.ReadFile(file)
				if err != nil {
					continue
				}
				src = b
			}
			if !bytes.Contains(src, []byte(j.spec.name)) {
				continue
			}
			fset := token.NewFileSet()
			f, err := parser.ParseFile(fset, file, src, parser.ParseComments)
			if err != nil {
				continue
			}
			for _, d := range f.Decls {
				fd, ok := d.(*ast.FuncDecl)
				if !ok || fd.Name.Name != j.spec.name || recvString(fd) != j.spec.recv {
					continue
				}
				fd.Name.Name = j.spec.name + "__real"
				found = true
			}
			if found {
				var buf bytes.Buffer
				if err := printer.Fprint(&buf, fset, f); err != nil {
					problems = append(problems, err.Error())
				} else {
					ov[file] = buf.Bytes()
				}
				break
			}
		}
		if !found {
			r := j.spec.name
			if j.spec.recv != "" {
				r = "(" + j.spec.recv + ")." + j.spec.name
			}
			problems = append(problems, fmt.Sprintf("stub target %s not found in %s (the code changed; stub must be re-derived)", r, repoDir))
		}
	}
	return problems
}

// wsDir returns the work module directory. When VERIF_REPO points at another checkout of the
// repository (e.g. a scratch worktree carrying a seeded change) a copy of the work module with
// its replace directives redirected to that checkout is created under work/.
func wsDir() string {
	base := filepath.Join(verifRoot, "ws")
	if repoRoot == "/repo" {
		return base
	}
	alt := filepath.Join(verifRoot, "work", "ws-"+strings.ReplaceAll(strings.Trim(repoRoot, "/"), "/", "_"))
	if _, err := os.Stat(filepath.Join(alt, "go.mod")); err == nil {
		return alt
	}
	os.MkdirAll(alt, 0o755)
	for _, f := range []string{"go.mod", "go.sum", "deps.go"} {
		b, err := os.ReadFile(filepath.Join(base, f))
		if err != nil {
			continue
		}
		if f == "go.mod" {
			b = bytes.ReplaceAll(b, []byte("=> /repo"), []byte("=> "+repoRoot))
		}
		os.WriteFile(filepath.Join(alt, f), b, 0o644)
	}
	return alt
}
