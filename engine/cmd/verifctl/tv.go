package main

import (
	"encoding/json"
	"fmt"
	"os"
	"os/exec"
	"path/filepath"
	"strings"

	"verif/engine/interp"
)

// Translator validation: every harness is executed K times with pseudo-random CONCRETE
// inputs, once by gosym (the symbolic executor run as a plain interpreter) and once natively
// (go test -overlay with the same values); the outcomes (pass / assumption failed / which
// assertion failed / panic) must agree. A disagreement means the executor's semantics differ
// from the compiler's on that run: the check is reported INCONCLUSIVE.

type tvCase struct {
	Harness  string
	Model    string
	Expected string
}

type tvResult struct {
	Compared   int
	Skipped    int
	Mismatches []string
}

func translatorValidate(eng *interp.Engine, workDir string, g Group, pkgName string, names []string, cfgs map[string]interp.HarnessConfig, k int, seed int64, thorough bool, extra map[string][]byte) tvResult {
	var res tvResult
	dir := filepath.Join(workDir, "tv")
	os.MkdirAll(dir, 0o755)
	var cases []tvCase
	for hi, n := range names {
		for i := 0; i < k; i++ {
			run := eng.RunConcrete(cfgs[n], uint64(seed)*1000003+uint64(hi)*7919+uint64(i)+1)
			if strings.HasPrefix(run.Outcome, "skip:") {
				res.Skipped++
				continue
			}
			rf := map[string]interface{}{"values": run.Values, "choices": run.Choices, "thorough": thorough}
			b, _ := json.Marshal(rf)
			p := filepath.Join(dir, fmt.Sprintf("%s-%d.json", n, i))
			os.WriteFile(p, b, 0o644)
			cases = append(cases, tvCase{Harness: n, Model: p, Expected: run.Outcome})
		}
	}
	if len(cases) == 0 {
		return res
	}
	var lb strings.Builder
	for _, c := range cases {
		fmt.Fprintf(&lb, "%s\t%s\n", c.Harness, c.Model)
	}
	listPath := filepath.Join(dir, "cases.txt")
	os.WriteFile(listPath, []byte(lb.String()), 0o644)
	out := runNativeBatch(workDir, g, pkgName, names, listPath, extra)
	got := map[string]string{}
	for _, line := range strings.Split(out, "\n") {
		if strings.HasPrefix(line, "VERIF-OUTCOME\t") {
			f := strings.SplitN(line, "\t", 3)
			if len(f) == 3 {
				got[f[1]] = f[2]
			}
		}
	}
	for _, c := range cases {
		g, ok := got[c.Model]
		if !ok {
			res.Mismatches = append(res.Mismatches, fmt.Sprintf("%s: native run produced no outcome (crash?) for %s", c.Harness, filepath.Base(c.Model)))
			continue
		}
		res.Compared++
		if !sameOutcome(c.Expected, g) {
			res.Mismatches = append(res.Mismatches, fmt.Sprintf("%s: executor says %q, native says %q (%s)", c.Harness, c.Expected, g, filepath.Base(c.Model)))
		}
	}
	if len(res.Mismatches) > 0 && len(got) == 0 {
		os.WriteFile(filepath.Join(verifRoot, "replays", "tv-"+filepath.Base(workDir)+".log"), []byte(out), 0o644)
	}
	return res
}

func sameOutcome(exp, got string) bool {
	if strings.HasPrefix(exp, "VERIF-REPRODUCED panic") {
		return strings.HasPrefix(got, "VERIF-REPRODUCED panic")
	}
	return exp == got
}

// runNativeBatch compiles the group's harnesses natively and runs every (harness, model) pair
// listed in listPath inside one test binary.
func runNativeBatch(workDir string, g Group, pkgName string, names []string, listPath string, extra map[string][]byte) string {
	ov, _ := overlayFor(g, true, extra)
	rdir := filepath.Join(workDir, "tvbuild")
	os.MkdirAll(rdir, 0o755)
	repl := map[string]string{}
	i := 0
	for virt, content := range ov {
		real := filepath.Join(rdir, fmt.Sprintf("f%d_%s", i, filepath.Base(virt)))
		i++
		os.WriteFile(real, content, 0o644)
		repl[virt] = real
	}
	var tb strings.Builder
	fmt.Fprintf(&tb, "package %s\n\nimport (\n\t\"bufio\"\n\t\"fmt\"\n\t\"os\"\n\t\"strings\"\n\t\"testing\"\n)\n\n", pkgName)
	tb.WriteString("func TestVerifBatch(t *testing.T) {\n\tfns := map[string]func(){\n")
	for _, n := range names {
		fmt.Fprintf(&tb, "\t\t%q: %s,\n", n, n)
	}
	tb.WriteString("\t}\n\tf, err := os.Open(os.Getenv(\"VERIF_MODELS\"))\n\tif err != nil {\n\t\tt.Fatal(err)\n\t}\n\tsc := bufio.NewScanner(f)\n\tfor sc.Scan() {\n\t\tparts := strings.SplitN(sc.Text(), \"\\t\", 2)\n\t\tif len(parts) != 2 || fns[parts[0]] == nil {\n\t\t\tcontinue\n\t\t}\n\t\tos.Setenv(\"VERIF_MODEL\", parts[1])\n\t\tout := verifRunNative(parts[0], fns[parts[0]])\n\t\tfmt.Printf(\"VERIF-OUTCOME\\t%s\\t%s\\n\", parts[1], out)\n\t}\n}\n")
	testReal := filepath.Join(rdir, "batch_test.go")
	os.WriteFile(testReal, []byte(tb.String()), 0o644)
	repl[filepath.Join(repoRoot, g.Dir, "zz_verif_batch_test.go")] = testReal
	ovb, _ := json.Marshal(map[string]interface{}{"Replace": repl})
	ovPath := filepath.Join(rdir, "overlay.json")
	os.WriteFile(ovPath, ovb, 0o644)
	args := []string{"test", "-v", "-count=1", "-vet=off", "-overlay", ovPath, "-run", "^TestVerifBatch$", "-timeout", "300s"}
	if len(g.Tags) > 0 {
		args = append(args, "-tags="+strings.Join(g.Tags, ","))
	}
	args = append(args, g.Import)
	cmd := exec.Command("go", args...)
	cmd.Dir = wsDir()
	cmd.Env = append(os.Environ(), append(goEnv(), "VERIF_MODELS="+listPath)...)
	out, _ := cmd.CombinedOutput()
	return string(out)
}
