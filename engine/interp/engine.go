package interp

import (
	"fmt"
	"go/types"
	"os"
	"strings"
	"sync"

	"golang.org/x/tools/go/packages"
	"golang.org/x/tools/go/ssa"
	"golang.org/x/tools/go/ssa/ssautil"
)

// Engine holds the loaded program (shared, read-only) and exploration options.
type Engine struct {
	Prog             *ssa.Program
	Pkgs             []*packages.Package
	SSAPkgs          []*ssa.Package
	Workers          int
	SolverKind       string
	QueryTimeoutMs   int
	MaxSteps         int64
	MaxConcretize    int
	MaxConcreteAlloc int64
	MaxViolations    int
	ScheduleAll      bool
	Thorough         bool
	FallbackSolver   string
	CrossEvery       int // re-decide every n-th unsat assertion with the second solver (0 = off)
	buildMu          sync.Mutex
	built            map[*ssa.Package]bool
	builtFast        sync.Map
	extCache         sync.Map // *ssa.Function -> externalFn or nil marker
	dummyFn          *ssa.Function
	SkipInitPkgs     map[string]bool
	LoadErrors       []string
}

// LoadConfig describes what to load.
type LoadConfig struct {
	Dir       string            // work module directory
	Patterns  []string          // package patterns
	Overlay   map[string][]byte // extra / replaced files
	BuildTags []string
	Env       []string
}

func Load(lc LoadConfig) (*Engine, error) {
	cfg := &packages.Config{
		Mode:    packages.LoadAllSyntax,
		Dir:     lc.Dir,
		Overlay: lc.Overlay,
		Env:     append(os.Environ(), lc.Env...),
	}
	if len(lc.BuildTags) > 0 {
		cfg.BuildFlags = []string{"-tags=" + strings.Join(lc.BuildTags, ",")}
	}
	pkgs, err := packages.Load(cfg, lc.Patterns...)
	if err != nil {
		return nil, err
	}
	e := &Engine{Workers: 1, SolverKind: "z3", QueryTimeoutMs: 20000, MaxSteps: 50_000_000, MaxConcretize: 300,
		MaxConcreteAlloc: 1 << 22, MaxViolations: 8, FallbackSolver: "z3-new", built: map[*ssa.Package]bool{}}
	var errs []string
	packages.Visit(pkgs, nil, func(p *packages.Package) {
		for _, er := range p.Errors {
			errs = append(errs, er.Error())
		}
	})
	e.LoadErrors = errs
	if len(errs) > 0 {
		return e, fmt.Errorf("package load errors: %s", strings.Join(errs[:minInt(len(errs), 10)], "; "))
	}
	prog, spkgs := ssautil.AllPackages(pkgs, ssa.InstantiateGenerics)
	e.Prog = prog
	e.Pkgs = pkgs
	e.SSAPkgs = spkgs
	for _, p := range spkgs {
		if p != nil {
			e.buildPkg(p)
		}
	}
	rt := prog.ImportedPackage("runtime")
	if rt == nil {
		return nil, fmt.Errorf("runtime package not loaded")
	}
	theRuntimeErrorString = rt.Type("errorString").Object().Type()
	e.dummyFn = rt.Func("GC")
	e.SkipInitPkgs = map[string]bool{}
	return e, nil
}

func (e *Engine) buildPkg(p *ssa.Package) {
	if p == nil {
		return
	}
	if _, ok := e.builtFast.Load(p); ok {
		return
	}
	e.buildMu.Lock()
	defer e.buildMu.Unlock()
	if e.built[p] {
		return
	}
	p.Build()
	e.built[p] = true
	e.builtFast.Store(p, true)
}

// Package returns the loaded SSA package with the given import path.
func (e *Engine) Package(path string) *ssa.Package {
	for _, p := range e.Prog.AllPackages() {
		if p.Pkg.Path() == path {
			return p
		}
	}
	return nil
}

// Harnesses lists functions named Verif* in the root packages.
func (e *Engine) Harnesses() map[string]*ssa.Function {
	out := map[string]*ssa.Function{}
	for _, p := range e.SSAPkgs {
		if p == nil {
			continue
		}
		for name, m := range p.Members {
			if f, ok := m.(*ssa.Function); ok && strings.HasPrefix(name, "Verif") && f.Signature.Params().Len() == 0 {
				out[name] = f
			}
		}
	}
	return out
}

// skipInit decides which packages' initialisers are not executed (their globals stay
// zero). Everything whose init is needed and interpretable is run lazily on first access.
func (e *Engine) skipInit(pkg *ssa.Package) bool {
	path := pkg.Pkg.Path()
	if e.SkipInitPkgs[path] {
		return true
	}
	switch path {
	case "runtime", "os", "syscall", "reflect", "net", "time", "unsafe", "testing", "internal/poll", "internal/cpu",
		"crypto/rand", "math/rand", "math/rand/v2", "sync", "sync/atomic", "internal/godebug", "log", "encoding/json", "regexp", "regexp/syntax",
		"crypto/tls", "crypto/x509", "net/http", "fmt", "io/fs", "path/filepath", "os/signal", "internal/bytealg", "hash/crc32",
		"unicode", "compress/flate", "compress/gzip":
		return true
	}
	if strings.HasPrefix(path, "internal/") || strings.HasPrefix(path, "runtime/") || strings.HasPrefix(path, "crypto/") ||
		strings.HasPrefix(path, "vendor/") || strings.HasPrefix(path, "github.com/klauspost/") || strings.HasPrefix(path, "github.com/pierrec/") ||
		strings.HasPrefix(path, "golang.org/x/") || strings.HasPrefix(path, "go.opentelemetry.io/") {
		return true
	}
	return false
}

func typeString(t types.Type) string { return types.TypeString(t, nil) }

func minInt(a, b int) int {
	if a < b {
		return a
	}
	return b
}
