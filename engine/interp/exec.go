package interp

import (
	"fmt"
	"os"
	"go/token"
	"go/types"
	"sort"
	"strings"
	"sync"
	"time"

	"golang.org/x/tools/go/ssa"
	"verif/engine/smt"
)

type endKind int

const (
	endOK endKind = iota
	endInfeasible
	endViolation
	endPanic
	endUnwind
	endUnsupported
	endInternal
	endDeadlock
	endPruned
)

var endNames = [...]string{"ok", "infeasible", "violation", "panic", "unwind", "unsupported", "internal", "deadlock", "pruned"}

func (k endKind) String() string { return endNames[k] }

// pathEnd is raised (as a Go panic) to terminate the current path.
type pathEnd struct {
	kind  endKind
	msg   string
	label string
}

type killSignal struct{}

func unsupported(msg string) *pathEnd { return &pathEnd{kind: endUnsupported, msg: msg} }

type decKind uint8

const (
	decBranch decKind = iota
	decChoice
	decSched // a scheduling choice (which goroutine runs next)
)

// Decision is one element of a path's decision vector.
type Decision struct {
	Kind  decKind
	Taken bool
	Val   uint64 // concretised value (branch on t==Val) or chosen alternative
	Aux   bool   // branch came from concretize
}

func (d Decision) String() string {
	switch {
	case d.Kind == decChoice:
		return fmt.Sprintf("c%d", d.Val)
	case d.Kind == decSched:
		return fmt.Sprintf("s%d", d.Val)
	case d.Aux && d.Taken:
		return fmt.Sprintf("=%d", d.Val)
	case d.Aux:
		return fmt.Sprintf("!%d", d.Val)
	case d.Taken:
		return "T"
	}
	return "F"
}

// Input is a named nondeterministic input created by a harness.
type Input struct {
	Name string
	Term *smt.Term
	Type string // go type name: int32, uint8, bool, ...
}

// Violation is a failed assertion (or uncaught panic) together with a model.
type Violation struct {
	Harness string
	Label   string
	Msg     string
	Kind    string
	Model   map[string]uint64
	Inputs  []Input
	Path    []Decision
	Where   string
	Replay  string // filled by the runner
	Status  string // reproduced | spurious | unreplayed | known
}

// PathResult summarises one explored path.
type PathResult struct {
	Kind      endKind
	Msg       string
	Decisions []Decision
	Reached   []string
	Steps     int64
	Notes     []string
	Unknowns  int
	Observed  []string
}

type pathCtx struct {
	eng        *Engine
	w          *worker
	harness    string
	prefix     []Decision
	trace      []Decision
	pc         []*smt.Term
	sent       int
	inputs     []Input
	seq        map[string]int
	reached    []string
	notes      []string
	observed   []string
	unknowns   int
	unwind     int
	unwindCut  bool // exceeding the unwinding bound prunes the path (declared bound) instead of failing it
	unwindFail bool // exceeding the bound is a violation: the harness states the loop must terminate within it
	allocLimit int64
	mapOrderAll bool
	preempt    int // remaining preemptions
	violations []*Violation
	fresh      [][]Decision // alternatives discovered on this path
	asserts    int
	assertsUnknown int
	concrete   bool   // translator-validation run: inputs are pseudo-random constants
	rngState   uint64
	spawned    int
}

func (px *pathCtx) note(s string) {
	for _, n := range px.notes {
		if n == s {
			return
		}
	}
	px.notes = append(px.notes, s)
}

func (px *pathCtx) addPC(t *smt.Term) {
	if t.IsTrue() {
		return
	}
	px.pc = append(px.pc, t)
}

func (px *pathCtx) flush() {
	s := px.w.solver
	for px.sent < len(px.pc) {
		s.Assert(px.pc[px.sent])
		px.sent++
	}
}

func (px *pathCtx) check(extra *smt.Term, model bool) (smt.Result, map[string]uint64) {
	px.flush()
	r, m := px.w.solver.Check(extra, model)
	if r == smt.Unknown && px.eng.FallbackSolver != "" {
		// second opinion from another solver on the complete path condition
		if px.w.fallback == nil {
			fb, err := smt.NewSolver(px.eng.FallbackSolver, px.eng.QueryTimeoutMs*3)
			if err == nil {
				px.w.fallback = fb
			}
		}
		if fb := px.w.fallback; fb != nil {
			fb.Reset()
			for _, c := range px.pc {
				fb.Assert(c)
			}
			r2, m2 := fb.Check(extra, model)
			px.w.fallbackUsed++
			if r2 != smt.Unknown {
				px.w.fallbackDecided++
				return r2, m2
			}
		}
	}
	return r, m
}

// crossCheck re-decides an assertion query that the primary solver answered unsat with the
// second solver (a sample in quick tier, all in thorough). A disagreement makes the check
// inconclusive.
func (px *pathCtx) crossCheck(extra *smt.Term, label string) {
	e := px.eng
	if e.FallbackSolver == "" || e.CrossEvery <= 0 {
		return
	}
	px.w.assertSeq++
	if e.CrossEvery > 1 && px.w.assertSeq%e.CrossEvery != 1 {
		return
	}
	if px.w.fallback == nil {
		fb, err := smt.NewSolver(e.FallbackSolver, e.QueryTimeoutMs)
		if err != nil {
			return
		}
		px.w.fallback = fb
	}
	fb := px.w.fallback
	fb.Reset()
	for _, c := range px.pc {
		fb.Assert(c)
	}
	r, _ := fb.Check(extra, false)
	px.w.crossChecked++
	switch r {
	case smt.Sat:
		px.w.crossDisagree++
		px.note("SOLVER DISAGREEMENT on assertion: " + label)
	case smt.Unknown:
		px.w.crossUnknown++
	}
}

func (px *pathCtx) alt(d Decision) {
	v := make([]Decision, len(px.trace)+1)
	copy(v, px.trace)
	v[len(px.trace)] = d
	px.fresh = append(px.fresh, v)
}

// decide returns the outcome of a branch on c, forking when both outcomes are feasible.
func (fr *frame) decide(c *smt.Term) bool {
	if c.IsConst() {
		return c.C != 0
	}
	px := fr.i.px
	k := len(px.trace)
	if k < len(px.prefix) {
		d := px.prefix[k]
		if d.Kind != decBranch || d.Aux {
			panic(&pathEnd{kind: endInternal, msg: fmt.Sprintf("replay divergence at decision %d: expected plain branch, vector has %v", k, d)})
		}
		px.trace = append(px.trace, d)
		if d.Taken {
			px.addPC(c)
		} else {
			px.addPC(smt.BNot(c))
		}
		return d.Taken
	}
	rT, _ := px.check(c, false)
	canT := rT != smt.Unsat
	canF := true
	if rT != smt.Unsat {
		rF, _ := px.check(smt.BNot(c), false)
		canF = rF != smt.Unsat
		if rF == smt.Unknown {
			px.unknowns++
		}
	}
	if rT == smt.Unknown {
		px.unknowns++
	}
	if !canT && !canF {
		panic(&pathEnd{kind: endInfeasible, msg: "path condition became unsatisfiable"})
	}
	if canT && canF {
		px.alt(Decision{Kind: decBranch, Taken: false})
	}
	d := Decision{Kind: decBranch, Taken: canT}
	px.trace = append(px.trace, d)
	if canT {
		px.addPC(c)
	} else {
		px.addPC(smt.BNot(c))
	}
	return canT
}

// decideV decides a bool-or-term value.
func (fr *frame) decideV(v value) bool {
	switch v := v.(type) {
	case bool:
		return v
	case *smt.Term:
		return fr.decide(v)
	}
	panic(fmt.Sprintf("decideV: %T", v))
}

// concretize returns a concrete value for scalar v, forking over all feasible values.
func (fr *frame) concretize(v value) uint64 {
	t, ok := v.(*smt.Term)
	if !ok {
		return toTerm(v).C
	}
	if t.IsConst() {
		return t.C
	}
	px := fr.i.px
	for n := 0; ; n++ {
		if n > px.eng.MaxConcretize {
			panic(&pathEnd{kind: endUnsupported, msg: fmt.Sprintf("more than %d values when concretising %s", px.eng.MaxConcretize, t)})
		}
		k := len(px.trace)
		if k < len(px.prefix) {
			d := px.prefix[k]
			if d.Kind != decBranch || !d.Aux {
				panic(&pathEnd{kind: endInternal, msg: fmt.Sprintf("replay divergence at decision %d: expected concretisation, vector has %v", k, d)})
			}
			px.trace = append(px.trace, d)
			eq := smt.Eq(t, smt.Const(t.W, d.Val))
			if d.Taken {
				px.addPC(eq)
				return d.Val
			}
			px.addPC(smt.BNot(eq))
			continue
		}
		r, m := px.check(nil, true)
		if r == smt.Unsat {
			panic(&pathEnd{kind: endInfeasible, msg: "path condition unsatisfiable in concretize"})
		}
		if r == smt.Unknown {
			px.unknowns++
			panic(&pathEnd{kind: endUnsupported, msg: "solver unknown while concretising"})
		}
		val, okEval := smt.Eval(t, m)
		if !okEval {
			// variables not yet declared to the solver are unconstrained: default 0
			val, okEval = smt.Eval(t, defaulted(m, t))
			if !okEval {
				panic(&pathEnd{kind: endUnsupported, msg: "cannot evaluate term for concretisation (UF)"})
			}
		}
		eq := smt.Eq(t, smt.Const(t.W, val))
		rT, _ := px.check(eq, false)
		if rT == smt.Unsat {
			// the model did not cover t's variables consistently; ask directly
			panic(&pathEnd{kind: endInternal, msg: "concretize: model value infeasible"})
		}
		rF, _ := px.check(smt.BNot(eq), false)
		if rF != smt.Unsat {
			if rF == smt.Unknown {
				px.unknowns++
			}
			px.alt(Decision{Kind: decBranch, Taken: false, Val: val, Aux: true})
		}
		px.trace = append(px.trace, Decision{Kind: decBranch, Taken: true, Val: val, Aux: true})
		px.addPC(eq)
		return val
	}
}

func defaulted(m map[string]uint64, t *smt.Term) map[string]uint64 {
	out := map[string]uint64{}
	for k, v := range m {
		out[k] = v
	}
	seen := map[*smt.Term]bool{}
	var walk func(t *smt.Term)
	walk = func(t *smt.Term) {
		if seen[t] {
			return
		}
		seen[t] = true
		if t.Op == smt.OpVar {
			if _, ok := out[t.Name]; !ok {
				out[t.Name] = 0
			}
		}
		for _, a := range t.Args {
			walk(a)
		}
	}
	walk(t)
	return out
}

func (fr *frame) concretizeInt(v value) int64 {
	if t, ok := v.(*smt.Term); ok {
		c := fr.concretize(t)
		switch t.W {
		case 8:
			return int64(int8(c))
		case 16:
			return int64(int16(c))
		case 32:
			return int64(int32(c))
		}
		return int64(c)
	}
	return asInt64(v)
}

// choose picks one of n alternatives (no solver involvement), forking over all of them.
func (px *pathCtx) choose(n int) int { return px.chooseKind(n, decChoice) }

// chooseSched is choose for scheduling decisions.
func (px *pathCtx) chooseSched(n int) int { return px.chooseKind(n, decSched) }

func (px *pathCtx) chooseKind(n int, kind decKind) int {
	if n <= 1 {
		return 0
	}
	if px.concrete {
		v := 0
		if kind == decChoice {
			v = int(px.rnd() % uint64(n))
		}
		px.trace = append(px.trace, Decision{Kind: kind, Val: uint64(v)})
		return v
	}
	k := len(px.trace)
	if k < len(px.prefix) {
		d := px.prefix[k]
		if d.Kind != kind {
			panic(&pathEnd{kind: endInternal, msg: fmt.Sprintf("replay divergence at decision %d: expected choice, vector has %v", k, d)})
		}
		px.trace = append(px.trace, d)
		return int(d.Val)
	}
	for i := n - 1; i >= 1; i-- {
		px.alt(Decision{Kind: kind, Val: uint64(i)})
	}
	px.trace = append(px.trace, Decision{Kind: kind, Val: 0})
	return 0
}

// IsSched reports whether the decision is a scheduling choice.
func (d Decision) IsSched() bool { return d.Kind == decSched }

// IsChoice reports whether the decision is a harness-level verifChoose.
func (d Decision) IsChoice() bool { return d.Kind == decChoice }

// ConcreteRun is the result of one concrete execution of a harness (translator validation).
type ConcreteRun struct {
	Outcome string // VERIF-PASS | VERIF-ASSUME-FAILED | VERIF-REPRODUCED assert <label> | VERIF-REPRODUCED panic | skip:<why>
	Values  map[string]uint64
	Choices []int
}

// RunConcrete executes the harness once with pseudo-random concrete inputs (no solver
// involvement) and reports the outcome in the vocabulary of the native replay runtime.
func (e *Engine) RunConcrete(cfg HarnessConfig, seed uint64) ConcreteRun {
	if cfg.Unwind == 0 {
		cfg.Unwind = 64
	}
	s, err := smt.NewSolver(e.SolverKind, e.QueryTimeoutMs)
	if err != nil {
		return ConcreteRun{Outcome: "skip:solver"}
	}
	defer s.Close()
	w := &worker{solver: s}
	px := &pathCtx{eng: e, w: w, harness: cfg.Name, seq: map[string]int{}, unwind: cfg.Unwind, concrete: true, rngState: seed}
	i := &interpreter{eng: e, prog: e.Prog, globals: map[*ssa.Global]*value{}, inited: map[*ssa.Package]int{}, px: px,
		side: map[*value]interface{}{}, now: 1_700_000_000_000_000_000}
	i.sched = newScheduler(i)
	end := i.sched.runMain(cfg.Fn)
	out := ConcreteRun{Values: map[string]uint64{}}
	for _, in := range px.inputs {
		out.Values[in.Name] = in.Term.C
	}
	for _, d := range px.trace {
		if d.IsChoice() {
			out.Choices = append(out.Choices, int(d.Val))
		}
	}
	switch end.kind {
	case endOK:
		out.Outcome = "VERIF-PASS"
	case endInfeasible:
		out.Outcome = "VERIF-ASSUME-FAILED"
	case endViolation:
		out.Outcome = "VERIF-REPRODUCED assert " + end.label
	case endPanic:
		out.Outcome = "VERIF-REPRODUCED panic"
	default:
		out.Outcome = "skip:" + end.kind.String() + ": " + end.msg
	}
	if len(i.sched.gs) > 1 {
		out.Outcome = "skip:goroutines (native schedule is not controlled)"
	}
	if len(px.trace) != len(out.Choices) {
		// a solver-decided branch happened although all inputs are concrete: not comparable
		for _, d := range px.trace {
			if !d.IsChoice() && !d.IsSched() {
				out.Outcome = "skip:symbolic residue"
			}
		}
	}
	return out
}

// ReplayPath re-executes exactly one path (given by its full decision vector) and returns
// how it ended and the violations found on it.
func (e *Engine) ReplayPath(cfg HarnessConfig, vec []Decision) (string, []*Violation) {
	if cfg.Unwind == 0 {
		cfg.Unwind = 64
	}
	s, err := smt.NewSolver(e.SolverKind, e.QueryTimeoutMs)
	if err != nil {
		return "solver: " + err.Error(), nil
	}
	defer s.Close()
	w := &worker{solver: s}
	pr, px := e.runPath(w, cfg, vec)
	if w.fallback != nil {
		w.fallback.Close()
	}
	return pr.Kind.String(), px.violations
}

// violation records a failed assertion with a model of the current path condition plus
// the negated assertion (already part of px.pc or passed as extra).
func (px *pathCtx) violation(fr *frame, label, msg string) {
	px.violationWith(fr, nil, label, msg, "assert")
}

func (px *pathCtx) violationWith(fr *frame, extra *smt.Term, label, msg, kind string) {
	r, m := px.check(extra, true)
	if r == smt.Unsat {
		return
	}
	v := &Violation{Harness: px.harness, Label: label, Msg: msg, Kind: kind, Model: m, Inputs: px.inputs, Where: px.where(fr)}
	v.Path = append([]Decision(nil), px.trace...)
	if r == smt.Unknown {
		v.Status = "unknown-model"
	}
	px.violations = append(px.violations, v)
	panic(&pathEnd{kind: endViolation, msg: label + ": " + msg, label: label})
}

func (px *pathCtx) where(fr *frame) string {
	var sb strings.Builder
	for f, n := fr, 0; f != nil && n < 6; f, n = f.caller, n+1 {
		fmt.Fprintf(&sb, "%s%s; ", f.fn.String(), px.eng.locShort(f.callpos))
	}
	return sb.String()
}

// ------------------------------------------------------------------------

type worker struct {
	id              int
	solver          *smt.Solver
	fallback        *smt.Solver
	fallbackUsed    int
	fallbackDecided int
	assertSeq       int
	crossChecked    int
	crossDisagree   int
	crossUnknown    int
}

// HarnessConfig controls exploration of one harness function.
type HarnessConfig struct {
	Name        string
	Fn          *ssa.Function
	Unwind      int
	MaxPaths    int
	AllocLimit  int64
	MapOrderAll bool
	Preemptions int
	Timeout     time.Duration
}

// HarnessResult aggregates the exploration of one harness.
type HarnessResult struct {
	Name        string
	Paths       int
	ByKind      map[string]int
	Reached     map[string]int
	Violations  []*Violation
	Notes       map[string]int
	Decisions   int
	Steps       int64
	Queries     int
	QSat        int
	QUnsat      int
	QUnknown    int
	SolverErrs  int
	SolverTime  time.Duration
	Wall        time.Duration
	Truncated   bool
	Fallback    int
	DupViolations int
	CrossChecked  int
	CrossDisagree int
	CrossUnknown  int
	Samples     []string
	Incomplete  []string // messages of unwind/unsupported/internal paths
	Asserts     int
	AssertsUnknown int
	Inputs      map[string]bool
}

// Explore runs all paths of a harness.
func (e *Engine) Explore(cfg HarnessConfig) *HarnessResult {
	t0 := time.Now()
	res := &HarnessResult{Name: cfg.Name, ByKind: map[string]int{}, Reached: map[string]int{}, Notes: map[string]int{}, Inputs: map[string]bool{}}
	if cfg.Unwind == 0 {
		cfg.Unwind = 64
	}
	if cfg.MaxPaths == 0 {
		cfg.MaxPaths = 20000
	}
	var mu sync.Mutex
	labelsSeen := map[string]bool{}
	dupRun := 0
	cond := sync.NewCond(&mu)
	queue := [][]Decision{nil}
	active := 0
	done := false
	deadline := time.Time{}
	if cfg.Timeout > 0 {
		deadline = t0.Add(cfg.Timeout)
	}
	var wg sync.WaitGroup
	nw := e.Workers
	if nw <= 0 {
		nw = 1
	}
	workers := make([]*worker, nw)
	for wi := 0; wi < nw; wi++ {
		s, err := acquireSolver(e.SolverKind, e.QueryTimeoutMs)
		if err != nil {
			panic(err)
		}
		if d := os.Getenv("VERIF_SMTLOG"); d != "" {
			f, _ := os.Create(fmt.Sprintf("%s/%s-w%d.smt2", d, cfg.Name, wi))
			s.Log = f
		}
		workers[wi] = &worker{id: wi, solver: s}
	}
	for wi := 0; wi < nw; wi++ {
		wg.Add(1)
		go func(w *worker) {
			defer wg.Done()
			for {
				mu.Lock()
				for len(queue) == 0 && active > 0 && !done {
					cond.Wait()
				}
				if done || (len(queue) == 0 && active == 0) {
					done = true
					cond.Broadcast()
					mu.Unlock()
					return
				}
				// DFS: take the most recent
				vec := queue[len(queue)-1]
				queue = queue[:len(queue)-1]
				active++
				mu.Unlock()

				pr, px := e.runPath(w, cfg, vec)

				mu.Lock()
				active--
				res.Paths++
				res.ByKind[pr.Kind.String()]++
				res.Decisions += len(pr.Decisions)
				res.Steps += pr.Steps
				res.Asserts += px.asserts
				res.AssertsUnknown += px.assertsUnknown
				for _, l := range pr.Reached {
					res.Reached[l]++
				}
				for _, n := range pr.Notes {
					res.Notes[n]++
				}
				for _, in := range px.inputs {
					res.Inputs[in.Name] = true
				}
				if pr.Unknowns > 0 {
					res.Notes["solver returned unknown on a branch (both successors kept)"] += pr.Unknowns
				}
				switch pr.Kind {
				case endUnwind, endUnsupported, endInternal, endDeadlock:
					if len(res.Incomplete) < 20 {
						res.Incomplete = append(res.Incomplete, pr.Kind.String()+": "+pr.Msg)
					}
				}
				for _, v := range px.violations {
					// keep one violation per assertion label: further paths failing the same
					// assertion add nothing and must not stop the exploration early
					if !labelsSeen[v.Label] {
						labelsSeen[v.Label] = true
						res.Violations = append(res.Violations, v)
						dupRun = 0
					} else {
						res.DupViolations++
						dupRun++
					}
				}
				if dupRun > 256 {
					// hundreds of further paths fail only already-reported assertions: the
					// harness is dominated by one (known or new) defect; stop here
					res.Truncated = true
					done = true
				}
				if len(res.Samples) < 5 && (pr.Kind == endOK) {
					res.Samples = append(res.Samples, decString(pr.Decisions))
				}
				queue = append(queue, px.fresh...)
				if res.Paths >= cfg.MaxPaths || (!deadline.IsZero() && time.Now().After(deadline)) || len(res.Violations) >= e.MaxViolations {
					if len(queue) > 0 || active > 0 {
						res.Truncated = true
					}
					done = true
				}
				cond.Broadcast()
				mu.Unlock()
			}
		}(workers[wi])
	}
	wg.Wait()
	for _, w := range workers {
		res.Queries += w.solver.Queries
		res.QSat += w.solver.NSat
		res.QUnsat += w.solver.NUnsat
		res.QUnknown += w.solver.NUnknown - w.fallbackDecided
		res.Fallback += w.fallbackDecided
		res.CrossChecked += w.crossChecked
		res.CrossDisagree += w.crossDisagree
		res.CrossUnknown += w.crossUnknown
		if w.fallback != nil {
			res.SolverTime += w.fallback.Time
			w.fallback.Close()
		}
		res.SolverErrs += w.solver.Errors
		res.SolverTime += w.solver.Time
		if w.solver.Errors > 0 {
			res.Notes["solver error: "+w.solver.LastErr]++
		}
		releaseSolver(w.solver)
	}
	res.Wall = time.Since(t0)
	sort.Slice(res.Violations, func(i, j int) bool { return res.Violations[i].Label < res.Violations[j].Label })
	return res
}

func decString(ds []Decision) string {
	var sb strings.Builder
	for i, d := range ds {
		if i > 0 {
			sb.WriteByte(' ')
		}
		if i > 60 {
			sb.WriteString("…")
			break
		}
		sb.WriteString(d.String())
	}
	return sb.String()
}

// runPath executes one path identified by its decision-vector prefix.
func (e *Engine) runPath(w *worker, cfg HarnessConfig, prefix []Decision) (pr PathResult, px *pathCtx) {
	w.solver.Reset()
	px = &pathCtx{eng: e, w: w, harness: cfg.Name, prefix: prefix, seq: map[string]int{}, unwind: cfg.Unwind,
		allocLimit: cfg.AllocLimit, mapOrderAll: cfg.MapOrderAll, preempt: cfg.Preemptions}
	i := &interpreter{eng: e, prog: e.Prog, globals: map[*ssa.Global]*value{}, inited: map[*ssa.Package]int{}, px: px,
		side: map[*value]interface{}{}, now: 1_700_000_000_000_000_000}
	i.sched = newScheduler(i)
	end := i.sched.runMain(cfg.Fn)
	pr.Kind = end.kind
	pr.Msg = end.msg
	pr.Decisions = px.trace
	pr.Reached = px.reached
	pr.Steps = i.steps
	pr.Notes = px.notes
	pr.Unknowns = px.unknowns
	pr.Observed = px.observed
	return
}

// ------------------------------------------------------------------------

func (e *Engine) locShort(pos token.Pos) string {
	if pos == token.NoPos {
		return ""
	}
	p := e.Prog.Fset.Position(pos)
	f := p.Filename
	if i := strings.LastIndex(f, "/"); i >= 0 {
		f = f[i+1:]
	}
	return fmt.Sprintf("@%s:%d", f, p.Line)
}

var stdSizes = types.SizesFor("gc", "amd64")

func (e *Engine) sizeof(t types.Type) (sz int64) {
	defer func() {
		if r := recover(); r != nil {
			sz = 8
		}
	}()
	return stdSizes.Sizeof(t)
}
