package interp

// maps.clone (linknamed to the runtime, no Go body): shallow copy of a map, as maps.Clone.
func init() {
	externals["maps.clone"] = h(func(fr *frame, a []value) value {
		x := a[0].(iface)
		m, _ := x.v.(*smap)
		if m == nil {
			return x
		}
		c := newSmap(m.keyType)
		for _, e := range m.live() {
			c.insert(fr, copyVal(e.key), copyVal(e.val))
		}
		return iface{t: x.t, v: c}
	})
}
