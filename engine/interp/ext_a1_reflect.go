package interp

import "go/types"

// reflect.TypeOf as an opaque, comparable and hashable token for the dynamic type (enough for
// code that only uses reflect.Type values as map keys / for equality, e.g. sr.Serde), plus
// Elem/Name/Kind-free naming helpers used by harnesses.
func init() {
	mk := func(fr *frame, t types.Type) value {
		var dyn types.Type = types.Typ[types.UnsafePointer]
		if p := fr.i.prog.ImportedPackage("reflect"); p != nil {
			if m := p.Type("rtype"); m != nil {
				dyn = types.NewPointer(m.Type())
			}
		}
		return iface{t: dyn, v: rtype{t}}
	}
	externals["reflect.TypeOf"] = h(func(fr *frame, a []value) value {
		x := a[0].(iface)
		if x.t == nil {
			return iface{}
		}
		return mk(fr, x.t)
	})
	externals["(*reflect.rtype).Elem"] = h(func(fr *frame, a []value) value {
		rt, ok := a[0].(rtype)
		if !ok {
			panic(&pathEnd{kind: endUnsupported, msg: "reflect: Elem on a non-modelled type value"})
		}
		switch u := rt.t.Underlying().(type) {
		case *types.Pointer:
			return mk(fr, u.Elem())
		case *types.Slice:
			return mk(fr, u.Elem())
		case *types.Array:
			return mk(fr, u.Elem())
		case *types.Map:
			return mk(fr, u.Elem())
		case *types.Chan:
			return mk(fr, u.Elem())
		}
		panic(targetPanic{iface{t: types.Typ[types.String], v: "reflect: Elem of invalid type " + rt.t.String()}})
	})
	externals["(*reflect.rtype).Name"] = h(func(fr *frame, a []value) value {
		rt, ok := a[0].(rtype)
		if !ok {
			panic(&pathEnd{kind: endUnsupported, msg: "reflect: Name on a non-modelled type value"})
		}
		switch t := rt.t.(type) {
		case *types.Named:
			return t.Obj().Name()
		case *types.Basic:
			return t.Name()
		}
		return ""
	})
}
