package interp

import "go/types"

// reflect.TypeOf as an opaque, comparable and hashable token for the dynamic type (enough for
// code that only uses reflect.Type values as map keys / for equality, e.g. sr.Serde).
func init() {
	externals["reflect.TypeOf"] = h(func(fr *frame, a []value) value {
		x := a[0].(iface)
		if x.t == nil {
			return iface{}
		}
		var dyn types.Type = types.Typ[types.UnsafePointer]
		if p := fr.i.prog.ImportedPackage("reflect"); p != nil {
			if m := p.Type("rtype"); m != nil {
				dyn = types.NewPointer(m.Type())
			}
		}
		return iface{t: dyn, v: rtype{x.t}}
	})
}
