package interp

// encoding/json is not interpretable (reflect). json.Marshal(v) is modelled for values whose
// dynamic type has a MarshalJSON method: the (interpreted) method is called and its result is
// returned unchanged. Natively json.Marshal additionally validates/compacts the method's
// output, so harness marshalers must emit compact valid JSON for replays to agree.

func init() {
	externals["encoding/json.Marshal"] = h(func(fr *frame, a []value) value {
		x, ok := a[0].(iface)
		if !ok || x.t == nil {
			panic(unsupported("encoding/json.Marshal of a value without MarshalJSON (json is not modelled)"))
		}
		sel := fr.i.prog.MethodSets.MethodSet(x.t).Lookup(nil, "MarshalJSON")
		if sel == nil {
			panic(unsupported("encoding/json.Marshal of " + x.t.String() + " without MarshalJSON (json is not modelled)"))
		}
		fn := fr.i.prog.MethodValue(sel)
		if fn == nil {
			panic(unsupported("encoding/json.Marshal: abstract MarshalJSON"))
		}
		return call(fr.i, fr, 0, fn, []value{x.v})
	})
}
