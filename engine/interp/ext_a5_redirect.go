package interp

import (
	"sync"

	"golang.org/x/tools/go/ssa"
)

// Contract stubs for library code that cannot be interpreted (assembly, large table-driven
// codecs). For each library function listed below, a call is redirected to a package-level
// function of the same signature (receiver first for methods) named verifExt_<pkg>_<Func> or
// verifExt_<pkg>_<Type>_<Method> if some loaded package (in practice: the harness, inside the
// package under test) declares one. Without such a function the library's own SSA body is
// used, so checks that do not declare stubs are unaffected. The stubs are ordinary harness Go
// code using the verif* intrinsics, and are listed in the check's `stubs`. Native replay runs
// the real library (a redirect cannot be applied natively), so a violation that depends on a
// stubbed behaviour is reported as "did not reproduce".

var redirectCache sync.Map // *ssa.Program -> map[string]*ssa.Function

func findStub(prog *ssa.Program, name string) *ssa.Function {
	if c, ok := redirectCache.Load(prog); ok {
		return c.(map[string]*ssa.Function)[name]
	}
	m := map[string]*ssa.Function{}
	for _, p := range prog.AllPackages() {
		for n, mem := range p.Members {
			if len(n) > 9 && n[:9] == "verifExt_" {
				if f, ok := mem.(*ssa.Function); ok {
					m[n] = f
				}
			}
		}
	}
	redirectCache.Store(prog, m)
	return m[name]
}

func redirect(stub string) externalFn {
	return func(fr *frame, args []value) (value, bool) {
		f := findStub(fr.i.prog, stub)
		if f == nil {
			return nil, false
		}
		return call(fr.i, fr, 0, f, args), true
	}
}

func init() {
	const (
		gz   = "compress/gzip"
		lz   = "github.com/pierrec/lz4/v4"
		s2   = "github.com/klauspost/compress/s2"
		zstd = "github.com/klauspost/compress/zstd"
	)
	for name, stub := range map[string]string{
		gz + ".NewWriterLevel":       "gzip_NewWriterLevel",
		"(*" + gz + ".Writer).Reset": "gzip_Writer_Reset",
		"(*" + gz + ".Writer).Write": "gzip_Writer_Write",
		"(*" + gz + ".Writer).Close": "gzip_Writer_Close",
		"(*" + gz + ".Reader).Reset": "gzip_Reader_Reset",
		"(*" + gz + ".Reader).Read":  "gzip_Reader_Read",

		lz + ".NewWriter":              "lz4_NewWriter",
		lz + ".NewReader":              "lz4_NewReader",
		lz + ".CompressionLevelOption": "lz4_CompressionLevelOption",
		"(*" + lz + ".Writer).Apply":   "lz4_Writer_Apply",
		"(*" + lz + ".Writer).Reset":   "lz4_Writer_Reset",
		"(*" + lz + ".Writer).Write":   "lz4_Writer_Write",
		"(*" + lz + ".Writer).Close":   "lz4_Writer_Close",
		"(*" + lz + ".Reader).Reset":   "lz4_Reader_Reset",
		"(*" + lz + ".Reader).Read":    "lz4_Reader_Read",

		s2 + ".MaxEncodedLen": "s2_MaxEncodedLen",
		s2 + ".EncodeSnappy":  "s2_EncodeSnappy",
		s2 + ".Decode":        "s2_Decode",

		zstd + ".NewWriter":                      "zstd_NewWriter",
		zstd + ".NewReader":                      "zstd_NewReader",
		zstd + ".WithWindowSize":                 "zstd_WithWindowSize",
		zstd + ".WithEncoderConcurrency":         "zstd_WithEncoderConcurrency",
		zstd + ".WithZeroFrames":                 "zstd_WithZeroFrames",
		zstd + ".WithEncoderLevel":               "zstd_WithEncoderLevel",
		zstd + ".WithDecoderLowmem":              "zstd_WithDecoderLowmem",
		zstd + ".WithDecoderConcurrency":         "zstd_WithDecoderConcurrency",
		zstd + ".WithDecoderMaxMemory":           "zstd_WithDecoderMaxMemory",
		"(*" + zstd + ".Encoder).Close":          "zstd_Encoder_Close",
		"(*" + zstd + ".Encoder).MaxEncodedSize": "zstd_Encoder_MaxEncodedSize",
		"(*" + zstd + ".Encoder).EncodeAll":      "zstd_Encoder_EncodeAll",
		"(*" + zstd + ".Decoder).Close":          "zstd_Decoder_Close",
		"(*" + zstd + ".Decoder).DecodeAll":      "zstd_Decoder_DecodeAll",
	} {
		externals[name] = redirect("verifExt_" + stub)
	}
}
