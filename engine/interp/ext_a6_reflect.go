package interp

import (
	"fmt"
	"go/types"
)

// reflect.DeepEqual over the executor's value model (used by the generated kmsg encoders to
// compare a tagged struct field with its default). The result is a bool or a term: symbolic
// scalars contribute equality terms, shape (nil-ness, lengths, key sets) is concrete.
func init() {
	externals["reflect.DeepEqual"] = h(func(fr *frame, a []value) value {
		x, y := a[0].(iface), a[1].(iface)
		if x.t == nil || y.t == nil {
			return x.t == nil && y.t == nil
		}
		if !types.Identical(x.t, y.t) {
			return false
		}
		return deepEqualV(fr, x.t, x.v, y.v, 0)
	})
}

func deepEqualV(fr *frame, t types.Type, x, y value, depth int) value {
	if depth > 32 {
		panic(&pathEnd{kind: endUnsupported, msg: "reflect.DeepEqual: nesting deeper than 32 (cyclic value?)"})
	}
	switch tt := t.Underlying().(type) {
	case *types.Struct:
		xs, ys := x.(structure), y.(structure)
		var acc value = true
		for i := 0; i < tt.NumFields(); i++ {
			acc = andv(acc, deepEqualV(fr, tt.Field(i).Type(), xs[i], ys[i], depth+1))
			if acc == false {
				return false
			}
		}
		return acc
	case *types.Array:
		xs, ys := x.(array), y.(array)
		var acc value = true
		for i := range xs {
			acc = andv(acc, deepEqualV(fr, tt.Elem(), xs[i], ys[i], depth+1))
			if acc == false {
				return false
			}
		}
		return acc
	case *types.Slice:
		xs, ys := x.([]value), y.([]value)
		if (xs == nil) != (ys == nil) || len(xs) != len(ys) {
			return false
		}
		var acc value = true
		for i := range xs {
			acc = andv(acc, deepEqualV(fr, tt.Elem(), xs[i], ys[i], depth+1))
			if acc == false {
				return false
			}
		}
		return acc
	case *types.Pointer:
		xp, yp := x.(*value), y.(*value)
		if xp == yp {
			return true
		}
		if xp == nil || yp == nil {
			return false
		}
		return deepEqualV(fr, tt.Elem(), *xp, *yp, depth+1)
	case *types.Map:
		xm, ym := x.(*smap), y.(*smap)
		if (xm == nil) != (ym == nil) {
			return false
		}
		if xm == ym {
			return true
		}
		if xm.len() != ym.len() {
			return false
		}
		// entries of one map are pairwise distinct (insert looks the key up first), so with
		// equal lengths "every key of x is in y with an equal value" is map equality; a
		// symbolic key is matched by forking on key equality (smap.find).
		var acc value = true
		for _, e := range xm.live() {
			o := ym.find(fr, e.key)
			if o == nil {
				return false
			}
			acc = andv(acc, deepEqualV(fr, tt.Elem(), e.val, o.val, depth+1))
			if acc == false {
				return false
			}
		}
		return acc
	case *types.Interface:
		xi, yi := x.(iface), y.(iface)
		if xi.t == nil || yi.t == nil {
			return xi.t == nil && yi.t == nil
		}
		if !types.Identical(xi.t, yi.t) {
			return false
		}
		return deepEqualV(fr, xi.t, xi.v, yi.v, depth+1)
	case *types.Basic:
		_, xf := x.(symFloat)
		_, yf := y.(symFloat)
		if xf || yf {
			panic(&pathEnd{kind: endUnsupported, msg: "reflect.DeepEqual on a float with symbolic bits"})
		}
		return eqv(t, x, y)
	}
	panic(&pathEnd{kind: endUnsupported, msg: fmt.Sprintf("reflect.DeepEqual on %s", t)})
}
