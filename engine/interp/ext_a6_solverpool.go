package interp

import (
	"fmt"
	"sync"

	"verif/engine/smt"
)

// Solver processes are reused across harnesses of one verifctl run: starting six z3
// processes per harness dominates the wall time of checks with hundreds of small harnesses
// (C15/C16). A pooled solver is Reset (all assertions and definitions dropped) and its
// counters are zeroed before reuse; a solver that reported an error is never pooled.
var solverPool = struct {
	sync.Mutex
	free map[string][]*smt.Solver
}{free: map[string][]*smt.Solver{}}

func acquireSolver(kind string, timeoutMs int) (*smt.Solver, error) {
	key := fmt.Sprintf("%s/%d", kind, timeoutMs)
	solverPool.Lock()
	if l := solverPool.free[key]; len(l) > 0 {
		s := l[len(l)-1]
		solverPool.free[key] = l[:len(l)-1]
		solverPool.Unlock()
		return s, nil
	}
	solverPool.Unlock()
	return smt.NewSolver(kind, timeoutMs)
}

func releaseSolver(s *smt.Solver) {
	if s.Errors > 0 || s.Log != nil {
		s.Close()
		return
	}
	s.Reset()
	if s.Errors > 0 {
		s.Close()
		return
	}
	s.Queries, s.NSat, s.NUnsat, s.NUnknown, s.Time, s.LastErr = 0, 0, 0, 0, 0, ""
	key := fmt.Sprintf("%s/%d", s.Kind, s.TimeoutMs)
	solverPool.Lock()
	solverPool.free[key] = append(solverPool.free[key], s)
	solverPool.Unlock()
}
