package interp

import "go/types"

func init() {
	externals["context.WithValue"] = h(func(fr *frame, a []value) value {
		parent := a[0].(iface)
		if parent.t == nil {
			panic(targetPanic{iface{t: types.Typ[types.String], v: "cannot create context from nil parent"}})
		}
		if a[1].(iface).t == nil {
			panic(targetPanic{iface{t: types.Typ[types.String], v: "nil key"}})
		}
		t := fr.i.prog.ImportedPackage("context").Type("valueCtx").Type()
		st := zero(t).(structure)
		st[0] = parent
		st[1] = a[1]
		st[2] = a[2]
		v := value(st)
		return iface{t: types.NewPointer(t), v: &v}
	})
}
