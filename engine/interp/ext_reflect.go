package interp

import (
	"fmt"
	"go/types"

	"golang.org/x/tools/go/ssa"
)

// A small model of package reflect: just what unknownErrShards in kgo uses. A reflect.Value
// is represented as structure{rtype{t}, payload, nil} (the three slots of the real struct are
// reused); a reflect.Type is iface{*reflect.rtype, rtype{t}} (see ext_a1_reflect.go).

func mkRV(t types.Type, v value) value { return structure{rtype{t}, v, nil} }

func rvParts(v value) (types.Type, value) {
	st := v.(structure)
	rt, ok := st[0].(rtype)
	if !ok {
		return nil, nil // zero Value
	}
	return rt.t, st[1]
}

func init() {
	externals["reflect.SliceOf"] = h(func(fr *frame, a []value) value {
		in := a[0].(iface)
		rt := in.v.(rtype)
		return iface{t: in.t, v: rtype{types.NewSlice(rt.t)}}
	})
	externals["reflect.ValueOf"] = h(func(fr *frame, a []value) value {
		itf := a[0].(iface)
		if itf.t == nil {
			return structure{nil, nil, nil}
		}
		return mkRV(itf.t, itf.v)
	})
	externals["reflect.MakeSlice"] = h(func(fr *frame, a []value) value {
		rt := a[0].(iface).v.(rtype)
		n, c := int(asInt64(a[1])), int(asInt64(a[2]))
		elem := rt.t.Underlying().(*types.Slice).Elem()
		s := make([]value, n, c)
		for i := range s {
			s[i] = zero(elem)
		}
		return mkRV(rt.t, s)
	})
	externals["reflect.Append"] = h(func(fr *frame, a []value) value {
		t, v := rvParts(a[0])
		s, _ := v.([]value)
		out := make([]value, len(s), len(s)+len(a[1].([]value)))
		copy(out, s)
		for _, x := range a[1].([]value) {
			_, xv := rvParts(x)
			out = append(out, copyVal(xv))
		}
		return mkRV(t, out)
	})
	externals["(reflect.Value).Len"] = h(func(fr *frame, a []value) value {
		_, v := rvParts(a[0])
		switch v := v.(type) {
		case []value:
			return len(v)
		case string:
			return len(v)
		case *smap:
			return v.len()
		case array:
			return len(v)
		}
		panic(unsupported(fmt.Sprintf("reflect.Value.Len on %T", v)))
	})
	externals["(reflect.Value).Index"] = h(func(fr *frame, a []value) value {
		t, v := rvParts(a[0])
		i := int(asInt64(a[1]))
		switch tt := t.Underlying().(type) {
		case *types.Slice:
			s := v.([]value)
			if i < 0 || i >= len(s) {
				panic(targetPanic{rtErr("reflect: slice index out of range")})
			}
			return mkRV(tt.Elem(), copyVal(s[i]))
		case *types.Array:
			return mkRV(tt.Elem(), copyVal(v.(array)[i]))
		}
		panic(unsupported("reflect.Value.Index on " + t.String()))
	})
	externals["(reflect.Value).Interface"] = h(func(fr *frame, a []value) value {
		t, v := rvParts(a[0])
		if t == nil {
			panic(targetPanic{rtErr("reflect: call of reflect.Value.Interface on zero Value")})
		}
		if types.IsInterface(t) {
			return v
		}
		return iface{t: t, v: v}
	})
	externals["(reflect.Value).Call"] = h(func(fr *frame, a []value) value {
		t, fn := rvParts(a[0])
		sig, ok := t.Underlying().(*types.Signature)
		if !ok {
			panic(unsupported("reflect.Value.Call on non-function"))
		}
		var args []value
		for k, x := range a[1].([]value) {
			xt, xv := rvParts(x)
			if k < sig.Params().Len() && types.IsInterface(sig.Params().At(k).Type()) && !types.IsInterface(xt) {
				xv = iface{t: xt, v: xv}
			}
			args = append(args, xv)
		}
		r := call(fr.i, fr, 0, fn, args)
		var out []value
		switch sig.Results().Len() {
		case 0:
		case 1:
			out = append(out, mkRV(sig.Results().At(0).Type(), r))
		default:
			for k, x := range r.(tuple) {
				out = append(out, mkRV(sig.Results().At(k).Type(), x))
			}
		}
		return out
	})
	externals["reflect.AppendSlice"] = h(func(fr *frame, a []value) value {
		t, v := rvParts(a[0])
		_, v2 := rvParts(a[1])
		s1, _ := v.([]value)
		s2, _ := v2.([]value)
		out := make([]value, len(s1), len(s1)+len(s2))
		copy(out, s1)
		for _, x := range s2 {
			out = append(out, copyVal(x))
		}
		return mkRV(t, out)
	})
	externals["(reflect.Value).Type"] = h(func(fr *frame, a []value) value {
		t, _ := rvParts(a[0])
		if t == nil {
			panic(targetPanic{rtErr("reflect: call of reflect.Value.Type on zero Value")})
		}
		var dyn types.Type = types.Typ[types.UnsafePointer]
		if p := fr.i.prog.ImportedPackage("reflect"); p != nil {
			if m := p.Type("rtype"); m != nil {
				dyn = types.NewPointer(m.Type())
			}
		}
		return iface{t: dyn, v: rtype{t}}
	})
	externals["(reflect.Value).IsValid"] = h(func(fr *frame, a []value) value {
		t, _ := rvParts(a[0])
		return t != nil
	})
	_ = (*ssa.Function)(nil)
}
