package interp

import (
	"regexp"
)

// regexp is executed natively for concrete patterns and subjects (a "native fast path"): the
// *regexp.Regexp value seen by the program is an opaque cell whose native counterpart is kept
// in the side table.

func init() {
	compile := func(fr *frame, a []value, must bool) value {
		pat, ok := a[0].(string)
		if !ok {
			panic(unsupported("regexp.Compile on a symbolic pattern"))
		}
		re, err := regexp.Compile(pat)
		t := fr.i.prog.ImportedPackage("regexp").Type("Regexp").Type()
		if err != nil {
			if must {
				panic(targetPanic{rtErr("regexp: Compile(" + pat + "): " + err.Error())})
			}
			return tuple{zero(fr.fn.Signature.Results().At(0).Type()), iface{t: theRuntimeErrorString, v: err.Error()}}
		}
		v := zero(t)
		p := &v
		fr.i.side[p] = re
		if must {
			return p
		}
		return tuple{p, iface{}}
	}
	externals["regexp.MustCompile"] = h(func(fr *frame, a []value) value { return compile(fr, a, true) })
	externals["regexp.Compile"] = h(func(fr *frame, a []value) value { return compile(fr, a, false) })
	externals["(*regexp.Regexp).MatchString"] = h(func(fr *frame, a []value) value {
		re, ok := fr.i.side[a[0].(*value)].(*regexp.Regexp)
		if !ok {
			panic(unsupported("regexp value not created by regexp.Compile in this run"))
		}
		s, ok := a[1].(string)
		if !ok {
			panic(unsupported("regexp match on a symbolic string"))
		}
		return re.MatchString(s)
	})
	externals["(*regexp.Regexp).String"] = h(func(fr *frame, a []value) value {
		if re, ok := fr.i.side[a[0].(*value)].(*regexp.Regexp); ok {
			return re.String()
		}
		return ""
	})
}
