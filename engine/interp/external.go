package interp

import (
	"fmt"
	"go/token"
	"go/types"
	"hash/crc32"
	"math"
	"sort"
	"strings"

	"golang.org/x/tools/go/ssa"
	"verif/engine/smt"
)

// externalFn implements a function natively. handled=false falls back to the SSA body.
type externalFn func(fr *frame, args []value) (r value, handled bool)

type noExt struct{}

func (e *Engine) external(fn *ssa.Function, name string) externalFn {
	if c, ok := e.extCache.Load(fn); ok {
		if f, ok := c.(externalFn); ok {
			return f
		}
		return nil
	}
	f := lookupExternal(fn, name)
	if f == nil {
		e.extCache.Store(fn, noExt{})
		return nil
	}
	e.extCache.Store(fn, f)
	return f
}

func lookupExternal(fn *ssa.Function, name string) externalFn {
	if f, ok := externals[name]; ok {
		return f
	}
	if strings.HasSuffix(name, "/kbin.UnsafeString") {
		return h(func(fr *frame, a []value) value {
			s, _ := a[0].([]value)
			b := make([]value, len(s))
			copy(b, s)
			return normStr(symstr{b})
		})
	}
	// generic instantiations: strip type arguments "[...]"
	if i := strings.IndexByte(name, '['); i >= 0 {
		base := stripTypeArgs(name)
		if f, ok := externals[base]; ok {
			return f
		}
	}
	return nil
}

func stripTypeArgs(s string) string {
	var sb strings.Builder
	depth := 0
	for _, r := range s {
		switch {
		case r == '[':
			depth++
		case r == ']':
			depth--
		case depth == 0:
			sb.WriteRune(r)
		}
	}
	return sb.String()
}

func h(f func(fr *frame, args []value) value) externalFn {
	return func(fr *frame, args []value) (value, bool) { return f(fr, args), true }
}

var externals = map[string]externalFn{}

func init() {
	for k, v := range map[string]externalFn{
		// --- sync
		"(*sync.Mutex).Lock":      h(extMutexLock),
		"(*sync.Mutex).Unlock":    h(extMutexUnlock),
		"(*sync.Mutex).TryLock":   h(extMutexTryLock),
		"(*sync.RWMutex).Lock":    h(extRWLock),
		"(*sync.RWMutex).Unlock":  h(extRWUnlock),
		"(*sync.RWMutex).RLock":   h(extRWRLock),
		"(*sync.RWMutex).RUnlock": h(extRWRUnlock),
		"(*sync.RWMutex).TryLock": h(extRWTryLock),
		"(*sync.RWMutex).TryRLock": h(extRWTryRLock),
		"(*sync.Cond).Wait":       h(extCondWait),
		"(*sync.Cond).Signal":     h(extCondSignal),
		"(*sync.Cond).Broadcast":  h(extCondBroadcast),
		"(*sync.WaitGroup).Add":   h(extWGAdd),
		"(*sync.WaitGroup).Done":  h(func(fr *frame, a []value) value { return extWGAdd(fr, []value{a[0], int(-1)}) }),
		"(*sync.WaitGroup).Wait":  h(extWGWait),
		"(*sync.WaitGroup).Go":    h(extWGGo),
		"(*sync.Pool).Get":        h(extPoolGet),
		"(*sync.Pool).Put":        h(func(fr *frame, a []value) value { return nil }),
		"(*sync.Once).Do":         h(extOnceDo),

		// --- sync/atomic
		"sync/atomic.LoadInt32":   h(extAtomicLoad),
		"sync/atomic.LoadInt64":   h(extAtomicLoad),
		"sync/atomic.LoadUint32":  h(extAtomicLoad),
		"sync/atomic.LoadUint64":  h(extAtomicLoad),
		"sync/atomic.LoadUintptr": h(extAtomicLoad),
		"sync/atomic.LoadPointer": h(extAtomicLoad),
		"sync/atomic.StoreInt32":   h(extAtomicStore),
		"sync/atomic.StoreInt64":   h(extAtomicStore),
		"sync/atomic.StoreUint32":  h(extAtomicStore),
		"sync/atomic.StoreUint64":  h(extAtomicStore),
		"sync/atomic.StoreUintptr": h(extAtomicStore),
		"sync/atomic.StorePointer": h(extAtomicStore),
		"sync/atomic.SwapInt32":   h(extAtomicSwap),
		"sync/atomic.SwapInt64":   h(extAtomicSwap),
		"sync/atomic.SwapUint32":  h(extAtomicSwap),
		"sync/atomic.SwapUint64":  h(extAtomicSwap),
		"sync/atomic.SwapUintptr": h(extAtomicSwap),
		"sync/atomic.SwapPointer": h(extAtomicSwap),
		"sync/atomic.AddInt32":   h(extAtomicAdd),
		"sync/atomic.AddInt64":   h(extAtomicAdd),
		"sync/atomic.AddUint32":  h(extAtomicAdd),
		"sync/atomic.AddUint64":  h(extAtomicAdd),
		"sync/atomic.AddUintptr": h(extAtomicAdd),
		"sync/atomic.AndInt32":   h(extAtomicAndOr(true)),
		"sync/atomic.AndUint32":  h(extAtomicAndOr(true)),
		"sync/atomic.AndInt64":   h(extAtomicAndOr(true)),
		"sync/atomic.AndUint64":  h(extAtomicAndOr(true)),
		"sync/atomic.OrInt32":    h(extAtomicAndOr(false)),
		"sync/atomic.OrUint32":   h(extAtomicAndOr(false)),
		"sync/atomic.OrInt64":    h(extAtomicAndOr(false)),
		"sync/atomic.OrUint64":   h(extAtomicAndOr(false)),
		"sync/atomic.CompareAndSwapInt32":   h(extAtomicCAS),
		"sync/atomic.CompareAndSwapInt64":   h(extAtomicCAS),
		"sync/atomic.CompareAndSwapUint32":  h(extAtomicCAS),
		"sync/atomic.CompareAndSwapUint64":  h(extAtomicCAS),
		"sync/atomic.CompareAndSwapUintptr": h(extAtomicCAS),
		"sync/atomic.CompareAndSwapPointer": h(extAtomicCAS),
		"(*sync/atomic.Value).Load":  h(extValueLoad),
		"(*sync/atomic.Value).Store": h(extValueStore),
		"(*sync/atomic.Value).Swap":  h(extValueSwap),
		"(*sync/atomic.Value).CompareAndSwap": h(extValueCAS),

		// --- runtime
		"runtime.SetFinalizer": h(nop),
		"runtime.KeepAlive":    h(nop),
		"runtime.GC":           h(nop),
		"runtime.Gosched":      h(func(fr *frame, a []value) value { fr.i.sched.yield(fr); return nil }),
		"runtime.NumCPU":       h(func(fr *frame, a []value) value { return 4 }),
		"runtime.GOMAXPROCS":   h(func(fr *frame, a []value) value { return 4 }),
		"runtime.NumGoroutine": h(func(fr *frame, a []value) value { return 1 }),
		"runtime.Caller":       h(func(fr *frame, a []value) value { return tuple{uintptr(0), "", 0, false} }),
		"runtime.Stack":        h(func(fr *frame, a []value) value { return 0 }),
		"runtime/debug.Stack":  h(func(fr *frame, a []value) value { return []value(nil) }),
		"runtime/debug.ReadBuildInfo": h(func(fr *frame, a []value) value {
			return tuple{(*value)(nil), false}
		}),
		"os.Getenv": h(func(fr *frame, a []value) value { return "" }),

		// --- time
		"time.Now":       h(func(fr *frame, a []value) value { return fr.i.timeValue() }),
		"time.Sleep":     h(func(fr *frame, a []value) value { fr.i.now += fr.concretizeInt(a[0]); fr.i.sched.yield(fr); return nil }),
		"time.runtimeNano": h(func(fr *frame, a []value) value { return fr.i.now }),
		"time.After":     h(extTimeAfter),
		"time.NewTimer":  h(extNewTimer),
		"time.AfterFunc": h(extAfterFunc),
		"time.NewTicker": h(extNewTimer),
		"time.Tick":      h(extTimeAfter),
		"(*time.Timer).Stop":   h(extTimerStop),
		"(*time.Timer).Reset":  h(extTimerReset),
		"(*time.Ticker).Stop":  h(func(fr *frame, a []value) value { extTimerStop(fr, a); return nil }),
		"(*time.Ticker).Reset": h(func(fr *frame, a []value) value { extTimerReset(fr, a); return nil }),
		"(time.Time).String": h(func(fr *frame, a []value) value { return "<time>" }),
		"(time.Duration).String": h(func(fr *frame, a []value) value { return "<duration>" }),
		"(time.Time).Format": h(func(fr *frame, a []value) value { return "<time>" }),

		// --- fmt / log
		"fmt.Sprintf":  h(extSprintf),
		"fmt.Sprint":   h(func(fr *frame, a []value) value { return "<fmt.Sprint>" }),
		"fmt.Sprintln": h(func(fr *frame, a []value) value { return "<fmt.Sprintln>" }),
		"fmt.Errorf":   h(extErrorf),
		"fmt.Fprintf":  h(func(fr *frame, a []value) value { return tuple{0, iface{}} }),
		"fmt.Fprintln": h(func(fr *frame, a []value) value { return tuple{0, iface{}} }),
		"fmt.Fprint":   h(func(fr *frame, a []value) value { return tuple{0, iface{}} }),
		"fmt.Printf":   h(func(fr *frame, a []value) value { return tuple{0, iface{}} }),
		"fmt.Println":  h(func(fr *frame, a []value) value { return tuple{0, iface{}} }),
		"fmt.Appendf":  h(func(fr *frame, a []value) value { return a[0] }),

		// --- errors
		"errors.Is": h(extErrorsIs),
		"errors.As": h(extErrorsAs),

		// --- sort
		"sort.Slice":       h(extSortSlice),
		"sort.SliceStable": h(extSortSlice),

		// --- strings.Builder internals (unsafe)
		"(*strings.Builder).copyCheck": h(nop),
		"(*strings.Builder).String": h(func(fr *frame, a []value) value {
			p := a[0].(*value)
			st := (*p).(structure)
			buf, _ := st[1].([]value)
			b := make([]value, len(buf))
			copy(b, buf)
			return normStr(symstr{b})
		}),
		"strings.Clone": h(func(fr *frame, a []value) value { return a[0] }),
		"internal/stringslite.Clone": h(func(fr *frame, a []value) value { return a[0] }),
		"strconv.cloneString": h(func(fr *frame, a []value) value { return a[0] }),

		// --- internal/bytealg
		"internal/bytealg.IndexByte":       h(extIndexByte),
		"internal/bytealg.IndexByteString": h(extIndexByte),
		"internal/bytealg.Count":           h(extCountByte),
		"internal/bytealg.CountString":     h(extCountByte),
		"internal/bytealg.Compare":         h(extCompare),
		"internal/bytealg.CompareString":   h(extCompare),
		"internal/bytealg.Equal":           h(func(fr *frame, a []value) value { return symstrEq(seqOf(a[0]), seqOf(a[1])) }),
		"internal/bytealg.Index":           h(extIndex),
		"internal/bytealg.IndexString":     h(extIndex),
		"internal/bytealg.MakeNoZero": h(func(fr *frame, a []value) value {
			n := int(fr.concretizeInt(a[0]))
			s := make([]value, n)
			for i := range s {
				s[i] = uint8(0)
			}
			return s
		}),
		"internal/bytealg.LastIndexByte":       h(extLastIndexByte),
		"internal/bytealg.LastIndexByteString": h(extLastIndexByte),
		"internal/abi.NoEscape":  h(func(fr *frame, a []value) value { return a[0] }),
		"internal/abi.Escape":    h(func(fr *frame, a []value) value { return a[0] }),
		"internal/race.Enabled":  h(func(fr *frame, a []value) value { return false }),
		"internal/godebug.New":   h(func(fr *frame, a []value) value { return (*value)(nil) }),
		"(*internal/godebug.Setting).Value": h(func(fr *frame, a []value) value { return "" }),
		"(*internal/godebug.Setting).IncNonDefault": h(nop),

		// --- math
		"math.Float64bits":     h(func(fr *frame, a []value) value { return floatBits(fr, a[0], 64) }),
		"math.Float64frombits": h(func(fr *frame, a []value) value { return floatFromBits(fr, a[0], 64) }),
		"math.Float32bits":     h(func(fr *frame, a []value) value { return floatBits(fr, a[0], 32) }),
		"math.Float32frombits": h(func(fr *frame, a []value) value { return floatFromBits(fr, a[0], 32) }),
		"math.Floor":           h(func(fr *frame, a []value) value { return math.Floor(a[0].(float64)) }),
		"math.Ceil":            h(func(fr *frame, a []value) value { return math.Ceil(a[0].(float64)) }),
		"math.Sqrt":            h(func(fr *frame, a []value) value { return math.Sqrt(a[0].(float64)) }),
		"math.Abs":             h(func(fr *frame, a []value) value { return math.Abs(a[0].(float64)) }),
		"math.Log":             h(func(fr *frame, a []value) value { return math.Log(a[0].(float64)) }),
		"math.Exp":             h(func(fr *frame, a []value) value { return math.Exp(a[0].(float64)) }),
		"math.Pow":             h(func(fr *frame, a []value) value { return math.Pow(a[0].(float64), a[1].(float64)) }),
		"math.Trunc":           h(func(fr *frame, a []value) value { return math.Trunc(a[0].(float64)) }),
		"math.Round":           h(func(fr *frame, a []value) value { return math.Round(a[0].(float64)) }),
		"math.Mod":             h(func(fr *frame, a []value) value { return math.Mod(a[0].(float64), a[1].(float64)) }),

		// --- math/bits on symbolic words
		"math/bits.Len":             extBitsLen(64),
		"math/bits.Len64":           extBitsLen(64),
		"math/bits.Len32":           extBitsLen(32),
		"math/bits.Len16":           extBitsLen(16),
		"math/bits.Len8":            extBitsLen(8),
		"math/bits.LeadingZeros64":  extBitsLZ(64),
		"math/bits.LeadingZeros32":  extBitsLZ(32),
		"math/bits.TrailingZeros64": extBitsTZ(64),
		"math/bits.TrailingZeros32": extBitsTZ(32),
		"math/bits.TrailingZeros":   extBitsTZ(64),
		"math/bits.OnesCount64":     extBitsPop(64),
		"math/bits.OnesCount32":     extBitsPop(32),
		"math/bits.OnesCount":       extBitsPop(64),

		// --- hash/crc32
		"hash/crc32.MakeTable":    h(extCRCMakeTable),
		"hash/crc32.Checksum":     h(extCRCChecksum),
		"hash/crc32.ChecksumIEEE": h(func(fr *frame, a []value) value { return crcOf(fr, uint32(0), crc32.IEEE, a[0]) }),
		"hash/crc32.Update":       h(extCRCUpdate),

		// --- math/rand
		"math/rand.Intn": h(extRandIntn),
		"math/rand.Int63": h(func(fr *frame, a []value) value { return int64(0) }),
		"(*math/rand.Rand).Intn": h(func(fr *frame, a []value) value { return extRandIntn(fr, a[1:]) }),
		"(*math/rand.Rand).Float64": h(func(fr *frame, a []value) value { return 0.5 }),
		"(*math/rand.Rand).Int63": h(func(fr *frame, a []value) value { return int64(0) }),
		"math/rand.New": h(func(fr *frame, a []value) value { v := value(structure{}); return &v }),
		"math/rand.NewSource": h(func(fr *frame, a []value) value { return iface{} }),
		"math/rand.Float64": h(func(fr *frame, a []value) value { return 0.5 }),
		"math/rand.Shuffle": h(nop),

		// --- reflectlite bits used by errors/context
		"internal/reflectlite.TypeOf": h(func(fr *frame, a []value) value { return iface{} }),
	} {
		externals[k] = v
	}
}

func nop(fr *frame, a []value) value { return nil }

// ---- sync ----------------------------------------------------------------

func extMutexLock(fr *frame, a []value) value {
	p := a[0].(*value)
	s := fr.i.sched
	s.yield(fr)
	m := fr.i.mutex(p)
	for m.locked {
		s.block(fr, p)
	}
	m.locked = true
	m.owner = fr.g.id
	return nil
}

func extMutexUnlock(fr *frame, a []value) value {
	p := a[0].(*value)
	m := fr.i.mutex(p)
	if !m.locked {
		panic(&pathEnd{kind: endPanic, msg: "fatal error: sync: unlock of unlocked mutex"})
	}
	m.locked = false
	fr.i.sched.notify(p)
	return nil
}

func extMutexTryLock(fr *frame, a []value) value {
	p := a[0].(*value)
	fr.i.sched.yield(fr)
	m := fr.i.mutex(p)
	if m.locked {
		return false
	}
	m.locked = true
	m.owner = fr.g.id
	return true
}

func extRWLock(fr *frame, a []value) value {
	p := a[0].(*value)
	s := fr.i.sched
	s.yield(fr)
	m := fr.i.mutex(p)
	for m.locked || m.readers > 0 {
		s.block(fr, p)
	}
	m.locked = true
	return nil
}

func extRWUnlock(fr *frame, a []value) value {
	p := a[0].(*value)
	m := fr.i.mutex(p)
	if !m.locked {
		panic(&pathEnd{kind: endPanic, msg: "fatal error: sync: Unlock of unlocked RWMutex"})
	}
	m.locked = false
	fr.i.sched.notify(p)
	return nil
}

func extRWRLock(fr *frame, a []value) value {
	p := a[0].(*value)
	s := fr.i.sched
	s.yield(fr)
	m := fr.i.mutex(p)
	for m.locked {
		s.block(fr, p)
	}
	m.readers++
	return nil
}

func extRWRUnlock(fr *frame, a []value) value {
	p := a[0].(*value)
	m := fr.i.mutex(p)
	if m.readers <= 0 {
		panic(&pathEnd{kind: endPanic, msg: "fatal error: sync: RUnlock of unlocked RWMutex"})
	}
	m.readers--
	fr.i.sched.notify(p)
	return nil
}

func extRWTryLock(fr *frame, a []value) value {
	p := a[0].(*value)
	m := fr.i.mutex(p)
	if m.locked || m.readers > 0 {
		return false
	}
	m.locked = true
	return true
}

func extRWTryRLock(fr *frame, a []value) value {
	p := a[0].(*value)
	m := fr.i.mutex(p)
	if m.locked {
		return false
	}
	m.readers++
	return true
}

func (i *interpreter) cond(p *value) *condState {
	if c, ok := i.side[p].(*condState); ok {
		return c
	}
	c := &condState{}
	i.side[p] = c
	return c
}

func condLocker(fr *frame, p *value) iface {
	st := (*p).(structure)
	t := fr.fn.Signature.Recv().Type().(*types.Pointer).Elem()
	return st[fieldIndex(t, "L")].(iface)
}

func callMethod(fr *frame, recv iface, name string, args ...value) value {
	if recv.t == nil {
		panic(nilDeref())
	}
	ms := fr.i.prog.MethodSets.MethodSet(recv.t)
	sel := ms.Lookup(nil, name)
	if sel == nil {
		// try with package of the type for unexported names
		for k := 0; k < ms.Len(); k++ {
			if ms.At(k).Obj().Name() == name {
				sel = ms.At(k)
				break
			}
		}
	}
	if sel == nil {
		panic(fmt.Sprintf("callMethod: %s has no method %s", recv.t, name))
	}
	fn := fr.i.prog.MethodValue(sel)
	return call(fr.i, fr, 0, fn, append([]value{recv.v}, args...))
}

func extCondWait(fr *frame, a []value) value {
	p := a[0].(*value)
	c := fr.i.cond(p)
	L := condLocker(fr, p)
	w := &condWaiter{}
	c.waiters = append(c.waiters, w)
	callMethod(fr, L, "Unlock")
	for !w.signaled {
		fr.i.sched.block(fr, w)
	}
	callMethod(fr, L, "Lock")
	return nil
}

func extCondSignal(fr *frame, a []value) value {
	p := a[0].(*value)
	c := fr.i.cond(p)
	if len(c.waiters) > 0 {
		w := c.waiters[0]
		c.waiters = c.waiters[1:]
		w.signaled = true
		fr.i.sched.notify(w)
	}
	return nil
}

func extCondBroadcast(fr *frame, a []value) value {
	p := a[0].(*value)
	c := fr.i.cond(p)
	for _, w := range c.waiters {
		w.signaled = true
		fr.i.sched.notify(w)
	}
	c.waiters = nil
	return nil
}

func (i *interpreter) wg(p *value) *wgState {
	if c, ok := i.side[p].(*wgState); ok {
		return c
	}
	c := &wgState{}
	i.side[p] = c
	return c
}

func extWGAdd(fr *frame, a []value) value {
	p := a[0].(*value)
	w := fr.i.wg(p)
	w.n += asInt64(a[1])
	if w.n < 0 {
		panic(targetPanic{iface{t: types.Typ[types.String], v: "sync: negative WaitGroup counter"}})
	}
	if w.n == 0 {
		fr.i.sched.notify(p)
	}
	return nil
}

func extWGWait(fr *frame, a []value) value {
	p := a[0].(*value)
	w := fr.i.wg(p)
	fr.i.sched.yield(fr)
	for w.n > 0 {
		fr.i.sched.block(fr, p)
	}
	return nil
}

func extWGGo(fr *frame, a []value) value {
	p := a[0].(*value)
	w := fr.i.wg(p)
	w.n++
	f := a[1]
	i := fr.i
	// wrap: run f then Done
	i.sched.spawnNative(fr, func(nfr *frame) {
		call(i, nil, 0, f, nil)
		w.n--
		if w.n == 0 {
			i.sched.notify(p)
		}
	})
	return nil
}

func (s *scheduler) spawnNative(fr *frame, f func(fr *frame)) {
	g := &gor{id: len(s.gs), wake: make(chan struct{}, 1)}
	s.gs = append(s.gs, g)
	s.live++
	go s.body(g, func() { f(nil) })
}

func extPoolGet(fr *frame, a []value) value {
	p := a[0].(*value)
	st := (*p).(structure)
	t := fr.fn.Signature.Recv().Type().(*types.Pointer).Elem()
	nw := st[fieldIndex(t, "New")]
	switch f := nw.(type) {
	case *ssa.Function:
		if f == nil {
			return iface{}
		}
	case *closure:
		if f == nil {
			return iface{}
		}
	case nil:
		return iface{}
	}
	return call(fr.i, fr, 0, nw, nil)
}

type onceState struct {
	done    bool
	running bool
}

func extOnceDo(fr *frame, a []value) value {
	p := a[0].(*value)
	o, ok := fr.i.side[p].(*onceState)
	if !ok {
		o = &onceState{}
		fr.i.side[p] = o
	}
	fr.i.sched.yield(fr)
	for o.running {
		fr.i.sched.block(fr, p)
	}
	if o.done {
		return nil
	}
	o.running = true
	func() {
		defer func() {
			o.running = false
			o.done = true
			fr.i.sched.notify(p)
		}()
		call(fr.i, fr, 0, a[1], nil)
	}()
	return nil
}

// ---- atomics ---------------------------------------------------------------

func extAtomicLoad(fr *frame, a []value) value {
	p := a[0].(*value)
	if p == nil {
		panic(nilDeref())
	}
	fr.i.sched.yield(fr)
	return *p
}

func extAtomicStore(fr *frame, a []value) value {
	p := a[0].(*value)
	if p == nil {
		panic(nilDeref())
	}
	fr.i.sched.yield(fr)
	*p = a[1]
	return nil
}

func extAtomicSwap(fr *frame, a []value) value {
	p := a[0].(*value)
	fr.i.sched.yield(fr)
	old := *p
	*p = a[1]
	return old
}

func elemTypeOfPtrParam(fr *frame, i int) types.Type {
	return fr.fn.Signature.Params().At(i).Type().Underlying().(*types.Pointer).Elem()
}

func extAtomicAdd(fr *frame, a []value) value {
	p := a[0].(*value)
	fr.i.sched.yield(fr)
	t := elemTypeOfPtrParam(fr, 0)
	var nv value
	if isSym(*p) || isSym(a[1]) {
		nv = symBinop(fr, token.ADD, t, t, *p, a[1])
	} else {
		nv = binop(token.ADD, t, *p, a[1])
	}
	*p = nv
	return nv
}

func extAtomicAndOr(and bool) func(fr *frame, a []value) value {
	return func(fr *frame, a []value) value {
		p := a[0].(*value)
		fr.i.sched.yield(fr)
		t := elemTypeOfPtrParam(fr, 0)
		op := token.OR
		if and {
			op = token.AND
		}
		old := *p
		if isSym(*p) || isSym(a[1]) {
			*p = symBinop(fr, op, t, t, *p, a[1])
		} else {
			*p = binop(op, t, *p, a[1])
		}
		return old
	}
}

func extAtomicCAS(fr *frame, a []value) value {
	p := a[0].(*value)
	fr.i.sched.yield(fr)
	t := elemTypeOfPtrParam(fr, 0)
	var eq value
	if _, isPtr := (*p).(*value); isPtr {
		eq = (*p).(*value) == ptrOf(a[1])
	} else if up, ok := (*p).(interface{ isUnsafe() }); ok {
		_ = up
		eq = *p == a[1]
	} else {
		eq = eqAny(t, *p, a[1])
	}
	if fr.decideV(eq) {
		*p = a[2]
		return true
	}
	return false
}

func ptrOf(v value) *value {
	switch v := v.(type) {
	case *value:
		return v
	}
	return nil
}

func eqAny(t types.Type, x, y value) value {
	defer func() {
		if r := recover(); r != nil {
			if isControl(r) {
				panic(r)
			}
			panic(r)
		}
	}()
	if b, ok := t.Underlying().(*types.Basic); ok && b.Kind() == types.UnsafePointer {
		return x == y
	}
	return eqv(t, x, y)
}

func extValueLoad(fr *frame, a []value) value {
	p := a[0].(*value)
	fr.i.sched.yield(fr)
	st := (*p).(structure)
	return st[0]
}

func extValueStore(fr *frame, a []value) value {
	p := a[0].(*value)
	fr.i.sched.yield(fr)
	if a[1].(iface).t == nil {
		panic(targetPanic{iface{t: types.Typ[types.String], v: "sync/atomic: store of nil value into Value"}})
	}
	st := (*p).(structure)
	st[0] = a[1]
	return nil
}

func extValueSwap(fr *frame, a []value) value {
	p := a[0].(*value)
	fr.i.sched.yield(fr)
	st := (*p).(structure)
	old := st[0]
	st[0] = a[1]
	return old
}

func extValueCAS(fr *frame, a []value) value {
	p := a[0].(*value)
	fr.i.sched.yield(fr)
	st := (*p).(structure)
	if fr.decideV(eqv(types.NewInterfaceType(nil, nil), st[0], a[1])) {
		st[0] = a[2]
		return true
	}
	return false
}

// ---- time ------------------------------------------------------------------

// timeValue builds a time.Time for the modelled clock (no monotonic reading).
func (i *interpreter) timeValue() value {
	// wall: hasMonotonic=0 -> low 30 bits nanoseconds; ext: seconds since year 1
	const unixToInternal int64 = (1969*365 + 1969/4 - 1969/100 + 1969/400) * 86400
	sec := i.now/1e9 + unixToInternal
	nsec := i.now % 1e9
	i.now += 1_000_000 // the clock advances 1ms per reading
	return structure{uint64(nsec), sec, (*value)(nil)}
}

func (i *interpreter) timerType(fr *frame, name string) types.Type {
	return i.prog.ImportedPackage("time").Type(name).Type()
}

func newTimerStruct(fr *frame, tname string, ch *schan) *value {
	t := fr.i.timerType(fr, tname)
	st := zero(t).(structure)
	st[fieldIndex(t, "C")] = ch
	v := value(st)
	return &v
}

func extTimeAfter(fr *frame, a []value) value {
	ch := fr.i.sched.newChan(1)
	fr.i.sched.timers = append(fr.i.sched.timers, &timerModel{ch: ch, active: true})
	return ch
}

func extNewTimer(fr *frame, a []value) value {
	ch := fr.i.sched.newChan(1)
	tm := &timerModel{ch: ch, active: true}
	fr.i.sched.timers = append(fr.i.sched.timers, tm)
	name := "Timer"
	if strings.Contains(fr.fn.Name(), "Ticker") {
		name = "Ticker"
	}
	p := newTimerStruct(fr, name, ch)
	fr.i.side[p] = tm
	return p
}

func extAfterFunc(fr *frame, a []value) value {
	tm := &timerModel{fn: a[1], active: true}
	fr.i.sched.timers = append(fr.i.sched.timers, tm)
	p := newTimerStruct(fr, "Timer", nil)
	fr.i.side[p] = tm
	return p
}

func extTimerStop(fr *frame, a []value) value {
	p := a[0].(*value)
	if tm, ok := fr.i.side[p].(*timerModel); ok {
		was := tm.active
		tm.active = false
		return was
	}
	return false
}

func extTimerReset(fr *frame, a []value) value {
	p := a[0].(*value)
	if tm, ok := fr.i.side[p].(*timerModel); ok {
		was := tm.active
		tm.active = true
		return was
	}
	return false
}

// ---- fmt / errors ------------------------------------------------------------

func extSprintf(fr *frame, a []value) value {
	f, _ := a[0].(string)
	return "<fmt:" + f + ">"
}

func extErrorf(fr *frame, a []value) value {
	f, _ := a[0].(string)
	args, _ := a[1].([]value)
	fmtPkg := fr.i.prog.ImportedPackage("fmt")
	var wrapped []value
	if strings.Contains(f, "%w") {
		// find error operands in order of %w verbs (approximation: every error-typed arg)
		verbs := parseVerbs(f)
		for k, vb := range verbs {
			if vb == 'w' && k < len(args) {
				if itf, ok := args[k].(iface); ok && itf.t != nil {
					wrapped = append(wrapped, itf)
				}
			}
		}
	}
	msg := "<fmt:" + f + ">"
	if len(wrapped) == 1 && fmtPkg != nil {
		t := fmtPkg.Type("wrapError").Type()
		st := zero(t).(structure)
		st[fieldIndex(t, "msg")] = msg
		st[fieldIndex(t, "err")] = wrapped[0]
		v := value(st)
		return iface{t: types.NewPointer(t), v: &v}
	}
	if len(wrapped) > 1 && fmtPkg != nil {
		t := fmtPkg.Type("wrapErrors").Type()
		st := zero(t).(structure)
		st[fieldIndex(t, "msg")] = msg
		st[fieldIndex(t, "errs")] = wrapped
		v := value(st)
		return iface{t: types.NewPointer(t), v: &v}
	}
	errPkg := fr.i.prog.ImportedPackage("errors")
	t := errPkg.Type("errorString").Type()
	st := zero(t).(structure)
	st[0] = msg
	v := value(st)
	return iface{t: types.NewPointer(t), v: &v}
}

func parseVerbs(f string) []byte {
	var out []byte
	for i := 0; i < len(f); i++ {
		if f[i] != '%' {
			continue
		}
		i++
		for i < len(f) && strings.IndexByte("+-# 0123456789.[]*", f[i]) >= 0 {
			i++
		}
		if i < len(f) {
			if f[i] == '%' {
				continue
			}
			out = append(out, f[i])
		}
	}
	return out
}

func hasMethod(fr *frame, t types.Type, name string) bool {
	ms := fr.i.prog.MethodSets.MethodSet(t)
	for k := 0; k < ms.Len(); k++ {
		if ms.At(k).Obj().Name() == name {
			return true
		}
	}
	return false
}

func safeEq(fr *frame, x, y iface) (res bool) {
	if !sameType(x.t, y.t) {
		return false
	}
	if x.t == nil {
		return true
	}
	if !types.Comparable(x.t) {
		return false
	}
	return fr.decideV(eqv(x.t, x.v, y.v))
}

func extErrorsIs(fr *frame, a []value) value {
	err, target := a[0].(iface), a[1].(iface)
	if err.t == nil || target.t == nil {
		return err.t == nil && target.t == nil
	}
	return errorsIs(fr, err, target, 0)
}

func errorsIs(fr *frame, err, target iface, depth int) bool {
	for d := 0; d < 50; d++ {
		if err.t == nil {
			return false
		}
		if safeEq(fr, err, target) {
			return true
		}
		if hasMethodSig(fr, err.t, "Is", 1) {
			r := callMethod(fr, err, "Is", target)
			if fr.decideV(r) {
				return true
			}
		}
		if hasMethodSig(fr, err.t, "Unwrap", 0) {
			r := callMethod(fr, err, "Unwrap")
			switch r := r.(type) {
			case iface:
				err = r
				continue
			case []value:
				for _, e := range r {
					if e.(iface).t == nil {
						continue
					}
					if errorsIs(fr, e.(iface), target, depth+1) {
						return true
					}
				}
				return false
			}
		}
		return false
	}
	return false
}

func hasMethodSig(fr *frame, t types.Type, name string, nparams int) bool {
	ms := fr.i.prog.MethodSets.MethodSet(t)
	for k := 0; k < ms.Len(); k++ {
		if ms.At(k).Obj().Name() == name {
			sig := ms.At(k).Obj().Type().(*types.Signature)
			return sig.Params().Len() == nparams && sig.Results().Len() == 1
		}
	}
	return false
}

func extErrorsAs(fr *frame, a []value) value {
	err, target := a[0].(iface), a[1].(iface)
	if err.t == nil {
		return false
	}
	if target.t == nil {
		panic(targetPanic{iface{t: types.Typ[types.String], v: "errors: target cannot be nil"}})
	}
	pt, ok := target.t.Underlying().(*types.Pointer)
	if !ok {
		panic(targetPanic{iface{t: types.Typ[types.String], v: "errors: target must be a non-nil pointer"}})
	}
	targetType := pt.Elem()
	cell := target.v.(*value)
	return errorsAs(fr, err, targetType, cell)
}

func errorsAs(fr *frame, err iface, targetType types.Type, cell *value) bool {
	for d := 0; d < 50; d++ {
		if err.t == nil {
			return false
		}
		if types.AssignableTo(err.t, targetType) {
			if types.IsInterface(targetType) {
				*cell = err
			} else {
				*cell = err.v
			}
			return true
		}
		if hasMethodSig(fr, err.t, "As", 1) {
			r := callMethod(fr, err, "As", iface{t: types.NewPointer(targetType), v: cell})
			if fr.decideV(r) {
				return true
			}
		}
		if hasMethodSig(fr, err.t, "Unwrap", 0) {
			r := callMethod(fr, err, "Unwrap")
			switch r := r.(type) {
			case iface:
				err = r
				continue
			case []value:
				for _, e := range r {
					if e.(iface).t == nil {
						continue
					}
					if errorsAs(fr, e.(iface), targetType, cell) {
						return true
					}
				}
				return false
			}
		}
		return false
	}
	return false
}

// ---- sort ---------------------------------------------------------------------

func extSortSlice(fr *frame, a []value) value {
	x := a[0].(iface).v.([]value)
	less := a[1]
	// The comparator reads the slice through its closure, so sort in place with swaps on
	// the shared backing array (insertion sort: stable, deterministic, O(n^2) on small n).
	for i := 1; i < len(x); i++ {
		for j := i; j > 0; j-- {
			if fr.decideV(call(fr.i, fr, 0, less, []value{j, j - 1})) {
				x[j], x[j-1] = x[j-1], x[j]
			} else {
				break
			}
		}
	}
	return nil
}

var _ = sort.Ints

// ---- byte sequences -------------------------------------------------------------

func seqOf(v value) symstr {
	switch v := v.(type) {
	case []value:
		return symstr{v}
	case string, symstr:
		return strToSym(v)
	}
	panic(fmt.Sprintf("seqOf %T", v))
}

func extIndexByte(fr *frame, a []value) value {
	s := seqOf(a[0])
	for i, b := range s.b {
		if fr.decideV(eqv(nil, b, a[1])) {
			return i
		}
	}
	return -1
}

func extLastIndexByte(fr *frame, a []value) value {
	s := seqOf(a[0])
	for i := len(s.b) - 1; i >= 0; i-- {
		if fr.decideV(eqv(nil, s.b[i], a[1])) {
			return i
		}
	}
	return -1
}

func extCountByte(fr *frame, a []value) value {
	s := seqOf(a[0])
	n := 0
	for _, b := range s.b {
		if fr.decideV(eqv(nil, b, a[1])) {
			n++
		}
	}
	return n
}

func extCompare(fr *frame, a []value) value {
	x, y := seqOf(a[0]), seqOf(a[1])
	n := len(x.b)
	if len(y.b) < n {
		n = len(y.b)
	}
	for i := 0; i < n; i++ {
		if fr.decideV(eqv(nil, x.b[i], y.b[i])) {
			continue
		}
		lt := smt.Cmp(smt.OpUlt, toTerm(x.b[i]), toTerm(y.b[i]))
		if fr.decide(lt) {
			return -1
		}
		return 1
	}
	switch {
	case len(x.b) < len(y.b):
		return -1
	case len(x.b) > len(y.b):
		return 1
	}
	return 0
}

func extIndex(fr *frame, a []value) value {
	x, y := seqOf(a[0]), seqOf(a[1])
	for i := 0; i+len(y.b) <= len(x.b); i++ {
		if fr.decideV(symstrEq(symstr{x.b[i : i+len(y.b)]}, y)) {
			return i
		}
	}
	return -1
}

// ---- floats ---------------------------------------------------------------------

// symFloat is a float whose bit pattern is symbolic. Only bit-level operations are
// supported on it.
type symFloat struct {
	bits *smt.Term
}

func floatBits(fr *frame, v value, w int) value {
	switch f := v.(type) {
	case float64:
		return math.Float64bits(f)
	case float32:
		return math.Float32bits(f)
	case symFloat:
		return f.bits
	}
	panic(unsupported(fmt.Sprintf("Float bits of %T", v)))
}

func floatFromBits(fr *frame, v value, w int) value {
	switch b := v.(type) {
	case uint64:
		return math.Float64frombits(b)
	case uint32:
		return math.Float32frombits(b)
	case *smt.Term:
		return symFloat{b}
	}
	panic(unsupported(fmt.Sprintf("Float from bits of %T", v)))
}

// ---- math/bits -------------------------------------------------------------------

func symOnly(f func(fr *frame, t *smt.Term) value) externalFn {
	return func(fr *frame, a []value) (value, bool) {
		t, ok := a[0].(*smt.Term)
		if !ok {
			return nil, false
		}
		return f(fr, t), true
	}
}

func extBitsLen(w uint8) externalFn {
	return symOnly(func(fr *frame, t *smt.Term) value {
		r := smt.Const(64, 0)
		for i := uint8(0); i < t.W; i++ {
			bit := smt.Eq(smt.Extract(t, i, i), smt.Const(1, 1))
			r = smt.Ite(bit, smt.Const(64, uint64(i)+1), r)
		}
		return r
	})
}

func extBitsLZ(w uint8) externalFn {
	return symOnly(func(fr *frame, t *smt.Term) value {
		r := smt.Const(64, uint64(t.W))
		for i := uint8(0); i < t.W; i++ {
			bit := smt.Eq(smt.Extract(t, i, i), smt.Const(1, 1))
			r = smt.Ite(bit, smt.Const(64, uint64(t.W-1-i)), r)
		}
		return r
	})
}

func extBitsTZ(w uint8) externalFn {
	return symOnly(func(fr *frame, t *smt.Term) value {
		r := smt.Const(64, uint64(t.W))
		for i := int(t.W) - 1; i >= 0; i-- {
			bit := smt.Eq(smt.Extract(t, uint8(i), uint8(i)), smt.Const(1, 1))
			r = smt.Ite(bit, smt.Const(64, uint64(i)), r)
		}
		return r
	})
}

func extBitsPop(w uint8) externalFn {
	return symOnly(func(fr *frame, t *smt.Term) value {
		r := smt.Const(64, 0)
		for i := uint8(0); i < t.W; i++ {
			r = smt.Bin(smt.OpAdd, r, smt.ZExt(smt.Extract(t, i, i), 64))
		}
		return r
	})
}

// ---- crc32 -------------------------------------------------------------------------

func extCRCMakeTable(fr *frame, a []value) value {
	poly := uint32(fr.concretize(a[0]))
	tab := crc32.MakeTable(poly)
	arr := make(array, 256)
	for i := range arr {
		arr[i] = tab[i]
	}
	v := value(arr)
	return &v
}

func polyOfTable(p *value) uint32 {
	if p == nil {
		return crc32.IEEE
	}
	arr := (*p).(array)
	if v, ok := arr[128].(uint32); ok && v != 0 {
		return v
	}
	return crc32.IEEE
}

func crcOf(fr *frame, crc value, poly uint32, data value) value {
	s := seqOf(data)
	conc := true
	for _, b := range s.b {
		if isSym(b) {
			conc = false
			break
		}
	}
	if _, ok := crc.(uint32); conc && ok {
		bs := make([]byte, len(s.b))
		for i, b := range s.b {
			bs[i] = b.(uint8)
		}
		return crc32.Update(crc.(uint32), crc32.MakeTable(poly), bs)
	}
	fr.i.px.note("hash/crc32 over symbolic bytes modelled as an uninterpreted function")
	args := []*smt.Term{toTerm(crc)}
	for _, b := range s.b {
		args = append(args, toTerm(b))
	}
	return smt.UF(fmt.Sprintf("crc32_%08x_%d", poly, len(s.b)), 32, args...)
}

func extCRCChecksum(fr *frame, a []value) value {
	return crcOf(fr, uint32(0), polyOfTable(a[1].(*value)), a[0])
}

func extCRCUpdate(fr *frame, a []value) value {
	return crcOf(fr, a[0], polyOfTable(a[1].(*value)), a[2])
}

// ---- rand ----------------------------------------------------------------------------

func extRandIntn(fr *frame, a []value) value {
	n := a[0]
	if c, ok := n.(int); ok && c <= 0 {
		panic(targetPanic{iface{t: types.Typ[types.String], v: "invalid argument to Intn"}})
	}
	if fr.i.px.concrete {
		panic(unsupported("math/rand in a concrete translator-validation run"))
	}
	t := fr.i.px.newInput("rand.Intn", "int", 64)
	assume(fr, smt.BAnd(smt.Cmp(smt.OpSle, smt.Const(64, 0), t), smt.Cmp(smt.OpSlt, t, toTerm(n))))
	return t
}
