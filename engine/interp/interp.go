// Derived from golang.org/x/tools/go/ssa/interp (BSD-style licence, The Go Authors),
// heavily modified into a symbolic executor: see DESIGN.md §2.

package interp

import (
	"fmt"
	"go/token"
	"go/types"
	"runtime"
	"strings"

	"golang.org/x/tools/go/ssa"
	"verif/engine/smt"
)

type continuation int

const (
	kNext continuation = iota
	kReturn
	kJump
)

// If the target program panics, the interpreter panics with this type.
type targetPanic struct {
	v value
}

func (p targetPanic) String() string { return toString(p.v) }

type deferred struct {
	fn    value
	args  []value
	instr *ssa.Defer
	tail  *deferred
}

type frame struct {
	curPos           token.Pos
	i                *interpreter
	g                *gor
	caller           *frame
	fn               *ssa.Function
	block, prevBlock *ssa.BasicBlock
	env              map[ssa.Value]value // dynamic values of SSA variables
	locals           []value
	defers           *deferred
	result           value
	panicking        bool
	panic            interface{}
	phitemps         []value
	backedges        map[int]int
	callpos          token.Pos
}

// interpreter is the per-path state.
type interpreter struct {
	panicOrigin string // where the first target panic of this path was raised (diagnostics)
	eng     *Engine
	prog    *ssa.Program
	globals map[*ssa.Global]*value
	inited  map[*ssa.Package]int // 0 none, 1 running, 2 done
	px      *pathCtx
	sched   *scheduler
	steps   int64
	side    map[*value]interface{} // side tables for sync primitives, keyed by address
	allocs  int64                  // concrete part of allocation accounting (bytes)
	now     int64                  // modelled clock, ns
	depth   int
	initDirect *ssa.Function
}

func rtErr(msg string) value {
	return iface{t: theRuntimeErrorString, v: strings.TrimPrefix(msg, "runtime error: ")}
}

var theRuntimeErrorString types.Type // set by Engine after load

func (fr *frame) get(key ssa.Value) value {
	switch key := key.(type) {
	case nil:
		return nil
	case *ssa.Function, *ssa.Builtin:
		return key
	case *ssa.Const:
		return constValue(key)
	case *ssa.Global:
		return fr.i.global(key)
	}
	if r, ok := fr.env[key]; ok {
		return r
	}
	panic(fmt.Sprintf("get: no value for %T: %v in %s", key, key.Name(), fr.fn))
}

// global returns the address of a package-level variable, initialising its package lazily.
func (i *interpreter) global(g *ssa.Global) *value {
	if r, ok := i.globals[g]; ok {
		return r
	}
	pkg := g.Pkg
	i.ensureInit(pkg)
	if r, ok := i.globals[g]; ok {
		return r
	}
	// global not seen (e.g. synthetic): allocate
	cell := zero(mustDeref(g.Type()))
	i.globals[g] = &cell
	return &cell
}

func (i *interpreter) ensureInit(pkg *ssa.Package) {
	if i.inited[pkg] != 0 {
		return
	}
	i.inited[pkg] = 1
	for _, m := range pkg.Members {
		if v, ok := m.(*ssa.Global); ok {
			cell := zero(mustDeref(v.Type()))
			i.globals[v] = &cell
		}
	}
	if i.eng.skipInit(pkg) {
		i.inited[pkg] = 2
		return
	}
	if init := pkg.Func("init"); init != nil {
		i.eng.buildPkg(pkg)
		func() {
			defer func() {
				if r := recover(); r != nil {
					if pe, ok := r.(*pathEnd); ok && pe.kind == endUnsupported {
						i.px.note("init of " + pkg.Pkg.Path() + " incomplete: " + pe.msg)
						return
					}
					panic(r)
				}
			}()
			i.initDirect = init
			call(i, i.sched.cur.top, token.NoPos, init, nil)
		}()
	}
	i.inited[pkg] = 2
}

func (fr *frame) runDefer(d *deferred) {
	var ok bool
	defer func() {
		if !ok {
			r := recover()
			if isControl(r) {
				panic(r)
			}
			fr.panicking = true
			fr.panic = r
		}
	}()
	call(fr.i, fr, d.instr.Pos(), d.fn, d.args)
	ok = true
}

func (fr *frame) runDefers() {
	for d := fr.defers; d != nil; d = d.tail {
		fr.runDefer(d)
	}
	fr.defers = nil
	if fr.panicking {
		panic(fr.panic) // new panic, or still panicking
	}
}

func lookupMethod(i *interpreter, typ types.Type, meth *types.Func) *ssa.Function {
	return i.prog.LookupMethod(typ, meth.Pkg(), meth.Name())
}

func (fr *frame) step() {
	fr.i.steps++
	if fr.i.steps > fr.i.eng.MaxSteps {
		panic(&pathEnd{kind: endUnwind, msg: fmt.Sprintf("step budget %d exceeded in %s", fr.i.eng.MaxSteps, fr.fn)})
	}
}

func (fr *frame) jump(to *ssa.BasicBlock) {
	if to.Index <= fr.block.Index {
		if fr.backedges == nil {
			fr.backedges = map[int]int{}
		}
		fr.backedges[to.Index]++
		if fr.backedges[to.Index] > fr.i.px.unwind && fr.i.px.unwindFail {
			fr.i.px.violation(fr, "termination bound exceeded", fmt.Sprintf("a loop in %s ran more than %d iterations%s", fr.fn, fr.i.px.unwind, fr.i.loc(fr.fn.Pos())))
		}
		if fr.backedges[to.Index] > fr.i.px.unwind && fr.i.px.unwindCut {
			fr.i.px.note(fmt.Sprintf("loop cut at the declared bound of %d iterations in %s (longer executions are outside the bound)", fr.i.px.unwind, fr.fn))
			panic(&pathEnd{kind: endPruned, msg: "loop cut at declared bound"})
		}
		if fr.backedges[to.Index] > fr.i.px.unwind {
			panic(&pathEnd{kind: endUnwind, msg: fmt.Sprintf("loop unwinding bound %d exceeded in %s (block %d)%s", fr.i.px.unwind, fr.fn, to.Index, fr.i.loc(fr.fn.Pos()))})
		}
	}
	fr.prevBlock, fr.block = fr.block, to
}

func (i *interpreter) loc(pos token.Pos) string {
	if pos == token.NoPos {
		return ""
	}
	p := i.prog.Fset.Position(pos)
	return fmt.Sprintf(" at %s:%d", p.Filename, p.Line)
}

func nilDeref() targetPanic {
	return targetPanic{rtErr("runtime error: invalid memory address or nil pointer dereference")}
}

// visitInstr interprets a single ssa.Instruction.
func visitInstr(fr *frame, instr ssa.Instruction) continuation {
	fr.step()
	if p := instr.Pos(); p != token.NoPos {
		fr.curPos = p
	}
	switch instr := instr.(type) {
	case *ssa.DebugRef:
		// no-op

	case *ssa.UnOp:
		x := fr.get(instr.X)
		switch instr.Op {
		case token.MUL:
			p := x.(*value)
			if p == nil {
				panic(nilDeref())
			}
			fr.env[instr] = load(mustDeref(instr.X.Type()), p)
		case token.ARROW:
			fr.env[instr] = fr.chanRecv(instr, x.(*schan))
		default:
			fr.env[instr] = unop(instr, x)
		}

	case *ssa.BinOp:
		x, y := fr.get(instr.X), fr.get(instr.Y)
		if isSym(x) || isSym(y) {
			fr.env[instr] = symBinop(fr, instr.Op, instr.X.Type(), instr.Y.Type(), x, y)
		} else {
			if instr.Op == token.QUO || instr.Op == token.REM {
				if isZeroInt(y) {
					panic(targetPanic{rtErr("runtime error: integer divide by zero")})
				}
			}
			fr.env[instr] = binop(instr.Op, instr.X.Type(), x, y)
		}

	case *ssa.Call:
		fn, args := prepareCall(fr, &instr.Call)
		fr.env[instr] = call(fr.i, fr, instr.Pos(), fn, args)

	case *ssa.ChangeInterface:
		fr.env[instr] = fr.get(instr.X)

	case *ssa.ChangeType:
		fr.env[instr] = fr.get(instr.X)

	case *ssa.Convert:
		x := fr.get(instr.X)
		if t, ok := x.(*smt.Term); ok {
			fr.env[instr] = symConv(fr, instr.Type(), instr.X.Type(), t)
		} else {
			fr.env[instr] = fr.conv(instr.Type(), instr.X.Type(), x)
		}

	case *ssa.SliceToArrayPointer:
		fr.env[instr] = sliceToArrayPointer(instr.Type(), instr.X.Type(), fr.get(instr.X))

	case *ssa.MakeInterface:
		fr.env[instr] = iface{t: instr.X.Type(), v: fr.get(instr.X)}

	case *ssa.Extract:
		fr.env[instr] = fr.get(instr.Tuple).(tuple)[instr.Index]

	case *ssa.Slice:
		fr.env[instr] = fr.slice(instr, fr.get(instr.X), fr.get(instr.Low), fr.get(instr.High), fr.get(instr.Max))

	case *ssa.Return:
		switch len(instr.Results) {
		case 0:
		case 1:
			fr.result = fr.get(instr.Results[0])
		default:
			var res []value
			for _, r := range instr.Results {
				res = append(res, fr.get(r))
			}
			fr.result = tuple(res)
		}
		fr.block = nil
		return kReturn

	case *ssa.RunDefers:
		fr.runDefers()

	case *ssa.Panic:
		panic(targetPanic{fr.get(instr.X)})

	case *ssa.Send:
		fr.chanSend(fr.get(instr.Chan).(*schan), fr.get(instr.X))

	case *ssa.Store:
		p := fr.get(instr.Addr).(*value)
		if p == nil {
			panic(nilDeref())
		}
		store(mustDeref(instr.Addr.Type()), p, fr.get(instr.Val))

	case *ssa.If:
		succ := 1
		if fr.decideV(fr.get(instr.Cond)) {
			succ = 0
		}
		fr.jump(fr.block.Succs[succ])
		return kJump

	case *ssa.Jump:
		fr.jump(fr.block.Succs[0])
		return kJump

	case *ssa.Defer:
		fn, args := prepareCall(fr, &instr.Call)
		defers := &fr.defers
		if into := fr.get(instr.DeferStack); into != nil {
			defers = into.(**deferred)
		}
		*defers = &deferred{fn: fn, args: args, instr: instr, tail: *defers}

	case *ssa.Go:
		fn, args := prepareCall(fr, &instr.Call)
		fr.i.sched.spawn(fr, instr.Pos(), fn, args)

	case *ssa.MakeChan:
		n := fr.concretizeInt(fr.get(instr.Size))
		fr.env[instr] = fr.i.sched.newChan(int(n))

	case *ssa.Alloc:
		var addr *value
		if instr.Heap {
			addr = new(value)
			fr.env[instr] = addr
		} else {
			addr = fr.env[instr].(*value)
		}
		t := mustDeref(instr.Type())
		*addr = zero(t)
		if instr.Heap {
			fr.i.allocs += fr.i.eng.sizeof(t)
		}

	case *ssa.MakeSlice:
		fr.env[instr] = fr.makeSlice(instr)

	case *ssa.MakeMap:
		fr.env[instr] = newSmap(instr.Type().Underlying().(*types.Map).Key())

	case *ssa.Range:
		fr.env[instr] = fr.rangeIter(fr.get(instr.X), instr.X.Type())

	case *ssa.Next:
		fr.env[instr] = fr.get(instr.Iter).(iter).next()

	case *ssa.FieldAddr:
		p := fr.get(instr.X).(*value)
		if p == nil {
			panic(nilDeref())
		}
		fr.env[instr] = &(*p).(structure)[instr.Field]

	case *ssa.Field:
		fr.env[instr] = copyVal(fr.get(instr.X).(structure)[instr.Field])

	case *ssa.IndexAddr:
		x := fr.get(instr.X)
		idx := fr.get(instr.Index)
		switch x := x.(type) {
		case []value:
			fr.env[instr] = &x[fr.checkIndex(idx, instr.Index.Type(), len(x))]
		case *value: // *array
			if x == nil {
				panic(nilDeref())
			}
			a := (*x).(array)
			fr.env[instr] = &a[fr.checkIndex(idx, instr.Index.Type(), len(a))]
		default:
			panic(fmt.Sprintf("unexpected x type in IndexAddr: %T", x))
		}

	case *ssa.Index:
		x := fr.get(instr.X)
		idx := fr.get(instr.Index)
		switch x := x.(type) {
		case array:
			if it, ok := idx.(*smt.Term); ok {
				fr.boundsCheck(it, instr.Index.Type(), len(x))
				fr.env[instr] = symIndexRead(fr, x, it, instr.Type())
			} else {
				fr.env[instr] = copyVal(x[fr.checkIndex(idx, instr.Index.Type(), len(x))])
			}
		case string:
			if it, ok := idx.(*smt.Term); ok {
				fr.boundsCheck(it, instr.Index.Type(), len(x))
				fr.env[instr] = symIndexRead(fr, strToSym(x).b, it, instr.Type())
			} else {
				fr.env[instr] = x[fr.checkIndex(idx, instr.Index.Type(), len(x))]
			}
		case symstr:
			if it, ok := idx.(*smt.Term); ok {
				fr.boundsCheck(it, instr.Index.Type(), len(x.b))
				fr.env[instr] = symIndexRead(fr, x.b, it, instr.Type())
			} else {
				fr.env[instr] = x.b[fr.checkIndex(idx, instr.Index.Type(), len(x.b))]
			}
		default:
			panic(fmt.Sprintf("unexpected x type in Index: %T", x))
		}

	case *ssa.Lookup:
		fr.env[instr] = fr.lookup(instr, fr.get(instr.X), fr.get(instr.Index))

	case *ssa.MapUpdate:
		m := fr.get(instr.Map).(*smap)
		if m == nil {
			panic(targetPanic{rtErr("assignment to entry in nil map")})
		}
		m.insert(fr, fr.get(instr.Key), fr.get(instr.Value))

	case *ssa.TypeAssert:
		fr.env[instr] = typeAssert(fr.i, instr, fr.get(instr.X).(iface))

	case *ssa.MakeClosure:
		var bindings []value
		for _, binding := range instr.Bindings {
			bindings = append(bindings, fr.get(binding))
		}
		fr.env[instr] = &closure{instr.Fn.(*ssa.Function), bindings}

	case *ssa.Phi:
		panic("unreachable: phi")

	case *ssa.Select:
		fr.env[instr] = fr.selectStmt(instr)

	default:
		panic(fmt.Sprintf("unexpected instruction: %T", instr))
	}
	return kNext
}

func isZeroInt(v value) bool {
	switch v := v.(type) {
	case int:
		return v == 0
	case int8:
		return v == 0
	case int16:
		return v == 0
	case int32:
		return v == 0
	case int64:
		return v == 0
	case uint:
		return v == 0
	case uint8:
		return v == 0
	case uint16:
		return v == 0
	case uint32:
		return v == 0
	case uint64:
		return v == 0
	case uintptr:
		return v == 0
	}
	return false
}

// checkIndex bounds-checks idx against n and returns a concrete index. A symbolic index is
// checked by the solver and then concretised (case split) — used for addresses.
func (fr *frame) checkIndex(idx value, it types.Type, n int) int {
	if t, ok := idx.(*smt.Term); ok {
		fr.boundsCheck(t, it, n)
		return int(fr.concretize(t))
	}
	i := asInt64(idx)
	if _, isU := idx.(uint64); isU && i < 0 {
		i = int64(n) // huge unsigned
	}
	if i < 0 || i >= int64(n) {
		panic(targetPanic{rtErr(fmt.Sprintf("runtime error: index out of range [%d] with length %d", i, n))})
	}
	return int(i)
}

// boundsCheck forks a panic path when 0 <= idx < n can be violated.
func (fr *frame) boundsCheck(idx *smt.Term, it types.Type, n int) {
	inb := smt.Cmp(smt.OpUlt, idx, smt.Const(idx.W, uint64(n))) // unsigned compare covers negatives
	if idx.W < 64 && uint64(n) > (uint64(1)<<idx.W)-1 {
		inb = smt.True
		if _, signed, _ := basicInfo(it); signed {
			inb = smt.Cmp(smt.OpSle, smt.Const(idx.W, 0), idx)
		}
	}
	if !fr.decide(inb) {
		panic(targetPanic{rtErr(fmt.Sprintf("runtime error: index out of range [symbolic] with length %d", n))})
	}
}

func (fr *frame) makeSlice(instr *ssa.MakeSlice) value {
	lv, cv := fr.get(instr.Len), fr.get(instr.Cap)
	tElt := instr.Type().Underlying().(*types.Slice).Elem()
	esz := fr.i.eng.sizeof(tElt)
	checkLen := func(v value, what string) int64 {
		if t, ok := v.(*smt.Term); ok {
			// panic path: negative or absurd length
			maxn := int64(1) << 40
			if esz > 0 {
				maxn = (int64(1) << 47) / esz
			}
			if t.W < 64 && maxn > (int64(1)<<(t.W-1))-1 {
				maxn = (int64(1) << (t.W - 1)) - 1 // the limit must be representable at the length's width
			}
			okc := smt.BAnd(smt.Cmp(smt.OpSle, smt.Const(t.W, 0), t), smt.Cmp(smt.OpSle, t, smt.Const(t.W, uint64(maxn))))
			if !fr.decide(okc) {
				panic(targetPanic{rtErr("runtime error: makeslice: " + what + " out of range")})
			}
			if fr.i.px.allocLimit > 0 {
				// a symbolic length above the allocation budget is itself the violation
				room := (fr.i.px.allocLimit - fr.i.allocs) / max64(esz, 1) // elements that still fit in the budget
				if room < 0 {
					room = 0
				}
				fits := t.W >= 64 || room <= (int64(1)<<(t.W-1))-1 // otherwise no value of this width exceeds it
				if fits && fr.decide(smt.Cmp(smt.OpSlt, smt.Const(t.W, uint64(room)), t)) {
					fr.i.allocs += fr.i.px.allocLimit + 1
					fr.i.checkAlloc(fr)
				}
			}
			return int64(fr.concretize(t))
		}
		n := asInt64(v)
		if n < 0 || (esz > 0 && n > (int64(1)<<47)/esz) {
			panic(targetPanic{rtErr("runtime error: makeslice: " + what + " out of range")})
		}
		return n
	}
	n := checkLen(lv, "len")
	c := checkLen(cv, "cap")
	if n > c {
		panic(targetPanic{rtErr("runtime error: makeslice: cap out of range")})
	}
	fr.i.allocs += c * esz
	fr.i.checkAlloc(fr)
	if c > fr.i.eng.MaxConcreteAlloc {
		panic(&pathEnd{kind: endUnsupported, msg: fmt.Sprintf("make of %d elements exceeds executor limit%s", c, fr.i.loc(instr.Pos()))})
	}
	s := make([]value, c)
	for i := range s {
		s[i] = zero(tElt)
	}
	return s[:n]
}

func max64(a, b int64) int64 {
	if a > b {
		return a
	}
	return b
}

func (i *interpreter) checkAlloc(fr *frame) {
	if i.px.allocLimit > 0 && i.allocs > i.px.allocLimit {
		i.px.violation(fr, "allocation budget exceeded", fmt.Sprintf("allocated more than %d bytes", i.px.allocLimit))
	}
}

// slice implements x[lo:hi:max].
func (fr *frame) slice(instr *ssa.Slice, x, lo, hi, max value) value {
	var Len, Cap int
	switch x := x.(type) {
	case string:
		Len = len(x)
		Cap = Len
	case symstr:
		Len = len(x.b)
		Cap = Len
	case []value:
		Len = len(x)
		Cap = cap(x)
	case *value: // *array
		if x == nil {
			panic(nilDeref())
		}
		a := (*x).(array)
		Len = len(a)
		Cap = cap(a)
	}
	// Bounds: 0 <= lo <= hi <= max <= cap. Symbolic bounds are checked by the solver, then
	// concretised.
	bound := func(v value, def int) (value, bool) {
		if v == nil {
			return def, false
		}
		return v, true
	}
	lv, _ := bound(lo, 0)
	hv, hasHi := bound(hi, Len)
	mv, hasMax := bound(max, Cap)
	anySym := isSym(lv) || isSym(hv) || isSym(mv)
	var l, h, m int
	if anySym {
		lt, ht, mt := toTerm64(lv), toTerm64(hv), toTerm64(mv)
		limit := Cap
		if _, isStr := x.(string); isStr {
			limit = Len
		}
		okc := smt.BAnd(smt.Cmp(smt.OpSle, smt.Const(64, 0), lt), smt.Cmp(smt.OpSle, lt, ht))
		okc = smt.BAnd(okc, smt.Cmp(smt.OpSle, ht, mt))
		okc = smt.BAnd(okc, smt.Cmp(smt.OpSle, mt, smt.Const(64, uint64(limit))))
		if !fr.decide(okc) {
			panic(targetPanic{rtErr("runtime error: slice bounds out of range [symbolic]")})
		}
		l, h, m = int(fr.concretize(lt)), int(fr.concretize(ht)), int(fr.concretize(mt))
	} else {
		l, h, m = int(asInt64u(lv)), int(asInt64u(hv)), int(asInt64u(mv))
		limit := Cap
		if !hasMax {
			m = Cap
		}
		if !hasHi {
			h = Len
		}
		if m < 0 || m > limit {
			panic(targetPanic{rtErr(fmt.Sprintf("runtime error: slice bounds out of range [::%d] with capacity %d", m, limit))})
		}
		if h < 0 || h > m {
			panic(targetPanic{rtErr(fmt.Sprintf("runtime error: slice bounds out of range [:%d] with capacity %d", h, m))})
		}
		if l < 0 || l > h {
			panic(targetPanic{rtErr(fmt.Sprintf("runtime error: slice bounds out of range [%d:%d]", l, h))})
		}
	}
	switch x := x.(type) {
	case string:
		return x[l:h]
	case symstr:
		return normStr(symstr{x.b[l:h]})
	case []value:
		if x == nil {
			return []value(nil)
		}
		return x[l:h:m]
	case *value:
		a := (*x).(array)
		return []value(a)[l:h:m]
	}
	panic(fmt.Sprintf("slice: unexpected X type: %T", x))
}

func toTerm64(v value) *smt.Term {
	t := toTerm(v)
	if t.W == 64 {
		return t
	}
	// index expressions may be of any integer type; the dynamic Go type tells signedness
	switch v.(type) {
	case int8, int16, int32:
		return smt.SExt(t, 64)
	}
	return smt.ZExt(t, 64)
}

// asInt64u converts any integer to int64, mapping huge unsigned values to a negative number
// (which then fails bounds checks).
func asInt64u(v value) int64 { return asInt64(v) }

func (fr *frame) lookup(instr *ssa.Lookup, x, idx value) value {
	switch x := x.(type) {
	case *smap:
		var v value
		e := x.find(fr, idx)
		ok := e != nil
		if ok {
			v = copyVal(e.val)
		} else {
			v = zero(instr.X.Type().Underlying().(*types.Map).Elem())
		}
		if instr.CommaOk {
			v = tuple{v, ok}
		}
		return v
	}
	panic(fmt.Sprintf("unexpected x type in Lookup: %T", x))
}

func (fr *frame) rangeIter(x value, t types.Type) iter {
	switch x := x.(type) {
	case *smap:
		if x == nil {
			return &smapIter{}
		}
		ents := make([]*mentry, len(x.ents))
		copy(ents, x.ents)
		if fr.i.px.mapOrderAll && len(x.live()) > 1 && len(x.live()) <= 3 {
			ents = fr.permute(x.live())
		}
		return &smapIter{ents: ents}
	case string, symstr:
		return &stringIter{fr: fr, s: x}
	}
	panic(fmt.Sprintf("cannot range over %T", x))
}

// permute picks an iteration order by forking (choice decisions).
func (fr *frame) permute(ents []*mentry) []*mentry {
	rest := append([]*mentry(nil), ents...)
	var out []*mentry
	for len(rest) > 1 {
		k := fr.i.px.choose(len(rest))
		out = append(out, rest[k])
		rest = append(rest[:k], rest[k+1:]...)
	}
	return append(out, rest...)
}

// conv wraps the concrete conversion, handling the cases that involve symbolic content.
func (fr *frame) conv(dst, src types.Type, x value) value {
	// []byte (with symbolic elements) -> string and back are handled in conv via symstr.
	if s, ok := x.([]value); ok {
		if sl, ok := src.Underlying().(*types.Slice); ok {
			if b, ok := sl.Elem().Underlying().(*types.Basic); ok && b.Kind() == types.Rune {
				for i := range s {
					if t, ok := s[i].(*smt.Term); ok {
						s[i] = int32(fr.concretize(t))
					}
				}
			}
		}
	}
	if ss, ok := x.(symstr); ok {
		if sl, ok := dst.Underlying().(*types.Slice); ok {
			if b, ok := sl.Elem().Underlying().(*types.Basic); ok && b.Kind() == types.Rune {
				bs := make([]byte, len(ss.b))
				for i, e := range ss.b {
					bs[i] = uint8(fr.concretize(e))
				}
				x = string(bs)
			}
		}
	}
	return conv(dst, src, x)
}

func prepareCall(fr *frame, call *ssa.CallCommon) (fn value, args []value) {
	v := fr.get(call.Value)
	if call.Method == nil {
		fn = v
	} else {
		recv := v.(iface)
		if recv.t == nil {
			panic(nilDeref())
		}
		if f := lookupMethod(fr.i, recv.t, call.Method); f == nil {
			panic(fmt.Sprintf("method set for dynamic type %v does not contain %s", recv.t, call.Method))
		} else {
			fn = f
		}
		args = append(args, recv.v)
	}
	for _, arg := range call.Args {
		args = append(args, fr.get(arg))
	}
	return
}

func call(i *interpreter, caller *frame, callpos token.Pos, fn value, args []value) value {
	switch fn := fn.(type) {
	case *ssa.Function:
		if fn == nil {
			panic(nilDeref())
		}
		return callSSA(i, caller, callpos, fn, args, nil)
	case *closure:
		if fn == nil {
			panic(nilDeref())
		}
		return callSSA(i, caller, callpos, fn.Fn, args, fn.Env)
	case *ssa.Builtin:
		return callBuiltin(caller, callpos, fn, args)
	}
	panic(fmt.Sprintf("cannot call %T", fn))
}

func callSSA(i *interpreter, caller *frame, callpos token.Pos, fn *ssa.Function, args []value, env []value) value {
	if fn.Synthetic == "package initializer" {
		if i.initDirect != fn {
			// a dependency's initializer called from another initializer: packages are
			// initialised lazily on first access to one of their globals instead.
			return nil
		}
		i.initDirect = nil
	}
	// Function bodies are built per package on demand; never look at Blocks of a package
	// that another worker may still be building.
	if fn.Pkg != nil {
		i.eng.buildPkg(fn.Pkg)
	} else if o := fn.Origin(); o != nil && o.Pkg != nil {
		i.eng.buildPkg(o.Pkg)
	}
	fr := &frame{i: i, caller: caller, fn: fn, callpos: callpos}
	if caller != nil {
		fr.g = caller.g
	} else {
		fr.g = i.sched.cur
	}
	if fn.Parent() == nil {
		name := fn.String()
		if strings.Contains(name, ".verif") || strings.Contains(name, ".Verif") {
			if in := lookupIntrinsic(fn); in != nil {
				return in(fr, args)
			}
		}
		if ext := i.eng.external(fn, name); ext != nil {
			if r, handled := ext(fr, args); handled {
				return r
			}
		}
		if fn.Blocks == nil {
			i.eng.buildPkg(fn.Pkg)
			if fn.Blocks == nil {
				panic(&pathEnd{kind: endUnsupported, msg: "no code for function: " + name + i.loc(callpos)})
			}
		}
	}
	if fn.Blocks == nil {
		if fn.Pkg != nil {
			i.eng.buildPkg(fn.Pkg)
		} else if o := fn.Origin(); o != nil && o.Pkg != nil {
			i.eng.buildPkg(o.Pkg)
		}
		if fn.Blocks == nil {
			panic(&pathEnd{kind: endUnsupported, msg: "no code for function: " + fn.String() + i.loc(callpos)})
		}
	}
	if fn.TypeParams().Len() > 0 && len(fn.TypeArgs()) == 0 {
		panic(&pathEnd{kind: endUnsupported, msg: "uninstantiated generic " + fn.String()})
	}
	i.depth++
	if i.depth > 400 {
		panic(&pathEnd{kind: endUnwind, msg: "call depth 400 exceeded in " + fn.String()})
	}
	defer func() { i.depth-- }()

	fr.env = make(map[ssa.Value]value, 16)
	fr.block = fn.Blocks[0]
	fr.locals = make([]value, len(fn.Locals))
	for i, l := range fn.Locals {
		fr.locals[i] = zero(mustDeref(l.Type()))
		fr.env[l] = &fr.locals[i]
	}
	for i, p := range fn.Params {
		fr.env[p] = args[i]
	}
	for i, fv := range fn.FreeVars {
		fr.env[fv] = env[i]
	}
	saveTop := fr.g.top
	fr.g.top = fr
	for fr.block != nil {
		runFrame(fr)
	}
	fr.g.top = saveTop
	return fr.result
}

// isControl reports whether a recovered Go panic value is executor control flow (must
// propagate untouched) rather than a panic of the target program.
func isControl(r interface{}) bool {
	switch r.(type) {
	case *pathEnd, killSignal:
		return true
	}
	return false
}

func runFrame(fr *frame) {
	defer func() {
		if fr.block == nil {
			return // normal return
		}
		r := recover()
		if isControl(r) {
			panic(r)
		}
		switch p := r.(type) {
		case targetPanic:
		case runtime.Error:
			msg := p.Error()
			if strings.Contains(msg, "integer divide by zero") {
				r = targetPanic{rtErr(msg)}
			} else {
				buf := make([]byte, 1500)
				buf = buf[:runtime.Stack(buf, false)]
				panic(&pathEnd{kind: endInternal, msg: fmt.Sprintf("executor runtime error in %s: %v\n%s", fr.fn, msg, buf)})
			}
		case string:
			buf := make([]byte, 1500)
			buf = buf[:runtime.Stack(buf, false)]
			panic(&pathEnd{kind: endInternal, msg: fmt.Sprintf("executor error in %s: %s\n%s", fr.fn, p, buf)})
		default:
			panic(&pathEnd{kind: endInternal, msg: fmt.Sprintf("executor error in %s: %v", fr.fn, r)})
		}
		if fr.i.panicOrigin == "" {
			fr.i.panicOrigin = fmt.Sprintf("%s%s", fr.fn, fr.i.loc(fr.curPos))
		}
		fr.panicking = true
		fr.panic = r
		fr.runDefers()
		fr.block = fr.fn.Recover
		if fr.block == nil {
			// no recover block: result is zero values
			fr.result = zeroResult(fr.fn)
		}
	}()

	for {
		nonPhis := executePhis(fr)
		for _, instr := range nonPhis {
			if visitInstr(fr, instr) == kReturn {
				return
			}
		}
	}
}

func zeroResult(fn *ssa.Function) value {
	res := fn.Signature.Results()
	switch res.Len() {
	case 0:
		return nil
	case 1:
		return zero(res.At(0).Type())
	}
	return zero(res)
}

func executePhis(fr *frame) []ssa.Instruction {
	firstNonPhi := -1
	for i, instr := range fr.block.Instrs {
		if _, ok := instr.(*ssa.Phi); !ok {
			firstNonPhi = i
			break
		}
	}
	nonPhis := fr.block.Instrs[firstNonPhi:]
	if firstNonPhi > 0 {
		phis := fr.block.Instrs[:firstNonPhi]
		predIndex := -1
		for i, p := range fr.block.Preds {
			if p == fr.prevBlock {
				predIndex = i
				break
			}
		}
		fr.phitemps = fr.phitemps[:0]
		for _, phi := range phis {
			phi := phi.(*ssa.Phi)
			fr.phitemps = append(fr.phitemps, fr.get(phi.Edges[predIndex]))
		}
		for i, phi := range phis {
			fr.env[phi.(*ssa.Phi)] = fr.phitemps[i]
		}
	}
	return nonPhis
}

func doRecover(caller *frame) value {
	if caller != nil && !caller.panicking &&
		caller.caller != nil && caller.caller.panicking {
		caller.caller.panicking = false
		p := caller.caller.panic
		caller.caller.panic = nil
		switch p := p.(type) {
		case targetPanic:
			return p.v
		default:
			panic(fmt.Sprintf("unexpected panic type %T in target call to recover()", p))
		}
	}
	return iface{}
}

// callBuiltin interprets a call to builtin fn.
func callBuiltin(caller *frame, callpos token.Pos, fn *ssa.Builtin, args []value) value {
	fr := caller
	switch fn.Name() {
	case "append":
		if len(args) == 1 {
			return args[0]
		}
		arg0 := args[0].([]value)
		var src []value
		switch s := args[1].(type) {
		case string:
			src = strToSym(s).b
		case symstr:
			src = s.b
		case []value:
			src = s
		}
		if len(src) == 0 {
			return arg0
		}
		if len(arg0)+len(src) > cap(arg0) {
			tElt := fn.Type().(*types.Signature).Params().At(0).Type().Underlying().(*types.Slice).Elem()
			fr.i.allocs += int64(len(arg0)+len(src)) * fr.i.eng.sizeof(tElt)
			fr.i.checkAlloc(fr)
		}
		if len(arg0)+len(src) > cap(arg0) {
			// deterministic growth: double
			nc := 2*cap(arg0) + len(src)
			ns := make([]value, len(arg0), nc)
			copy(ns, arg0)
			// spare capacity holds zero values (target code may reslice up to cap)
			tE := fn.Type().(*types.Signature).Params().At(0).Type().Underlying().(*types.Slice).Elem()
			full := ns[:nc]
			for k := len(arg0); k < nc; k++ {
				full[k] = zero(tE)
			}
			arg0 = ns
		}
		for _, e := range src {
			arg0 = append(arg0, copyVal(e))
		}
		return arg0

	case "copy":
		dst := args[0].([]value)
		var src []value
		switch s := args[1].(type) {
		case string:
			src = strToSym(s).b
		case symstr:
			src = s.b
		case []value:
			src = s
		}
		n := len(dst)
		if len(src) < n {
			n = len(src)
		}
		// handle overlap like memmove
		tmp := make([]value, n)
		for i := 0; i < n; i++ {
			tmp[i] = copyVal(src[i])
		}
		copy(dst, tmp)
		return n

	case "close":
		fr.chanClose(args[0].(*schan))
		return nil

	case "delete":
		m := args[0].(*smap)
		if m != nil {
			m.delete(fr, args[1])
		}
		return nil

	case "clear":
		switch x := args[0].(type) {
		case *smap:
			x.clear()
		case []value:
			tElt := fn.Type().(*types.Signature).Params().At(0).Type().Underlying().(*types.Slice).Elem()
			for i := range x {
				x[i] = zero(tElt)
			}
		}
		return nil

	case "print", "println":
		return nil

	case "len":
		switch x := args[0].(type) {
		case string:
			return len(x)
		case symstr:
			return len(x.b)
		case array:
			return len(x)
		case *value:
			return len((*x).(array))
		case []value:
			return len(x)
		case *smap:
			return x.len()
		case *schan:
			if x == nil {
				return 0
			}
			return len(x.buf)
		default:
			panic(fmt.Sprintf("len: illegal operand: %T", x))
		}

	case "cap":
		switch x := args[0].(type) {
		case array:
			return cap(x)
		case *value:
			return cap((*x).(array))
		case []value:
			return cap(x)
		case *schan:
			if x == nil {
				return 0
			}
			return x.cap
		default:
			panic(fmt.Sprintf("cap: illegal operand: %T", x))
		}

	case "min", "max":
		x := args[0]
		t := fn.Type().(*types.Signature).Params().At(0).Type()
		for _, y := range args[1:] {
			var lt value
			if isSym(x) || isSym(y) {
				lt = symBinop(fr, token.LSS, t, t, y, x)
			} else {
				lt = binop(token.LSS, t, y, x)
			}
			if fn.Name() == "max" {
				if isSym(x) || isSym(y) {
					lt = symBinop(fr, token.LSS, t, t, x, y)
				} else {
					lt = binop(token.LSS, t, x, y)
				}
			}
			if lb, ok := lt.(bool); ok {
				if lb {
					x = y
				}
			} else {
				x = norm(smt.Ite(lt.(*smt.Term), toTerm(y), toTerm(x)), t)
			}
		}
		return x

	case "real", "imag", "complex":
		panic(unsupported("complex numbers"))

	case "panic":
		panic(targetPanic{args[0]})

	case "recover":
		return doRecover(caller)

	case "ssa:wrapnilchk":
		recv := args[0]
		if recv.(*value) == nil {
			panic(nilDeref())
		}
		return recv

	case "ssa:deferstack":
		return &caller.defers

	case "String": // unsafe.String(ptr, len)
		n := int(fr.concretizeInt(args[1]))
		switch p := args[0].(type) {
		case sliceData:
			b := make([]value, n)
			copy(b, p.s[:n])
			return normStr(symstr{b})
		case *value:
			if n == 0 {
				return ""
			}
		}
		panic(unsupported(fmt.Sprintf("unsafe.String on %T", args[0])))
	case "SliceData":
		s := args[0].([]value)
		return sliceData{s[:cap(s)]}
	case "StringData":
		return stringData{args[0]}
	case "Slice": // unsafe.Slice(ptr, len)
		n := int(fr.concretizeInt(args[1]))
		switch p := args[0].(type) {
		case stringData:
			b := strToSym(p.s).b
			out := make([]value, n)
			copy(out, b[:n])
			return out
		case sliceData:
			return p.s[:n:n]
		}
		panic(unsupported(fmt.Sprintf("unsafe.Slice on %T", args[0])))
	}
	panic(unsupported("built-in: " + fn.Name()))
}
