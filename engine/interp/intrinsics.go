package interp

import (
	"fmt"
	"go/types"
	"strings"

	"golang.org/x/tools/go/ssa"
	"verif/engine/smt"
)

type intrinsicFn func(fr *frame, args []value) value

// lookupIntrinsic maps harness-facing verif* functions (declared in any package).
func lookupIntrinsic(fn *ssa.Function) intrinsicFn {
	name := fn.Name()
	if in, ok := intrinsics[name]; ok {
		return in
	}
	return nil
}

var intrinsics map[string]intrinsicFn

func init() {
	intrinsics = map[string]intrinsicFn{
		"verifNondetBool":   nondet("bool", 0),
		"verifNondetInt8":   nondet("int8", 8),
		"verifNondetInt16":  nondet("int16", 16),
		"verifNondetInt32":  nondet("int32", 32),
		"verifNondetInt64":  nondet("int64", 64),
		"verifNondetInt":    nondet("int", 64),
		"verifNondetUint8":  nondet("uint8", 8),
		"verifNondetUint16": nondet("uint16", 16),
		"verifNondetUint32": nondet("uint32", 32),
		"verifNondetUint64": nondet("uint64", 64),
		"verifNondetUint":   nondet("uint", 64),
		"verifNondetBytes":  inNondetBytes,
		"verifNondetString": inNondetString,
		"verifRange":        inRange,
		"verifAssume":       inAssume,
		"verifAssert":       inAssert,
		"verifFail":         inFail,
		"verifAnd":          func(fr *frame, a []value) value { return andv(a[0], a[1]) },
		"verifOr":           func(fr *frame, a []value) value { return orv(a[0], a[1]) },
		"verifNot":          func(fr *frame, a []value) value { return notv(a[0]) },
		"verifImplies":      func(fr *frame, a []value) value { return orv(notv(a[0]), a[1]) },
		"verifReached":      inReached,
		"verifRunAll":       func(fr *frame, a []value) value { fr.i.sched.runOthers(fr); return nil },
		"verifYield":        func(fr *frame, a []value) value { fr.i.sched.yield(fr); return nil },
		"verifConcretize":   inConcretize,
		"verifAllocBudget":  inAllocBudget,
		"verifUnwind":       func(fr *frame, a []value) value { fr.i.px.unwind = int(asInt64(a[0])); return nil },
		"verifUnwindCut":    func(fr *frame, a []value) value { fr.i.px.unwind = int(asInt64(a[0])); fr.i.px.unwindCut = true; return nil },
		"verifTerminatesWithin": func(fr *frame, a []value) value { fr.i.px.unwind = int(asInt64(a[0])); fr.i.px.unwindFail = true; return nil },
		"verifObserve":      inObserve,
		"verifSymbolic":     func(fr *frame, a []value) value { return true },
		"verifThorough":     func(fr *frame, a []value) value { return fr.i.eng.Thorough },
		"verifChoose":       func(fr *frame, a []value) value { return fr.i.px.choose(int(asInt64(a[0]))) },
		"verifIteInt":       inIte,
		"verifIteInt64":     inIte,
		"verifIteInt32":     inIte,
		"verifMapOrderAll":  func(fr *frame, a []value) value { fr.i.px.mapOrderAll = a[0].(bool); return nil },
		"verifPreemptions":  func(fr *frame, a []value) value { fr.i.px.preempt = int(asInt64(a[0])); return nil },
		"verifFireTimers":   inFireTimers,
		"verifAdvanceTime":  func(fr *frame, a []value) value { fr.i.now += asInt64(a[0]); return nil },
		"verifBlockedCount": inBlockedCount,
	}
}

func strArg(v value) string {
	switch s := v.(type) {
	case string:
		return s
	}
	return toString(v)
}

func (px *pathCtx) newInput(name, typ string, w uint8) *smt.Term {
	k := px.seq[name]
	px.seq[name] = k + 1
	full := name
	if k > 0 {
		full = fmt.Sprintf("%s#%d", name, k)
	}
	var t *smt.Term
	if px.concrete {
		// concrete run: a pseudo-random value, biased towards small magnitudes and edges
		r := px.rnd()
		v := px.rnd()
		switch r % 4 {
		case 0:
			v %= 4
		case 1:
			v %= 300
		case 2:
			v = -(v % 3) // 0, -1, -2: all-ones patterns
		}
		if w == 0 {
			v &= 1
		}
		t = smt.Const(w, v)
	} else {
		t = smt.Var(w, full)
	}
	px.inputs = append(px.inputs, Input{Name: full, Term: t, Type: typ})
	return t
}

func nondet(typ string, w uint8) intrinsicFn {
	return func(fr *frame, args []value) value {
		t := fr.i.px.newInput(strArg(args[0]), typ, w)
		if t.IsConst() {
			return concreteValue(typ, t.C)
		}
		return t
	}
}

// concreteValue converts a bit pattern to the native value of the named Go type.
func concreteValue(typ string, c uint64) value {
	switch typ {
	case "bool":
		return c != 0
	case "int8":
		return int8(c)
	case "int16":
		return int16(c)
	case "int32":
		return int32(c)
	case "int64":
		return int64(c)
	case "int":
		return int(c)
	case "uint8":
		return uint8(c)
	case "uint16":
		return uint16(c)
	case "uint32":
		return uint32(c)
	case "uint64":
		return c
	case "uint":
		return uint(c)
	}
	panic("concreteValue: " + typ)
}

// splitmix64 drives concrete (translator-validation) runs.
func splitmix64(x uint64) uint64 {
	x += 0x9e3779b97f4a7c15
	x = (x ^ (x >> 30)) * 0xbf58476d1ce4e5b9
	x = (x ^ (x >> 27)) * 0x94d049bb133111eb
	return x ^ (x >> 31)
}

func (px *pathCtx) rnd() uint64 {
	px.rngState = splitmix64(px.rngState)
	return px.rngState
}

func inNondetBytes(fr *frame, args []value) value {
	n := int(fr.concretizeInt(args[1]))
	if n < 0 {
		panic(&pathEnd{kind: endInfeasible, msg: "negative nondet length"})
	}
	name := strArg(args[0])
	out := make([]value, n)
	for i := range out {
		out[i] = fr.i.px.newInput(fmt.Sprintf("%s[%d]", name, i), "uint8", 8)
	}
	return out
}

func inNondetString(fr *frame, args []value) value {
	b := inNondetBytes(fr, args).([]value)
	return normStr(symstr{b})
}

func inRange(fr *frame, args []value) value {
	lo, hi := asInt64(args[1]), asInt64(args[2])
	if lo == hi {
		return int(lo)
	}
	px := fr.i.px
	if px.concrete {
		v := lo + int64(px.rnd()%uint64(hi-lo+1))
		name := strArg(args[0])
		k := px.seq[name]
		px.seq[name] = k + 1
		if k > 0 {
			name = fmt.Sprintf("%s#%d", name, k)
		}
		px.inputs = append(px.inputs, Input{Name: name, Term: smt.Const(64, uint64(v)), Type: "int"})
		return int(v)
	}
	t := px.newInput(strArg(args[0]), "int", 64)
	c := smt.BAnd(smt.Cmp(smt.OpSle, smt.Const(64, uint64(lo)), t), smt.Cmp(smt.OpSle, t, smt.Const(64, uint64(hi))))
	assume(fr, c)
	return t
}

func assume(fr *frame, c *smt.Term) {
	px := fr.i.px
	if c.IsTrue() {
		return
	}
	if c.IsFalse() {
		panic(&pathEnd{kind: endInfeasible, msg: "assumption false"})
	}
	// Assumptions do not fork: they restrict. Feasibility is checked unless replaying.
	px.addPC(c)
	if len(px.trace) >= len(px.prefix) {
		r, _ := px.check(nil, false)
		if r == smt.Unsat {
			panic(&pathEnd{kind: endInfeasible, msg: "assumption unsatisfiable"})
		}
	}
}

func inAssume(fr *frame, args []value) value {
	switch c := args[0].(type) {
	case bool:
		if !c {
			panic(&pathEnd{kind: endInfeasible, msg: "assumption false"})
		}
	case *smt.Term:
		assume(fr, c)
	}
	return nil
}

func inAssert(fr *frame, args []value) value {
	px := fr.i.px
	label := strArg(args[1])
	px.asserts++
	switch c := args[0].(type) {
	case bool:
		if !c {
			px.violationWith(fr, nil, label, "assertion false on this path", "assert")
			// infeasible path (pc unsat): treat as vacuous
		}
	case *smt.Term:
		r, m := px.check(smt.BNot(c), true)
		switch r {
		case smt.Unsat:
			px.crossCheck(smt.BNot(c), label)
			px.addPC(c)
		case smt.Sat:
			v := &Violation{Harness: px.harness, Label: label, Msg: "assertion can be false", Kind: "assert", Model: m, Inputs: px.inputs, Where: px.where(fr)}
			v.Path = append([]Decision(nil), px.trace...)
			px.violations = append(px.violations, v)
			panic(&pathEnd{kind: endViolation, msg: label, label: label})
		default:
			px.assertsUnknown++
			px.note("assertion undecided (solver unknown): " + label)
			px.addPC(c)
		}
	}
	return nil
}

func inFail(fr *frame, args []value) value {
	fr.i.px.asserts++
	fr.i.px.violationWith(fr, nil, strArg(args[0]), "verifFail reached", "assert")
	panic(&pathEnd{kind: endInfeasible, msg: "verifFail on infeasible path"})
}

func inReached(fr *frame, args []value) value {
	fr.i.px.reached = append(fr.i.px.reached, strArg(args[0]))
	return nil
}

func inConcretize(fr *frame, args []value) value {
	if t, ok := args[0].(*smt.Term); ok {
		return fromConst(fr.concretize(t), fr.fn.Signature.Results().At(0).Type())
	}
	return args[0]
}

func inAllocBudget(fr *frame, args []value) value {
	fr.i.px.allocLimit = fr.i.allocs + asInt64(args[0])
	return nil
}

func inObserve(fr *frame, args []value) value {
	fr.i.px.observed = append(fr.i.px.observed, strArg(args[0])+"="+toString(args[1]))
	return nil
}

func inIte(fr *frame, args []value) value {
	t := fr.fn.Signature.Results().At(0).Type()
	switch c := args[0].(type) {
	case bool:
		if c {
			return args[1]
		}
		return args[2]
	case *smt.Term:
		return norm(smt.Ite(c, toTerm(args[1]), toTerm(args[2])), t)
	}
	panic("verifIte")
}

func inBlockedCount(fr *frame, args []value) value {
	n := 0
	for _, g := range fr.i.sched.gs {
		if !g.done && g.blocked {
			n++
		}
	}
	return n
}

func inFireTimers(fr *frame, args []value) value {
	s := fr.i.sched
	for _, t := range s.timers {
		if !t.active {
			continue
		}
		t.active = false
		t.fired = true
		if t.fn != nil {
			s.spawn(fr, 0, t.fn, nil)
		} else if t.ch != nil && len(t.ch.buf) < 1 {
			t.ch.buf = append(t.ch.buf, fr.i.timeValue())
			s.notify(t.ch)
		}
	}
	return nil
}

// fieldIndex finds a struct field by name.
func fieldIndex(t types.Type, name string) int {
	st := t.Underlying().(*types.Struct)
	for i := 0; i < st.NumFields(); i++ {
		if st.Field(i).Name() == name {
			return i
		}
	}
	panic("no field " + name + " in " + t.String())
}

func hasPrefixAny(s string, ps ...string) bool {
	for _, p := range ps {
		if strings.HasPrefix(s, p) {
			return true
		}
	}
	return false
}
