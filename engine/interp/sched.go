package interp

import (
	"fmt"
	"go/token"
	"go/types"

	"golang.org/x/tools/go/ssa"
)

// Goroutines are real Go goroutines that pass a baton: exactly one runs at any time.

type gor struct {
	id      int
	wake    chan struct{}
	done    bool
	blocked bool
	waitOn  []interface{} // objects whose change should wake this goroutine
	top     *frame
	started bool
	name    string
}

type scheduler struct {
	i      *interpreter
	gs     []*gor
	cur    *gor
	killed bool
	end    *pathEnd
	endCh  chan struct{}
	nchan  int
	exited chan struct{}
	live   int
	timers []*timerModel
}

type schan struct {
	id     int
	buf    []value
	cap    int
	closed bool
	sendq  []*sendItem
	recvW  int // goroutines currently blocked wanting to receive
}

type sendItem struct {
	v     value
	taken bool
}

func newScheduler(i *interpreter) *scheduler {
	return &scheduler{i: i, endCh: make(chan struct{}, 1), exited: make(chan struct{}, 64)}
}

func (s *scheduler) newChan(n int) *schan {
	s.nchan++
	return &schan{id: s.nchan, cap: n}
}

// finish records the end of the path (first one wins) and signals the controller.
func (s *scheduler) finish(pe *pathEnd) {
	if s.end == nil {
		s.end = pe
		select {
		case s.endCh <- struct{}{}:
		default:
		}
	}
}

// runMain runs fn as goroutine 0 and returns how the path ended.
func (s *scheduler) runMain(fn *ssa.Function) *pathEnd {
	g := &gor{id: 0, wake: make(chan struct{}, 1), name: "main"}
	s.gs = append(s.gs, g)
	s.cur = g
	s.live = 1
	go s.body(g, func() {
		call(s.i, nil, token.NoPos, fn, nil)
		s.finish(&pathEnd{kind: endOK})
	})
	g.wake <- struct{}{}
	<-s.endCh
	// kill everything else
	s.killed = true
	for _, g := range s.gs {
		if !g.done {
			select {
			case g.wake <- struct{}{}:
			default:
			}
		}
	}
	for s.live > 0 {
		<-s.exited
		s.live--
	}
	return s.end
}

// body is the top-level of every interpreted goroutine.
func (s *scheduler) body(g *gor, f func()) {
	defer func() { s.exited <- struct{}{} }()
	<-g.wake
	if s.killed {
		g.done = true
		return
	}
	g.started = true
	defer func() {
		g.done = true
		r := recover()
		if r == nil {
			if !s.killed && s.end == nil {
				s.switchAway(g)
			}
			return
		}
		switch p := r.(type) {
		case killSignal:
			return
		case *pathEnd:
			s.finish(p)
		case targetPanic:
			// uncaught panic crashes the program
			pe := &pathEnd{kind: endPanic, msg: "panic: " + panicString(s.i, p.v)}
			s.recordPanic(g, pe)
			s.finish(pe)
		default:
			s.finish(&pathEnd{kind: endInternal, msg: fmt.Sprintf("executor crash: %v", r)})
		}
	}()
	f()
}

func panicString(i *interpreter, v value) string {
	if itf, ok := v.(iface); ok {
		if itf.t == theRuntimeErrorString {
			return "runtime error: " + toString(itf.v)
		}
		if s, ok := itf.v.(string); ok {
			return s
		}
		// error values: try Error() result for *errors.errorString
		if p, ok := itf.v.(*value); ok && p != nil {
			if st, ok := (*p).(structure); ok && len(st) == 1 {
				if s, ok := st[0].(string); ok {
					return s
				}
			}
		}
	}
	return toString(v)
}

// recordPanic turns an uncaught target panic into a violation with a model.
func (s *scheduler) recordPanic(g *gor, pe *pathEnd) {
	px := s.i.px
	defer func() {
		// violationWith panics with pathEnd; swallow it here
		recover()
	}()
	fr := g.top
	if fr == nil {
		fr = &frame{i: s.i, g: g, fn: s.i.eng.dummyFn}
	}
	msg := pe.msg
	if s.i.panicOrigin != "" {
		msg += " (raised in " + s.i.panicOrigin + ")"
	}
	px.violationWith(fr, nil, "uncaught-panic", msg, "panic")
}

func (s *scheduler) spawn(fr *frame, pos token.Pos, fn value, args []value) {
	g := &gor{id: len(s.gs), wake: make(chan struct{}, 1)}
	s.gs = append(s.gs, g)
	s.live++
	go s.body(g, func() {
		call(s.i, nil, pos, fn, args)
	})
	s.yield(fr)
}

func (s *scheduler) runnable() []*gor {
	var out []*gor
	for _, g := range s.gs {
		if !g.done && !g.blocked {
			out = append(out, g)
		}
	}
	return out
}

// transfer hands the baton from g to next and parks g until it is woken again.
func (s *scheduler) transfer(g, next *gor) {
	if next == g {
		return
	}
	s.cur = next
	next.wake <- struct{}{}
	<-g.wake
	if s.killed {
		panic(killSignal{})
	}
	s.cur = g
}

// Scheduling policy: delay-bounded (Emmi, Qadeer, Rakamaric 2011). The base scheduler is
// deterministic: non-preemptive, and when the running goroutine blocks or ends the next
// runnable goroutine in round-robin order (by id, after the current one) runs. Every
// scheduling point may spend "delays" from the path's budget: skipping j candidates of the
// default order costs j. With budget 0 this is one canonical schedule; with budget D all
// schedules within D delays of it are explored (the choice is part of the decision vector).

// order returns the runnable goroutines in round-robin order starting after g.
func (s *scheduler) order(g *gor) []*gor {
	var after, before []*gor
	for _, r := range s.gs {
		if r.done || r.blocked || r == g {
			continue
		}
		if r.id > g.id {
			after = append(after, r)
		} else {
			before = append(before, r)
		}
	}
	return append(after, before...)
}

// choose picks one of the candidates (already in default order), spending delays.
func (s *scheduler) chooseGor(cands []*gor) *gor {
	px := s.i.px
	n := len(cands)
	if n > px.preempt+1 {
		n = px.preempt + 1
	}
	k := 0
	if n > 1 {
		k = px.chooseSched(n)
	}
	px.preempt -= k
	return cands[k]
}

// switchAway is called when g terminates: pick someone else to run.
func (s *scheduler) switchAway(g *gor) {
	rs := s.order(g)
	if len(rs) == 0 {
		s.deadlock()
		return
	}
	next := s.chooseGor(rs)
	s.cur = next
	next.wake <- struct{}{}
}

func (s *scheduler) deadlock() {
	// all goroutines blocked or done and nobody finished the path
	var who string
	for _, g := range s.gs {
		if !g.done && g.blocked {
			who += fmt.Sprintf(" g%d", g.id)
			if g.top != nil {
				who += "(" + g.top.fn.Name() + ")"
			}
		}
	}
	s.finish(&pathEnd{kind: endDeadlock, msg: "all goroutines blocked:" + who})
}

// block parks the current goroutine until one of objs changes.
func (s *scheduler) block(fr *frame, objs ...interface{}) {
	g := fr.g
	if g != s.cur {
		panic(&pathEnd{kind: endInternal, msg: "block: not the current goroutine"})
	}
	g.blocked = true
	g.waitOn = objs
	rs := s.order(g)
	if len(rs) == 0 {
		s.deadlock()
		// park forever (controller will kill us)
		<-g.wake
		panic(killSignal{})
	}
	s.transfer(g, s.chooseGor(rs))
	g.waitOn = nil
}

// notify marks goroutines waiting on obj as runnable.
func (s *scheduler) notify(obj interface{}) {
	for _, g := range s.gs {
		if g.blocked {
			for _, o := range g.waitOn {
				if o == obj {
					g.blocked = false
					break
				}
			}
		}
	}
}

// yield is a scheduling point: with preemption budget left, another runnable goroutine may
// be chosen to run instead.
func (s *scheduler) yield(fr *frame) {
	if s.i.px.preempt <= 0 {
		return
	}
	g := fr.g
	rs := s.order(g)
	if len(rs) == 0 {
		return
	}
	// candidate 0: continue running g; then the others in round-robin order
	next := s.chooseGor(append([]*gor{g}, rs...))
	if next != g {
		s.transfer(g, next)
	}
}

// runOthers lets every other goroutine run until all are blocked or done.
func (s *scheduler) runOthers(fr *frame) {
	g := fr.g
	for {
		others := s.order(g)
		if len(others) == 0 {
			return
		}
		s.transfer(g, s.chooseGor(others))
	}
}

// ---- channels ---------------------------------------------------------

func (fr *frame) chanSend(ch *schan, v value) {
	s := fr.i.sched
	s.yield(fr)
	if ch == nil {
		s.block(fr, "nil-chan")
		return
	}
	if ch.closed {
		panic(targetPanic{rtErr("send on closed channel")})
	}
	if len(ch.buf) < ch.cap {
		ch.buf = append(ch.buf, v)
		s.notify(ch)
		return
	}
	it := &sendItem{v: v}
	ch.sendq = append(ch.sendq, it)
	s.notify(ch)
	for !it.taken {
		if ch.closed {
			panic(targetPanic{rtErr("send on closed channel")})
		}
		s.block(fr, ch, it)
	}
}

// tryRecv attempts a non-blocking receive.
func (s *scheduler) tryRecv(ch *schan) (v value, ok, done bool) {
	if ch == nil {
		return nil, false, false
	}
	if len(ch.buf) > 0 {
		v = ch.buf[0]
		ch.buf = ch.buf[1:]
		if len(ch.sendq) > 0 {
			it := ch.sendq[0]
			ch.sendq = ch.sendq[1:]
			ch.buf = append(ch.buf, it.v)
			it.taken = true
			s.notify(it)
		}
		s.notify(ch)
		return v, true, true
	}
	if len(ch.sendq) > 0 {
		it := ch.sendq[0]
		ch.sendq = ch.sendq[1:]
		it.taken = true
		s.notify(it)
		s.notify(ch)
		return it.v, true, true
	}
	if ch.closed {
		return nil, false, true
	}
	return nil, false, false
}

func (fr *frame) chanRecv(instr *ssa.UnOp, ch *schan) value {
	s := fr.i.sched
	s.yield(fr)
	elemT := instr.X.Type().Underlying().(*types.Chan).Elem()
	for {
		v, ok, done := s.tryRecv(ch)
		if done {
			if !ok {
				v = zero(elemT)
			}
			if instr.CommaOk {
				return tuple{v, ok}
			}
			return v
		}
		if ch == nil {
			s.block(fr, "nil-chan")
			continue
		}
		ch.recvW++
		s.block(fr, ch)
		ch.recvW--
	}
}

func (fr *frame) chanClose(ch *schan) {
	if ch == nil {
		panic(targetPanic{rtErr("close of nil channel")})
	}
	if ch.closed {
		panic(targetPanic{rtErr("close of closed channel")})
	}
	ch.closed = true
	fr.i.sched.notify(ch)
}

func (fr *frame) selectStmt(instr *ssa.Select) value {
	s := fr.i.sched
	s.yield(fr)
	for {
		// collect ready cases
		var ready []int
		for i, st := range instr.States {
			ch, _ := fr.get(st.Chan).(*schan)
			if ch == nil {
				continue
			}
			if st.Dir == types.RecvOnly {
				if len(ch.buf) > 0 || len(ch.sendq) > 0 || ch.closed {
					ready = append(ready, i)
				}
			} else {
				if ch.closed || len(ch.buf) < ch.cap || ch.recvW > 0 {
					ready = append(ready, i)
				}
			}
		}
		if len(ready) > 0 {
			k := 0
			if len(ready) > 1 {
				k = fr.i.px.chooseSched(len(ready))
			}
			chosen := ready[k]
			st := instr.States[chosen]
			ch := fr.get(st.Chan).(*schan)
			r := tuple{chosen, false}
			var recvd value
			recvOk := false
			if st.Dir == types.RecvOnly {
				v, ok, _ := s.tryRecv(ch)
				recvd, recvOk = v, ok
			} else {
				if ch.closed {
					panic(targetPanic{rtErr("send on closed channel")})
				}
				ch.buf = append(ch.buf, fr.get(st.Send)) // may exceed cap for a waiting receiver (hand-off)
				s.notify(ch)
			}
			r[1] = recvOk
			for i, st := range instr.States {
				if st.Dir == types.RecvOnly {
					var v value
					if i == chosen && recvOk {
						v = recvd
					} else {
						v = zero(st.Chan.Type().Underlying().(*types.Chan).Elem())
					}
					r = append(r, v)
				}
			}
			return r
		}
		if !instr.Blocking {
			r := tuple{-1, false}
			for _, st := range instr.States {
				if st.Dir == types.RecvOnly {
					r = append(r, zero(st.Chan.Type().Underlying().(*types.Chan).Elem()))
				}
			}
			return r
		}
		var objs []interface{}
		var chans []*schan
		for _, st := range instr.States {
			if ch, _ := fr.get(st.Chan).(*schan); ch != nil {
				objs = append(objs, ch)
				if st.Dir == types.RecvOnly {
					ch.recvW++
					chans = append(chans, ch)
				}
			}
		}
		if len(objs) == 0 {
			objs = append(objs, "empty-select")
		}
		s.block(fr, objs...)
		for _, ch := range chans {
			ch.recvW--
		}
	}
}

// ---- sync primitives (side tables keyed by address) ----------------------

type mutexState struct {
	locked  bool
	readers int
	owner   int
}

func (i *interpreter) mutex(p *value) *mutexState {
	if m, ok := i.side[p].(*mutexState); ok {
		return m
	}
	m := &mutexState{}
	i.side[p] = m
	return m
}

type condState struct {
	waiters []*condWaiter
}
type condWaiter struct{ signaled bool }

type wgState struct{ n int64 }

type timerModel struct {
	ch     *schan
	fn     value
	active bool
	fired  bool
}
