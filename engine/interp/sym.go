package interp

import (
	"fmt"
	"go/token"
	"go/types"

	"verif/engine/smt"
)

// basicInfo returns the bit width and signedness of an integer/bool basic type.
func basicInfo(t types.Type) (w uint8, signed bool, ok bool) {
	b, isB := t.Underlying().(*types.Basic)
	if !isB {
		return 0, false, false
	}
	switch b.Kind() {
	case types.Bool, types.UntypedBool:
		return 0, false, true
	case types.Int8:
		return 8, true, true
	case types.Int16:
		return 16, true, true
	case types.Int32, types.UntypedRune:
		return 32, true, true
	case types.Int64, types.Int, types.UntypedInt:
		return 64, true, true
	case types.Uint8:
		return 8, false, true
	case types.Uint16:
		return 16, false, true
	case types.Uint32:
		return 32, false, true
	case types.Uint64, types.Uint, types.Uintptr:
		return 64, false, true
	}
	return 0, false, false
}

// toTerm converts a concrete scalar (or a term) to a term.
func toTerm(v value) *smt.Term {
	switch v := v.(type) {
	case *smt.Term:
		return v
	case bool:
		return smt.Bool(v)
	case int:
		return smt.Const(64, uint64(v))
	case int8:
		return smt.Const(8, uint64(v))
	case int16:
		return smt.Const(16, uint64(v))
	case int32:
		return smt.Const(32, uint64(v))
	case int64:
		return smt.Const(64, uint64(v))
	case uint:
		return smt.Const(64, uint64(v))
	case uint8:
		return smt.Const(8, uint64(v))
	case uint16:
		return smt.Const(16, uint64(v))
	case uint32:
		return smt.Const(32, uint64(v))
	case uint64:
		return smt.Const(64, v)
	case uintptr:
		return smt.Const(64, uint64(v))
	}
	panic(unsupported(fmt.Sprintf("toTerm: %T is not a scalar", v)))
}

// fromConst converts a constant bit pattern to the native value of basic type t.
func fromConst(c uint64, t types.Type) value {
	b := t.Underlying().(*types.Basic)
	switch b.Kind() {
	case types.Bool, types.UntypedBool:
		return c != 0
	case types.Int, types.UntypedInt:
		return int(c)
	case types.Int8:
		return int8(c)
	case types.Int16:
		return int16(c)
	case types.Int32, types.UntypedRune:
		return int32(c)
	case types.Int64:
		return int64(c)
	case types.Uint:
		return uint(c)
	case types.Uint8:
		return uint8(c)
	case types.Uint16:
		return uint16(c)
	case types.Uint32:
		return uint32(c)
	case types.Uint64:
		return c
	case types.Uintptr:
		return uintptr(c)
	}
	panic(fmt.Sprintf("fromConst: %s", t))
}

// norm returns the native value for constant terms, the term otherwise.
func norm(t *smt.Term, typ types.Type) value {
	if t.IsConst() {
		return fromConst(t.C, typ)
	}
	return t
}

// symBinop implements binary operators when at least one operand is symbolic.
// t is the static type of x.
func symBinop(fr *frame, op token.Token, t types.Type, yt types.Type, x, y value) value {
	w, signed, ok := basicInfo(t)
	if !ok {
		panic(unsupported(fmt.Sprintf("symbolic binop %s on %s", op, t)))
	}
	a := toTerm(x)
	switch op {
	case token.SHL, token.SHR:
		// shift count may have a different type; Go: count >= width gives 0 (or sign fill)
		b := toTerm(y)
		_, ysigned, _ := basicInfo(yt)
		if ysigned {
			if fr.decide(smt.Cmp(smt.OpSlt, b, smt.Const(b.W, 0))) {
				panic(targetPanic{rtErr("runtime error: negative shift amount")})
			}
		}
		var big *smt.Term // count >= w
		if b.W > 8 || uint64(w) < 1<<b.W {
			big = smt.Cmp(smt.OpUle, smt.Const(b.W, uint64(w)), b)
		} else {
			big = smt.False
		}
		var bb *smt.Term
		if b.W > w {
			bb = smt.Extract(b, w-1, 0)
		} else {
			bb = smt.ZExt(b, w)
		}
		var r *smt.Term
		switch {
		case op == token.SHL:
			r = smt.Ite(big, smt.Const(w, 0), smt.Bin(smt.OpShl, a, bb))
		case signed:
			r = smt.Ite(big, smt.Bin(smt.OpAShr, a, smt.Const(w, uint64(w-1))), smt.Bin(smt.OpAShr, a, bb))
		default:
			r = smt.Ite(big, smt.Const(w, 0), smt.Bin(smt.OpLShr, a, bb))
		}
		return norm(r, t)
	}
	b := toTerm(y)
	if a.W != b.W {
		panic(fmt.Sprintf("symBinop %s: width mismatch %d/%d for %s", op, a.W, b.W, t))
	}
	if w == 0 {
		switch op {
		case token.EQL:
			return normBool(smt.Eq(a, b))
		case token.NEQ:
			return normBool(smt.BNot(smt.Eq(a, b)))
		case token.AND, token.LAND:
			return normBool(smt.BAnd(a, b))
		case token.OR, token.LOR:
			return normBool(smt.BOr(a, b))
		}
		panic(unsupported(fmt.Sprintf("symbolic bool binop %s", op)))
	}
	switch op {
	case token.ADD:
		return norm(smt.Bin(smt.OpAdd, a, b), t)
	case token.SUB:
		return norm(smt.Bin(smt.OpSub, a, b), t)
	case token.MUL:
		return norm(smt.Bin(smt.OpMul, a, b), t)
	case token.QUO, token.REM:
		if fr.decide(smt.Eq(b, smt.Const(w, 0))) {
			panic(targetPanic{rtErr("runtime error: integer divide by zero")})
		}
		var o smt.Op
		switch {
		case op == token.QUO && signed:
			o = smt.OpSDiv
		case op == token.QUO:
			o = smt.OpUDiv
		case signed:
			o = smt.OpSRem
		default:
			o = smt.OpURem
		}
		return norm(smt.Bin(o, a, b), t)
	case token.AND:
		return norm(smt.Bin(smt.OpAnd, a, b), t)
	case token.OR:
		return norm(smt.Bin(smt.OpOr, a, b), t)
	case token.XOR:
		return norm(smt.Bin(smt.OpXor, a, b), t)
	case token.AND_NOT:
		return norm(smt.Bin(smt.OpAnd, a, smt.Not(b)), t)
	case token.EQL:
		return normBool(smt.Eq(a, b))
	case token.NEQ:
		return normBool(smt.BNot(smt.Eq(a, b)))
	case token.LSS:
		if signed {
			return normBool(smt.Cmp(smt.OpSlt, a, b))
		}
		return normBool(smt.Cmp(smt.OpUlt, a, b))
	case token.LEQ:
		if signed {
			return normBool(smt.Cmp(smt.OpSle, a, b))
		}
		return normBool(smt.Cmp(smt.OpUle, a, b))
	case token.GTR:
		if signed {
			return normBool(smt.Cmp(smt.OpSlt, b, a))
		}
		return normBool(smt.Cmp(smt.OpUlt, b, a))
	case token.GEQ:
		if signed {
			return normBool(smt.Cmp(smt.OpSle, b, a))
		}
		return normBool(smt.Cmp(smt.OpUle, b, a))
	}
	panic(unsupported(fmt.Sprintf("symbolic binop %s", op)))
}

func symUnop(op token.Token, t types.Type, x *smt.Term) value {
	switch op {
	case token.SUB:
		return norm(smt.Neg(x), t)
	case token.XOR:
		return norm(smt.Not(x), t)
	case token.NOT:
		return normBool(smt.BNot(x))
	}
	panic(unsupported(fmt.Sprintf("symbolic unop %s", op)))
}

// symConv converts symbolic integer x of type src to type dst.
func symConv(fr *frame, dst, src types.Type, x *smt.Term) value {
	dw, _, dok := basicInfo(dst)
	_, ssigned, sok := basicInfo(src)
	if !dok || !sok || dw == 0 {
		if b, ok := dst.Underlying().(*types.Basic); ok {
			if b.Info()&types.IsFloat != 0 {
				// int -> float on a symbolic value: concretise
				c := fr.concretize(x)
				return conv(dst, src, fromConst(c, src))
			}
			if b.Kind() == types.String {
				c := fr.concretize(x)
				return conv(dst, src, fromConst(c, src))
			}
		}
		panic(unsupported(fmt.Sprintf("symbolic conversion %s -> %s", src, dst)))
	}
	var r *smt.Term
	switch {
	case dw <= x.W:
		r = smt.Extract(x, dw-1, 0)
	case ssigned:
		r = smt.SExt(x, dw)
	default:
		r = smt.ZExt(x, dw)
	}
	return norm(r, dst)
}

// symIndexRead builds an ite-chain selecting s[idx] (scalar elements only).
func symIndexRead(fr *frame, elems []value, idx *smt.Term, elemT types.Type) value {
	if len(elems) == 0 {
		panic("symIndexRead on empty")
	}
	if _, _, ok := basicInfo(elemT); !ok || len(elems) > 512 {
		// non-scalar elements: case split on the index
		c := fr.concretize(idx)
		return elems[c]
	}
	allSame := true
	for _, e := range elems[1:] {
		if e != elems[0] {
			allSame = false
			break
		}
	}
	if allSame {
		return elems[0]
	}
	if idx.Op == smt.OpIte && smt.ConstLeaves(idx) {
		// distribute the lookup over an ite-chain index with constant leaves
		var rd func(t *smt.Term) *smt.Term
		rd = func(t *smt.Term) *smt.Term {
			if t.IsConst() {
				if t.C < uint64(len(elems)) {
					return toTerm(elems[t.C])
				}
				return toTerm(elems[0]) // out of range: excluded by the bounds check
			}
			return smt.Ite(t.Args[0], rd(t.Args[1]), rd(t.Args[2]))
		}
		return norm(rd(idx), elemT)
	}
	r := toTerm(elems[len(elems)-1])
	for i := len(elems) - 2; i >= 0; i-- {
		r = smt.Ite(smt.Eq(idx, smt.Const(idx.W, uint64(i))), toTerm(elems[i]), r)
	}
	return norm(r, elemT)
}
