// Derived from golang.org/x/tools/go/ssa/interp (BSD-style licence, The Go Authors),
// heavily modified: symbolic scalars, deterministic maps, modelled channels.

package interp

import (
	"bytes"
	"fmt"
	"go/types"
	"strings"
	"unsafe"

	"golang.org/x/tools/go/ssa"
	"verif/engine/smt"
)

type value interface{}

type tuple []value

type array []value

type iface struct {
	t types.Type // never an "untyped" type
	v value
}

type structure []value

// symstr is a string with (possibly) symbolic bytes; elements are uint8 or *smt.Term (W=8).
type symstr struct{ b []value }

// sliceData / stringData carry the result of unsafe.SliceData / unsafe.StringData.
type sliceData struct{ s []value }
type stringData struct{ s value }

type iter interface {
	next() tuple
}

type closure struct {
	Fn  *ssa.Function
	Env []value
}

type bad struct{}

func mustDeref(t types.Type) types.Type {
	if p, ok := t.Underlying().(*types.Pointer); ok {
		return p.Elem()
	}
	// type parameter core types are not supported (instantiated generics only)
	panic(fmt.Sprintf("mustDeref: %s", t))
}

func isSym(v value) bool {
	_, ok := v.(*smt.Term)
	return ok
}

func sameType(x, y types.Type) bool {
	if x == nil {
		return y == nil
	}
	return y != nil && types.Identical(x, y)
}

// eqv compares two values of static type t and returns bool or *smt.Term.
func eqv(t types.Type, x, y value) value {
	if tx, ok := x.(*smt.Term); ok {
		return normBool(smt.Eq(tx, toTerm(y)))
	}
	if ty, ok := y.(*smt.Term); ok {
		return normBool(smt.Eq(toTerm(x), ty))
	}
	switch x := x.(type) {
	case bool:
		return x == y.(bool)
	case int:
		return x == y.(int)
	case int8:
		return x == y.(int8)
	case int16:
		return x == y.(int16)
	case int32:
		return x == y.(int32)
	case int64:
		return x == y.(int64)
	case uint:
		return x == y.(uint)
	case uint8:
		return x == y.(uint8)
	case uint16:
		return x == y.(uint16)
	case uint32:
		return x == y.(uint32)
	case uint64:
		return x == y.(uint64)
	case uintptr:
		return x == y.(uintptr)
	case float32:
		return x == y.(float32)
	case float64:
		return x == y.(float64)
	case complex64:
		return x == y.(complex64)
	case complex128:
		return x == y.(complex128)
	case string:
		switch y := y.(type) {
		case string:
			return x == y
		case symstr:
			return symstrEq(strToSym(x), y)
		}
	case symstr:
		return symstrEq(x, strToSym(y))
	case *value:
		return x == y.(*value)
	case *schan:
		return x == y.(*schan)
	case unsafe.Pointer:
		return x == y.(unsafe.Pointer)
	case structure:
		y := y.(structure)
		tStruct := t.Underlying().(*types.Struct)
		var acc value = true
		for i, n := 0, tStruct.NumFields(); i < n; i++ {
			if f := tStruct.Field(i); f.Name() != "_" {
				acc = andv(acc, eqv(f.Type(), x[i], y[i]))
				if acc == false {
					return false
				}
			}
		}
		return acc
	case array:
		y := y.(array)
		tElt := t.Underlying().(*types.Array).Elem()
		var acc value = true
		for i, xi := range x {
			acc = andv(acc, eqv(tElt, xi, y[i]))
			if acc == false {
				return false
			}
		}
		return acc
	case iface:
		y := y.(iface)
		if !sameType(x.t, y.t) {
			return false
		}
		if x.t == nil {
			return true
		}
		return eqv(x.t, x.v, y.v)
	case rtype:
		return types.Identical(x.t, y.(rtype).t)
	}
	panic(targetPanic{rtErr(fmt.Sprintf("runtime error: comparing uncomparable type %s", t))})
}

func andv(a, b value) value {
	if a == true {
		return b
	}
	if b == true {
		return a
	}
	if a == false || b == false {
		return false
	}
	return normBool(smt.BAnd(toTerm(a), toTerm(b)))
}

func orv(a, b value) value {
	if a == false {
		return b
	}
	if b == false {
		return a
	}
	if a == true || b == true {
		return true
	}
	return normBool(smt.BOr(toTerm(a), toTerm(b)))
}

func notv(a value) value {
	if b, ok := a.(bool); ok {
		return !b
	}
	return normBool(smt.BNot(a.(*smt.Term)))
}

func normBool(t *smt.Term) value {
	if t.IsConst() {
		return t.C != 0
	}
	return t
}

func strToSym(s value) symstr {
	switch s := s.(type) {
	case symstr:
		return s
	case string:
		b := make([]value, len(s))
		for i := 0; i < len(s); i++ {
			b[i] = s[i]
		}
		return symstr{b}
	}
	panic(fmt.Sprintf("strToSym %T", s))
}

// normStr returns a Go string when every byte is concrete.
func normStr(s symstr) value {
	for _, e := range s.b {
		if _, ok := e.(uint8); !ok {
			return s
		}
	}
	b := make([]byte, len(s.b))
	for i, e := range s.b {
		b[i] = e.(uint8)
	}
	return string(b)
}

func symstrEq(x, y symstr) value {
	if len(x.b) != len(y.b) {
		return false
	}
	var acc value = true
	for i := range x.b {
		acc = andv(acc, eqv(nil, x.b[i], y.b[i]))
		if acc == false {
			return false
		}
	}
	return acc
}

func strLen(s value) int {
	switch s := s.(type) {
	case string:
		return len(s)
	case symstr:
		return len(s.b)
	}
	panic(fmt.Sprintf("strLen %T", s))
}

// load returns a copy of the value at addr (deep for aggregates).
func load(T types.Type, addr *value) value {
	switch T := T.Underlying().(type) {
	case *types.Struct:
		v := (*addr).(structure)
		a := make(structure, len(v))
		for i := range a {
			a[i] = load(T.Field(i).Type(), &v[i])
		}
		return a
	case *types.Array:
		v := (*addr).(array)
		a := make(array, len(v))
		for i := range a {
			a[i] = load(T.Elem(), &v[i])
		}
		return a
	default:
		return *addr
	}
}

func store(T types.Type, addr *value, v value) {
	switch T := T.Underlying().(type) {
	case *types.Struct:
		lhs := (*addr).(structure)
		rhs := v.(structure)
		for i := range lhs {
			store(T.Field(i).Type(), &lhs[i], rhs[i])
		}
	case *types.Array:
		lhs := (*addr).(array)
		rhs := v.(array)
		for i := range lhs {
			store(T.Elem(), &lhs[i], rhs[i])
		}
	default:
		*addr = v
	}
}

// copyVal deep-copies aggregates (structs/arrays are values).
func copyVal(v value) value {
	switch v := v.(type) {
	case structure:
		a := make(structure, len(v))
		for i := range v {
			a[i] = copyVal(v[i])
		}
		return a
	case array:
		a := make(array, len(v))
		for i := range v {
			a[i] = copyVal(v[i])
		}
		return a
	}
	return v
}

func writeValue(buf *bytes.Buffer, v value, depth int) {
	if depth > 4 {
		buf.WriteString("…")
		return
	}
	switch v := v.(type) {
	case nil, bool, int, int8, int16, int32, int64, uint, uint8, uint16, uint32, uint64, uintptr, float32, float64, complex64, complex128, string:
		fmt.Fprintf(buf, "%v", v)
	case *smt.Term:
		buf.WriteString("sym:" + v.String())
	case symstr:
		buf.WriteString("symstr[")
		for i, e := range v.b {
			if i > 0 {
				buf.WriteString(" ")
			}
			writeValue(buf, e, depth+1)
		}
		buf.WriteString("]")
	case *smap:
		buf.WriteString("map[")
		sep := ""
		for _, e := range v.live() {
			buf.WriteString(sep)
			sep = " "
			writeValue(buf, e.key, depth+1)
			buf.WriteString(":")
			writeValue(buf, e.val, depth+1)
		}
		buf.WriteString("]")
	case *schan:
		fmt.Fprintf(buf, "chan#%d", v.id)
	case *value:
		if v == nil {
			buf.WriteString("<nil>")
		} else {
			buf.WriteString("&")
			writeValue(buf, *v, depth+1)
		}
	case iface:
		if v.t == nil {
			buf.WriteString("<nil>")
			return
		}
		fmt.Fprintf(buf, "(%s, ", v.t)
		writeValue(buf, v.v, depth+1)
		buf.WriteString(")")
	case structure:
		buf.WriteString("{")
		for i, e := range v {
			if i > 0 {
				buf.WriteString(" ")
			}
			writeValue(buf, e, depth+1)
		}
		buf.WriteString("}")
	case array:
		buf.WriteString("[")
		for i, e := range v {
			if i > 0 {
				buf.WriteString(" ")
			}
			writeValue(buf, e, depth+1)
		}
		buf.WriteString("]")
	case []value:
		buf.WriteString("[")
		for i, e := range v {
			if i > 0 {
				buf.WriteString(" ")
			}
			if i > 16 {
				buf.WriteString("…")
				break
			}
			writeValue(buf, e, depth+1)
		}
		buf.WriteString("]")
	case *ssa.Function:
		if v == nil {
			buf.WriteString("<nil func>")
		} else {
			buf.WriteString(v.String())
		}
	case *ssa.Builtin:
		buf.WriteString(v.Name())
	case *closure:
		buf.WriteString("closure:" + v.Fn.String())
	case rtype:
		buf.WriteString(v.t.String())
	case tuple:
		buf.WriteString("(")
		for i, e := range v {
			if i > 0 {
				buf.WriteString(", ")
			}
			writeValue(buf, e, depth+1)
		}
		buf.WriteString(")")
	default:
		fmt.Fprintf(buf, "<%T>", v)
	}
}

func toString(v value) string {
	var b bytes.Buffer
	writeValue(&b, v, 0)
	return b.String()
}

// rtype is a minimal reflect.Type stand-in (used by a few externals).
type rtype struct {
	t types.Type
}

// ------------------------------------------------------------------------
// Deterministic insertion-ordered map.

type mentry struct {
	key, val value
	dead     bool
}

type smap struct {
	keyType types.Type
	ents    []*mentry
	index   map[interface{}]*mentry // concrete keys only
	n       int
	symKeys int // number of live entries whose key is not concretely hashable
}

func newSmap(kt types.Type) *smap {
	return &smap{keyType: kt, index: map[interface{}]*mentry{}}
}

// ckey returns a Go-comparable representation of a fully concrete key, or ok=false if the
// key contains symbolic parts.
func ckey(k value) (interface{}, bool) {
	switch k := k.(type) {
	case *smt.Term, symstr:
		return nil, false
	case structure:
		var sb strings.Builder
		sb.WriteString("S{")
		for _, f := range k {
			c, ok := ckey(f)
			if !ok {
				return nil, false
			}
			fmt.Fprintf(&sb, "%T:%v;", c, c)
		}
		sb.WriteString("}")
		return sb.String(), true
	case array:
		var sb strings.Builder
		sb.WriteString("A[")
		for _, f := range k {
			c, ok := ckey(f)
			if !ok {
				return nil, false
			}
			fmt.Fprintf(&sb, "%T:%v;", c, c)
		}
		sb.WriteString("]")
		return sb.String(), true
	case iface:
		if k.t == nil {
			return "I<nil>", true
		}
		c, ok := ckey(k.v)
		if !ok {
			return nil, false
		}
		return fmt.Sprintf("I(%s|%T:%v)", types.TypeString(k.t, nil), c, c), true
	case rtype:
		return "T:" + k.t.String(), true
	case []value, *smap, *closure:
		panic(targetPanic{rtErr("runtime error: hash of unhashable type")})
	}
	return k, true
}

func (m *smap) live() []*mentry {
	var out []*mentry
	for _, e := range m.ents {
		if !e.dead {
			out = append(out, e)
		}
	}
	return out
}

func (m *smap) len() int {
	if m == nil {
		return 0
	}
	return m.n
}

// find locates the entry for key k. Equality with symbolic content is decided through fr
// (forking when needed).
func (m *smap) find(fr *frame, k value) *mentry {
	if m == nil {
		return nil
	}
	ck, conc := ckey(k)
	if conc {
		if e, ok := m.index[ck]; ok {
			return e
		}
		if m.symKeys == 0 {
			return nil
		}
	}
	for _, e := range m.ents {
		if e.dead {
			continue
		}
		if conc {
			if _, ec := ckey(e.key); ec {
				continue // concrete vs. concrete already decided by index
			}
		}
		if fr.decideV(eqv(m.keyType, k, e.key)) {
			return e
		}
	}
	return nil
}

func (m *smap) insert(fr *frame, k, v value) {
	if e := m.find(fr, k); e != nil {
		e.val = v
		return
	}
	e := &mentry{key: copyVal(k), val: v}
	m.ents = append(m.ents, e)
	m.n++
	if ck, ok := ckey(k); ok {
		m.index[ck] = e
	} else {
		m.symKeys++
	}
}

func (m *smap) delete(fr *frame, k value) {
	e := m.find(fr, k)
	if e == nil {
		return
	}
	e.dead = true
	m.n--
	if ck, ok := ckey(e.key); ok {
		delete(m.index, ck)
	} else {
		m.symKeys--
	}
	if len(m.ents) > 32 && m.n < len(m.ents)/2 {
		m.ents = m.live()
	}
}

func (m *smap) clear() {
	if m == nil {
		return
	}
	for _, e := range m.ents {
		e.dead = true
	}
	m.ents = nil
	m.index = map[interface{}]*mentry{}
	m.n = 0
	m.symKeys = 0
}

type smapIter struct {
	ents []*mentry
	i    int
}

func (it *smapIter) next() tuple {
	for it.i < len(it.ents) {
		e := it.ents[it.i]
		it.i++
		if !e.dead {
			return tuple{true, copyVal(e.key), e.val}
		}
	}
	return tuple{false, nil, nil}
}

type stringIter struct {
	fr *frame
	s  value
	i  int
}

func (it *stringIter) next() tuple {
	n := strLen(it.s)
	if it.i >= n {
		return tuple{false, nil, nil}
	}
	switch s := it.s.(type) {
	case string:
		r, sz := decodeRuneInString(s[it.i:])
		idx := it.i
		it.i += sz
		return tuple{true, idx, r}
	case symstr:
		// Symbolic bytes: only ASCII is supported without concretisation.
		b := s.b[it.i]
		idx := it.i
		if c, ok := b.(uint8); ok && c < 0x80 {
			it.i++
			return tuple{true, idx, int32(c)}
		}
		if t, ok := b.(*smt.Term); ok {
			if it.fr.decide(smt.Cmp(smt.OpUlt, t, smt.Const(8, 0x80))) {
				it.i++
				return tuple{true, idx, smt.ZExt(t, 32)}
			}
		}
		// non-ASCII: concretise the remaining bytes
		rest := make([]byte, 0, n-it.i)
		for _, e := range s.b[it.i:] {
			rest = append(rest, uint8(it.fr.concretize(e)))
		}
		r, sz := decodeRuneInString(string(rest))
		it.i += sz
		return tuple{true, idx, r}
	}
	panic("stringIter")
}

func decodeRuneInString(s string) (rune, int) {
	for i, r := range s {
		_ = i
		sz := len(string(r))
		if r == 0xFFFD {
			// could be an actual U+FFFD (3 bytes) or an invalid byte (1)
			if len(s) >= 3 && s[:3] == "\xef\xbf\xbd" {
				return r, 3
			}
			return r, 1
		}
		return r, sz
	}
	return 0xFFFD, 0
}
