package smt

import (
	"bufio"
	"fmt"
	"io"
	"os/exec"
	"strconv"
	"strings"
	"time"
)

type Result int

const (
	Unsat Result = iota
	Sat
	Unknown
)

func (r Result) String() string { return [...]string{"unsat", "sat", "unknown"}[r] }

// Solver is one persistent SMT solver process speaking SMT-LIB2 on stdin/stdout.
type Solver struct {
	Kind      string // z3 | z3-new | cvc5
	cmd       *exec.Cmd
	in        io.WriteCloser
	out       *bufio.Reader
	pr        *Printer
	TimeoutMs int
	Queries   int
	NSat      int
	NUnsat    int
	NUnknown  int
	Errors    int
	Time      time.Duration
	LastErr   string
	Log       io.Writer
	clean     bool
}

func NewSolver(kind string, timeoutMs int) (*Solver, error) {
	var cmd *exec.Cmd
	switch kind {
	case "z3", "z3-new":
		cmd = exec.Command(kind, "-in", "-smt2")
	case "cvc5":
		cmd = exec.Command("cvc5", "--incremental", "--lang=smt2", "--produce-models", fmt.Sprintf("--tlimit-per=%d", timeoutMs))
	default:
		return nil, fmt.Errorf("unknown solver %q", kind)
	}
	in, err := cmd.StdinPipe()
	if err != nil {
		return nil, err
	}
	out, err := cmd.StdoutPipe()
	if err != nil {
		return nil, err
	}
	cmd.Stderr = cmd.Stdout
	if err := cmd.Start(); err != nil {
		return nil, err
	}
	s := &Solver{Kind: kind, cmd: cmd, in: in, out: bufio.NewReaderSize(out, 1<<16), TimeoutMs: timeoutMs}
	s.Reset()
	return s, nil
}

func (s *Solver) Close() {
	if s.in != nil {
		s.in.Close()
	}
	if s.cmd != nil && s.cmd.Process != nil {
		s.cmd.Process.Kill()
		s.cmd.Wait()
	}
}

func (s *Solver) send(cmds string) []string {
	t0 := time.Now()
	defer func() { s.Time += time.Since(t0) }()
	if s.Log != nil {
		io.WriteString(s.Log, cmds)
	}
	io.WriteString(s.in, cmds)
	io.WriteString(s.in, "(echo \"@@done\")\n")
	var lines []string
	for {
		line, err := s.out.ReadString('\n')
		line = strings.TrimSpace(line)
		if line == "@@done" || line == "\"@@done\"" {
			break
		}
		if line != "" {
			lines = append(lines, line)
		}
		if err != nil {
			s.LastErr = "solver died: " + err.Error()
			s.Errors++
			break
		}
	}
	if s.Log != nil {
		for _, l := range lines {
			io.WriteString(s.Log, "; -> "+l+"\n")
		}
		fmt.Fprintf(s.Log, "; took %v\n", time.Since(t0))
	}
	return lines
}

// Reset clears all assertions and definitions. It is lazy: a solver that received nothing
// since the last reset is left alone.
func (s *Solver) Reset() {
	if s.clean {
		return
	}
	s.clean = true
	s.pr = NewPrinter()
	var sb strings.Builder
	sb.WriteString("(reset)\n")
	if s.Kind == "cvc5" {
		sb.WriteString("(set-logic ALL)\n")
	} else {
		fmt.Fprintf(&sb, "(set-option :timeout %d)\n", s.TimeoutMs)
	}
	sb.WriteString("(set-option :produce-models true)\n")
	s.send(sb.String())
}

func hasError(lines []string) (string, bool) {
	for _, l := range lines {
		if strings.HasPrefix(l, "(error") {
			return l, true
		}
	}
	return "", false
}

// Assert adds t permanently (until Reset).
func (s *Solver) Assert(t *Term) {
	if t.IsTrue() {
		return
	}
	s.clean = false
	var sb strings.Builder
	n := s.pr.Define(&sb, t)
	fmt.Fprintf(&sb, "(assert %s)\n", n)
	lines := s.send(sb.String())
	if e, bad := hasError(lines); bad {
		s.Errors++
		s.LastErr = e
	}
}

// Check decides satisfiability of the asserted terms plus extra (not retained).
// When model is true and the result is Sat, the values of all declared variables are
// returned.
func (s *Solver) Check(extra *Term, model bool) (Result, map[string]uint64) {
	s.Queries++
	s.clean = false
	var sb strings.Builder
	var n string
	if extra != nil {
		n = s.pr.Define(&sb, extra)
	}
	sb.WriteString("(push 1)\n")
	if extra != nil {
		fmt.Fprintf(&sb, "(assert %s)\n", n)
	}
	sb.WriteString("(check-sat)\n")
	lines := s.send(sb.String())
	res := Unknown
	if e, bad := hasError(lines); bad {
		s.Errors++
		s.LastErr = e
	} else {
		for _, l := range lines {
			switch l {
			case "sat":
				res = Sat
			case "unsat":
				res = Unsat
			}
		}
	}
	var m map[string]uint64
	if res == Sat && model {
		m = s.model()
		if m == nil {
			res = Unknown
		}
	}
	s.send("(pop 1)\n")
	switch res {
	case Sat:
		s.NSat++
	case Unsat:
		s.NUnsat++
	default:
		s.NUnknown++
	}
	return res, m
}

func (s *Solver) model() map[string]uint64 {
	m := map[string]uint64{}
	vars := s.pr.Vars()
	if len(vars) == 0 {
		return m
	}
	var sb strings.Builder
	sb.WriteString("(get-value (")
	for _, v := range vars {
		sb.WriteString("|" + v.Name + "| ")
	}
	sb.WriteString("))\n")
	lines := s.send(sb.String())
	if e, bad := hasError(lines); bad {
		s.Errors++
		s.LastErr = e
		return nil
	}
	txt := strings.Join(lines, " ")
	// parse ((|name| #x..) (|name| true) ...)
	i := 0
	for i < len(txt) {
		j := strings.IndexByte(txt[i:], '|')
		if j < 0 {
			break
		}
		i += j + 1
		k := strings.IndexByte(txt[i:], '|')
		if k < 0 {
			break
		}
		name := txt[i : i+k]
		i += k + 1
		// value token
		for i < len(txt) && txt[i] == ' ' {
			i++
		}
		e := i
		depth := 0
		for e < len(txt) {
			c := txt[e]
			if c == '(' {
				depth++
			} else if c == ')' {
				if depth == 0 {
					break
				}
				depth--
				if depth == 0 {
					e++
					break
				}
			} else if c == ' ' && depth == 0 {
				break
			}
			e++
		}
		tok := strings.TrimSpace(txt[i:e])
		i = e
		var v uint64
		switch {
		case tok == "true":
			v = 1
		case tok == "false":
			v = 0
		case strings.HasPrefix(tok, "#x"):
			v, _ = strconv.ParseUint(tok[2:], 16, 64)
		case strings.HasPrefix(tok, "#b"):
			v, _ = strconv.ParseUint(tok[2:], 2, 64)
		case strings.HasPrefix(tok, "(_ bv"):
			f := strings.Fields(tok[5:])
			v, _ = strconv.ParseUint(f[0], 10, 64)
		default:
			s.LastErr = "unparsed model value " + tok
			s.Errors++
			return nil
		}
		m[name] = v
	}
	return m
}
