// Package smt holds bit-vector/boolean terms with local simplification and an
// SMT-LIB2 printer. Terms are immutable and may be shared between goroutines.
package smt

import (
	"fmt"
	"math/bits"
	"strings"
	"sync/atomic"
)

type Op uint8

const (
	OpConst Op = iota
	OpVar
	OpAdd
	OpSub
	OpMul
	OpUDiv
	OpSDiv
	OpURem
	OpSRem
	OpAnd
	OpOr
	OpXor
	OpNot // bitwise
	OpNeg
	OpShl
	OpLShr
	OpAShr
	OpConcat
	OpExtract // C = hi<<8 | lo
	OpZExt    // to width W
	OpSExt
	OpIte
	OpEq
	OpUlt
	OpUle
	OpSlt
	OpSle
	OpBAnd
	OpBOr
	OpBNot
	OpUF // uninterpreted function Name(args) -> W
)

var opNames = map[Op]string{
	OpAdd: "bvadd", OpSub: "bvsub", OpMul: "bvmul", OpUDiv: "bvudiv", OpSDiv: "bvsdiv",
	OpURem: "bvurem", OpSRem: "bvsrem", OpAnd: "bvand", OpOr: "bvor", OpXor: "bvxor",
	OpNot: "bvnot", OpNeg: "bvneg", OpShl: "bvshl", OpLShr: "bvlshr", OpAShr: "bvashr",
	OpConcat: "concat", OpIte: "ite", OpEq: "=", OpUlt: "bvult", OpUle: "bvule",
	OpSlt: "bvslt", OpSle: "bvsle", OpBAnd: "and", OpBOr: "or", OpBNot: "not",
}

// Term is a bit-vector (W in 1..64) or boolean (W == 0) expression.
type Term struct {
	Op   Op
	W    uint8
	C    uint64 // constant value, or extract hi/lo
	Name string // variable / UF name
	Args []*Term
	ID   uint64
	Size uint32 // rough dag-unaware size, saturating
}

var idCtr uint64

func mk(op Op, w uint8, args ...*Term) *Term {
	t := &Term{Op: op, W: w, Args: args, ID: atomic.AddUint64(&idCtr, 1)}
	sz := uint32(1)
	for _, a := range args {
		if sz+a.Size < sz {
			sz = ^uint32(0)
		} else {
			sz += a.Size
		}
	}
	t.Size = sz
	return t
}

func mask(w uint8) uint64 {
	if w >= 64 {
		return ^uint64(0)
	}
	return (uint64(1) << w) - 1
}

var (
	True  = &Term{Op: OpConst, W: 0, C: 1, Size: 1}
	False = &Term{Op: OpConst, W: 0, C: 0, Size: 1}
)

func Bool(b bool) *Term {
	if b {
		return True
	}
	return False
}

func Const(w uint8, v uint64) *Term {
	if w == 0 {
		return Bool(v != 0)
	}
	return &Term{Op: OpConst, W: w, C: v & mask(w), Size: 1}
}

func Var(w uint8, name string) *Term {
	t := mk(OpVar, w)
	t.Name = name
	return t
}

func (t *Term) IsConst() bool { return t.Op == OpConst }
func (t *Term) IsTrue() bool  { return t.Op == OpConst && t.W == 0 && t.C == 1 }
func (t *Term) IsFalse() bool { return t.Op == OpConst && t.W == 0 && t.C == 0 }
func (t *Term) IsBool() bool  { return t.W == 0 }

func sext(v uint64, w uint8) int64 {
	if w >= 64 {
		return int64(v)
	}
	sh := 64 - w
	return int64(v<<sh) >> sh
}

// Same reports cheap structural identity (pointer, or equal constants).
func Same(a, b *Term) bool {
	if a == b {
		return true
	}
	if a.Op == OpConst && b.Op == OpConst {
		return a.W == b.W && a.C == b.C
	}
	if a.Op != b.Op || a.W != b.W || a.C != b.C || a.Name != b.Name || len(a.Args) != len(b.Args) {
		return false
	}
	if a.Size > 64 {
		return false
	}
	for i := range a.Args {
		if !Same(a.Args[i], b.Args[i]) {
			return false
		}
	}
	return true
}

func foldBin(op Op, w uint8, x, y uint64) (uint64, bool) {
	m := mask(w)
	switch op {
	case OpAdd:
		return (x + y) & m, true
	case OpSub:
		return (x - y) & m, true
	case OpMul:
		return (x * y) & m, true
	case OpUDiv:
		if y == 0 {
			return m, true
		}
		return x / y, true
	case OpURem:
		if y == 0 {
			return x, true
		}
		return x % y, true
	case OpSDiv:
		sx, sy := sext(x, w), sext(y, w)
		if sy == 0 {
			if sx < 0 {
				return 1, true
			}
			return m, true
		}
		if sy == -1 {
			return uint64(-sx) & m, true
		}
		return uint64(sx/sy) & m, true
	case OpSRem:
		sx, sy := sext(x, w), sext(y, w)
		if sy == 0 {
			return x, true
		}
		if sy == -1 {
			return 0, true
		}
		return uint64(sx%sy) & m, true
	case OpAnd:
		return x & y, true
	case OpOr:
		return x | y, true
	case OpXor:
		return x ^ y, true
	case OpShl:
		if y >= uint64(w) {
			return 0, true
		}
		return (x << y) & m, true
	case OpLShr:
		if y >= uint64(w) {
			return 0, true
		}
		return x >> y, true
	case OpAShr:
		sx := sext(x, w)
		if y >= uint64(w) {
			y = uint64(w) - 1
		}
		return uint64(sx>>y) & m, true
	}
	return 0, false
}

// Bin builds a binary bit-vector operation of the operands' width.
func Bin(op Op, a, b *Term) *Term {
	if a.W != b.W {
		panic(fmt.Sprintf("smt.Bin %v: width mismatch %d vs %d", op, a.W, b.W))
	}
	w := a.W
	if a.IsConst() && b.IsConst() {
		if v, ok := foldBin(op, w, a.C, b.C); ok {
			return Const(w, v)
		}
	}
	switch op {
	case OpAdd:
		if a.IsConst() && a.C == 0 {
			return b
		}
		if b.IsConst() && b.C == 0 {
			return a
		}
		// (x + c1) + c2
		if b.IsConst() && a.Op == OpAdd && a.Args[1].IsConst() {
			return Bin(OpAdd, a.Args[0], Const(w, a.Args[1].C+b.C))
		}
	case OpSub:
		if b.IsConst() && b.C == 0 {
			return a
		}
		if a == b {
			return Const(w, 0)
		}
		if b.IsConst() {
			return Bin(OpAdd, a, Const(w, -b.C))
		}
	case OpMul:
		if a.IsConst() && a.C == 0 || b.IsConst() && b.C == 0 {
			return Const(w, 0)
		}
		if a.IsConst() && a.C == 1 {
			return b
		}
		if b.IsConst() && b.C == 1 {
			return a
		}
	case OpAnd:
		if a.IsConst() && a.C == 0 || b.IsConst() && b.C == 0 {
			return Const(w, 0)
		}
		if a.IsConst() && a.C == mask(w) {
			return b
		}
		if b.IsConst() && b.C == mask(w) {
			return a
		}
		if a == b {
			return a
		}
		// zext(x) & c where c covers all of x's bits
		if b.IsConst() && a.Op == OpZExt && b.C&mask(a.Args[0].W) == mask(a.Args[0].W) {
			return a
		}
	case OpOr:
		if a.IsConst() && a.C == 0 {
			return b
		}
		if b.IsConst() && b.C == 0 {
			return a
		}
		if a == b {
			return a
		}
	case OpXor:
		if a.IsConst() && a.C == 0 {
			return b
		}
		if b.IsConst() && b.C == 0 {
			return a
		}
		if a == b {
			return Const(w, 0)
		}
	case OpShl, OpLShr, OpAShr:
		if b.IsConst() && b.C == 0 {
			return a
		}
		if a.IsConst() && a.C == 0 {
			return a
		}
		if b.IsConst() && b.C >= uint64(w) && op != OpAShr {
			return Const(w, 0)
		}
	case OpUDiv, OpSDiv:
		if b.IsConst() && b.C == 1 {
			return a
		}
	}
	return mk(op, w, a, b)
}

func Not(a *Term) *Term {
	if a.IsConst() {
		return Const(a.W, ^a.C)
	}
	if a.Op == OpNot {
		return a.Args[0]
	}
	return mk(OpNot, a.W, a)
}

func Neg(a *Term) *Term {
	if a.IsConst() {
		return Const(a.W, -a.C)
	}
	return mk(OpNeg, a.W, a)
}

func Extract(a *Term, hi, lo uint8) *Term {
	w := hi - lo + 1
	if lo == 0 && w == a.W {
		return a
	}
	if a.IsConst() {
		return Const(w, a.C>>lo)
	}
	switch a.Op {
	case OpZExt, OpSExt:
		in := a.Args[0]
		if hi < in.W {
			return Extract(in, hi, lo)
		}
		if a.Op == OpZExt && lo >= in.W {
			return Const(w, 0)
		}
		if lo == 0 {
			if a.Op == OpZExt {
				return ZExt(in, w)
			}
			return SExt(in, w)
		}
	case OpExtract:
		ilo := uint8(a.C & 0xff)
		return Extract(a.Args[0], hi+ilo, lo+ilo)
	case OpConcat:
		lw := a.Args[1].W
		if hi < lw {
			return Extract(a.Args[1], hi, lo)
		}
		if lo >= lw {
			return Extract(a.Args[0], hi-lw, lo-lw)
		}
	case OpAnd, OpOr, OpXor:
		if a.Size < 16 {
			return Bin(a.Op, Extract(a.Args[0], hi, lo), Extract(a.Args[1], hi, lo))
		}
	case OpIte:
		if constLeaves(a) {
			return Ite(a.Args[0], Extract(a.Args[1], hi, lo), Extract(a.Args[2], hi, lo))
		}
	}
	t := mk(OpExtract, w, a)
	t.C = uint64(hi)<<8 | uint64(lo)
	return t
}

func ZExt(a *Term, w uint8) *Term {
	if w == a.W {
		return a
	}
	if w < a.W {
		return Extract(a, w-1, 0)
	}
	if a.IsConst() {
		return Const(w, a.C)
	}
	if a.Op == OpZExt {
		return ZExt(a.Args[0], w)
	}
	if a.Op == OpIte && constLeaves(a) {
		return Ite(a.Args[0], ZExt(a.Args[1], w), ZExt(a.Args[2], w))
	}
	return mk(OpZExt, w, a)
}

func SExt(a *Term, w uint8) *Term {
	if w == a.W {
		return a
	}
	if w < a.W {
		return Extract(a, w-1, 0)
	}
	if a.IsConst() {
		return Const(w, uint64(sext(a.C, a.W)))
	}
	if a.Op == OpSExt {
		return SExt(a.Args[0], w)
	}
	if a.Op == OpZExt {
		return ZExt(a.Args[0], w)
	}
	if a.Op == OpIte && constLeaves(a) {
		return Ite(a.Args[0], SExt(a.Args[1], w), SExt(a.Args[2], w))
	}
	return mk(OpSExt, w, a)
}

// constLeaves reports whether a is an ite-chain all of whose leaves are constants
// (bounded depth), e.g. the result of a table lookup or of bits.Len.
func constLeaves(a *Term) bool {
	for d := 0; d < 300; d++ {
		if a.IsConst() {
			return true
		}
		if a.Op != OpIte {
			return false
		}
		if a.Args[1].IsConst() {
			a = a.Args[2]
		} else if a.Args[2].IsConst() {
			a = a.Args[1]
		} else {
			return false
		}
	}
	return false
}

// ConstLeaves is the exported form of constLeaves.
func ConstLeaves(a *Term) bool { return constLeaves(a) }

func Concat(hi, lo *Term) *Term {
	if hi.IsConst() && lo.IsConst() {
		return Const(hi.W+lo.W, hi.C<<lo.W|lo.C)
	}
	if hi.IsConst() && hi.C == 0 {
		return ZExt(lo, hi.W+lo.W)
	}
	return mk(OpConcat, hi.W+lo.W, hi, lo)
}

func Ite(c, a, b *Term) *Term {
	if c.IsConst() {
		if c.C != 0 {
			return a
		}
		return b
	}
	if a == b || (a.IsConst() && b.IsConst() && a.W == b.W && a.C == b.C) {
		return a
	}
	if a.W != b.W {
		panic("smt.Ite: width mismatch")
	}
	if a.W == 0 {
		if a.IsTrue() && b.IsFalse() {
			return c
		}
		if a.IsFalse() && b.IsTrue() {
			return BNot(c)
		}
		if a.IsTrue() {
			return BOr(c, b)
		}
		if a.IsFalse() {
			return BAnd(BNot(c), b)
		}
		if b.IsTrue() {
			return BOr(BNot(c), a)
		}
		if b.IsFalse() {
			return BAnd(c, a)
		}
	}
	return mk(OpIte, a.W, c, a, b)
}

func Eq(a, b *Term) *Term {
	if a.W != b.W {
		panic(fmt.Sprintf("smt.Eq: width mismatch %d vs %d", a.W, b.W))
	}
	if a == b {
		return True
	}
	if a.IsConst() && b.IsConst() {
		return Bool(a.C == b.C)
	}
	if a.IsConst() {
		a, b = b, a
	}
	if a.W == 0 {
		if b.IsTrue() {
			return a
		}
		if b.IsFalse() {
			return BNot(a)
		}
	}
	if b.IsConst() {
		switch a.Op {
		case OpIte:
			x, y := a.Args[1], a.Args[2]
			if x.IsConst() && y.IsConst() {
				ex, ey := x.C == b.C, y.C == b.C
				switch {
				case ex && ey:
					return True
				case ex:
					return a.Args[0]
				case ey:
					return BNot(a.Args[0])
				default:
					return False
				}
			}
			if x.IsConst() && x.C != b.C {
				return BAnd(BNot(a.Args[0]), Eq(y, b))
			}
			if y.IsConst() && y.C != b.C {
				return BAnd(a.Args[0], Eq(x, b))
			}
			if x.IsConst() && x.C == b.C {
				return BOr(a.Args[0], Eq(y, b))
			}
			if y.IsConst() && y.C == b.C {
				return BOr(BNot(a.Args[0]), Eq(x, b))
			}
		case OpZExt:
			in := a.Args[0]
			if b.C > mask(in.W) {
				return False
			}
			return Eq(in, Const(in.W, b.C))
		case OpSExt:
			in := a.Args[0]
			if uint64(sext(b.C&mask(in.W), in.W))&mask(a.W) != b.C {
				return False
			}
			return Eq(in, Const(in.W, b.C))
		case OpAdd:
			if a.Args[1].IsConst() {
				return Eq(a.Args[0], Const(a.W, b.C-a.Args[1].C))
			}
		}
	}
	if Same(a, b) {
		return True
	}
	return mk(OpEq, 0, a, b)
}

func cmpFold(op Op, w uint8, x, y uint64) bool {
	switch op {
	case OpUlt:
		return x < y
	case OpUle:
		return x <= y
	case OpSlt:
		return sext(x, w) < sext(y, w)
	case OpSle:
		return sext(x, w) <= sext(y, w)
	}
	panic("cmpFold")
}

// Cmp builds an ordering predicate (OpUlt, OpUle, OpSlt, OpSle).
func Cmp(op Op, a, b *Term) *Term {
	if a.W != b.W {
		panic(fmt.Sprintf("smt.Cmp: width mismatch %d vs %d", a.W, b.W))
	}
	if a.IsConst() && b.IsConst() {
		return Bool(cmpFold(op, a.W, a.C, b.C))
	}
	if a == b {
		return Bool(op == OpUle || op == OpSle)
	}
	w := a.W
	switch op {
	case OpUlt:
		if b.IsConst() && b.C == 0 {
			return False
		}
		if a.Op == OpZExt && b.IsConst() && b.C > mask(a.Args[0].W) {
			return True
		}
	case OpUle:
		if a.IsConst() && a.C == 0 {
			return True
		}
		if b.IsConst() && b.C == mask(w) {
			return True
		}
		if a.Op == OpZExt && b.IsConst() && b.C >= mask(a.Args[0].W) {
			return True
		}
	case OpSlt:
		// zext(x) <s 0 is false
		if a.Op == OpZExt && b.IsConst() && sext(b.C, w) <= 0 {
			return False
		}
		if a.Op == OpZExt && b.IsConst() && sext(b.C, w) > int64(mask(a.Args[0].W)) {
			return True
		}
	case OpSle:
		if a.IsConst() && b.Op == OpZExt && sext(a.C, w) <= 0 {
			return True
		}
		if a.Op == OpZExt && b.IsConst() && sext(b.C, w) >= int64(mask(a.Args[0].W)) {
			return True
		}
		if a.Op == OpZExt && b.IsConst() && sext(b.C, w) < 0 {
			return False
		}
	}
	return mk(op, 0, a, b)
}

func BNot(a *Term) *Term {
	if a.IsConst() {
		return Bool(a.C == 0)
	}
	if a.Op == OpBNot {
		return a.Args[0]
	}
	return mk(OpBNot, 0, a)
}

func BAnd(a, b *Term) *Term {
	if a.IsFalse() || b.IsFalse() {
		return False
	}
	if a.IsTrue() {
		return b
	}
	if b.IsTrue() {
		return a
	}
	if a == b {
		return a
	}
	return mk(OpBAnd, 0, a, b)
}

func BOr(a, b *Term) *Term {
	if a.IsTrue() || b.IsTrue() {
		return True
	}
	if a.IsFalse() {
		return b
	}
	if b.IsFalse() {
		return a
	}
	if a == b {
		return a
	}
	return mk(OpBOr, 0, a, b)
}

func Implies(a, b *Term) *Term { return BOr(BNot(a), b) }

func UF(name string, w uint8, args ...*Term) *Term {
	t := mk(OpUF, w, args...)
	t.Name = name
	return t
}

// Popcount etc. helpers used by math/bits intrinsics.
func LeadingZerosConst(v uint64, w uint8) uint64 {
	return uint64(bits.LeadingZeros64(v&mask(w))) - uint64(64-w)
}

func sortOf(w uint8) string {
	if w == 0 {
		return "Bool"
	}
	return fmt.Sprintf("(_ BitVec %d)", w)
}

func constLit(t *Term) string {
	if t.W == 0 {
		if t.C != 0 {
			return "true"
		}
		return "false"
	}
	if t.W%4 == 0 {
		return fmt.Sprintf("#x%0*x", int(t.W/4), t.C)
	}
	return fmt.Sprintf("#b%0*b", int(t.W), t.C)
}

// Printer emits incremental SMT-LIB definitions for terms; every non-leaf node becomes a
// zero-ary define-fun so that DAG sharing is preserved.
type Printer struct {
	names map[*Term]string
	vars  []*Term
	ufs   map[string]bool
	n     int
}

func NewPrinter() *Printer {
	return &Printer{names: map[*Term]string{}, ufs: map[string]bool{}}
}

func (p *Printer) Vars() []*Term { return p.vars }

// Define returns the name for t, appending any needed declarations to sb.
func (p *Printer) Define(sb *strings.Builder, t *Term) string {
	if t.Op == OpConst {
		return constLit(t)
	}
	if n, ok := p.names[t]; ok {
		return n
	}
	// iterative post-order to avoid deep recursion
	type fr struct {
		t *Term
		i int
	}
	stack := []fr{{t, 0}}
	for len(stack) > 0 {
		top := &stack[len(stack)-1]
		if _, ok := p.names[top.t]; ok {
			stack = stack[:len(stack)-1]
			continue
		}
		if top.i < len(top.t.Args) {
			a := top.t.Args[top.i]
			top.i++
			if a.Op != OpConst {
				if _, ok := p.names[a]; !ok {
					stack = append(stack, fr{a, 0})
				}
			}
			continue
		}
		p.emit(sb, top.t)
		stack = stack[:len(stack)-1]
	}
	return p.names[t]
}

func (p *Printer) ref(t *Term) string {
	if t.Op == OpConst {
		return constLit(t)
	}
	return p.names[t]
}

func (p *Printer) emit(sb *strings.Builder, t *Term) {
	switch t.Op {
	case OpVar:
		name := "|" + t.Name + "|"
		p.names[t] = name
		p.vars = append(p.vars, t)
		fmt.Fprintf(sb, "(declare-const %s %s)\n", name, sortOf(t.W))
		return
	}
	p.n++
	name := fmt.Sprintf("t%d", p.n)
	p.names[t] = name
	var body string
	switch t.Op {
	case OpExtract:
		body = fmt.Sprintf("((_ extract %d %d) %s)", t.C>>8, t.C&0xff, p.ref(t.Args[0]))
	case OpZExt:
		body = fmt.Sprintf("((_ zero_extend %d) %s)", t.W-t.Args[0].W, p.ref(t.Args[0]))
	case OpSExt:
		body = fmt.Sprintf("((_ sign_extend %d) %s)", t.W-t.Args[0].W, p.ref(t.Args[0]))
	case OpUF:
		fn := "|uf_" + t.Name + "|"
		if !p.ufs[fn] {
			p.ufs[fn] = true
			var as []string
			for _, a := range t.Args {
				as = append(as, sortOf(a.W))
			}
			fmt.Fprintf(sb, "(declare-fun %s (%s) %s)\n", fn, strings.Join(as, " "), sortOf(t.W))
		}
		if len(t.Args) == 0 {
			body = fn
		} else {
			var as []string
			for _, a := range t.Args {
				as = append(as, p.ref(a))
			}
			body = "(" + fn + " " + strings.Join(as, " ") + ")"
		}
	default:
		var as []string
		for _, a := range t.Args {
			as = append(as, p.ref(a))
		}
		body = "(" + opNames[t.Op] + " " + strings.Join(as, " ") + ")"
	}
	fmt.Fprintf(sb, "(define-fun %s () %s %s)\n", name, sortOf(t.W), body)
}

// Eval evaluates t under a full assignment of variables (by name). UF terms are not
// supported (returns ok=false).
func Eval(t *Term, env map[string]uint64) (v uint64, ok bool) {
	memo := map[*Term]uint64{}
	var ev func(t *Term) (uint64, bool)
	ev = func(t *Term) (uint64, bool) {
		if t.Op == OpConst {
			return t.C, true
		}
		if v, ok := memo[t]; ok {
			return v, true
		}
		var r uint64
		switch t.Op {
		case OpVar:
			x, ok := env[t.Name]
			if !ok {
				return 0, false
			}
			r = x & mask1(t.W)
		case OpUF:
			return 0, false
		default:
			var a [3]uint64
			for i, x := range t.Args {
				v, ok := ev(x)
				if !ok {
					return 0, false
				}
				a[i] = v
			}
			switch t.Op {
			case OpNot:
				r = ^a[0] & mask(t.W)
			case OpNeg:
				r = -a[0] & mask(t.W)
			case OpExtract:
				r = (a[0] >> (t.C & 0xff)) & mask(t.W)
			case OpZExt:
				r = a[0]
			case OpSExt:
				r = uint64(sext(a[0], t.Args[0].W)) & mask(t.W)
			case OpConcat:
				r = a[0]<<t.Args[1].W | a[1]
			case OpIte:
				if a[0] != 0 {
					r = a[1]
				} else {
					r = a[2]
				}
			case OpEq:
				r = b2u(a[0] == a[1])
			case OpUlt, OpUle, OpSlt, OpSle:
				r = b2u(cmpFold(t.Op, t.Args[0].W, a[0], a[1]))
			case OpBAnd:
				r = a[0] & a[1]
			case OpBOr:
				r = a[0] | a[1]
			case OpBNot:
				r = a[0] ^ 1
			default:
				x, ok := foldBin(t.Op, t.W, a[0], a[1])
				if !ok {
					return 0, false
				}
				r = x
			}
		}
		memo[t] = r
		return r, true
	}
	return ev(t)
}

func mask1(w uint8) uint64 {
	if w == 0 {
		return 1
	}
	return mask(w)
}

func b2u(b bool) uint64 {
	if b {
		return 1
	}
	return 0
}

func (t *Term) String() string {
	var sb strings.Builder
	var pr func(t *Term, d int)
	pr = func(t *Term, d int) {
		switch t.Op {
		case OpConst:
			sb.WriteString(constLit(t))
		case OpVar:
			sb.WriteString(t.Name)
		default:
			if d > 6 {
				sb.WriteString("…")
				return
			}
			sb.WriteString("(")
			switch t.Op {
			case OpExtract:
				fmt.Fprintf(&sb, "extract[%d:%d]", t.C>>8, t.C&0xff)
			case OpZExt:
				fmt.Fprintf(&sb, "zext%d", t.W)
			case OpSExt:
				fmt.Fprintf(&sb, "sext%d", t.W)
			case OpUF:
				sb.WriteString(t.Name)
			default:
				sb.WriteString(opNames[t.Op])
			}
			for _, a := range t.Args {
				sb.WriteString(" ")
				pr(a, d+1)
			}
			sb.WriteString(")")
		}
	}
	pr(t, 0)
	return sb.String()
}
