package kadm

import (
	"errors"

	"github.com/twmb/franz-go/pkg/kmsg"
)

// Reference model (from the property statement and the GroupMemberLag documentation):
//
//   For a partition (t,p) with optional commit entry C, optional start entry S, optional end
//   entry E:
//     failed  := E missing  ∨  C.Err != nil  ∨  E.Err != nil
//     Err     := errListMissing if E missing, else C.Err if non-nil, else E.Err
//     Lag     := -1                                             if failed
//              = max(0, E.Offset - C.At)                        if C present and C.At >= 0
//              = max(0, E.Offset - S.Offset)                    else if S present and S.Err == nil
//              = max(0, E.Offset)                               else
//   Every partition that is assigned to a member or has a commit entry is reported (the map
//   makes "once" structural); additionally partitions that are only listed in the end offsets
//   are reported as entirely lagging for topics the group consumes.
//   Total = Σ max(0, Lag); TotalByTopic likewise per topic.

var (
	verifC35ErrCommit = errors.New("verif: commit error")
	verifC35ErrStart  = errors.New("verif: start error")
	verifC35ErrEnd    = errors.New("verif: end error")
)

const (
	verifC35Absent = iota
	verifC35OK
	verifC35Err
)

type verifC35TP struct {
	t string
	p int32
}

// cell is the input state of one partition.
type verifC35Cell struct {
	tp     verifC35TP
	owner  int // index of the member it is assigned to, -1 none
	commit int // absent / ok / err
	start  int
	end    int

	sym                  bool // symbolic offsets (else fixed 5 / 2 / 9)
	at, startOff, endOff int64
}

var verifC35TPs = []verifC35TP{{"a", 0}, {"a", 1}, {"b", 0}}

func verifC35Offset(name string, lo int64) int64 {
	v := verifNondetInt64(name)
	verifAssume(verifAnd(v >= lo, v < 1<<62))
	return v
}

// profile sets one of a few representative states for a context partition.
//
//	1 assigned (first consumer), committed, listed     2 committed only, fully listed
//	3 only listed (end ok)                             4 committed, end missing
func verifC35Profile(c *verifC35Cell, k int, owner int) {
	switch k {
	case 1:
		c.owner = owner
		c.commit, c.start, c.end = verifC35OK, verifC35OK, verifC35OK
	case 2:
		c.commit, c.start, c.end = verifC35OK, verifC35OK, verifC35OK
	case 3:
		c.end = verifC35OK
	case 4:
		c.commit = verifC35OK
	}
}

type verifC35World struct {
	group     DescribedGroup
	consumers []int // indices of members with a consumer assignment
	commit    OffsetResponses
	start     ListedOffsets
	end       ListedOffsets
	cells     []*verifC35Cell
	withStart bool
}

// verifC35Members builds the member list: kinds[i] true = consumer assignment, false = raw bytes.
func verifC35Members(kinds ...bool) *verifC35World {
	w := &verifC35World{}
	w.group.Group = "g"
	w.group.Members = make([]DescribedGroupMember, len(kinds))
	for i, k := range kinds {
		w.group.Members[i].MemberID = string(rune('m' + i))
		if k {
			w.consumers = append(w.consumers, i)
		} else {
			w.group.Members[i].Assigned = GroupMemberAssignment{i: []byte{1}} // not a consumer assignment
		}
	}
	for _, tp := range verifC35TPs {
		w.cells = append(w.cells, &verifC35Cell{tp: tp, owner: -1})
	}
	w.withStart = verifChoose(2) == 1 // nil start offsets = CalculateGroupLag
	return w
}

func (w *verifC35World) join(member int, topics ...string) {
	w.group.Members[member].Join = GroupMemberMetadata{i: &kmsg.ConsumerMemberMetadata{Topics: topics}}
}

// chooseOwner: none or any consumer member.
func (w *verifC35World) chooseOwner() int {
	if len(w.consumers) == 0 { // verifChoose(1) must be avoided: natively it would consume a choice
		return -1
	}
	k := verifChoose(len(w.consumers) + 1)
	if k == 0 {
		return -1
	}
	return w.consumers[k-1]
}

func (w *verifC35World) chooseStart() int {
	if !w.withStart {
		return verifC35Absent
	}
	return verifChoose(3)
}

// finish builds assignments and offset maps from the cells.
func (w *verifC35World) finish() {
	for _, mi := range w.consumers {
		asn := &kmsg.ConsumerMemberAssignment{}
		for _, t := range []string{"a", "b"} {
			var ps []int32
			for _, c := range w.cells {
				if c.tp.t == t && c.owner == mi {
					ps = append(ps, c.tp.p)
				}
			}
			if len(ps) > 0 {
				asn.Topics = append(asn.Topics, kmsg.ConsumerMemberAssignmentTopic{Topic: t, Partitions: ps})
			}
		}
		w.group.Members[mi].Assigned = GroupMemberAssignment{i: asn}
	}
	for _, c := range w.cells {
		t, p := c.tp.t, c.tp.p
		if !w.withStart {
			c.start = verifC35Absent
		}
		if c.commit != verifC35Absent {
			c.at = 5
			if c.sym {
				c.at = verifC35Offset("commit.at", -1)
			}
			o := OffsetResponse{Offset: Offset{Topic: t, Partition: p, At: c.at, LeaderEpoch: 3}}
			if c.commit == verifC35Err {
				o.Err = verifC35ErrCommit
			}
			if w.commit == nil {
				w.commit = make(OffsetResponses)
			}
			if w.commit[t] == nil {
				w.commit[t] = make(map[int32]OffsetResponse)
			}
			w.commit[t][p] = o
		}
		if c.start != verifC35Absent {
			c.startOff = 2
			if c.sym {
				c.startOff = verifC35Offset("start.offset", -1)
			}
			o := ListedOffset{Topic: t, Partition: p, Timestamp: -1, Offset: c.startOff}
			if c.start == verifC35Err {
				o.Err = verifC35ErrStart
			}
			if w.start == nil {
				w.start = make(ListedOffsets)
			}
			if w.start[t] == nil {
				w.start[t] = make(map[int32]ListedOffset)
			}
			w.start[t][p] = o
		}
		if c.end != verifC35Absent {
			c.endOff = 9
			if c.sym && c.end == verifC35OK {
				c.endOff = verifC35Offset("end.offset", 0)
			} else if c.sym {
				c.endOff = verifC35Offset("end.offset", -1) // errored listings usually carry -1
			}
			o := ListedOffset{Topic: t, Partition: p, Timestamp: -1, Offset: c.endOff}
			if c.end == verifC35Err {
				o.Err = verifC35ErrEnd
			}
			if w.end == nil {
				w.end = make(ListedOffsets)
			}
			if w.end[t] == nil {
				w.end[t] = make(map[int32]ListedOffset)
			}
			w.end[t][p] = o
		}
	}
}

func (w *verifC35World) run() GroupLag {
	if !w.withStart {
		return CalculateGroupLag(w.group, w.commit, w.end)
	}
	return CalculateGroupLagWithStartOffsets(w.group, w.commit, w.start, w.end)
}

// expected lag of a cell per the reference; failed => (-1, wantErr).
func (c *verifC35Cell) expect() (lag int64, wantErr error) {
	switch {
	case c.end == verifC35Absent:
		return -1, errListMissing
	case c.commit == verifC35Err:
		return -1, verifC35ErrCommit
	case c.end == verifC35Err:
		return -1, verifC35ErrEnd
	}
	base := c.endOff
	if c.start == verifC35OK {
		base = c.endOff - c.startOff
	}
	if c.commit == verifC35OK {
		base = verifIteInt64(c.at >= 0, c.endOff-c.at, base)
	}
	return verifIteInt64(base < 0, 0, base), nil
}

// topic t has at least one assigned or committed partition.
func (w *verifC35World) topicConsumed(t string) bool {
	for _, c := range w.cells {
		if c.tp.t == t && (c.owner >= 0 || c.commit != verifC35Absent) {
			return true
		}
	}
	return false
}

func (w *verifC35World) checkCell(l GroupLag, c *verifC35Cell) (reported bool, lag int64) {
	t, p := c.tp.t, c.tp.p
	got, ok := l.Lookup(t, p)
	m, ok2 := l[t][p]
	verifAssert(ok == ok2, "Lookup agrees with the map")
	assigned := c.owner >= 0
	committed := c.commit != verifC35Absent
	if assigned || committed {
		verifAssert(ok, "every assigned or committed partition is reported")
	}
	if !assigned && !committed && c.end != verifC35Absent && w.topicConsumed(t) {
		verifAssert(ok, "listed partitions of a consumed topic are reported")
	}
	if !assigned && !committed && c.end == verifC35Absent {
		verifAssert(!ok, "a partition that is neither assigned, committed nor listed is not reported")
	}
	if !ok {
		return false, 0
	}
	verifAssert(verifAnd(got.Lag == m.Lag, got.Err == m.Err), "Lookup returns the map entry")
	verifAssert(verifAnd(got.Topic == t, got.Partition == p), "entry names its topic and partition")
	if assigned {
		verifAssert(got.Member == &w.group.Members[c.owner], "entry references the owning member")
	} else {
		verifAssert(got.Member == nil, "entry without owner has no member")
	}
	wantLag, wantErr := c.expect()
	listedOnly := !assigned && !committed
	if wantErr != nil {
		if listedOnly {
			verifAssert(got.Err != nil, "listed-only partition: error is set when the end offset errored")
			verifAssert(got.Lag == -1, "listed-only partition: lag is -1 when the end offset errored")
		} else {
			verifAssert(got.Err != nil, "error is set when end is missing/errored or the commit errored")
			verifAssert(got.Lag == -1, "lag is -1 when end is missing/errored or the commit errored")
		}
		verifAssert(got.Err == wantErr, "error is list-missing, else the commit error, else the end error")
	} else {
		verifAssert(got.Err == nil, "no error when end is listed without error and the commit has no error")
		verifAssert(got.Lag == wantLag, "lag is end minus commit, else end minus start, else end, floored at zero")
		verifAssert(got.Lag >= 0, "lag without error is non-negative")
	}
	// carried inputs
	if committed {
		verifAssert(verifAnd(got.Commit.At == c.at, got.Commit.LeaderEpoch == 3), "entry carries the commit")
	} else {
		verifAssert(got.Commit.At == -1, "entry without commit has At -1")
	}
	verifAssert(verifAnd(got.Commit.Topic == t, got.Commit.Partition == p), "commit names its partition")
	if c.end != verifC35Absent {
		verifAssert(verifAnd(got.End.Offset == c.endOff, (got.End.Err != nil) == (c.end == verifC35Err)), "entry carries the end offset")
	} else {
		verifAssert(got.End.Err == errListMissing, "missing end is marked list-missing")
	}
	if c.start != verifC35Absent {
		verifAssert(verifAnd(got.Start.Offset == c.startOff, (got.Start.Err != nil) == (c.start == verifC35Err)), "entry carries the start offset")
	} else {
		verifAssert(got.Start.Err == errListMissing, "missing start is marked list-missing")
	}
	return true, got.Lag
}

func (w *verifC35World) checkAll(l GroupLag) {
	sum := int64(0)
	byTopic := map[string]int64{}
	count := 0
	for _, c := range w.cells {
		rep, lag := w.checkCell(l, c)
		if rep {
			count++
			pos := verifIteInt64(lag > 0, lag, 0)
			sum += pos
			byTopic[c.tp.t] += pos
		}
	}
	// nothing else is reported
	n := 0
	for t, ps := range l {
		verifAssert(t == "a" || t == "b" || t == "c", "only known topics are reported")
		if t == "c" {
			verifAssert(len(ps) == 0, "a joined-only topic has no partitions")
		}
		n += len(ps)
	}
	verifAssert(n == count, "each partition is reported exactly once and nothing else is reported")
	verifAssert(l.Total() == sum, "Total is the sum of the non-negative lags")
	tb := l.TotalByTopic()
	verifAssert(len(tb) == len(l), "TotalByTopic has one entry per reported topic")
	for t := range l {
		verifAssert(verifAnd(tb[t].Topic == t, tb[t].Lag == byTopic[t]), "TotalByTopic is the per-topic sum of the non-negative lags")
	}
	if len(w.group.Members) == 0 && count > 0 {
		verifAssert(l.IsEmpty(), "lag of a group without members is flagged empty")
	}
	_, ok := l.Lookup("zz", 0)
	verifAssert(!ok, "Lookup of an unknown topic fails")
	_, ok = l.Lookup("a", 7)
	verifAssert(!ok, "Lookup of an unknown partition fails")
}

func verifC35FirstConsumer(w *verifC35World) int {
	if len(w.consumers) == 0 {
		return -1
	}
	return w.consumers[0]
}

// Partition (a,0) in every state (owner, commit/start/end each absent / ok / errored, symbolic
// offsets) next to one other partition in a representative state.
func VerifC35_focusA0() {
	var w *verifC35World
	switch verifChoose(3) {
	case 0:
		w = verifC35Members()
	case 1:
		w = verifC35Members(true)
	case 2:
		w = verifC35Members(false, true)
	}
	f := w.cells[0]
	f.sym = true
	f.owner = w.chooseOwner()
	f.commit = verifChoose(3)
	f.start = w.chooseStart()
	f.end = verifChoose(3)
	switch k := verifChoose(6); k {
	case 0:
	case 1, 2, 3, 4:
		verifC35Profile(w.cells[1], k, verifC35FirstConsumer(w))
	case 5:
		verifC35Profile(w.cells[2], 2, -1)
	}
	if verifThorough() {
		w.cells[1].sym, w.cells[2].sym = true, true
	}
	w.finish()
	w.checkAll(w.run())
	verifReached("c35-focus-a0")
}

// Membership: two consumers, non-consumer members, joined-only topics; partitions owned by
// different members; listed-only partitions of joined or consumed topics.
func VerifC35_members() {
	var w *verifC35World
	switch verifChoose(4) {
	case 0:
		w = verifC35Members(true, true)
	case 1:
		w = verifC35Members(true, false)
		w.join(0, "b", "c")
	case 2:
		w = verifC35Members(false, true)
		w.join(0, "b", "c") // member 0 has no consumer assignment: its join is not considered
		w.join(1, "c")
	case 3:
		w = verifC35Members(true)
		w.join(0, "b", "c")
	}
	f := w.cells[0]
	f.sym = true
	f.owner = w.chooseOwner()
	f.commit = verifChoose(2)
	f.end = verifChoose(2)
	switch verifChoose(3) {
	case 1:
		verifC35Profile(w.cells[1], 1, w.consumers[len(w.consumers)-1])
	case 2:
		verifC35Profile(w.cells[1], 3, -1)
	}
	switch verifChoose(3) {
	case 1:
		verifC35Profile(w.cells[2], 3, -1)
		w.cells[2].sym = true
	case 2:
		verifC35Profile(w.cells[2], 1, w.consumers[0])
	}
	w.finish()
	w.checkAll(w.run())
	verifReached("c35-members")
}

// Partition (a,1) unowned in every commit/start/end state, first partition of the topic varies.
func VerifC35_focusA1() {
	var w *verifC35World
	if verifChoose(2) == 0 {
		w = verifC35Members()
	} else {
		w = verifC35Members(true)
	}
	f := w.cells[1]
	f.sym = true
	if verifThorough() {
		f.owner = w.chooseOwner()
	}
	f.commit = verifChoose(3)
	f.start = w.chooseStart()
	f.end = verifChoose(3)
	verifC35Profile(w.cells[0], verifChoose(5), verifC35FirstConsumer(w))
	if verifThorough() {
		w.cells[0].sym = true
	}
	w.finish()
	w.checkAll(w.run())
	verifReached("c35-focus-a1")
}

// Nil inputs: nil commit, nil start and nil end maps, no members.
func VerifC35_nilInputs() {
	var g DescribedGroup
	l := CalculateGroupLagWithStartOffsets(g, nil, nil, nil)
	verifAssert(len(l) == 0, "no inputs, no lag")
	verifAssert(l.Total() == 0, "empty lag totals zero")
	verifAssert(!l.IsEmpty(), "IsEmpty of an empty result is false")
	_, ok := l.Lookup("a", 0)
	verifAssert(!ok, "Lookup on empty lag fails")
	var nl GroupLag
	_, ok = nl.Lookup("a", 0)
	verifAssert(!ok, "Lookup on nil lag fails")
	verifAssert(nl.Total() == 0, "nil lag totals zero")
	verifReached("c35-nil-inputs")
}
