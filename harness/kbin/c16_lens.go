package kbin

// C16 (kernel under every generated decoder): the array-length readers are what bound the
// memory a decoder allocates — every generated ReadFrom allocates `make([]T, n)` right after
// one of them. On ANY input of 0..8 bytes (enough for a maximal 5-byte uvarint / 10-byte
// varint prefix plus slack) the returned length is never larger than the bytes that remain,
// or the reader is invalidated and the length is 0 (or -1, a null array).
func VerifC16_arrayLengthsBounded() {
	n := verifRange("len", 0, 8)
	in := verifNondetBytes("in", n)
	r := &Reader{Src: in}
	var l int32
	switch verifChoose(3) {
	case 0:
		l = r.ArrayLen()
	case 1:
		l = r.CompactArrayLen()
	case 2:
		l = r.VarintArrayLen()
	}
	if r.Ok() {
		verifAssert(verifOr(l <= 0, int(l) <= len(r.Src)), "an array length read from hostile bytes never exceeds the bytes that remain (bounded allocation)")
	} else {
		verifAssert(l <= 0, "an invalidated reader reports no elements (0, or -1 = null)")
	}
	verifReached("c16-array-lengths")
}
