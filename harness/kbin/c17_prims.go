package kbin

import "math"

// ---- reference LEB128 / zig-zag (written from the Kafka protocol description) ----

func verifRefUvarint64(u uint64) []byte {
	var out []byte
	for k := 0; k < 10; k++ {
		if u < 0x80 {
			break
		}
		out = append(out, byte(u)|0x80)
		u >>= 7
	}
	return append(out, byte(u))
}

func verifEqBytes(a, b []byte) bool {
	if len(a) != len(b) {
		return false
	}
	ok := true
	for i := range a {
		ok = verifAnd(ok, a[i] == b[i])
	}
	return ok
}

// reference decoder: returns value, bytes consumed (0 = truncated, <0 = overflow)
func verifRefDecode(in []byte, maxBytes int, lastMax byte) (uint64, int) {
	var x uint64
	for i := 0; i < maxBytes; i++ {
		if i >= len(in) {
			return 0, 0
		}
		b := in[i]
		if i == maxBytes-1 {
			if b > lastMax {
				return 0, -maxBytes
			}
			return x | uint64(b)<<(7*uint(i)), i + 1
		}
		x |= uint64(b&0x7f) << (7 * uint(i))
		if b&0x80 == 0 {
			return x, i + 1
		}
	}
	return 0, 0
}

// ---- encoders: every 32/64-bit value ----

func VerifC17_uvarintEncode() {
	u := verifNondetUint32("u")
	got := AppendUvarint(nil, u)
	want := verifRefUvarint64(uint64(u))
	verifAssert(verifEqBytes(got, want), "AppendUvarint bytes equal reference LEB128")
	verifAssert(len(got) == UvarintLen(u), "UvarintLen equals encoded length")
	x, n := Uvarint(got)
	verifAssert(verifAnd(x == u, n == len(got)), "Uvarint(AppendUvarint(u)) round trips")
	// appending to a prefix keeps the prefix
	pre := []byte{0xAA, 0xBB}
	got2 := AppendUvarint(pre, u)
	verifAssert(verifAnd(got2[0] == 0xAA, got2[1] == 0xBB), "append keeps prefix")
	verifAssert(verifEqBytes(got2[2:], want), "append after prefix equals reference")
	verifReached("c17-uvarint-encode")
}

func VerifC17_varintEncode() {
	i := verifNondetInt32("i")
	got := AppendVarint(nil, i)
	zz := uint32(i)<<1 ^ uint32(i>>31)
	want := verifRefUvarint64(uint64(zz))
	verifAssert(verifEqBytes(got, want), "AppendVarint bytes equal reference zig-zag LEB128")
	verifAssert(len(got) == VarintLen(i), "VarintLen equals encoded length")
	x, n := Varint(got)
	verifAssert(verifAnd(x == i, n == len(got)), "Varint(AppendVarint(i)) round trips")
	verifReached("c17-varint-encode")
}

func VerifC17_varlongEncode() {
	i := verifNondetInt64("i")
	got := AppendVarlong(nil, i)
	zz := uint64(i)<<1 ^ uint64(i>>63)
	want := verifRefUvarint64(zz)
	verifAssert(verifEqBytes(got, want), "AppendVarlong bytes equal reference zig-zag LEB128")
	verifAssert(len(got) == VarlongLen(i), "VarlongLen equals encoded length")
	x, n := Varlong(got)
	verifAssert(verifAnd(x == i, n == len(got)), "Varlong(AppendVarlong(i)) round trips")
	verifReached("c17-varlong-encode")
}

// ---- decoders: every byte string of length 0..11 ----

func VerifC17_uvarintDecode() {
	n := verifRange("len", 0, 7)
	in := verifNondetBytes("in", n)
	x, c := Uvarint(in)
	rx, rc := verifRefDecode(in, 5, 0x0f)
	verifAssert(c == rc, "Uvarint consumed count equals reference (0 truncated, -5 overflow)")
	if rc > 0 {
		verifAssert(uint64(x) == rx, "Uvarint value equals reference")
		verifAssert(c <= len(in), "never consumes more than the input")
	} else {
		verifAssert(x == 0, "failed decode returns zero")
	}
	verifReached("c17-uvarint-decode")
}

func VerifC17_varintDecode() {
	n := verifRange("len", 0, 7)
	in := verifNondetBytes("in", n)
	x, c := Varint(in)
	rx, rc := verifRefDecode(in, 5, 0x0f)
	verifAssert(c == rc, "Varint consumed count equals reference")
	if rc > 0 {
		u := uint32(rx)
		want := int32(u>>1) ^ -int32(u&1)
		verifAssert(x == want, "Varint value equals zig-zag of reference")
	} else {
		verifAssert(x == 0, "failed decode returns zero")
	}
	verifReached("c17-varint-decode")
}

func VerifC17_varlongDecode() {
	n := verifRange("len", 0, 11)
	in := verifNondetBytes("in", n)
	x, c := Varlong(in)
	rx, rc := verifRefDecode(in, 10, 0x01)
	verifAssert(c == rc, "Varlong consumed count equals reference (0 truncated, -10 overflow)")
	if rc > 0 {
		want := int64(rx>>1) ^ -int64(rx&1)
		verifAssert(x == want, "Varlong value equals zig-zag of reference")
		verifAssert(c <= len(in), "never consumes more than the input")
	} else {
		verifAssert(x == 0, "failed decode returns zero")
	}
	verifReached("c17-varlong-decode")
}

// ---- fixed-width big-endian round trips ----

func VerifC17_fixedWidth() {
	i8, i16, u16 := verifNondetInt8("i8"), verifNondetInt16("i16"), verifNondetUint16("u16")
	i32, u32, i64 := verifNondetInt32("i32"), verifNondetUint32("u32"), verifNondetInt64("i64")
	bo := verifNondetBool("bo")
	var uuid [16]byte
	ub := verifNondetBytes("uuid", 16)
	copy(uuid[:], ub)
	var dst []byte
	dst = AppendBool(dst, bo)
	dst = AppendInt8(dst, i8)
	dst = AppendInt16(dst, i16)
	dst = AppendUint16(dst, u16)
	dst = AppendInt32(dst, i32)
	dst = AppendUint32(dst, u32)
	dst = AppendInt64(dst, i64)
	dst = AppendUuid(dst, uuid)
	verifAssert(len(dst) == 1+1+2+2+4+4+8+16, "fixed-width lengths")
	// big-endian layout
	verifAssert(verifAnd(dst[2] == byte(uint16(i16)>>8), dst[3] == byte(i16)), "int16 big endian")
	verifAssert(verifAnd(dst[6] == byte(uint32(i32)>>24), dst[9] == byte(i32)), "int32 big endian")
	verifAssert(verifAnd(dst[14] == byte(uint64(i64)>>56), dst[21] == byte(i64)), "int64 big endian")
	r := Reader{Src: dst}
	verifAssert(r.Bool() == bo, "bool round trip")
	verifAssert(r.Int8() == i8, "int8 round trip")
	verifAssert(r.Int16() == i16, "int16 round trip")
	verifAssert(r.Uint16() == u16, "uint16 round trip")
	verifAssert(r.Int32() == i32, "int32 round trip")
	verifAssert(r.Uint32() == u32, "uint32 round trip")
	verifAssert(r.Int64() == i64, "int64 round trip")
	got := r.Uuid()
	ok := true
	for k := 0; k < 16; k++ {
		ok = verifAnd(ok, got[k] == uuid[k])
	}
	verifAssert(ok, "uuid round trip")
	verifAssert(verifAnd(r.Complete() == nil, len(r.Src) == 0), "reader complete and drained")
	verifReached("c17-fixed-width")
}

func VerifC17_float64Bits() {
	bitsv := verifNondetUint64("bits")
	f := math.Float64frombits(bitsv)
	dst := AppendFloat64(nil, f)
	verifAssert(len(dst) == 8, "float64 is 8 bytes")
	r := Reader{Src: dst}
	g := r.Float64()
	verifAssert(math.Float64bits(g) == bitsv, "float64 bit pattern round trips")
	verifReached("c17-float64")
}

// ---- Reader on short input: every method sets bad, nils Src, returns zero ----

func verifBadState(r *Reader) bool { return verifAnd(!r.Ok(), verifAnd(r.Src == nil, r.Complete() != nil)) }

func VerifC17_readerShort() {
	need := [...]int{1, 1, 2, 2, 4, 4, 8, 8, 16}
	which := verifRange("which", 0, len(need)-1)
	which = verifConcretize(which)
	n := verifRange("len", 0, need[which]-1)
	in := verifNondetBytes("in", n)
	r := &Reader{Src: in}
	zero := true
	switch which {
	case 0:
		zero = r.Bool() == false
	case 1:
		zero = r.Int8() == 0
	case 2:
		zero = r.Int16() == 0
	case 3:
		zero = r.Uint16() == 0
	case 4:
		zero = r.Int32() == 0
	case 5:
		zero = r.Uint32() == 0
	case 6:
		zero = r.Int64() == 0
	case 7:
		zero = math.Float64bits(r.Float64()) == 0
	case 8:
		zero = r.Uuid() == [16]byte{}
	}
	verifAssert(zero, "short read returns the zero value")
	verifAssert(verifBadState(r), "short read invalidates the reader")
	// every later read also returns zero and keeps it bad
	verifAssert(verifAnd(r.Int32() == 0, verifBadState(r)), "invalidated reader stays invalid")
	verifReached("c17-reader-short")
}

// ---- length-prefixed forms on arbitrary bytes ----

func VerifC17_readerLenPrefixed() {
	n := verifRange("len", 0, 8)
	in := verifNondetBytes("in", n)
	which := verifChoose(9)
	r := &Reader{Src: in}
	before := len(in)
	switch which {
	case 0:
		l := r.ArrayLen()
		verifAssert(verifOr(l <= 0, int(l) <= len(r.Src)), "ArrayLen never exceeds remaining bytes")
	case 1:
		l := r.CompactArrayLen()
		verifAssert(verifOr(l <= 0, int(l) <= len(r.Src)), "CompactArrayLen never exceeds remaining bytes")
	case 2:
		l := r.VarintArrayLen()
		verifAssert(verifOr(l <= 0, int(l) <= len(r.Src)), "VarintArrayLen never exceeds remaining bytes")
	case 3:
		b := r.Bytes()
		verifAssert(b != nil || !r.Ok(), "Bytes never nil unless invalid")
		verifAssert(len(b) <= before, "Bytes within input")
	case 4:
		b := r.CompactBytes()
		verifAssert(b != nil || !r.Ok(), "CompactBytes never nil unless invalid")
	case 5:
		b := r.NullableBytes()
		verifAssert(len(b) <= before, "NullableBytes within input")
	case 6:
		s := r.String()
		verifAssert(len(s) <= before, "String within input")
	case 7:
		s := r.CompactNullableString()
		verifAssert(s == nil || len(*s) <= before, "CompactNullableString within input")
	case 8:
		b := r.VarintBytes()
		verifAssert(len(b) <= before, "VarintBytes within input")
	}
	if !r.Ok() {
		verifAssert(r.Src == nil, "invalid reader has nil Src")
	} else {
		verifAssert(len(r.Src) <= before, "reader only shrinks")
	}
	verifReached("c17-reader-len-prefixed")
}

// ---- string / bytes forms round trip (lengths 0..3, content symbolic) ----

func VerifC17_stringForms() {
	n := verifRange("len", 0, 3)
	s := verifNondetString("s", n)
	b := verifNondetBytes("b", n)
	isNil := verifNondetBool("nil")
	var sp *string
	var bp []byte
	if !isNil {
		sp = &s
		bp = b
	}
	var dst []byte
	dst = AppendString(dst, s)
	dst = AppendCompactString(dst, s)
	dst = AppendNullableString(dst, sp)
	dst = AppendCompactNullableString(dst, sp)
	dst = AppendBytes(dst, b)
	dst = AppendCompactBytes(dst, b)
	dst = AppendNullableBytes(dst, bp)
	dst = AppendCompactNullableBytes(dst, bp)
	dst = AppendVarintString(dst, s)
	dst = AppendVarintBytes(dst, bp)
	dst = AppendArrayLen(dst, n)
	dst = AppendCompactArrayLen(dst, n)
	dst = AppendNullableArrayLen(dst, n, isNil)
	dst = AppendCompactNullableArrayLen(dst, n, isNil)
	dst = append(dst, 1, 2, 3, 4) // keep >= n bytes so array lengths are plausible
	r := &Reader{Src: dst}
	verifAssert(r.String() == s, "String round trip")
	verifAssert(r.CompactString() == s, "CompactString round trip")
	g := r.NullableString()
	verifAssert((g == nil) == isNil && (g == nil || *g == s), "NullableString round trip")
	g = r.CompactNullableString()
	verifAssert((g == nil) == isNil && (g == nil || *g == s), "CompactNullableString round trip")
	verifAssert(verifEqBytes(r.Bytes(), b), "Bytes round trip")
	verifAssert(verifEqBytes(r.CompactBytes(), b), "CompactBytes round trip")
	gb := r.NullableBytes()
	verifAssert((gb == nil) == isNil && verifEqBytes(gb, bp), "NullableBytes round trip")
	gb = r.CompactNullableBytes()
	verifAssert((gb == nil) == isNil && verifEqBytes(gb, bp), "CompactNullableBytes round trip")
	verifAssert(r.VarintString() == s, "VarintString round trip")
	gb = r.VarintBytes()
	verifAssert((gb == nil) == isNil && verifEqBytes(gb, bp), "VarintBytes round trip")
	verifAssert(int(r.ArrayLen()) == n, "ArrayLen round trip")
	verifAssert(int(r.CompactArrayLen()) == n, "CompactArrayLen round trip")
	want := int32(n)
	if isNil {
		want = -1
	}
	verifAssert(r.ArrayLen() == want, "NullableArrayLen round trip")
	verifAssert(r.CompactArrayLen() == want, "CompactNullableArrayLen round trip")
	verifAssert(verifAnd(r.Ok(), len(r.Src) == 4), "reader consumed exactly what was written")
	verifReached("c17-string-forms")
}
