package kfake

import "github.com/twmb/franz-go/pkg/kmsg"

// C07 (server kernel, classic groups): in the eager and cooperative protocols a member revokes
// before it re-sends JoinGroup, so "the previous owner's revoke completes before anyone else is
// assigned" rests on the coordinator finishing a rebalance (bumping the generation and
// answering the parked JoinGroups) only after EVERY member has rejoined — or the rebalance
// timeout fired, which never happens here (timers do not fire in the executor).
//
// A group of 2..3 generation-3 members is in PreparingRebalance. Each step one member
// (chosen per path) sends JoinGroup; a member may send it again while its first one is still
// parked (a retry on a new connection). The step is what handleJoin does for a known member
// in that state: updateMemberAndRebalance. After every step the coordinator's joined-member
// count equals the number of parked JoinGroups, and the generation has moved only if every
// member still in the group rejoined, with nobody evicted. A member may also LEAVE while the
// group waits (parked or not): it is forgotten, also by the joined-member count.
func VerifC07_kfakeClassicJoinAccounting() {
	c := &Cluster{}
	c.cfg.logger = new(nopLogger)
	c.die = make(chan struct{})
	g := &group{c: c, name: "g", members: map[string]*groupMember{}, pending: map[string]*groupMember{},
		staticMembers: map[string]string{}, protocols: map[string]int{}, protocolType: "consumer",
		quitCh: make(chan struct{}), controlCh: make(chan func(), 16), state: groupPreparingRebalance, generation: 3}
	n := 2 + verifChoose(2)
	ids := []string{"a", "b", "c"}[:n]
	mkJoin := func(id string) *kmsg.JoinGroupRequest {
		req := kmsg.NewPtrJoinGroupRequest()
		req.Version = 5
		req.Group = "g"
		req.MemberID = id
		req.ProtocolType = "consumer"
		req.SessionTimeoutMillis = 45000
		req.RebalanceTimeoutMillis = 60000
		p := kmsg.NewJoinGroupRequestProtocol()
		p.Name = "cooperative-sticky"
		req.Protocols = append(req.Protocols, p)
		return req
	}
	for _, id := range ids {
		m := &groupMember{memberID: id, clientID: "cl", join: mkJoin(id)}
		g.members[id] = m
		g.protocols["cooperative-sticky"]++
	}
	g.leader = "a"
	joined := map[string]bool{}
	steps := 3
	if verifThorough() {
		steps = 5
	}
	var corr int32
	left := map[string]bool{}
	for s := 0; s < steps; s++ {
		id := ids[verifChoose(n)]
		m := g.members[id]
		if left[id] {
			continue // a member that left does not come back in this scenario
		}
		verifAssert(m != nil, "no member is evicted while the group waits for joins")
		if m == nil {
			return
		}
		remaining := 0
		for _, x := range ids {
			if !left[x] {
				remaining++
			}
		}
		if verifChoose(3) == 2 && remaining > 1 {
			// the member leaves (LeaveGroup, or its session expires) whether or not its
			// JoinGroup is parked: what handleLeave / the session timer do
			g.updateMemberAndRebalance(m, nil, nil)
			left[id] = true
		} else {
			corr++
			cc := &clientConn{c: c, respCh: make(chan clientResp, 8), done: make(chan struct{})}
			creq := &clientReq{cc: cc, kreq: mkJoin(id), corr: corr}
			g.updateMemberAndRebalance(m, creq, creq.kreq.(*kmsg.JoinGroupRequest))
			joined[id] = true
		}
		all, live := true, 0
		for _, x := range ids {
			if !left[x] {
				live++
				all = all && joined[x]
			}
		}
		if g.generation != 3 {
			verifAssert(all, "a classic rebalance completes (generation bump, JoinGroup answered) only after every member still in the group has rejoined")
			verifAssert(len(g.members) == live, "completing the rebalance evicts nobody who rejoined")
			verifReached("c07-classic-completed")
			return
		}
		parked := 0
		for _, x := range g.members {
			if !x.waitingReply.empty() {
				parked++
			}
		}
		verifAssert(g.state == groupPreparingRebalance, "the group keeps waiting while somebody has not rejoined")
		verifAssert(g.nJoining == parked, "the coordinator's joined-member count equals the number of parked JoinGroup requests (a retried JoinGroup is not counted twice, a departed joiner is not counted at all)")
		verifAssert(len(g.members) == live, "exactly the members that left are gone")
		verifAssert(!all, "once every remaining member has rejoined the rebalance completes at once")
	}
	verifReached("c07-classic")
}
