package kfake

import "github.com/twmb/franz-go/pkg/kmsg"

// C07 (server kernel): KIP-848 reconciliation in kfake never lets two members own the same
// partition at once, keeps its ownership-epoch map consistent, and converges to the target
// assignment once every member has heartbeated.

type verifC07Client struct {
	m     *consumerMember
	owned map[int32]bool // what the client currently consumes (topic t)
}

var verifC07Topic = uuid{1}

func verifC07Parts(mask int) []int32 {
	var out []int32
	for p := int32(0); p < 3; p++ {
		if mask&(1<<p) != 0 {
			out = append(out, p)
		}
	}
	return out
}

func verifC07Asg(mask int) map[uuid][]int32 {
	if mask == 0 {
		return map[uuid][]int32{}
	}
	return map[uuid][]int32{verifC07Topic: verifC07Parts(mask)}
}

func VerifC07_kfakeReconcile() {
	c := &Cluster{}
	c.cfg.logger = new(nopLogger)
	g := &group{c: c, name: "g", typ: "consumer", consumerMembers: map[string]*consumerMember{}, partitionEpochs: map[uuid]map[int32]int32{}}
	nparts := 2
	if verifThorough() {
		nparts = 3
	}
	full := 1<<nparts - 1
	// current (stable, epoch 5) assignment: a disjoint pair of subsets
	cur0 := verifChoose(full + 1)
	cur1 := verifChoose(full + 1)
	if cur0&cur1 != 0 {
		verifAssume(false)
	}
	// new target (epoch 6): a partition of ALL partitions between the two members
	tgt0 := verifChoose(full + 1)
	tgt1 := full &^ tgt0
	cls := []*verifC07Client{}
	for i, cur := range []int{cur0, cur1} {
		m := &consumerMember{memberID: []string{"m0", "m1"}[i], memberEpoch: 5, previousMemberEpoch: 4, state: cmStable,
			lastReconciledSent: verifC07Asg(cur), partitionsPendingRevocation: map[uuid][]int32{}, partAssignmentEpochs: map[uuid]map[int32]int32{}}
		m.targetAssignment = verifC07Asg([]int{tgt0, tgt1}[i])
		g.consumerMembers[m.memberID] = m
		g.addPartitionEpochs(m.lastReconciledSent, 5)
		cl := &verifC07Client{m: m, owned: map[int32]bool{}}
		for _, p := range verifC07Parts(cur) {
			cl.owned[p] = true
		}
		cls = append(cls, cl)
	}
	g.targetAssignmentEpoch = 6

	check := func(when string) {
		excl := true
		for p := int32(0); p < int32(nparts); p++ {
			excl = excl && !(cls[0].owned[p] && cls[1].owned[p])
		}
		verifAssert(excl, "no partition is owned by two members at once")
		// epoch map <-> member holdings
		okMap := true
		for p := int32(0); p < int32(nparts); p++ {
			held := 0
			for _, cl := range cls {
				for _, x := range cl.m.lastReconciledSent[verifC07Topic] {
					if x == p {
						held++
					}
				}
				for _, x := range cl.m.partitionsPendingRevocation[verifC07Topic] {
					if x == p {
						held++
					}
				}
			}
			okMap = okMap && held <= 1 && (g.currentPartitionEpoch(verifC07Topic, p) != -1) == (held == 1)
		}
		verifAssert(okMap, "every partition is held (sent or pending revocation) by at most one member and the ownership-epoch map says exactly that")
		// a client never consumes something the server does not attribute to it
		okSub := true
		for _, cl := range cls {
			for p := range cl.owned {
				in := false
				for _, x := range cl.m.lastReconciledSent[verifC07Topic] {
					in = in || x == p
				}
				for _, x := range cl.m.partitionsPendingRevocation[verifC07Topic] {
					in = in || x == p
				}
				okSub = okSub && (!cl.owned[p] || in)
			}
		}
		verifAssert(okSub, "a member only consumes partitions the coordinator still attributes to it")
		_ = when
	}

	heartbeat := func(cl *verifC07Client, full bool) {
		var owned []kmsg.ConsumerGroupHeartbeatRequestTopic
		if full {
			t := kmsg.NewConsumerGroupHeartbeatRequestTopic()
			t.TopicID = verifC07Topic
			for p := int32(0); p < int32(nparts); p++ {
				if cl.owned[p] {
					t.Partitions = append(t.Partitions, p)
				}
			}
			owned = []kmsg.ConsumerGroupHeartbeatRequestTopic{t}
		}
		if g.maybeReconcile(cl.m, false, owned) {
			// the response carries lastReconciledSent: the client revokes what is missing,
			// then starts consuming what is new
			now := map[int32]bool{}
			for _, p := range cl.m.lastReconciledSent[verifC07Topic] {
				now[p] = true
			}
			cl.owned = now
		}
	}

	check("initial")
	steps := 3
	if verifThorough() {
		steps = 4
	}
	for s := 0; s < steps; s++ {
		heartbeat(cls[verifChoose(2)], verifChoose(2) == 1)
		check("step")
	}
	// fairness: both members heartbeat with full reports a few more rounds -> convergence
	for r := 0; r < 3; r++ {
		heartbeat(cls[0], true)
		check("round")
		heartbeat(cls[1], true)
		check("round")
	}
	conv := true
	for i, cl := range cls {
		want := map[int32]bool{}
		for _, p := range verifC07Parts([]int{tgt0, tgt1}[i]) {
			want[p] = true
		}
		conv = conv && len(cl.owned) == len(want) && cl.m.state == cmStable && cl.m.memberEpoch == 6
		for p := range want {
			conv = conv && cl.owned[p]
		}
	}
	verifAssert(conv, "once both members keep heartbeating, each owns exactly its target assignment at the target epoch")
	verifReached("c07-kfake-reconcile")
}
