package kfake

import "github.com/twmb/franz-go/pkg/kmsg"

// C11 (coordinator kernel in kfake): when does EndTxn answer success. A client treats a
// successful EndTxn(commit) as "the transaction is committed" — also when the request is a
// retry (the first answer was lost) or arrives one epoch behind (KIP-890 part 2: the completed
// EndTxn already bumped the epoch). The real doEnd is run from every coordinator state
// (producer epoch symbolic, in a transaction or not, last completed transaction committed or
// aborted) on every request (version 4 or 5, epoch symbolic, commit or abort):
//
//	success of a COMMIT  =>  this call commits the open transaction at the current epoch, or
//	                         the last completed transaction WAS a commit and the request is its
//	                         retry (same epoch, or v5 exactly one epoch behind);
//	success of an ABORT  =>  this call aborts the open transaction, or retries a completed
//	                         abort, or (v5) aborts an empty transaction at the current epoch.
//verif:replace (*Cluster).coordinator
func (c *Cluster) verifC11Coordinator(id string) *broker { return c.bs[0] } // one broker; the real one hashes the id with crypto code

func VerifC11_kfakeEndTxnTruth() {
	c := &Cluster{}
	c.cfg.logger = new(nopLogger)
	b0 := &broker{c: c}
	c.bs = []*broker{b0}
	ps := &pids{c: c, ids: map[int64]*pidinfo{}, byTxid: map[string]*pidinfo{}, txs: map[*pidinfo]struct{}{}}
	epoch := verifNondetInt16("coordinator.epoch")
	reqEpoch := verifNondetInt16("request.epoch")
	verifAssume(verifAnd(verifAnd(epoch >= 0, epoch < 1000), verifAnd(reqEpoch >= 0, reqEpoch < 1000)))
	inTx := verifChoose(2) == 1
	last := verifChoose(2) == 1
	pi := &pidinfo{pids: ps, id: 7, epoch: epoch, txid: "tx", inTx: inTx, lastWasCommit: last}
	ps.ids[7] = pi
	ps.byTxid["tx"] = pi
	if inTx {
		ps.txs[pi] = struct{}{}
	}
	req := kmsg.NewPtrEndTxnRequest()
	req.Version = int16(4 + verifChoose(2))
	req.TransactionalID = "tx"
	req.ProducerID = 7
	req.ProducerEpoch = reqEpoch
	req.Commit = verifChoose(2) == 1
	creq := &clientReq{cc: &clientConn{c: c, b: b0}, kreq: req}

	resp := ps.doEnd(creq).(*kmsg.EndTxnResponse)

	ok := resp.ErrorCode == 0
	cur := reqEpoch == epoch
	behind := req.Version >= 5 && epoch == reqEpoch+1
	completesNow := cur && inTx
	retryOfSame := !inTx && last == req.Commit && (cur || behind)
	emptyAbort := req.Version >= 5 && cur && !inTx && !req.Commit
	if ok && req.Commit {
		verifAssert(completesNow || retryOfSame, "EndTxn(commit) answers success only if this call commits the open transaction or the transaction it retries was committed")
	}
	if ok && !req.Commit {
		verifAssert(completesNow || retryOfSame || emptyAbort, "EndTxn(abort) answers success only if this call aborts the transaction, retries a completed abort, or aborts an empty transaction")
	}
	if completesNow {
		verifAssert(ok, "EndTxn at the current epoch inside a transaction completes it")
		now := ps.byTxid["tx"]
		if now == nil {
			now = pi
		}
		verifAssert(!now.inTx && now.lastWasCommit == req.Commit, "a completed transaction is recorded with its outcome")
	}
	verifReached("c11-kfake-endtxn")
}
