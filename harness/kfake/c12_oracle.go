package kfake

// C12 oracle: kfake's validateOneAckBatch, threaded over the acknowledgement batches of one
// partition exactly as processShareAcks does (prevEnd starts at -1), accepts a sequence of
// batches iff it is strictly ascending and non-overlapping (first <= last, first > previous
// last) and every batch's type list is legal. The kgo harnesses of C12 use that predicate.
func VerifC12_oracleIsAscendingRule() {
	n := 3
	if verifThorough() {
		n = 5
	}
	n = 1 + verifChoose(n)
	maxType := int8(3 + verifChoose(2)) // 3 before KIP-1222 renew, 4 with
	prevEnd := int64(-1)
	accepted := true
	want := true
	last := int64(-1)
	for i := 0; i < n; i++ {
		f, l := verifNondetInt64("first"), verifNondetInt64("last")
		t := verifNondetInt8("type")
		if accepted {
			ec := validateOneAckBatch(f, l, []int8{t}, &prevEnd, maxType)
			if ec != 0 {
				accepted = false
			}
		}
		want = verifAnd(want, verifAnd(verifAnd(f <= l, f > last), verifAnd(t >= 0, t <= maxType)))
		last = l
	}
	verifAssert(accepted == want, "kfake accepts a partition's batches iff they are strictly ascending, non-overlapping and typed 0..max")
	verifReached("c12-oracle")
}
