package kfake

// C12 (broker side in kfake): which acknowledgement batches the share partition accepts. "A
// record whose accept or reject was confirmed without error ... is never redelivered" rests on
// the broker confirming only acknowledgements for records that are CURRENTLY acquired by the
// acknowledging member: a member that outlived its acquisition lock (the record was released
// or re-acquired by another member) must get INVALID_RECORD_STATE, not success.
//
// Share partition with SPSO 10 and three tracked offsets 10..12, each in any state
// (available / acquired by the member / acquired by another member / acknowledged /
// archived / untracked); every batch [first,last] within 9..12. validateAcks answers success
// exactly when every offset of the batch at or above the SPSO is acquired by that member.
func VerifC12_kfakeValidateAcksOwnership() {
	sp := &sharePartition{spso: 10, acquireEnd: 13, records: map[int64]shareRecord{}}
	ownedByMe := [3]bool{}
	for i := 0; i < 3; i++ {
		switch verifChoose(6) {
		case 0: // untracked
		case 1:
			sp.records[int64(10+i)] = shareRecord{state: shareRecordAvailable}
		case 2:
			sp.records[int64(10+i)] = shareRecord{state: shareRecordAcquired, acquiredBy: "me", deliveryCount: 1}
			ownedByMe[i] = true
		case 3:
			sp.records[int64(10+i)] = shareRecord{state: shareRecordAcquired, acquiredBy: "other", deliveryCount: 2}
		case 4:
			sp.records[int64(10+i)] = shareRecord{state: shareRecordAcknowledged, acquiredBy: "me"}
		case 5:
			sp.records[int64(10+i)] = shareRecord{state: shareRecordArchived}
		}
	}
	first := int64(9 + verifChoose(4))
	last := first + int64(verifChoose(int(12-first)+1))
	code := sp.validateAcks("me", first, last)
	want := true
	for o := first; o <= last; o++ {
		if o >= 10 && !ownedByMe[o-10] {
			want = false
		}
	}
	verifAssert((code == 0) == want, "an acknowledgement batch is confirmed exactly when every record in it is currently acquired by the acknowledging member (never for a record released, finished or re-acquired by another member)")
	verifReached("c12-kfake-validate-acks")
}
