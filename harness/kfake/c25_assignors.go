package kfake

// ---------------------------------------------------------------------------
// C25 for kfake's server-side (KIP-848) assignors: computeTargetAssignment dispatching to
// assignUniform / assignRange, from an arbitrary reachable group state.
// ---------------------------------------------------------------------------

var verifC25TopicNames = [...]string{"t0", "t1"}
var verifC25MemberNames = [...]string{"m0", "m1", "m2"}

func verifC25Pick(n int) int {
	if n <= 1 {
		return 0
	}
	return verifChoose(n)
}

func verifC25TopicID(i int) uuid {
	var id uuid
	id[0] = byte(i + 1)
	return id
}

type verifC25In struct {
	g        *group
	snap     topicMetaSnap
	nMembers int
	away     []bool
}

func (in *verifC25In) subscribes(m int, topic string) bool {
	for _, t := range in.g.consumerMembers[verifC25MemberNames[m]].subscribedTopics {
		if t == topic {
			return true
		}
	}
	return false
}

// verifC25State builds a group state: minM..maxM members with arbitrary subscriptions
// (m0 may also name a topic that does not exist), topics with 0..maxParts[i] partitions,
// at most one member "away" (static member that left: epoch -2), and a prior target
// assignment in which every partition is owned by nobody or by one member (subscribed or
// not: subscriptions may have changed since) -- the assignors are the only writers of
// targetAssignment, so prior targets never overlap.
//
// withAway: 0 = nobody away, 1 = nobody or any one member, 2 = exactly one member away.
// claims: 0 = none, 1 = per partition nobody / one member, 2 = nobody or everything on m0,
// 3 = as 1 but the last member owns nothing (it just joined).
func verifC25State(assignor string, minM, maxM int, maxParts []int, withAway int, withJunk, revMembers, nonEmptySubs bool, claims int) *verifC25In {
	in := &verifC25In{g: &group{consumerMembers: make(map[string]*consumerMember), assignorName: assignor}, snap: make(topicMetaSnap)}
	in.nMembers = minM + verifC25Pick(maxM-minM+1)
	for i := range maxParts {
		in.snap[verifC25TopicNames[i]] = topicSnapInfo{id: verifC25TopicID(i), partitions: int32(verifC25Pick(maxParts[i] + 1))}
	}
	in.away = make([]bool, in.nMembers)
	awayIdx := -1
	switch withAway {
	case 1:
		awayIdx = verifC25Pick(in.nMembers+1) - 1
	case 2:
		awayIdx = verifC25Pick(in.nMembers)
	}
	// insertion order of the members map: also the reverse, maps.Keys order feeds the sort
	rev := revMembers && verifC25Pick(2) == 1
	for k := 0; k < in.nMembers; k++ {
		m := k
		if rev {
			m = in.nMembers - 1 - k
		}
		cm := &consumerMember{memberID: verifC25MemberNames[m], memberEpoch: 1, targetAssignment: make(map[uuid][]int32)}
		mask := 0
		if nonEmptySubs {
			mask = 1 + verifC25Pick(1<<len(maxParts)-1)
		} else {
			mask = verifC25Pick(1 << len(maxParts))
		}
		for i := range maxParts {
			if mask&(1<<i) != 0 {
				cm.subscribedTopics = append(cm.subscribedTopics, verifC25TopicNames[i])
			}
		}
		if withJunk && m == 0 && verifC25Pick(2) == 1 {
			cm.subscribedTopics = append(cm.subscribedTopics, "unknown")
		}
		if m == awayIdx {
			cm.memberEpoch = -2
			in.away[m] = true
		}
		in.g.consumerMembers[cm.memberID] = cm
	}
	allOnM0 := claims == 2 && verifC25Pick(2) == 1
	for i := range maxParts {
		info := in.snap[verifC25TopicNames[i]]
		for p := int32(0); p < info.partitions; p++ {
			c := 0
			switch {
			case claims == 1:
				c = verifC25Pick(1 + in.nMembers)
			case claims == 3: // the last member is new and owns nothing
				c = verifC25Pick(in.nMembers)
			case allOnM0:
				c = 1
			}
			if c > 0 {
				cm := in.g.consumerMembers[verifC25MemberNames[c-1]]
				cm.targetAssignment[info.id] = append(cm.targetAssignment[info.id], p)
			}
		}
	}
	if withJunk {
		cm := in.g.consumerMembers[verifC25MemberNames[0]]
		switch verifC25Pick(3) {
		case 1: // a partition of a deleted topic
			cm.targetAssignment[verifC25TopicID(7)] = []int32{0}
		case 2: // a partition index beyond the topic's current partition count
			info := in.snap[verifC25TopicNames[0]]
			cm.targetAssignment[info.id] = append(cm.targetAssignment[info.id], info.partitions)
		}
	}
	return in
}

// verifC25Check: among the members taking part (not away), every partition of every
// existing topic with at least one subscriber is assigned to exactly one member, that
// member subscribes to the topic, and nothing else is assigned.
func (in *verifC25In) verifC25Check(who string) {
	active := 0
	for m := 0; m < in.nMembers; m++ {
		if !in.away[m] {
			active++
		}
	}
	if active == 0 {
		return // nobody to assign to: targets are left alone
	}
	for m := 0; m < in.nMembers; m++ {
		if in.away[m] {
			continue
		}
		cm := in.g.consumerMembers[verifC25MemberNames[m]]
		for id, parts := range cm.targetAssignment {
			topic := ""
			var info topicSnapInfo
			for t, ti := range in.snap {
				if ti.id == id {
					topic, info = t, ti
				}
			}
			if topic == "" {
				if len(parts) > 0 {
					verifFail(who + ": target assignment names a topic that does not exist")
				}
				continue
			}
			for _, p := range parts {
				if p < 0 || p >= info.partitions {
					verifFail(who + ": target assignment names a partition that does not exist")
					return
				}
				if !in.subscribes(m, topic) {
					verifFail(who + ": partition assigned to a member not subscribed to its topic")
					return
				}
			}
		}
	}
	for topic, info := range in.snap {
		want := 0
		for m := 0; m < in.nMembers; m++ {
			if !in.away[m] && in.subscribes(m, topic) {
				want = 1
			}
		}
		for p := int32(0); p < info.partitions; p++ {
			owners := 0
			for m := 0; m < in.nMembers; m++ {
				if in.away[m] {
					continue
				}
				for _, q := range in.g.consumerMembers[verifC25MemberNames[m]].targetAssignment[info.id] {
					if q == p {
						owners++
					}
				}
			}
			if owners > want {
				if want == 0 {
					verifFail(who + ": partition of an unsubscribed topic is assigned")
				} else {
					verifFail(who + ": partition is assigned more than once")
				}
				return
			}
			if owners < want {
				verifFail(who + ": partition of a subscribed topic is left unassigned")
				return
			}
		}
	}
}

// VerifC25_kfakeUniform: the sticky "uniform" assignor (also used when no assignor is
// named), one or two members, any prior single-owner target assignment.
func VerifC25_kfakeUniform() {
	var in *verifC25In
	if verifThorough() {
		name := [...]string{"uniform", ""}[verifC25Pick(2)]
		in = verifC25State(name, 1, 2, []int{2, 2}, 0, false, true, false, 1)
	} else {
		in = verifC25State("uniform", 2, 2, []int{2, 1}, 0, false, false, false, 1)
	}
	in.g.groupEpoch = 5
	in.g.computeTargetAssignment(in.snap)
	in.verifC25Check("kfake uniform")
	if in.g.targetAssignmentEpoch != 5 {
		verifFail("kfake: target assignment epoch is not advanced to the group epoch")
	}
	verifReached("c25-kfake-uniform")
}

// VerifC25_kfakeUniformAway: one member is away (static member that left, epoch -2): it
// takes no part, the others must still cover every subscribed partition.
func VerifC25_kfakeUniformAway() {
	var in *verifC25In
	if verifThorough() {
		in = verifC25State("uniform", 2, 3, []int{2, 1}, 2, false, false, true, 1)
	} else {
		in = verifC25State("uniform", 2, 2, []int{2, 1}, 2, false, false, true, 1)
	}
	in.g.computeTargetAssignment(in.snap)
	in.verifC25Check("kfake uniform (one member away)")
	verifReached("c25-kfake-uniform-away")
}

// VerifC25_kfakeUniformJunk: stale target entries (deleted topic id, partition index
// beyond the current count) and a subscription to a topic that does not exist.
func VerifC25_kfakeUniformJunk() {
	var in *verifC25In
	if verifThorough() {
		in = verifC25State("uniform", 1, 2, []int{2, 1}, 0, true, false, false, 1)
	} else {
		in = verifC25State("uniform", 2, 2, []int{1, 1}, 0, true, false, true, 1)
	}
	in.g.computeTargetAssignment(in.snap)
	in.verifC25Check("kfake uniform (stale entries)")
	verifReached("c25-kfake-uniform-junk")
}

// VerifC25_kfakeUniform3: three members.
func VerifC25_kfakeUniform3() {
	var in *verifC25In
	if verifThorough() {
		in = verifC25State("uniform", 3, 3, []int{2, 2}, 0, false, false, true, 1)
	} else {
		in = verifC25State("uniform", 3, 3, []int{2, 1}, 0, false, false, true, 3)
	}
	in.g.computeTargetAssignment(in.snap)
	in.verifC25Check("kfake uniform (3 members)")
	verifReached("c25-kfake-uniform3")
}

// VerifC25_kfakeRange: the range assignor (static members sort first; prior targets are
// cleared and recomputed).
func VerifC25_kfakeRange() {
	var in *verifC25In
	if verifThorough() {
		in = verifC25State("range", 1, 3, []int{3, 3}, 1, false, false, false, 2)
	} else {
		in = verifC25State("range", 2, 3, []int{2, 1}, 0, false, false, false, 0)
	}
	if in.nMembers > 1 && verifC25Pick(2) == 1 {
		id := "a"
		in.g.consumerMembers[verifC25MemberNames[in.nMembers-1]].instanceID = &id
	}
	in.g.computeTargetAssignment(in.snap)
	in.verifC25Check("kfake range")
	verifReached("c25-kfake-range")
}
