package kfake

import "time"

// C29 through kfake's whole Produce handler (not only the sequence window): an idempotent
// producer whose sequence numbers run across 2^31-1. Two consecutive batches with symbolic
// first sequence s >= 0 and symbolic sizes — including a batch that STRADDLES the wrap
// (s + n - 1 > 2^31-1) and one that ends exactly on 2^31-1 — are both accepted at contiguous
// offsets, and a retry of the second one is answered as a duplicate with its original offset.
// (Uses the handleProduce driver and persistence stubs of the C32 harness files.)
func VerifC29_kfakeProduceAcrossWrap() {
	pd := &partData{t: "t", p: 0, maxTimestampSeg: -1, maxTimestampIdx: -1}
	c := &Cluster{}
	b := &broker{c: c, node: 0}
	c.bs = []*broker{b}
	pd.leader = b
	c.data.c = c
	c.data.tps = tps[partData]{"t": {0: pd}}
	empty := map[string]*string{}
	c.bcfgs.Store(&empty)
	c.pids.c = c
	c.pids.ids = map[int64]*pidinfo{}
	creq := &clientReq{cc: &clientConn{c: c, b: b}, at: time.Now()}
	verifC32.persistFail, verifC32.persistRoll = false, false

	s := verifNondetInt32("seq")
	n := verifNondetInt32("n")
	m := verifNondetInt32("m")
	verifAssume(verifAnd(s >= 0, verifAnd(verifAnd(n >= 1, n <= 1000), verifAnd(m >= 1, m <= 1000))))
	// the first batch reaches or crosses the wrap: s + n - 1 >= 2^31 - 1
	verifAssume(int64(s)+int64(n) >= 1<<31)
	next := int32((int64(s) + int64(n)) & 0x7fffffff)
	ra := verifC32Produce(c, creq, verifC32ProduceBatch(1, 3, s, n))
	verifAssert(verifAnd(ra.ErrorCode == 0, ra.BaseOffset == 0), "a batch whose sequence numbers end on or straddle 2^31-1 is accepted")
	batchB := verifC32ProduceBatch(1, 3, next, m)
	rb := verifC32Produce(c, creq, batchB)
	verifAssert(verifAnd(rb.ErrorCode == 0, rb.BaseOffset == int64(n)), "the batch after the wrap, starting at (s+n) mod 2^31, is accepted at the next offset")
	verifAssume(verifNot(verifAnd(next == s, m == n)))
	rr := verifC32Produce(c, creq, batchB)
	verifAssert(verifAnd(rr.ErrorCode == 0, rr.BaseOffset == int64(n)), "its retry is answered as a duplicate with the original offset")
	verifAssert(pd.highWatermark == int64(n)+int64(m), "nothing is appended twice")
	verifReached("c29-kfake-produce-wrap")
}
