package kfake

func verifC29Window() *pidwindow {
	w := &pidwindow{}
	w.seen = verifNondetBool("seen")
	w.epoch = verifNondetInt16("epoch")
	w.nextSeq = verifNondetInt32("nextSeq")
	w.at = verifNondetUint8("at")
	w.count = verifNondetUint8("count")
	verifAssume(verifAnd(w.nextSeq >= 0, verifAnd(w.at < 5, w.count <= 5)))
	for i := 0; i < 5; i++ {
		w.entries[i].firstSeq = verifNondetInt32("e.firstSeq")
		w.entries[i].nextSeq = verifNondetInt32("e.nextSeq")
		w.entries[i].offset = verifNondetInt64("e.offset")
		verifAssume(verifAnd(w.entries[i].firstSeq >= 0, w.entries[i].nextSeq >= 0))
	}
	return w
}

// One step from an arbitrary window state: a batch that is not a stored duplicate is accepted
// iff it starts at the expected sequence (or resets at 0 on an epoch change), and the next
// expected sequence becomes (firstSeq + n) mod 2^31.
func VerifC29_kfakeStep() {
	w := verifC29Window()
	epoch := verifNondetInt16("b.epoch")
	first := verifNondetInt32("b.firstSeq")
	n := verifNondetInt32("b.n")
	off := verifNondetInt64("b.offset")
	verifAssume(verifAnd(first >= 0, n >= 1))
	seen, wepoch, wnext := w.seen, w.epoch, w.nextSeq
	want := int32((int64(first) + int64(n)) & 0x7fffffff)
	ok, dup, _ := w.pushAndValidate(epoch, first, n, off)
	fresh := verifOr(!seen, epoch != wepoch)
	if ok && !dup {
		verifAssert(verifOr(fresh, first == wnext), "accepted batch starts at the expected sequence")
		verifAssert(w.nextSeq == want, "kfake next sequence is (firstSeq+n) mod 2^31")
		verifAssert(verifAnd(w.seen, w.epoch == epoch), "window tracks the accepted epoch")
	}
	if !ok {
		verifAssert(!dup, "rejected is never dup")
		verifAssert(verifOr(verifAnd(seen, verifAnd(epoch != wepoch, first != 0)), verifAnd(verifNot(fresh), first != wnext)), "rejection only for a sequence gap or bad epoch reset")
		verifAssert(verifAnd(w.nextSeq == wnext, w.epoch == wepoch), "rejection leaves the window unchanged")
	}
	verifReached("c29-kfake-step")
}

// Two steps: after accepting (s, n) the correctly wrapped next batch is accepted and a
// replay of the first batch is answered as a duplicate with its original offset.
func VerifC29_kfakeTwoStep() {
	w := &pidwindow{}
	epoch := verifNondetInt16("epoch")
	s := verifNondetInt32("s")
	n := verifNondetInt32("n")
	m := verifNondetInt32("m")
	o1, o2 := verifNondetInt64("o1"), verifNondetInt64("o2")
	verifAssume(verifAnd(s >= 0, verifAnd(n >= 1, m >= 1)))
	// bring the window to "seen at sequence s" via an epoch reset at 0 followed by a batch
	// of s records when s > 0.
	if s > 0 {
		ok, _, _ := w.pushAndValidate(epoch, 0, s, 0)
		verifAssert(ok, "first batch at sequence 0 accepted")
	}
	ok, dup, _ := w.pushAndValidate(epoch, s, n, o1)
	verifAssert(verifAnd(ok, !dup), "in-order batch accepted")
	next := int32((int64(s) + int64(n)) & 0x7fffffff)
	// Duplicate detection identifies a batch by (firstSeq, nextSeq); a new batch that
	// coincides with a still-windowed older batch after a full 2^31 wrap is
	// indistinguishable from a retry (in Kafka too) and is excluded.
	verifAssume(verifNot(verifAnd(s > 0, verifAnd(next == 0, m == s))))
	ok2, dup2, _ := w.pushAndValidate(epoch, next, m, o2)
	verifAssert(verifAnd(ok2, !dup2), "correctly wrapped next batch accepted")
	ok3, dup3, off3 := w.pushAndValidate(epoch, s, n, 12345)
	verifAssert(verifAnd(ok3, verifAnd(dup3, off3 == o1)), "replayed batch answered as duplicate with original offset")
	verifReached("c29-kfake-two-step")
}

// From every reachable window fill level (0..5 stored batches, write position anywhere once
// full): a batch accepted at the expected sequence is REMEMBERED — its immediate retry (the
// response was lost) is answered as a duplicate with the offset it was appended at, and the
// most recently stored older batch is still answered as a duplicate too. This is the "last
// five appended batches" window at every position of its ring, including the step that fills
// the fifth slot and the first overwrite.
func VerifC29_kfakeAcceptedIsRemembered() {
	w := verifC29Window()
	// representation invariant of a window built by pushAndValidate: while not full the
	// write position equals the fill level
	verifAssume(verifOr(w.count == 5, w.at == w.count))
	verifAssume(w.seen)
	n := verifNondetInt32("b.n")
	off := verifNondetInt64("b.offset")
	verifAssume(verifAnd(n >= 1, off >= 0))
	first := w.nextSeq
	want := int32((int64(first) + int64(n)) & 0x7fffffff)
	// no stored batch coincides with the new one (a full 2^31 wrap inside the window)
	for i := 0; i < 5; i++ {
		verifAssume(verifNot(verifAnd(w.entries[i].firstSeq == first, w.entries[i].nextSeq == want)))
	}
	// the most recent older batch, if any, and no earlier-scanned entry shadows it
	hasPrev := w.count > 0
	prevIdx := (int(w.at) + 4) % 5
	prev := w.entries[prevIdx]
	if hasPrev {
		for i := 0; i < 5; i++ {
			if i != prevIdx {
				verifAssume(verifNot(verifAnd(w.entries[i].firstSeq == prev.firstSeq, w.entries[i].nextSeq == prev.nextSeq)))
			}
		}
		verifAssume(verifNot(verifAnd(prev.firstSeq == first, prev.nextSeq == want)))
	}
	epoch := w.epoch
	ok, dup, _ := w.pushAndValidate(epoch, first, n, off)
	verifAssert(verifAnd(ok, !dup), "a batch at the expected sequence is accepted")
	ok2, dup2, off2 := w.pushAndValidate(epoch, first, n, 999)
	verifAssert(verifAnd(ok2, verifAnd(dup2, off2 == off)), "the batch just accepted is remembered: its retry is a duplicate with the original offset (at every fill level and ring position)")
	if hasPrev {
		np := (int64(prev.nextSeq) - int64(prev.firstSeq)) & 0x7fffffff
		if np >= 1 {
			ok3, dup3, off3 := w.pushAndValidate(epoch, prev.firstSeq, int32(np), 999)
			verifAssert(verifAnd(ok3, verifAnd(dup3, off3 == prev.offset)), "the previously stored batch is still answered as a duplicate after one more batch was appended")
		}
	}
	verifReached("c29-kfake-remembered")
}
