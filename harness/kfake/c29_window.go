package kfake

func verifC29Window() *pidwindow {
	w := &pidwindow{}
	w.seen = verifNondetBool("seen")
	w.epoch = verifNondetInt16("epoch")
	w.nextSeq = verifNondetInt32("nextSeq")
	w.at = verifNondetUint8("at")
	w.count = verifNondetUint8("count")
	verifAssume(verifAnd(w.nextSeq >= 0, verifAnd(w.at < 5, w.count <= 5)))
	for i := 0; i < 5; i++ {
		w.entries[i].firstSeq = verifNondetInt32("e.firstSeq")
		w.entries[i].nextSeq = verifNondetInt32("e.nextSeq")
		w.entries[i].offset = verifNondetInt64("e.offset")
		verifAssume(verifAnd(w.entries[i].firstSeq >= 0, w.entries[i].nextSeq >= 0))
	}
	return w
}

// One step from an arbitrary window state: a batch that is not a stored duplicate is accepted
// iff it starts at the expected sequence (or resets at 0 on an epoch change), and the next
// expected sequence becomes (firstSeq + n) mod 2^31.
func VerifC29_kfakeStep() {
	w := verifC29Window()
	epoch := verifNondetInt16("b.epoch")
	first := verifNondetInt32("b.firstSeq")
	n := verifNondetInt32("b.n")
	off := verifNondetInt64("b.offset")
	verifAssume(verifAnd(first >= 0, n >= 1))
	seen, wepoch, wnext := w.seen, w.epoch, w.nextSeq
	want := int32((int64(first) + int64(n)) & 0x7fffffff)
	ok, dup, _ := w.pushAndValidate(epoch, first, n, off)
	fresh := verifOr(!seen, epoch != wepoch)
	if ok && !dup {
		verifAssert(verifOr(fresh, first == wnext), "accepted batch starts at the expected sequence")
		verifAssert(w.nextSeq == want, "kfake next sequence is (firstSeq+n) mod 2^31")
		verifAssert(verifAnd(w.seen, w.epoch == epoch), "window tracks the accepted epoch")
	}
	if !ok {
		verifAssert(!dup, "rejected is never dup")
		verifAssert(verifOr(verifAnd(seen, verifAnd(epoch != wepoch, first != 0)), verifAnd(verifNot(fresh), first != wnext)), "rejection only for a sequence gap or bad epoch reset")
		verifAssert(verifAnd(w.nextSeq == wnext, w.epoch == wepoch), "rejection leaves the window unchanged")
	}
	verifReached("c29-kfake-step")
}

// Two steps: after accepting (s, n) the correctly wrapped next batch is accepted and a
// replay of the first batch is answered as a duplicate with its original offset.
func VerifC29_kfakeTwoStep() {
	w := &pidwindow{}
	epoch := verifNondetInt16("epoch")
	s := verifNondetInt32("s")
	n := verifNondetInt32("n")
	m := verifNondetInt32("m")
	o1, o2 := verifNondetInt64("o1"), verifNondetInt64("o2")
	verifAssume(verifAnd(s >= 0, verifAnd(n >= 1, m >= 1)))
	// bring the window to "seen at sequence s" via an epoch reset at 0 followed by a batch
	// of s records when s > 0.
	if s > 0 {
		ok, _, _ := w.pushAndValidate(epoch, 0, s, 0)
		verifAssert(ok, "first batch at sequence 0 accepted")
	}
	ok, dup, _ := w.pushAndValidate(epoch, s, n, o1)
	verifAssert(verifAnd(ok, !dup), "in-order batch accepted")
	next := int32((int64(s) + int64(n)) & 0x7fffffff)
	// Duplicate detection identifies a batch by (firstSeq, nextSeq); a new batch that
	// coincides with a still-windowed older batch after a full 2^31 wrap is
	// indistinguishable from a retry (in Kafka too) and is excluded.
	verifAssume(verifNot(verifAnd(s > 0, verifAnd(next == 0, m == s))))
	ok2, dup2, _ := w.pushAndValidate(epoch, next, m, o2)
	verifAssert(verifAnd(ok2, !dup2), "correctly wrapped next batch accepted")
	ok3, dup3, off3 := w.pushAndValidate(epoch, s, n, 12345)
	verifAssert(verifAnd(ok3, verifAnd(dup3, off3 == o1)), "replayed batch answered as duplicate with original offset")
	verifReached("c29-kfake-two-step")
}
