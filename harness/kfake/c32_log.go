package kfake

import (
	"time"

	"github.com/twmb/franz-go/pkg/kmsg"
)

// ---------------------------------------------------------------------------------------------
// C32: kfake's partition log kernel. One step of the real functions from an arbitrary partition
// state that satisfies the representation invariant real histories (produce, transaction
// markers, DeleteRecords; no compaction) maintain:
//
//   I32: batches b_0..b_{n-1} spread over non-empty segments, each with numRecords >= 1 and
//        lastOffsetDelta = numRecords-1, contiguous, the last one ending at the high watermark;
//        n = 0  => logStart = HWM;  n > 0 => first(b_0) <= logStart <= last(b_0);
//        every open transaction's first offset is the first offset of a retained batch or lies
//        below the retained batches (trimmed), and is < HWM;
//        LSO = min(first offsets of open transactions), or HWM if there is none;
//        the aborted-transaction index is sorted by strictly increasing marker offset,
//        firstOffset <= lastOffset < HWM.
// ---------------------------------------------------------------------------------------------

const verifC32MaxOffset = int64(1) << 60

type verifC32State struct {
	pd     *partData
	metas  []*batchMeta // pointers into the segment indexes, in log order (before the step)
	firsts []int64
	ends   []int64
}

var verifC32 struct {
	persistFail bool
	persistRoll bool
	read        []*batchMeta
	readFailAt  int
}

//verif:replace (*Cluster).persistBatchToSegment
func (c *Cluster) verifC32PersistBatchToSegment(pd *partData, b *partBatch) int64 {
	// contract of the real function: the in-memory segment exists before any I/O; a full
	// active segment is sealed and a new one started at the batch's first offset; -1 on any
	// I/O error (nothing else changed), otherwise the byte position of the batch.
	if len(pd.segments) == 0 {
		pd.segments = append(pd.segments, segmentInfo{base: b.FirstOffset})
	}
	if verifC32.persistFail {
		return -1
	}
	active := &pd.segments[len(pd.segments)-1]
	if verifC32.persistRoll && len(active.index) > 0 {
		active.endOff = b.FirstOffset
		pd.segments = append(pd.segments, segmentInfo{base: b.FirstOffset})
		active = &pd.segments[len(pd.segments)-1]
	}
	pos := active.size
	active.size += int64(b.nbytes)
	return pos
}

//verif:replace (*Cluster).readBatchRaw
func (c *Cluster) verifC32ReadBatchRaw(pd *partData, segIdx int, meta *batchMeta) ([]byte, error) {
	verifC32.read = append(verifC32.read, meta)
	return []byte{1}, nil
}

//verif:replace (*Cluster).checkReqVersion
func (c *Cluster) verifC32CheckReqVersion(key, version int16) error { return nil }

// verifC32Offset: a base offset. Quick tier: below 2^16 (keeps the solver's 64-bit adders
// shallow); thorough: below 2^31.
func verifC32Offset(name string) int64 {
	if !verifThorough() {
		return int64(verifNondetUint16(name))
	}
	return int64(verifNondetUint32(name) >> 1)
}

// verifC32Count32: a record count >= 1 (quick: <= 1024, thorough: <= 2^16).
func verifC32Count32(name string) int32 {
	if !verifThorough() {
		return int32(verifNondetUint16(name)&1023) + 1
	}
	return int32(verifNondetUint16(name)) + 1
}

func verifC32Min(a, b int64) int64 { return verifIteInt64(a < b, a, b) }

// verifC32Batches builds n contiguous batches in one or two segments plus the partition bounds.
func verifC32Batches(n int) *verifC32State {
	pd := &partData{t: "t", p: 0, maxTimestampSeg: -1, maxTimestampIdx: -1}
	st := &verifC32State{pd: pd}
	first := verifC32Offset("first0")
	split := 0
	if n >= 2 {
		split = verifChoose(n) // batches [0,split) in a sealed segment when split > 0
	}
	var segs []segmentInfo
	cur := segmentInfo{base: first}
	off := first
	for i := 0; i < n; i++ {
		if i == split && i > 0 {
			cur.endOff = off
			segs = append(segs, cur)
			cur = segmentInfo{base: off}
		}
		num := verifC32Count32("numRecords")
		m := batchMeta{
			firstOffset:     off,
			segPos:          cur.size,
			maxTimestamp:    int64(i), // timestamps are not the subject here
			producerID:      verifNondetInt64("b.pid"),
			lastOffsetDelta: num - 1,
			nbytes:          int32(verifNondetUint8("nbytes")) + 1,
			numRecords:      num,
			inTx:            verifNondetBool("b.inTx"),
		}
		cur.index = append(cur.index, m)
		cur.size += int64(m.nbytes)
		st.firsts = append(st.firsts, off)
		off += int64(num)
		st.ends = append(st.ends, off)
	}
	if n > 0 {
		segs = append(segs, cur)
	}
	pd.segments = segs
	for si := range pd.segments {
		for mi := range pd.segments[si].index {
			st.metas = append(st.metas, &pd.segments[si].index[mi])
			pd.nbytes += int64(pd.segments[si].index[mi].nbytes)
		}
	}
	pd.highWatermark = off
	if n == 0 {
		pd.logStartOffset = off
	} else {
		pd.logStartOffset = verifNondetInt64("logStart")
		verifAssume(verifAnd(pd.logStartOffset >= first, pd.logStartOffset < st.ends[0]))
		pd.rebuildMaxTimestampMeta()
	}
	return st
}

// a legal "first offset of an open transaction" value.
func (st *verifC32State) openTxnOffset(name string) int64 {
	v := verifNondetInt64(name)
	ok := false
	if len(st.firsts) > 0 {
		ok = verifAnd(v >= 0, v < st.firsts[0]) // trimmed away by DeleteRecords
	}
	for _, f := range st.firsts {
		ok = verifOr(ok, v == f)
	}
	verifAssume(ok)
	return v
}

// verifC32Open registers k open transactions for producer ids 1..k and sets LSO per I32.
func (st *verifC32State) open(k int) {
	pd := st.pd
	lso := pd.highWatermark
	if k > 0 {
		pd.uncommittedPIDs = map[int64]int64{}
	} else if verifChoose(2) == 1 {
		pd.uncommittedPIDs = map[int64]int64{} // empty but allocated
	}
	for i := 1; i <= k; i++ {
		v := st.openTxnOffset("open.first")
		pd.uncommittedPIDs[int64(i)] = v
		lso = verifC32Min(lso, v)
	}
	pd.lastStableOffset = lso
}

// lsoOK: LSO is what I32 prescribes for the current open-transaction table.
func verifC32LSOOK(pd *partData) bool {
	want := pd.highWatermark
	below := true
	for _, v := range pd.uncommittedPIDs {
		want = verifC32Min(want, v)
		below = verifAnd(below, v < pd.highWatermark)
	}
	return verifAnd(below, verifAnd(pd.lastStableOffset == want, pd.lastStableOffset <= pd.highWatermark))
}

func verifC32NBatches() int { return 2 }

// fetch walks more batches in the thorough tier
func verifC32NFetchBatches() int {
	if verifThorough() {
		return 3
	}
	return 2
}

func verifC32NOpen() int {
	if verifThorough() {
		return 3
	}
	return 2
}

func verifC32LastMeta(pd *partData) *batchMeta {
	seg := &pd.segments[len(pd.segments)-1]
	return &seg.index[len(seg.index)-1]
}

func verifC32Count(pd *partData) int {
	n := 0
	for i := range pd.segments {
		n += len(pd.segments[i].index)
	}
	return n
}

// pushBatch: the batch gets the old high watermark as first offset, the high watermark advances
// by the record count, the index stays contiguous, a transactional batch opens (or keeps) its
// producer's transaction at its earliest offset, and I32's LSO rule holds afterwards. A failed
// segment write changes none of the bounds.
func VerifC32_pushBatch() {
	n := verifConcretize(verifRange("nbatches", 0, verifC32NBatches()))
	st := verifC32Batches(n)
	st.open(verifConcretize(verifRange("nopen", 0, verifC32NOpen())))
	pd := st.pd
	c := &Cluster{}
	mode := verifChoose(3) // segment write: plain, rolls to a new segment, fails
	verifC32.persistFail = mode == 2
	verifC32.persistRoll = mode == 1

	num := verifC32Count32("push.numRecords")
	inTx := verifNondetBool("push.inTx")
	pid := int64(-1) // non-idempotent
	if ch := verifChoose(verifC32NOpen() + 2); ch > 0 {
		pid = int64(ch) // 1..NOpen: possibly open already; NOpen+1: never open
	}
	if pid < 0 {
		verifAssume(!inTx) // handleProduce rejects transactional batches without producer id
	}
	b := kmsg.RecordBatch{
		ProducerID:      pid,
		NumRecords:      num,
		LastOffsetDelta: num - 1,
		FirstTimestamp:  5,
		MaxTimestamp:    7,
	}
	nbytes := int(verifNondetUint16("push.nbytes")) + 1

	oldHWM, oldLSO, oldLogStart, oldCount := pd.highWatermark, pd.lastStableOffset, pd.logStartOffset, verifC32Count(pd)
	oldOpen := map[int64]int64{}
	for k, v := range pd.uncommittedPIDs {
		oldOpen[k] = v
	}

	got := c.pushBatch(pd, nbytes, b, inTx)

	if verifC32.persistFail {
		verifAssert(got == -1, "failed segment write reported as -1")
		verifAssert(verifAnd(pd.highWatermark == oldHWM, verifAnd(pd.lastStableOffset == oldLSO, pd.logStartOffset == oldLogStart)), "failed segment write leaves the partition bounds unchanged")
		verifAssert(verifC32Count(pd) == oldCount && len(pd.uncommittedPIDs) == len(oldOpen), "failed segment write appends nothing")
		verifReached("c32-push-failed")
		return
	}
	verifAssert(got == oldHWM, "appended batch starts at the old high watermark")
	verifAssert(pd.highWatermark == oldHWM+int64(num), "high watermark advances by the record count")
	verifAssert(pd.logStartOffset == oldLogStart, "append does not move the log start")
	verifAssert(verifC32Count(pd) == oldCount+1, "exactly one batch appended")
	m := verifC32LastMeta(pd)
	verifAssert(verifAnd(m.firstOffset == oldHWM, verifAnd(m.numRecords == num, verifAnd(m.lastOffsetDelta == num-1, m.producerID == pid))), "index entry carries the assigned offsets")
	verifAssert(m.firstOffset+int64(m.lastOffsetDelta)+1 == pd.highWatermark, "log ends at the high watermark")
	verifAssert(m.inTx == inTx, "index entry carries the transactional flag")
	verifAssert(pd.segments[len(pd.segments)-1].base <= m.firstOffset, "segment base not after its batches")

	// open-transaction table
	for k, v := range oldOpen {
		nv, ok := pd.uncommittedPIDs[k]
		verifAssert(verifAnd(ok, nv == v), "open transactions keep their first offset")
	}
	if inTx {
		nv, ok := pd.uncommittedPIDs[pid]
		verifAssert(ok, "transactional batch registers its producer as open")
		if _, was := oldOpen[pid]; !was {
			verifAssert(nv == oldHWM, "a new transaction opens at the batch's first offset")
			verifAssert(len(pd.uncommittedPIDs) == len(oldOpen)+1, "no other producer registered")
		} else {
			verifAssert(len(pd.uncommittedPIDs) == len(oldOpen), "no other producer registered")
		}
	} else {
		verifAssert(len(pd.uncommittedPIDs) == len(oldOpen), "non-transactional batch opens nothing")
	}
	verifAssert(verifC32LSOOK(pd), "LSO = first offset of the earliest open transaction, else the high watermark; never above the high watermark")
	if len(oldOpen) > 0 {
		verifAssert(pd.lastStableOffset == oldLSO, "LSO stays at the first open transaction")
	}
	verifAssert(pd.lastStableOffset >= oldLSO, "LSO never moves backwards")
	verifReached("c32-push")
}

// verifC32Aborted builds m aborted-transaction index entries per I32.
func (st *verifC32State) aborted(m int) {
	pd := st.pd
	prev := int64(-1)
	for i := 0; i < m; i++ {
		e := abortedTxnEntry{
			producerID:  verifNondetInt64("ab.pid"),
			firstOffset: verifNondetInt64("ab.first"),
			lastOffset:  verifNondetInt64("ab.last"),
		}
		verifAssume(verifAnd(e.firstOffset >= 0, verifAnd(e.firstOffset <= e.lastOffset, verifAnd(e.lastOffset > prev, e.lastOffset < pd.highWatermark))))
		prev = e.lastOffset
		pd.abortedTxns = append(pd.abortedTxns, e)
	}
}

// writeTxnMarker (the partition-side of EndTxn / WriteTxnMarkers): a one-record control batch
// is appended at the high watermark, the producer's transaction is closed, an abort is recorded
// in the aborted-transaction index with the transaction's first offset and the marker offset,
// the index stays sorted, and the LSO moves to the next open transaction or the high watermark.
func VerifC32_txnMarker() {
	n := verifConcretize(verifRange("nbatches", 1, verifC32NBatches()))
	st := verifC32Batches(n)
	st.open(verifConcretize(verifRange("nopen", 0, verifC32NOpen())))
	st.aborted(verifConcretize(verifRange("naborted", 0, 1)))
	pd := st.pd
	c := &Cluster{}
	verifC32.persistFail = false
	verifC32.persistRoll = verifChoose(2) == 1

	pid := int64(1 + verifChoose(verifC32NOpen()+1)) // may or may not have an open transaction here
	commit := verifNondetBool("commit")
	epoch := verifNondetInt16("epoch")

	oldHWM, oldLSO, oldAborted := pd.highWatermark, pd.lastStableOffset, len(pd.abortedTxns)
	oldOpen := map[int64]int64{}
	for k, v := range pd.uncommittedPIDs {
		oldOpen[k] = v
	}
	firstUncommitted, had := oldOpen[pid]

	got := c.writeTxnMarker(pd, pid, epoch, commit)

	verifAssert(got == oldHWM, "marker written at the old high watermark")
	verifAssert(pd.highWatermark == oldHWM+1, "marker occupies exactly one offset")
	m := verifC32LastMeta(pd)
	verifAssert(verifAnd(m.firstOffset == oldHWM, verifAnd(m.numRecords == 1, verifAnd(m.producerID == pid, !m.inTx))), "marker batch indexed at its offset")
	_, still := pd.uncommittedPIDs[pid]
	verifAssert(!still, "the producer's transaction is closed on this partition")
	for k, v := range oldOpen {
		if k != pid {
			nv, ok := pd.uncommittedPIDs[k]
			verifAssert(verifAnd(ok, nv == v), "other open transactions are untouched")
		}
	}
	want := len(oldOpen)
	if had {
		want--
	}
	verifAssert(len(pd.uncommittedPIDs) == want, "no transaction appears or disappears besides the ended one")
	verifAssert(verifC32LSOOK(pd), "LSO = first offset of the earliest open transaction, else the high watermark; never above the high watermark")
	verifAssert(pd.lastStableOffset >= oldLSO, "LSO never moves backwards")

	if !commit && had {
		verifAssert(len(pd.abortedTxns) == oldAborted+1, "abort recorded in the aborted-transaction index")
		e := pd.abortedTxns[len(pd.abortedTxns)-1]
		verifAssert(verifAnd(e.producerID == pid, verifAnd(e.firstOffset == firstUncommitted, e.lastOffset == oldHWM)), "aborted entry spans first transactional offset .. marker offset")
		if oldAborted > 0 {
			verifAssert(pd.abortedTxns[oldAborted-1].lastOffset < e.lastOffset, "aborted-transaction index stays sorted by marker offset")
		}
	} else {
		verifAssert(len(pd.abortedTxns) == oldAborted, "commit (or marker without data here) records no aborted transaction")
	}
	verifReached("c32-txn-marker")
}

// recalculateLSO from an arbitrary open-transaction table.
func VerifC32_recalculateLSO() {
	pd := &partData{}
	pd.highWatermark = verifNondetInt64("hwm")
	pd.lastStableOffset = verifNondetInt64("stale.lso")
	verifAssume(pd.highWatermark >= 0)
	k := verifConcretize(verifRange("nopen", 0, 3))
	if k > 0 || verifChoose(2) == 1 {
		pd.uncommittedPIDs = map[int64]int64{}
	}
	for i := 1; i <= k; i++ {
		v := verifNondetInt64("open.first")
		verifAssume(verifAnd(v >= 0, v < pd.highWatermark))
		pd.uncommittedPIDs[int64(i)] = v
	}
	hwm := pd.highWatermark
	pd.recalculateLSO()
	verifAssert(pd.highWatermark == hwm, "high watermark untouched")
	verifAssert(verifC32LSOOK(pd), "LSO = first offset of the earliest open transaction, else the high watermark; never above the high watermark")
	verifReached("c32-recalculate-lso")
}

// isOffsetAborted / trimAbortedTxns against the plain definition (no binary search): a batch of
// producer p at offset o is aborted iff some index entry of p has firstOffset <= o <= lastOffset;
// trimming keeps exactly the entries whose marker is at or after the log start.
func VerifC32_abortedIndex() {
	pd := &partData{}
	pd.highWatermark = verifNondetInt64("hwm")
	verifAssume(verifAnd(pd.highWatermark >= 0, pd.highWatermark < verifC32MaxOffset))
	st := &verifC32State{pd: pd}
	st.aborted(verifConcretize(verifRange("naborted", 0, 3)))
	all := append([]abortedTxnEntry(nil), pd.abortedTxns...)

	switch verifChoose(2) {
	case 0:
		o := verifNondetInt64("q.offset")
		p := verifNondetInt64("q.pid")
		want := false
		for _, e := range all {
			want = verifOr(want, verifAnd(e.producerID == p, verifAnd(e.firstOffset <= o, o <= e.lastOffset)))
		}
		verifAssert(pd.isOffsetAborted(o, p) == want, "isOffsetAborted: offset within an aborted transaction of that producer")
	case 1:
		pd.logStartOffset = verifNondetInt64("logStart")
		verifAssume(verifAnd(pd.logStartOffset >= 0, pd.logStartOffset <= pd.highWatermark))
		pd.trimAbortedTxns()
		// kept entries = those with lastOffset >= logStart, in order
		j := 0
		ok := true
		for _, e := range all {
			keep := e.lastOffset >= pd.logStartOffset
			if keep { // forks; entries are few
				if j < len(pd.abortedTxns) {
					g := pd.abortedTxns[j]
					ok = verifAnd(ok, verifAnd(g.producerID == e.producerID, verifAnd(g.firstOffset == e.firstOffset, g.lastOffset == e.lastOffset)))
				} else {
					ok = false
				}
				j++
			}
		}
		verifAssert(ok && j == len(pd.abortedTxns), "trimAbortedTxns keeps exactly the entries whose marker is at or after the log start")
	}
	verifReached("c32-aborted-index")
}

// ---- fetch ----

func verifC32FetchCluster(st *verifC32State) (*Cluster, *clientReq, *kmsg.FetchRequest) {
	c := &Cluster{}
	b := &broker{c: c, node: 0}
	c.bs = []*broker{b}
	st.pd.leader = b
	st.pd.watch = map[*watchFetch]struct{}{}
	c.data.c = c
	c.data.tps = tps[partData]{"t": {0: st.pd}}
	req := kmsg.NewPtrFetchRequest()
	creq := &clientReq{cc: &clientConn{c: c, b: b}, kreq: req, at: time.Now()}
	return c, creq, req
}

// handleFetch (sessionless, one partition): the response carries the partition bounds; an offset
// outside [logStart, HWM] is OFFSET_OUT_OF_RANGE; returned batches are consecutive starting at
// the batch holding the fetch offset; with read_committed no batch at or beyond the LSO is
// returned and, size limits permitting, every batch below it is; the aborted-transaction list
// is exactly the index entries overlapping [fetchOffset, end of returned data).
func VerifC32_fetchVisibility() { verifC32Fetch(false) }

// The aborted-transaction list of a read_committed response, separately (see verifC32Fetch).
func VerifC32_fetchAbortedList() { verifC32Fetch(true) }

func verifC32Fetch(abortedPart bool) {
	maxN := verifC32NFetchBatches()
	if !abortedPart {
		maxN = 3 // a sealed segment of two batches followed by another segment needs three
	}
	n := verifConcretize(verifRange("nbatches", 0, maxN))
	st := verifC32Batches(n)
	pd := st.pd
	// LSO per I32 without materialising the table (fetch never reads it)
	lso := pd.highWatermark
	if verifChoose(2) == 1 && n > 0 {
		lso = st.openTxnOffset("open.first")
	}
	pd.lastStableOffset = lso
	if abortedPart {
		st.aborted(verifConcretize(verifRange("naborted", 0, 2)))
	}
	c, creq, req := verifC32FetchCluster(st)

	req.Version = 4 // sessionless; v5/v6 only add response fields
	req.MaxWaitMillis = 0
	req.MinBytes = 0
	req.MaxBytes = verifNondetInt32("req.maxBytes")
	readCommitted := verifNondetBool("readCommitted")
	if readCommitted {
		req.IsolationLevel = 1
	}
	fetchOffset := verifNondetInt64("fetchOffset")
	partMax := verifNondetInt32("part.maxBytes")
	verifAssume(verifAnd(req.MaxBytes >= 0, partMax >= 0))
	rt := kmsg.NewFetchRequestTopic()
	rt.Topic = "t"
	rp := kmsg.NewFetchRequestTopicPartition()
	rp.Partition = 0
	rp.FetchOffset = fetchOffset
	rp.PartitionMaxBytes = partMax
	rp.CurrentLeaderEpoch = -1
	rt.Partitions = append(rt.Partitions, rp)
	req.Topics = append(req.Topics, rt)
	verifC32.read = nil

	kresp, err := c.handleFetch(creq, nil)
	verifAssert(err == nil && kresp != nil, "fetch answered immediately when MinBytes is 0")
	resp := kresp.(*kmsg.FetchResponse)
	verifAssert(len(resp.Topics) == 1 && len(resp.Topics[0].Partitions) == 1, "one partition answered")
	sp := &resp.Topics[0].Partitions[0]
	if verifOr(fetchOffset < pd.logStartOffset, fetchOffset > pd.highWatermark) {
		if abortedPart {
			verifAssert(len(sp.AbortedTransactions) == 0, "no aborted list without read_committed data")
			verifReached("c32-fetch-aborted-none")
			return
		}
		verifAssert(sp.ErrorCode == 1, "offset outside [logStart, HWM] is OFFSET_OUT_OF_RANGE")
		verifAssert(len(verifC32.read) == 0, "no data with an error")
		verifReached("c32-fetch-out-of-range")
		return
	}
	verifAssert(sp.ErrorCode == 0, "offset within [logStart, HWM] is served")
	verifAssert(verifAnd(sp.HighWatermark == pd.highWatermark, verifAnd(sp.LastStableOffset == pd.lastStableOffset, sp.LogStartOffset == pd.logStartOffset)), "response carries the partition bounds")

	// index of the batch holding fetchOffset (n if at the end)
	start := n
	for i := n - 1; i >= 0; i-- {
		if fetchOffset < st.ends[i] { // forks, n is small
			start = i
		}
	}
	got := verifC32.read
	next := start + len(got)
	if abortedPart {
		verifC32FetchAborted(st, sp, readCommitted, fetchOffset, next, len(got))
		return
	}
	verifAssert(len(sp.RecordBatches) == len(got), "every batch read is returned")
	for j, m := range got {
		verifAssert(start+j < n && m == st.metas[start+j], "returned batches are consecutive from the batch holding the fetch offset")
		if readCommitted {
			verifAssert(m.firstOffset < pd.lastStableOffset, "read_committed returns nothing at or beyond the LSO")
		}
	}
	// completeness
	if next < n {
		var total int64
		for j := start; j <= next; j++ {
			total += int64(st.metas[j].nbytes)
		}
		limited := verifAnd(len(got) > 0, verifOr(total > int64(req.MaxBytes), total > int64(partMax)))
		hidden := verifAnd(readCommitted, st.metas[next].firstOffset >= pd.lastStableOffset)
		verifAssert(verifOr(limited, hidden), "a batch is withheld only by a size limit (after the first) or, for read_committed, by the LSO")
	}
	verifReached("c32-fetch")
}

func verifC32FetchAborted(st *verifC32State, sp *kmsg.FetchResponseTopicPartition, readCommitted bool, fetchOffset int64, next, ngot int) {
	pd := st.pd
	if next > len(st.ends) {
		return // reported by VerifC32_fetchVisibility
	}
	if readCommitted && ngot > 0 {
		upper := st.ends[next-1]
		k := 0
		for _, e := range pd.abortedTxns {
			if verifAnd(e.lastOffset >= fetchOffset, e.firstOffset < upper) { // forks
				if k < len(sp.AbortedTransactions) {
					a := sp.AbortedTransactions[k]
					verifAssert(verifAnd(a.ProducerID == e.producerID, a.FirstOffset == e.firstOffset), "aborted transactions listed in index order with producer and first offset")
				}
				k++
			}
		}
		verifAssert(k == len(sp.AbortedTransactions), "aborted list = index entries overlapping the returned range")
	} else {
		verifAssert(len(sp.AbortedTransactions) == 0, "no aborted list without read_committed data")
	}
	verifReached("c32-fetch-aborted")
}

// Incremental fetch sessions: with filtering on, a partition stays in the response exactly when
// it has records, an error, a changed high watermark or log start, or is unknown to the session;
// the session remembers what it last sent.
func VerifC32_sessionFilter() {
	s := &fetchSession{id: 1, epoch: 1, partitions: map[tp]fetchSessionPartition{}}
	np := 1 + verifChoose(2)
	resp := kmsg.NewPtrFetchResponse()
	rt := kmsg.NewFetchResponseTopic()
	rt.Topic = "t"
	type exp struct {
		include bool
		known   bool
		hwm     int64
		lso     int64
		err     int16
	}
	var exps []exp
	for p := 0; p < np; p++ {
		known := verifChoose(2) == 0
		var last fetchSessionPartition
		if known {
			last.lastHighWatermark = verifNondetInt64("last.hwm")
			last.lastLogStartOffset = verifNondetInt64("last.logStart")
			s.partitions[tp{"t", int32(p)}] = last
		}
		sp := kmsg.NewFetchResponseTopicPartition()
		sp.Partition = int32(p)
		sp.ErrorCode = verifNondetInt16("resp.err")
		sp.HighWatermark = verifNondetInt64("resp.hwm")
		sp.LogStartOffset = verifNondetInt64("resp.logStart")
		verifAssume(verifAnd(sp.HighWatermark >= 0, sp.LogStartOffset >= 0))
		sp.RecordBatches = []byte{}
		hasData := verifChoose(2) == 1
		if hasData {
			sp.RecordBatches = []byte{1}
		}
		changed := verifOr(sp.ErrorCode != 0, verifOr(sp.HighWatermark != last.lastHighWatermark, sp.LogStartOffset != last.lastLogStartOffset))
		exps = append(exps, exp{include: verifOr(!known || hasData, changed), known: known, hwm: sp.HighWatermark, lso: sp.LogStartOffset, err: sp.ErrorCode})
		rt.Partitions = append(rt.Partitions, sp)
	}
	resp.Topics = append(resp.Topics, rt)
	filter := verifNondetBool("incremental")

	s.updateAndFilterResponse(resp, filter)

	// walk the filtered response against the expectation
	var out []kmsg.FetchResponseTopicPartition
	if len(resp.Topics) > 0 {
		verifAssert(len(resp.Topics) == 1 && len(resp.Topics[0].Partitions) > 0, "topics without partitions are dropped")
		out = resp.Topics[0].Partitions
	}
	k := 0
	for p, e := range exps {
		if verifOr(!filter, e.include) { // forks
			verifAssert(k < len(out) && verifAnd(out[k].Partition == int32(p), out[k].HighWatermark == e.hwm), "changed partitions (records, error, moved high watermark or log start, new to the session) stay in an incremental response, in order")
			k++
		}
		if e.known {
			got := s.partitions[tp{"t", int32(p)}]
			if e.err != 0 {
				verifAssert(verifAnd(got.lastHighWatermark == -1, got.lastLogStartOffset == -1), "an error forgets the cached bounds so the next response includes the partition")
			} else {
				verifAssert(verifAnd(got.lastHighWatermark == e.hwm, got.lastLogStartOffset == e.lso), "the session remembers the bounds it sent")
			}
		}
	}
	verifAssert(k == len(out), "unchanged partitions are omitted from an incremental response")
	verifReached("c32-session-filter")
}
