package kfake

import (
	"hash/crc32"
	"time"

	"github.com/twmb/franz-go/pkg/kmsg"
)

// handleProduce with an idempotent producer: in-order batches get contiguous offsets starting at
// the high watermark, and a retried batch is answered with its original offset without being
// appended again.

func verifC32ProduceBatch(pid int64, epoch int16, seq, num int32) []byte {
	b := kmsg.RecordBatch{
		PartitionLeaderEpoch: -1,
		Magic:                2,
		LastOffsetDelta:      num - 1,
		FirstTimestamp:       1,
		MaxTimestamp:         1,
		ProducerID:           pid,
		ProducerEpoch:        epoch,
		FirstSequence:        seq,
		NumRecords:           num,
		Records:              []byte{0}, // opaque to the broker
	}
	benc := b.AppendTo(nil)
	b.Length = int32(len(benc) - 12)
	b.CRC = int32(crc32.Checksum(benc[21:], crc32c))
	return b.AppendTo(nil)
}

func verifC32Produce(c *Cluster, creq *clientReq, records []byte) *kmsg.ProduceResponseTopicPartition {
	req := kmsg.NewPtrProduceRequest()
	req.Version = 9
	req.Acks = -1
	rt := kmsg.NewProduceRequestTopic()
	rt.Topic = "t"
	rp := kmsg.NewProduceRequestTopicPartition()
	rp.Partition = 0
	rp.Records = records
	rt.Partitions = append(rt.Partitions, rp)
	req.Topics = append(req.Topics, rt)
	creq.kreq = req
	kresp, err := c.handleProduce(creq)
	verifAssert(err == nil && kresp != nil, "produce answered")
	resp := kresp.(*kmsg.ProduceResponse)
	verifAssert(len(resp.Topics) == 1 && len(resp.Topics[0].Partitions) == 1, "one partition answered")
	return &resp.Topics[0].Partitions[0]
}

func VerifC32_produceRetry() {
	pd := &partData{t: "t", p: 0, maxTimestampSeg: -1, maxTimestampIdx: -1}
	c := &Cluster{}
	b := &broker{c: c, node: 0}
	c.bs = []*broker{b}
	pd.leader = b
	c.data.c = c
	c.data.tps = tps[partData]{"t": {0: pd}}
	empty := map[string]*string{}
	c.bcfgs.Store(&empty)
	c.pids.c = c
	c.pids.ids = map[int64]*pidinfo{}
	creq := &clientReq{cc: &clientConn{c: c, b: b}, at: time.Now()}
	verifC32.persistFail, verifC32.persistRoll = false, false

	epoch := verifNondetInt16("epoch")
	s := verifNondetInt32("seq")
	n := verifC32Count32("n")
	m := verifC32Count32("m")
	verifAssume(verifAnd(epoch >= 0, s >= 0))
	next := int32((int64(s) + int64(n)) & 0x7fffffff)
	batchA := verifC32ProduceBatch(1, epoch, s, n)
	batchB := verifC32ProduceBatch(1, epoch, next, m)

	ra := verifC32Produce(c, creq, batchA)
	verifAssert(verifAnd(ra.ErrorCode == 0, ra.BaseOffset == 0), "first batch of a new idempotent producer is appended at the high watermark")
	verifAssert(pd.highWatermark == int64(n), "high watermark advances by the record count")
	rb := verifC32Produce(c, creq, batchB)
	verifAssert(verifAnd(rb.ErrorCode == 0, rb.BaseOffset == int64(n)), "the next in-sequence batch gets the contiguous next offset")
	verifAssert(pd.highWatermark == int64(n)+int64(m), "high watermark advances by the record count")
	count := verifC32Count(pd)

	var retry *kmsg.ProduceResponseTopicPartition
	var orig int64
	if verifChoose(2) == 0 {
		retry, orig = verifC32Produce(c, creq, batchA), 0
	} else {
		retry, orig = verifC32Produce(c, creq, batchB), int64(n)
	}
	// a 2^31 sequence wrap inside the 5-batch window makes two different batches share
	// (firstSeq, nextSeq); excluded like in Kafka (see C29)
	verifAssume(verifNot(verifAnd(next == s, m == n)))
	verifAssert(verifAnd(retry.ErrorCode == 0, retry.BaseOffset == orig), "a retried idempotent batch is answered with its original offset")
	verifAssert(verifAnd(pd.highWatermark == int64(n)+int64(m), verifC32Count(pd) == count), "a retried idempotent batch is not appended again")
	verifAssert(pd.lastStableOffset == pd.highWatermark, "without transactions the LSO follows the high watermark")
	verifReached("c32-produce-retry")
}
