package kfake

import (
	"path/filepath"
	"time"
	"errors"
	"os"
)

// ---------------------------------------------------------------------------------------------
// C33: kfake persistence kernels under crashes.
//
// The harness supplies its own in-memory `file` / `fs` (the package's injectable interfaces of
// persist_fs.go) which remember what was written, what was synced, and every operation; a crash
// is "the file keeps an arbitrary prefix of its content" (symbolic cut, every offset explored).
// ---------------------------------------------------------------------------------------------

var (
	verifC33ErrIO      = errors.New("verif: injected I/O error")
	verifC33ErrMarshal = errors.New("verif: injected marshal error")
)

type verifC33File struct {
	fsys   *verifC33FS
	path   string
	flag   int
	data   []byte
	synced int // length that had been written when Sync last succeeded
	writes int
	syncs  int
	closed bool
}

func (f *verifC33File) Write(b []byte) (int, error) {
	if f.closed {
		verifFail("write on a closed file")
	}
	f.writes++
	if f.fsys != nil {
		f.fsys.log = append(f.fsys.log, verifC33Op{"write", f.path, ""})
		if f.fsys.failWrite {
			// a failed write may leave any prefix behind
			n := f.fsys.partial
			if n > len(b) {
				n = len(b)
			}
			f.data = append(f.data, b[:n]...)
			return n, verifC33ErrIO
		}
	}
	f.data = append(f.data, b...) // copies: callers reuse pooled buffers
	return len(b), nil
}

func (f *verifC33File) Sync() error {
	if f.closed {
		verifFail("sync on a closed file")
	}
	f.syncs++
	if f.fsys != nil {
		f.fsys.log = append(f.fsys.log, verifC33Op{"sync", f.path, ""})
		if f.fsys.failSync {
			return verifC33ErrIO
		}
	}
	f.synced = len(f.data)
	return nil
}

func (f *verifC33File) Close() error {
	f.closed = true
	if f.fsys != nil {
		f.fsys.log = append(f.fsys.log, verifC33Op{"close", f.path, ""})
	}
	return nil
}

func (f *verifC33File) Read(b []byte) (int, error) { verifFail("unexpected Read"); return 0, nil }
func (f *verifC33File) Seek(offset int64, whence int) (int64, error) {
	verifFail("unexpected Seek")
	return 0, nil
}
func (f *verifC33File) Truncate(size int64) error {
	if f.fsys != nil {
		f.fsys.log = append(f.fsys.log, verifC33Op{"truncate", f.path, ""})
	}
	if int(size) < len(f.data) {
		f.data = f.data[:size]
	}
	if f.synced > len(f.data) {
		f.synced = len(f.data)
	}
	return nil
}

type verifC33Op struct{ op, path, to string }

type verifC33FS struct {
	files map[string]*verifC33File // namespace
	open  []*verifC33File
	log   []verifC33Op

	failOpen, failWrite, failSync, failRename bool
	partial                                   int

	renameChecked  bool
	noContentCheck bool // Rename checks durability only (the content is not the JSON document of writeJSONFile)
}

func (m *verifC33FS) OpenFile(name string, flag int, perm os.FileMode) (file, error) {
	m.log = append(m.log, verifC33Op{"open", name, ""})
	if m.failOpen {
		return nil, verifC33ErrIO
	}
	f, ok := m.files[name]
	if !ok {
		if flag&os.O_CREATE == 0 {
			return nil, os.ErrNotExist
		}
		f = &verifC33File{fsys: m, path: name}
		m.files[name] = f
	}
	h := &verifC33File{fsys: m, path: name, flag: flag, data: f.data, synced: f.synced}
	if flag&os.O_TRUNC != 0 {
		h.data, h.synced = nil, 0
	}
	m.files[name] = h
	m.open = append(m.open, h)
	return h, nil
}

func (m *verifC33FS) Rename(oldpath, newpath string) error {
	m.log = append(m.log, verifC33Op{"rename", oldpath, newpath})
	if m.failRename {
		return verifC33ErrIO
	}
	f, ok := m.files[oldpath]
	if !ok {
		return os.ErrNotExist
	}
	// the discipline: what becomes visible under the final name is complete and durable
	m.renameChecked = true
	verifAssert(f.synced == len(f.data), "the temporary file is fully synced before it is renamed over the snapshot")
	if !m.noContentCheck {
		verifAssert(verifC33BytesEq(f.data, verifC33DocBytes), "the temporary file holds the complete new content before it is renamed over the snapshot")
	}
	delete(m.files, oldpath)
	m.files[newpath] = f
	return nil
}

func (m *verifC33FS) Remove(name string) error {
	m.log = append(m.log, verifC33Op{"remove", name, ""})
	delete(m.files, name)
	return nil
}
func (m *verifC33FS) RemoveAll(path string) error {
	m.log = append(m.log, verifC33Op{"removeall", path, ""})
	return nil
}
func (m *verifC33FS) MkdirAll(path string, perm os.FileMode) error { return nil }
func (m *verifC33FS) ReadDir(name string) ([]os.DirEntry, error)   { return nil, nil }
func (m *verifC33FS) ReadFile(name string) ([]byte, error) {
	f, ok := m.files[name]
	if !ok {
		return nil, os.ErrNotExist
	}
	return append([]byte(nil), f.data...), nil
}
func (m *verifC33FS) Stat(name string) (os.FileInfo, error) {
	f, ok := m.files[name]
	if !ok {
		return nil, verifC33ErrIO // (os.ErrNotExist is nil in the executor: package os is not initialised)
	}
	return verifC33Info{name: name, size: int64(len(f.data))}, nil
}

type verifC33Info struct {
	name string
	size int64
}

func (i verifC33Info) Name() string       { return i.name }
func (i verifC33Info) Size() int64        { return i.size }
func (i verifC33Info) Mode() os.FileMode  { return 0o644 }
func (i verifC33Info) ModTime() time.Time { return time.Time{} }
func (i verifC33Info) IsDir() bool        { return false }
func (i verifC33Info) Sys() any           { return nil }

func verifC33BytesEq(a, b []byte) bool {
	if len(a) != len(b) {
		return false
	}
	ok := true
	for i := range a {
		ok = verifAnd(ok, a[i] == b[i])
	}
	return ok
}

// ---- a JSON document whose encoding is symbolic ----
//
// encoding/json is not interpretable; the engine models json.Marshal(v) by calling v's own
// MarshalJSON. The document marshals to a JSON string of n symbolic lower-case letters (valid,
// compact JSON, so the native json.Marshal returns the very same bytes) or fails.

type verifC33Doc struct {
	n    int
	fail bool
}

var verifC33DocBytes []byte

func (d verifC33Doc) MarshalJSON() ([]byte, error) {
	if d.fail {
		return nil, verifC33ErrMarshal
	}
	out := []byte{'"'}
	for i := 0; i < d.n; i++ {
		b := verifNondetUint8("doc")
		verifAssume(verifAnd(b >= 'a', b <= 'z'))
		out = append(out, b)
	}
	out = append(out, '"')
	verifC33DocBytes = append([]byte(nil), out...)
	return out, nil
}

func verifC33MaxEntries() int {
	if verifThorough() {
		return 3
	}
	return 2
}

func verifC33PayloadLen() int {
	if verifThorough() {
		return verifChoose(4) // 0..3
	}
	return 2 * verifChoose(2) // 0 or 2
}

// Framing under a crash at any byte: entries are appended with writeEntry (one Write call each,
// followed by Sync when asked); the file is cut at every offset L in [0, size]; readEntries on
// the surviving prefix returns exactly the entries that lie wholly within L, in order, with
// their payload and version, reports the last whole entry's end as the valid length, and never
// returns a partial entry. In particular every entry whose writeEntry returned (and, with
// SyncWrites, was synced) before the crash point is recovered.
func VerifC33_framingCrash() {
	k := verifConcretize(verifRange("nentries", 0, verifC33MaxEntries()))
	f := &verifC33File{}
	syncW := verifChoose(2) == 1
	var datas [][]byte
	var ends []int
	for i := 0; i < k; i++ {
		d := verifNondetBytes("payload", verifC33PayloadLen())
		keep := append([]byte(nil), d...)
		before := len(f.data)
		err := writeEntry(f, d, syncW)
		verifAssert(err == nil, "writeEntry succeeds on a healthy file")
		verifAssert(f.writes == i+1, "an entry is handed to the file in a single Write call")
		verifAssert(len(f.data) == before+entryHeaderSize+len(d), "an entry occupies header + payload bytes")
		if syncW {
			verifAssert(f.synced == len(f.data), "with SyncWrites the entry is synced before writeEntry returns")
		}
		datas = append(datas, keep)
		ends = append(ends, len(f.data))
	}
	total := len(f.data)
	cut := verifConcretize(verifRange("crash.offset", 0, total))
	raw := append([]byte(nil), f.data[:cut]...)

	entries, valid := readEntries(raw)

	want := 0
	wantValid := 0
	for i := range ends {
		if ends[i] <= cut {
			want = i + 1
			wantValid = ends[i]
		}
	}
	verifAssert(len(entries) == want, "recovery returns exactly the entries written completely before the crash point")
	verifAssert(valid == wantValid, "valid length is the end of the last complete entry")
	for i := 0; i < len(entries) && i < want; i++ {
		verifAssert(entries[i].version == currentPersistVersion, "entry version preserved")
		verifAssert(verifC33BytesEq(entries[i].data, datas[i]), "entry payload preserved, in order")
	}
	verifReached("c33-framing-crash")
}

// readEntries on arbitrary bytes (corruption, garbage after a torn write): no panic, the valid
// length never exceeds the input and is the sum of the returned frames, and truncating to it
// is stable (reading the truncated file returns the same entries).
func VerifC33_readEntriesTotal() {
	sizes := [...]int{0, 9, 10, 11, 13, 23}
	n := sizes[verifChoose(len(sizes))]
	if verifThorough() && n == 23 {
		n = 26
	}
	raw := verifNondetBytes("raw", n)
	entries, valid := readEntries(raw)
	verifAssert(valid >= 0 && valid <= len(raw), "valid length within the input")
	sum := 0
	for _, e := range entries {
		sum += entryHeaderSize + len(e.data)
	}
	verifAssert(sum == valid, "valid length = total size of the returned frames")
	again, valid2 := readEntries(raw[:valid])
	verifAssert(valid2 == valid && len(again) == len(entries), "truncating at the valid length is stable")
	verifReached("c33-read-entries-total")
}

// Index entry codec: decode(encode(x)) = x for every epoch, timestamp and flag; short input is
// rejected.
func VerifC33_indexCodec() {
	epoch := verifNondetInt32("epoch")
	ts := verifNondetInt64("maxEarlierTS")
	inTx := verifNondetBool("inTx")
	buf := encodeIndexEntry(epoch, ts, inTx)
	verifAssert(buf[0] == currentPersistVersion, "index entry carries the format version")
	e2, ts2, in2, ok := decodeIndexEntry(buf[:])
	verifAssert(ok, "a freshly encoded index entry decodes")
	verifAssert(verifAnd(e2 == epoch, verifAnd(ts2 == ts, in2 == inTx)), "index entry round-trips")
	cut := verifRange("cut", 0, indexEntrySize-1)
	_, _, _, ok = decodeIndexEntry(buf[:verifConcretize(cut)])
	verifAssert(!ok, "a partially written index entry is rejected")
	verifReached("c33-index-codec")
}

// appendLogEntry: the JSON encoding of the value is framed and appended (readEntries returns it
// back), the reported size is header + payload, a marshal failure writes nothing.
func VerifC33_appendLogEntry() {
	f := &verifC33File{}
	doc := verifC33Doc{n: verifChoose(3), fail: verifChoose(2) == 1}
	syncW := verifChoose(2) == 1
	n, err := appendLogEntry(f, doc, syncW)
	if doc.fail {
		verifAssert(err != nil, "marshal error is reported")
		verifAssert(len(f.data) == 0 && f.writes == 0, "nothing is written when encoding fails")
		verifReached("c33-append-log-entry-fail")
		return
	}
	verifAssert(err == nil, "append succeeds on a healthy file")
	verifAssert(n == entryHeaderSize+len(verifC33DocBytes) && n == len(f.data), "reported size = bytes appended = header + JSON")
	if syncW {
		verifAssert(f.synced == len(f.data), "with SyncWrites the entry is synced before returning")
	}
	entries, valid := readEntries(f.data)
	verifAssert(len(entries) == 1 && valid == len(f.data), "the appended entry reads back")
	verifAssert(verifC33BytesEq(entries[0].data, verifC33DocBytes), "the entry payload is the JSON encoding")
	verifReached("c33-append-log-entry")
}

// Snapshot discipline of writeJSONFile under every combination of injected failures (open,
// write with any partial prefix, sync, rename): the snapshot path itself is never opened,
// written or removed; the only thing that touches it is one rename of the temporary file, and
// only after the complete content was written and synced; any failure is reported and leaves
// the old snapshot in place; the handle is closed.
func VerifC33_snapshotDiscipline() {
	const final = "dir/state.json"
	old := &verifC33File{path: final, data: []byte("old"), synced: 3}
	m := &verifC33FS{files: map[string]*verifC33File{final: old}}
	switch verifChoose(5) {
	case 0:
	case 1:
		m.failOpen = true
	case 2:
		m.failWrite = true
		m.partial = verifChoose(4)
	case 3:
		m.failSync = true
	case 4:
		m.failRename = true
	}
	if verifChoose(2) == 1 { // a stale temporary file from an earlier crash
		m.files[final+".tmp"] = &verifC33File{path: final + ".tmp", data: []byte("stale-partial")}
	}
	doc := verifC33Doc{n: verifChoose(3), fail: verifChoose(2) == 1}
	verifC33DocBytes = nil

	err := writeJSONFile(m, final, doc)

	injected := m.failOpen || m.failWrite || m.failSync || m.failRename || doc.fail
	verifAssert((err != nil) == injected, "writeJSONFile fails exactly when a step failed")
	renames := 0
	for _, op := range m.log {
		switch op.op {
		case "open", "write", "sync", "close", "remove", "removeall", "truncate":
			verifAssert(op.path != final, "the snapshot path itself is never opened, written or removed")
		case "rename":
			renames++
			verifAssert(op.path == final+".tmp" && op.to == final, "only the temporary file is renamed, onto the snapshot path")
		}
	}
	cur := m.files[final]
	if err == nil {
		verifAssert(renames == 1 && m.renameChecked, "success means the temporary file was renamed into place once")
		verifAssert(cur != nil && verifC33BytesEq(cur.data, verifC33DocBytes) && cur.synced == len(cur.data), "after success the snapshot is the complete, synced new content")
		_, tmpLeft := m.files[final+".tmp"]
		verifAssert(!tmpLeft, "no temporary file remains after success")
	} else {
		verifAssert(cur == old, "after a failure the previous snapshot is untouched")
		if !m.failRename {
			verifAssert(renames == 0, "no rename after a failed step")
		}
	}
	for _, h := range m.open {
		verifAssert(h.closed, "every opened handle is closed")
	}
	verifReached("c33-snapshot-discipline")
}

// ---- groups.log compaction: the same write-temp / sync / rename discipline ----

var verifC33Replay glReplay

//verif:replace replayGroupsLog
func verifC33ReplayGroupsLog(entries []entryData) glReplay { return verifC33Replay }

// compactGroupsLog rewrites groups.log (every acknowledged offset commit lives there) as
// groups.log.tmp and renames it into place. With SyncWrites the rename must only ever expose
// a temporary file that is completely written AND synced — otherwise a stop right after the
// rename leaves an empty or torn groups.log and every acknowledged commit is gone. Under every
// injected failure (open, write with any partial prefix, sync, rename) the old groups.log
// stays in place, the temporary file is removed or left beside it, and groups.log itself is
// never opened for writing by the compaction. The JSON replay of the old entries is replaced
// by a canned result (1..2 entries of symbolic bytes).
func VerifC33_compactGroupsLogDiscipline() {
	const final = "dir/groups.log"
	old := &verifC33File{path: final, data: []byte{0, 0, 0, 0}, synced: 4}
	m := &verifC33FS{files: map[string]*verifC33File{final: old}, noContentCheck: true}
	switch verifChoose(5) {
	case 0:
	case 1:
		m.failWrite = true
		m.partial = verifChoose(4)
	case 2:
		m.failSync = true
	case 3:
		m.failRename = true
	case 4:
		m.files[final+".tmp"] = &verifC33File{path: final + ".tmp", data: []byte("stale-partial")}
	}
	c := &Cluster{}
	c.cfg.logger = new(nopLogger)
	c.cfg.dataDir = "dir"
	c.cfg.syncWrites = true
	c.fs = m
	verifC33Replay = glReplay{metas: map[string][]byte{"g": verifNondetBytes("meta", 2)}, commits: map[glCommitKey][]byte{}, statics: map[glStaticKey][]byte{}}
	if verifChoose(2) == 1 {
		verifC33Replay.commits[glCommitKey{}] = verifNondetBytes("commit", 3)
	}
	want := 0
	for _, d := range verifC33Replay.metas {
		want += entryHeaderSize + len(d)
	}
	for _, d := range verifC33Replay.commits {
		want += entryHeaderSize + len(d)
	}

	c.compactGroupsLog()

	renames := 0
	for _, op := range m.log {
		switch op.op {
		case "open", "write", "sync", "truncate", "remove", "removeall":
			verifAssert(op.path != final, "compaction never opens, writes or removes groups.log itself")
		case "rename":
			renames++
			verifAssert(op.path == final+".tmp" && op.to == final, "only the temporary file is renamed, onto groups.log")
		}
	}
	cur := m.files[final]
	failed := m.failWrite || m.failSync || m.failRename
	if failed {
		verifAssert(cur == old, "after a failed step the previous groups.log is untouched")
		if !m.failRename {
			verifAssert(renames == 0, "no rename after a failed step")
		}
	} else {
		verifAssert(renames == 1 && m.renameChecked, "a successful compaction renames the temporary file into place once")
		verifAssert(cur != nil && cur != old && len(cur.data) == want && cur.synced == len(cur.data), "after a successful compaction groups.log is the complete, synced compacted content")
	}
	for _, h := range m.open {
		verifAssert(h.closed, "every opened handle is closed")
	}
	verifReached("c33-compact-groups-log")
}

// ---- when is a partition snapshot trusted at restart ----

// loadPartition skips the segment replay when snapshotMatchesSegments says the snapshot still
// describes the segment files. With SyncWrites every acknowledged produce is in a segment
// file, but the snapshot is only rewritten at a clean Close: after "clean Close, restart,
// more acknowledged produces, crash" the active segment is LONGER than the snapshot says, and
// trusting the snapshot would hide the acknowledged records. So the snapshot is trusted
// exactly when the segment list matches and every segment file has exactly the recorded size
// (shorter = torn, longer = appended since). One segment, recorded and on-disk size symbolic in [0,64], file present or
// missing, segment list equal / different base / different length.
func VerifC33_snapshotTrust() {
	n := 1 // (the group's segmentFileName stub gives every segment the same name: one segment)
	m := &verifC33FS{files: map[string]*verifC33File{}}
	var snap persistPartSnapshot
	var segFiles []int64
	bases := []int64{0, 40}
	shape := verifChoose(3) // 0 same list, 1 one base differs, 2 one more file on disk
	want := shape == 0
	for i := 0; i < n; i++ {
		rec := verifNondetInt64("snapshot.size")
		disk := verifNondetInt64("disk.size")
		verifAssume(verifAnd(verifAnd(rec >= 0, rec <= 64), verifAnd(disk >= 0, disk <= 64)))
		snap.Segments = append(snap.Segments, persistSegmentInfo{BaseOffset: bases[i], Size: rec})
		b := bases[i]
		if shape == 1 && i == n-1 {
			b += 7
		}
		segFiles = append(segFiles, b)
		if verifChoose(4) != 0 { // the file exists
			m.files[filepath.Join("p", segmentFileName(bases[i]))] = &verifC33File{data: make([]byte, verifConcretize(int(disk)))}
			want = want && disk == rec
		} else {
			want = false
		}
	}
	if shape == 2 {
		segFiles = append(segFiles, 99)
	}
	got := snapshotMatchesSegments(snap, segFiles, m, "p")
	verifAssert(got == want, "a partition snapshot is trusted exactly when the segment list matches and every segment file has exactly the recorded size (a segment that grew since the snapshot forces a replay)")
	verifReached("c33-snapshot-trust")
}
