package kfake

import (
	"hash/crc32"

	"github.com/twmb/franz-go/pkg/kmsg"
)

// Segment + index files written by the real persistBatchToSegment through the harness fs, cut
// at a crash point, and read back by the real loadSegmentBatches.

//verif:replace partDir
func verifC33PartDir(dataDir, topic string, part int32) string { return "pdir" }

//verif:replace segmentFileName
func verifC33SegmentFileName(baseOffset int64) string { return "seg" }

//verif:replace indexFileName
func verifC33IndexFileName(baseOffset int64) string { return "idx" }

func (f *verifC33File) verifTruncate(size int64) {
	if int(size) < len(f.data) {
		f.data = f.data[:size]
	}
	if f.synced > len(f.data) {
		f.synced = len(f.data)
	}
}

// verifC33Batch builds a well-formed one-record batch (symbolic value byte, producer id,
// timestamps) with its CRC, as handleProduce would have validated it.
func verifC33Batch(i int) (kmsg.RecordBatch, int) {
	rec := kmsg.Record{Value: verifNondetBytes("rec.value", 1+i)}
	rec.Length = int32(len(rec.AppendTo(nil)) - 1)
	b := kmsg.RecordBatch{
		PartitionLeaderEpoch: 0,
		Magic:                2,
		LastOffsetDelta:      0,
		FirstTimestamp:       int64(5 - i), // decreasing: exercises maxEarlierTimestamp
		MaxTimestamp:         7,
		ProducerID:           verifNondetInt64("b.pid"),
		ProducerEpoch:        0,
		FirstSequence:        0,
		NumRecords:           1,
		Records:              rec.AppendTo(nil),
	}
	benc := b.AppendTo(nil)
	b.Length = int32(len(benc) - 12)
	b.CRC = int32(crc32.Checksum(benc[21:], crc32c))
	return b, len(benc)
}

// Crash between/inside batch appends: k batches are appended with SyncWrites; the segment file
// is cut at every byte offset and the index file at every entry boundary or mid-entry; recovery
// returns exactly the batches that are completely inside the surviving segment prefix, with
// contiguous offsets and their original content, restores the index metadata of every batch
// whose index entry survived, and truncates the torn tail so that a second recovery sees the
// same log.
func VerifC33_segmentCrash() {
	m := &verifC33FS{files: map[string]*verifC33File{}}
	c := &Cluster{fs: m, storageDir: "data"}
	c.cfg.logger = new(nopLogger)
	c.cfg.syncWrites = true
	empty := map[string]*string{}
	c.bcfgs.Store(&empty)
	pd := &partData{t: "t", p: 0, maxTimestampSeg: -1, maxTimestampIdx: -1, epoch: 3}

	k := 2
	if verifThorough() {
		k = 3
	}
	type written struct {
		end          int
		value        []byte
		pid, firstTs int64
		inTx         bool
	}
	var ws []written
	for i := 0; i < k; i++ {
		b, n := verifC33Batch(i)
		inTx := i%2 == 0
		first := c.pushBatch(pd, n, b, inTx)
		verifAssert(first == int64(i), "batches get contiguous offsets")
		seg := m.files["pdir/seg"]
		idx := m.files["pdir/idx"]
		verifAssert(seg != nil && idx != nil, "segment and index files exist after the first append")
		verifAssert(seg.synced == len(seg.data) && idx.synced == len(idx.data), "with SyncWrites segment and index are synced before the append returns")
		verifAssert(len(idx.data) == (i+1)*indexEntrySize, "one index entry per batch")
		ws = append(ws, written{end: len(seg.data), pid: b.ProducerID, firstTs: b.FirstTimestamp, inTx: inTx})
	}
	seg, idx := m.files["pdir/seg"], m.files["pdir/idx"]
	segLen := len(seg.data)

	// crash: acknowledged appends are synced; the tail of the last (unacknowledged, in-flight)
	// append may be missing from either file. We cut anywhere to also cover SyncWrites=false.
	cut := verifConcretize(verifRange("crash.seg", 0, segLen))
	var idxCut int
	if verifThorough() {
		idxCut = verifChoose(2*k+1) * indexEntrySize / 2 // 0, 7, 15, 22, 30, ...
	} else {
		idxCut = [...]int{k * indexEntrySize, (k-1)*indexEntrySize + 7, 0}[verifChoose(3)]
	}
	if idxCut > len(idx.data) {
		idxCut = len(idx.data)
	}
	seg.verifTruncate(int64(cut))
	idx.verifTruncate(int64(idxCut))
	seg.closed, idx.closed = false, false

	want := 0
	for i := range ws {
		if ws[i].end <= cut {
			want = i + 1
		}
	}

	recover := func() []*partBatch {
		pd2 := &partData{t: "t", p: 0, maxTimestampSeg: -1, maxTimestampIdx: -1}
		pd2.segments = []segmentInfo{{base: 0}}
		got, err := c.loadSegmentBatches(pd2, m, "pdir", 0)
		verifAssert(err == nil, "recovery of a crashed segment succeeds")
		verifAssert(len(pd2.segments[0].index) == len(got), "one rebuilt index entry per recovered batch")
		return got
	}
	got := recover()
	verifAssert(len(got) == want, "recovery returns exactly the batches written completely before the crash point")
	for i := 0; i < len(got) && i < want; i++ {
		g := got[i]
		verifAssert(g.FirstOffset == int64(i), "recovered offsets are contiguous from the segment base")
		verifAssert(verifAnd(g.ProducerID == ws[i].pid, verifAnd(g.FirstTimestamp == ws[i].firstTs, g.NumRecords == 1)), "recovered batch content is what was appended")
		if (i+1)*indexEntrySize <= idxCut {
			verifAssert(verifAnd(g.epoch == 3, g.inTx == ws[i].inTx), "index metadata restored for batches whose index entry survived")
		}
	}
	wantSegLen := 0
	if want > 0 {
		wantSegLen = ws[want-1].end
	}
	verifAssert(len(m.files["pdir/seg"].data) == wantSegLen, "the torn tail of the segment is truncated away")
	verifAssert(len(m.files["pdir/idx"].data) <= want*indexEntrySize, "index entries without a batch are truncated away")
	again := recover()
	verifAssert(len(again) == want, "a second recovery sees the same log")
	verifReached("c33-segment-crash")
}
