package kfake

import (
	"github.com/twmb/franz-go/pkg/kmsg"
)

// ---------------------------------------------------------------------------------------------
// C34: kfake's ACL decision procedure vs. Apache Kafka's StandardAuthorizer.
//
// The reference below is written from Kafka's rules (StandardAuthorizerData.findResult /
// checkSection and Authorizer.authorizeByResourceType), not from acl.go. It is pure term-level
// code (verifAnd/verifOr, no Go && / || on symbolic data), so it never forks.
// ---------------------------------------------------------------------------------------------

// wire values (Kafka protocol) -- written out here on purpose instead of using the kmsg names
// in the reference, so that the reference does not depend on how acl.go spells them.
const (
	verifC34Literal  = 3
	verifC34Prefixed = 4

	verifC34OpAll             = 2
	verifC34OpRead            = 3
	verifC34OpWrite           = 4
	verifC34OpDelete          = 6
	verifC34OpAlter           = 7
	verifC34OpDescribe        = 8
	verifC34OpDescribeConfigs = 10
	verifC34OpAlterConfigs    = 11
	verifC34OpIdempotentWrite = 12

	verifC34Deny  = 2
	verifC34Allow = 3
)

// verifC34Str returns a string of n symbolic bytes. A one byte string can take the value "*"
// (wildcard resource, wildcard host), so the literals need no separate case.
func verifC34Str(tag string, n int) string {
	if n == 0 {
		return ""
	}
	return verifNondetString(tag, n)
}

// verifC34Principal returns "User:" + one symbolic byte: covers ordinary users and "User:*".
func verifC34Principal(tag string) string {
	return "User:" + verifNondetString(tag, 1)
}

// verifC34ACL builds one ACL entry that CreateACLs would have stored (validateACLCreation):
// resource type in [topic, transactional id], pattern literal or prefixed, operation in
// [ALL, IDEMPOTENT_WRITE], permission DENY or ALLOW. The resource name is non-empty (Kafka
// rejects empty names at creation) with nameLen symbolic bytes.
func verifC34ACL(nameLen int) acl {
	var a acl
	a.principal = verifC34Principal("acl.principal")
	a.host = verifC34Str("acl.host", 1)
	a.resourceType = kmsg.ACLResourceType(verifNondetInt8("acl.rtype"))
	a.resourceName = verifC34Str("acl.name", nameLen)
	a.pattern = kmsg.ACLResourcePatternType(verifNondetInt8("acl.pattern"))
	a.operation = kmsg.ACLOperation(verifNondetInt8("acl.op"))
	a.permission = kmsg.ACLPermissionType(verifNondetInt8("acl.perm"))
	verifAssume(verifAnd(a.resourceType >= 2, a.resourceType <= 5))
	verifAssume(verifOr(a.pattern == verifC34Literal, a.pattern == verifC34Prefixed))
	verifAssume(verifAnd(a.operation >= verifC34OpAll, a.operation <= verifC34OpIdempotentWrite))
	verifAssume(verifOr(a.permission == verifC34Deny, a.permission == verifC34Allow))
	return a
}

// verifC34ACLs builds n entries with name lengths chosen per path from {1,2}.
func verifC34ACLs(n int) []acl {
	out := make([]acl, 0, n)
	for i := 0; i < n; i++ {
		out = append(out, verifC34ACL(1+verifChoose(2)))
	}
	return out
}

// ---- reference (Kafka) ----

func verifC34HasPrefix(s, p string) bool {
	if len(p) > len(s) {
		return false
	}
	return s[:len(p)] == p
}

// resource pattern of the ACL matches the (literal) queried resource.
func verifC34RefMatchesResource(a *acl, rtype int8, name string) bool {
	lit := verifAnd(int8(a.pattern) == verifC34Literal, verifOr(a.resourceName == name, a.resourceName == "*"))
	pre := verifAnd(int8(a.pattern) == verifC34Prefixed, verifC34HasPrefix(name, a.resourceName))
	return verifAnd(int8(a.resourceType) == rtype, verifOr(lit, pre))
}

func verifC34RefMatchesWho(a *acl, princ, host string) bool {
	return verifAnd(
		verifOr(a.principal == princ, a.principal == "User:*"),
		verifOr(a.host == host, a.host == "*"))
}

// StandardAuthorizerData.findResult operation rule: ALL matches everything; a DENY matches
// its own operation only; an ALLOW additionally implies DESCRIBE (from READ, WRITE, DELETE,
// ALTER) and DESCRIBE_CONFIGS (from ALTER_CONFIGS).
func verifC34RefMatchesOp(a *acl, op int8) bool {
	aop := int8(a.operation)
	implDescribe := verifAnd(op == verifC34OpDescribe,
		verifOr(verifOr(aop == verifC34OpRead, aop == verifC34OpWrite), verifOr(aop == verifC34OpDelete, aop == verifC34OpAlter)))
	implDescCfg := verifAnd(op == verifC34OpDescribeConfigs, aop == verifC34OpAlterConfigs)
	implied := verifAnd(int8(a.permission) == verifC34Allow, verifOr(implDescribe, implDescCfg))
	return verifOr(verifOr(aop == verifC34OpAll, aop == op), implied)
}

// authorize(): any matching DENY denies; otherwise a matching ALLOW permits; otherwise denied
// (allow.everyone.if.no.acl.found = false, kfake has no such switch).
func verifC34RefAllowed(acls []acl, princ, host, name string, rtype, op int8) bool {
	anyDeny, anyAllow := false, false
	for i := range acls {
		a := &acls[i]
		m := verifAnd(verifC34RefMatchesResource(a, rtype, name),
			verifAnd(verifC34RefMatchesWho(a, princ, host), verifC34RefMatchesOp(a, op)))
		anyDeny = verifOr(anyDeny, verifAnd(m, int8(a.permission) == verifC34Deny))
		anyAllow = verifOr(anyAllow, verifAnd(m, int8(a.permission) == verifC34Allow))
	}
	return verifAnd(verifNot(anyDeny), anyAllow)
}

// Authorizer.authorizeByResourceType (for non-superusers): allowed if the hard-coded probe
// resource "hardcode" is authorized; denied if a matching DENY on literal "*" exists; allowed
// if a matching ALLOW on literal "*" exists; otherwise allowed iff some matching ALLOW pattern
// is not dominated by a matching DENY: a literal ALLOW is dominated by a DENY on the same
// literal, and any ALLOW (literal or prefixed) by a prefixed DENY whose (non-empty) name is a
// prefix of the ALLOW's name. Operation matching in that loop is "same operation or ALL".
func verifC34RefAnyAllowed(acls []acl, princ, host string, rtype, op int8) bool {
	n := len(acls)
	match := make([]bool, n)
	for i := range acls {
		a := &acls[i]
		aop := int8(a.operation)
		match[i] = verifAnd(int8(a.resourceType) == rtype,
			verifAnd(verifC34RefMatchesWho(a, princ, host), verifOr(aop == op, aop == verifC34OpAll)))
	}
	denyWild, allowWild, someFree := false, false, false
	for i := range acls {
		a := &acls[i]
		isLit := int8(a.pattern) == verifC34Literal
		isPre := int8(a.pattern) == verifC34Prefixed
		wild := verifAnd(isLit, a.resourceName == "*")
		isDeny := verifAnd(match[i], int8(a.permission) == verifC34Deny)
		isAllow := verifAnd(match[i], int8(a.permission) == verifC34Allow)
		denyWild = verifOr(denyWild, verifAnd(isDeny, wild))
		allowWild = verifOr(allowWild, verifAnd(isAllow, wild))

		dominated := false
		for j := range acls {
			d := &acls[j]
			dDeny := verifAnd(match[j], int8(d.permission) == verifC34Deny)
			sameLit := verifAnd(verifAnd(isLit, int8(d.pattern) == verifC34Literal), d.resourceName == a.resourceName)
			covering := false
			if len(d.resourceName) > 0 {
				covering = verifAnd(int8(d.pattern) == verifC34Prefixed, verifC34HasPrefix(a.resourceName, d.resourceName))
			}
			dominated = verifOr(dominated, verifAnd(dDeny, verifOr(sameLit, covering)))
		}
		candidate := verifAnd(isAllow, verifAnd(verifOr(isLit, isPre), verifNot(wild)))
		someFree = verifOr(someFree, verifAnd(candidate, verifNot(dominated)))
	}
	probe := verifC34RefAllowed(acls, princ, host, "hardcode", rtype, op)
	return verifOr(probe, verifAnd(verifNot(denyWild), verifOr(allowWild, someFree)))
}

// ---- Cluster level: enable switch, superusers, principal construction, authorized-ops bits ----

var verifC34Host string

//verif:replace (*clientReq).clientHost
func (creq *clientReq) verifC34ClientHost() string { return verifC34Host }

func verifC34Cluster() (*Cluster, *clientReq, string, bool, bool) {
	c := &Cluster{}
	c.cfg.enableACLs = verifNondetBool("enableACLs")
	if verifChoose(2) == 1 { // else: no superusers configured (nil map)
		c.cfg.superusers = map[string]struct{}{"s": {}, "t": {}}
	}
	users := [...]string{"", "s", "u"}
	user := users[verifChoose(3)]
	_, super := c.cfg.superusers[user]
	creq := &clientReq{cc: &clientConn{user: user}}
	verifC34Host = verifC34Str("q.host", 1)
	// Kafka: an unauthenticated session is User:ANONYMOUS.
	princ := "User:ANONYMOUS"
	if user != "" {
		princ = "User:" + user
	}
	return c, creq, princ, super, c.cfg.enableACLs
}

// verifC34ClusterACLs: like verifC34ACLs, but a principal may also be the literal
// User:ANONYMOUS (the symbolic one covers User:*, User:s, User:u and strangers).
func verifC34ClusterACLs(n int) []acl {
	out := verifC34ACLs(n)
	for i := range out {
		if verifChoose(2) == 1 {
			out[i].principal = "User:ANONYMOUS"
		}
	}
	return out
}

func verifC34Query() (princ, host string, rtype, op int8) {
	princ = verifC34Principal("q.principal")
	host = verifC34Str("q.host", 1)
	rtype = verifNondetInt8("q.rtype")
	op = verifNondetInt8("q.op")
	verifAssume(verifAnd(rtype >= 2, rtype <= 5))
	verifAssume(verifAnd(op >= verifC34OpRead, op <= verifC34OpIdempotentWrite))
	return
}
