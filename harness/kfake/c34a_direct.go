package kfake

import (
	"github.com/twmb/franz-go/pkg/kmsg"
)

// Group A: the real acl.go code end to end (only clientHost is stubbed).

// Each of the four per-entry predicates equals the reference predicate for an arbitrary entry
// (every field unconstrained, including pattern types and permissions CreateACLs would
// reject) and an arbitrary query. Group B relies on exactly these four equivalences.
func VerifC34_matchPredicates() {
	var a acl
	a.principal = verifC34Principal("acl.principal")
	a.host = verifC34Str("acl.host", verifChoose(3))
	a.resourceType = kmsg.ACLResourceType(verifNondetInt8("acl.rtype"))
	a.resourceName = verifC34Str("acl.name", verifChoose(3))
	a.pattern = kmsg.ACLResourcePatternType(verifNondetInt8("acl.pattern"))
	a.operation = kmsg.ACLOperation(verifNondetInt8("acl.op"))
	a.permission = kmsg.ACLPermissionType(verifNondetInt8("acl.perm"))

	switch verifChoose(4) {
	case 0:
		rtype := verifNondetInt8("q.rtype")
		name := verifC34Str("q.name", verifChoose(3))
		got := a.matchesResource(kmsg.ACLResourceType(rtype), name)
		verifAssert(got == verifC34RefMatchesResource(&a, rtype, name), "matchesResource: same type and (literal equal or literal * or prefixed prefix)")
	case 1:
		princ := verifC34Principal("q.principal")
		if verifChoose(2) == 1 {
			princ = verifC34Str("q.principal", 6)
		}
		got := a.matchesPrincipal(princ)
		verifAssert(got == verifOr(a.principal == princ, a.principal == "User:*"), "matchesPrincipal: equal or User:*")
	case 2:
		host := verifC34Str("q.host", verifChoose(3))
		got := a.matchesHost(host)
		verifAssert(got == verifOr(a.host == host, a.host == "*"), "matchesHost: equal or *")
	case 3:
		op := verifNondetInt8("q.op")
		got := a.matchesOp(kmsg.ACLOperation(op))
		verifAssert(got == verifC34RefMatchesOp(&a, op), "matchesOp: ALL, same operation, or implied Describe/DescribeConfigs for ALLOW only")
	}
	verifReached("c34-match-predicates")
}

func verifC34DirectN() int {
	if verifThorough() {
		return 2
	}
	return 1
}

// allowed(principal, host, resource, type, op) == Kafka authorize() for every stored ACL set
// and every query, real code end to end.
func VerifC34_allowed() {
	n := verifConcretize(verifRange("nacls", 0, verifC34DirectN()))
	store := &clusterACLs{}
	qlen := 2
	if n < 2 {
		store.acls = verifC34ACLs(n)
		qlen = verifChoose(3)
	} else {
		// two entries end to end (thorough) cost ~76^2 paths per shape: one shape only
		// (names of 1 and 2 bytes, 2-byte query); all shapes are covered by group B.
		store.acls = []acl{verifC34ACL(1), verifC34ACL(2)}
	}
	princ, host, rtype, op := verifC34Query()
	name := verifC34Str("q.name", qlen)

	want := verifC34RefAllowed(store.acls, princ, host, name, rtype, op)
	got := store.allowed(princ, host, name, kmsg.ACLResourceType(rtype), kmsg.ACLOperation(op))
	verifAssert(got == want, "allowed() decides like Kafka's authorize(): DENY wins, ALLOW needed, implied Describe/DescribeConfigs for ALLOW only")
	verifReached("c34-allowed")
}

// anyAllowed(principal, host, type, op) vs. Kafka authorizeByResourceType() for operations
// without implied permissions (kfake only asks "may write some topic"), real code end to end.
// The two directions are separate harnesses so that a finding in one does not cut short the
// exploration of the other.
func verifC34AnyAllowed() (got, want bool) {
	n := verifConcretize(verifRange("nacls", 0, verifC34DirectN()))
	store := &clusterACLs{acls: verifC34ACLs(n)}
	princ, host, rtype, op := verifC34Query()
	verifAssume(verifAnd(op != verifC34OpDescribe, op != verifC34OpDescribeConfigs))
	want = verifC34RefAnyAllowed(store.acls, princ, host, rtype, op)
	got = store.anyAllowed(princ, host, kmsg.ACLResourceType(rtype), kmsg.ACLOperation(op))
	return got, want
}

func VerifC34_anyAllowedComplete() {
	got, want := verifC34AnyAllowed()
	verifAssert(verifImplies(want, got), "anyAllowed() allows whenever Kafka's authorizeByResourceType allows")
	verifReached("c34-any-allowed-complete")
}

func VerifC34_anyAllowedSound() {
	got, want := verifC34AnyAllowed()
	verifAssert(verifImplies(got, want), "anyAllowed() counts an ALLOW only if no matching DENY dominates it (Kafka authorizeByResourceType)")
	verifReached("c34-any-allowed-sound")
}

func verifC34OpSet(ops []kmsg.ACLOperation) (set int32, dup bool) {
	for _, op := range ops {
		if set&(1<<uint(op)) != 0 {
			dup = true
		}
		set |= 1 << uint(op)
	}
	return
}

func VerifC34_authorizedOpLists() {
	topic, d1 := verifC34OpSet(topicOps)
	group, d2 := verifC34OpSet(groupOps)
	cluster, d3 := verifC34OpSet(clusterOps)
	verifAssert(!d1 && !d2 && !d3, "authorized-operation lists have no duplicates")
	verifAssert(topic == 1<<3|1<<4|1<<5|1<<6|1<<7|1<<8|1<<10|1<<11, "topic operations: read, write, create, delete, alter, describe, describe configs, alter configs")
	verifAssert(group&(1<<3|1<<6|1<<8) == 1<<3|1<<6|1<<8 && group&^(1<<3|1<<6|1<<8|1<<10|1<<11) == 0, "group operations: read, delete, describe (optionally describe/alter configs)")
	verifAssert(cluster == 1<<3|1<<4|1<<5|1<<6|1<<7|1<<8|1<<9|1<<10|1<<11|1<<12, "cluster operations: every concrete operation")
	verifReached("c34-op-lists")
}
