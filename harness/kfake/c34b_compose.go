package kfake

import (
	"github.com/twmb/franz-go/pkg/kmsg"
)

// Group B: the decision loops of allowed()/anyAllowed() over more entries. The four per-entry
// predicates are replaced by the reference predicates they were shown equal to (for every
// input) by VerifC34_matchPredicates in group A; being term-level they do not fork, which is
// what makes three entries affordable. Everything else (loops, DENY/ALLOW handling, the
// resource-type test of anyAllowed) is the real code.

//verif:replace (*acl).matchesResource
func (a *acl) verifC34MatchesResource(resourceType kmsg.ACLResourceType, resourceName string) bool {
	return verifC34RefMatchesResource(a, int8(resourceType), resourceName)
}

//verif:replace (*acl).matchesPrincipal
func (a *acl) verifC34MatchesPrincipal(principal string) bool {
	return verifOr(a.principal == principal, a.principal == "User:*")
}

//verif:replace (*acl).matchesHost
func (a *acl) verifC34MatchesHost(host string) bool {
	return verifOr(a.host == host, a.host == "*")
}

//verif:replace (*acl).matchesOp
func (a *acl) verifC34MatchesOp(op kmsg.ACLOperation) bool {
	return verifC34RefMatchesOp(a, int8(op))
}

func verifC34ComposedN() int {
	if verifThorough() {
		return 3
	}
	return 2
}

func VerifC34_allowedLoop() {
	n := verifConcretize(verifRange("nacls", 0, verifC34ComposedN()))
	store := &clusterACLs{acls: verifC34ACLs(n)}
	princ, host, rtype, op := verifC34Query()
	name := verifC34Str("q.name", verifChoose(3))

	want := verifC34RefAllowed(store.acls, princ, host, name, rtype, op)
	got := store.allowed(princ, host, name, kmsg.ACLResourceType(rtype), kmsg.ACLOperation(op))
	verifAssert(got == want, "allowed() decides like Kafka's authorize(): DENY wins, ALLOW needed, implied Describe/DescribeConfigs for ALLOW only")
	verifReached("c34-allowed-loop")
}

func verifC34AnyAllowedLoop() (got, want bool) {
	n := verifConcretize(verifRange("nacls", 0, verifC34ComposedN()))
	store := &clusterACLs{acls: verifC34ACLs(n)}
	princ, host, rtype, op := verifC34Query()
	verifAssume(verifAnd(op != verifC34OpDescribe, op != verifC34OpDescribeConfigs))
	want = verifC34RefAnyAllowed(store.acls, princ, host, rtype, op)
	got = store.anyAllowed(princ, host, kmsg.ACLResourceType(rtype), kmsg.ACLOperation(op))
	return got, want
}

func VerifC34_anyAllowedLoopComplete() {
	got, want := verifC34AnyAllowedLoop()
	verifAssert(verifImplies(want, got), "anyAllowed() allows whenever Kafka's authorizeByResourceType allows")
	verifReached("c34-any-allowed-loop-complete")
}

func VerifC34_anyAllowedLoopSound() {
	got, want := verifC34AnyAllowedLoop()
	verifAssert(verifImplies(got, want), "anyAllowed() counts an ALLOW only if no matching DENY dominates it (Kafka authorizeByResourceType)")
	verifReached("c34-any-allowed-loop-sound")
}

// ---- Cluster level (same predicate replacement; the subject here is the short-circuits) ----

// allowedACL / anyAllowedACL: everything is allowed when ACLs are disabled or for a
// superuser (regardless of DENY entries); otherwise the decision is Kafka's for principal
// "User:<name>" (User:ANONYMOUS without authentication) and the connection's host.
func VerifC34_clusterAllowed() {
	c, creq, princ, super, enabled := verifC34Cluster()
	c.acls.acls = verifC34ClusterACLs(verifConcretize(verifRange("nacls", 0, 1)))
	name := verifC34Str("q.name", 1+verifChoose(2))
	_, _, rtype, op := verifC34Query()

	switch verifChoose(2) {
	case 0:
		want := verifOr(verifOr(!enabled, super), verifC34RefAllowed(c.acls.acls, princ, verifC34Host, name, rtype, op))
		got := c.allowedACL(creq, name, kmsg.ACLResourceType(rtype), kmsg.ACLOperation(op))
		verifAssert(got == want, "allowedACL(): disabled or superuser always allowed, else Kafka's decision for User:<name> and the client host")
	case 1:
		// one entry cannot be dominated by another, so both directions hold here; the
		// DENY-domination rule is exercised by VerifC34_anyAllowed*Sound.
		verifAssume(verifAnd(op != verifC34OpDescribe, op != verifC34OpDescribeConfigs))
		want := verifOr(verifOr(!enabled, super), verifC34RefAnyAllowed(c.acls.acls, princ, verifC34Host, rtype, op))
		got := c.anyAllowedACL(creq, kmsg.ACLResourceType(rtype), kmsg.ACLOperation(op))
		verifAssert(got == want, "anyAllowedACL(): disabled or superuser always allowed, else Kafka's authorizeByResourceType decision")
	}
	verifReached("c34-cluster-allowed")
}

// authorizedOps: bit i of the result is set exactly when operation i is in the list and
// authorized; the three per-type lists hold the operations Kafka defines for topic, group
// and cluster resources (group: at least read, delete, describe).
func VerifC34_authorizedOps() {
	c, creq, princ, super, enabled := verifC34Cluster()
	c.acls.acls = verifC34ClusterACLs(verifConcretize(verifRange("nacls", 0, 1)))
	name := verifC34Str("q.name", 1+verifChoose(2))
	_, _, rtype, op1 := verifC34Query()
	op2 := verifNondetInt8("q.op2")
	verifAssume(verifAnd(op2 >= verifC34OpRead, op2 <= verifC34OpIdempotentWrite))

	got := c.authorizedOps(creq, name, kmsg.ACLResourceType(rtype), []kmsg.ACLOperation{kmsg.ACLOperation(op1), kmsg.ACLOperation(op2)})
	ok := true
	for op := int8(0); op < 32; op++ {
		bit := got&(1<<uint(op)) != 0
		listed := verifOr(op == op1, op == op2)
		auth := verifOr(verifOr(!enabled, super), verifC34RefAllowed(c.acls.acls, princ, verifC34Host, name, rtype, op))
		ok = verifAnd(ok, bit == verifAnd(listed, auth))
	}
	verifAssert(ok, "authorized-operations bitfield has exactly the listed operations that are authorized")
	verifReached("c34-authorized-ops")
}
