package kgo

import (
	"context"
	"errors"
	"sync"

	"github.com/twmb/franz-go/pkg/kerr"
)

// C01 / C14 (produce side) kernel: from an arbitrary valid producer state, each of the
// operations that finish or fail records calls every affected record's promise exactly once,
// with the right result, touches no other record, keeps the buffered accounting exact, and
// pairs the buffered/unbuffered hooks.

type verifC01Track struct {
	id      int
	calls   int
	err     error
	offset  int64
	pid     int64
	unbuf   int
	unbufEr error
	buf     int
}

type verifC01Hook struct{ w *verifC01World }

func (h *verifC01Hook) OnProduceRecordBuffered(r *Record) {
	if t := h.w.byRec[r]; t != nil {
		t.buf++
	}
}

func (h *verifC01Hook) OnProduceRecordUnbuffered(r *Record, err error) {
	if t := h.w.byRec[r]; t != nil {
		t.unbuf++
		t.unbufEr = err
	} else {
		h.w.stray++
	}
}

type verifC01World struct {
	cl      *Client
	tracks  []*verifC01Track
	byRec   map[*Record]*verifC01Track
	bufs    []*recBuf
	stray   int
	total   int64
	bytes   int64
	extraR  int64
	extraB  int64
	unknown *unknownTopicProduces
	recycle bool
}

//verif:replace (*sink).maybeDrain
func (s *sink) verifC01MaybeDrain() {}

func (w *verifC01World) newRec(topic string) promisedRec {
	t := &verifC01Track{id: len(w.tracks), offset: -99}
	w.tracks = append(w.tracks, t)
	r := &Record{Topic: topic, Value: []byte{7}}
	w.byRec[r] = t
	return promisedRec{context.Background(), func(rr *Record, err error) {
		t.calls++
		t.err = err
		t.offset = rr.Offset
		t.pid = rr.ProducerID
		if w.recycle {
			// promises may recycle the record's buffers; accounting must not depend on it
			rr.Value, rr.Key = nil, nil
		}
	}, r}
}

func verifC01Build() *verifC01World {
	cl := &Client{}
	cl.cfg.logger = new(nopLogger)
	cl.cfg.maxBufferedRecords = 1 << 40
	cl.ctx = context.Background()
	cl.prsPool = newPrsPool()
	p := &cl.producer
	p.cl = cl
	p.c = sync.NewCond(&p.mu)
	p.topics = newTopicsPartitions()
	p.unknownTopics = make(map[string]*unknownTopicProduces)
	w := &verifC01World{cl: cl, byRec: map[*Record]*verifC01Track{}}
	w.recycle = verifChoose(2) == 1
	hk := &verifC01Hook{w}
	p.hooks = &struct {
		buffered    []HookProduceRecordBuffered
		partitioned []HookProduceRecordPartitioned
		unbuffered  []HookProduceRecordUnbuffered
	}{buffered: []HookProduceRecordBuffered{hk}, unbuffered: []HookProduceRecordUnbuffered{hk}}

	data := make(topicsPartitionsData)
	nbufs := 1 + verifChoose(2)
	for bi := 0; bi < nbufs; bi++ {
		topic := []string{"a", "b"}[bi]
		rb := &recBuf{cl: cl, topic: topic, partition: 0, maxRecordBatchBytes: 1 << 20, sink: &sink{cl: cl}}
		rb.batch0Seq = verifNondetInt32("batch0Seq")
		verifAssume(rb.batch0Seq >= 0)
		nb := 1
		if bi == 0 || verifThorough() {
			nb = verifChoose(3)
		}
		for k := 0; k < nb; k++ {
			b := rb.newRecordBatch()
			nr := 1
			if bi == 0 || verifThorough() {
				nr = 1 + verifChoose(2)
			}
			for j := 0; j < nr; j++ {
				b.records = append(b.records, w.newRec(topic))
				w.total++
				w.bytes++
			}
			rb.batches = append(rb.batches, b)
			rb.buffered.Add(int64(nr))
		}
		rb.batchDrainIdx = nb
		if bi == 0 || verifThorough() {
			rb.batchDrainIdx = verifChoose(nb + 1)
		}
		rb.seq = rb.batch0Seq
		for k := 0; k < rb.batchDrainIdx; k++ {
			rb.seq = incrementSequence(rb.seq, int32(len(rb.batches[k].records)))
		}
		w.bufs = append(w.bufs, rb)
		tp := newTopicPartitions()
		tp.v.Store(&topicPartitionsData{topic: topic, partitions: []*topicPartition{{records: rb}}})
		data[topic] = tp
	}
	p.topics.storeData(data)
	// records accounted elsewhere (other partitions, in flight): arbitrary
	w.extraR, w.extraB = verifNondetInt64("extraRecords"), verifNondetInt64("extraBytes")
	verifAssume(verifAnd(verifAnd(w.extraR >= 0, w.extraR < 1<<40), verifAnd(w.extraB >= 0, w.extraB < 1<<40)))
	return w
}

func (w *verifC01World) seal() {
	p := &w.cl.producer
	p.bufferedRecords = w.total + w.extraR
	p.bufferedBytes = w.bytes + w.extraB
}

// remaining counts the records still sitting in recBuf batches / unknown-topic waiters.
func (w *verifC01World) remaining() (n int64) {
	for _, rb := range w.bufs {
		for _, b := range rb.batches {
			n += int64(len(b.records))
		}
	}
	for _, u := range w.cl.producer.unknownTopics {
		n += int64(len(u.buffered))
	}
	return n
}

func (w *verifC01World) checkGlobal(finished int64) {
	p := &w.cl.producer
	ok := true
	var done int64
	for _, t := range w.tracks {
		ok = ok && t.calls <= 1 && t.unbuf == t.calls && (t.calls == 0 || t.unbufEr == t.err)
		done += int64(t.calls)
	}
	verifAssert(ok, "no promise runs twice and every promise is paired with one unbuffered hook carrying the same error")
	verifAssert(w.stray == 0, "no promise or hook for a record that was never produced")
	verifAssert(done == finished, "exactly the affected records were finished")
	verifAssert(p.bufferedRecords == w.remaining()+w.extraR, "bufferedRecords equals the records still buffered")
	verifAssert(p.bufferedBytes == w.remaining()+w.extraB, "bufferedBytes equals the bytes still buffered")
	var perBuf bool = true
	for _, rb := range w.bufs {
		var n int64
		for _, b := range rb.batches {
			n += int64(len(b.records))
		}
		perBuf = perBuf && rb.buffered.Load() == n && rb.batchDrainIdx >= 0 && rb.batchDrainIdx <= len(rb.batches)
	}
	verifAssert(perBuf, "per-partition buffered gauge and drain index stay consistent")
	if w.remaining() == 0 {
		verifAssert(verifImplies(w.extraR == 0, w.cl.BufferedProduceRecords() == 0), "BufferedProduceRecords returns to zero when nothing remains")
	}
}

func VerifC01_finishBatchSuccess() {
	w := verifC01Build()
	rb := w.bufs[0]
	verifAssume(len(rb.batches) >= 1 && rb.batchDrainIdx >= 1)
	w.seal()
	batch := rb.batches[0]
	recs := append([]promisedRec(nil), batch.records...)
	pid, epoch, base := verifNondetInt64("pid"), verifNondetInt16("epoch"), verifNondetInt64("baseOffset")
	verifAssume(verifAnd(base >= -1, base < 1<<62))
	seq0, nb, drain := rb.batch0Seq, len(rb.batches), rb.batchDrainIdx
	rb.mu.Lock()
	w.cl.finishBatch(batch, pid, epoch, base, nil)
	rb.mu.Unlock()
	verifRunAll()
	ok := true
	for i, pr := range recs {
		t := w.byRec[pr.Record]
		want := base + int64(i)
		ok = ok && t.calls == 1 && t.err == nil
		verifAssert(verifOr(verifAnd(base == -1, t.offset == -1), verifAnd(base != -1, t.offset == want)), "acknowledged record gets baseOffset+i (or -1 when unknown)")
		verifAssert(t.pid == pid, "acknowledged record carries the producer id")
	}
	verifAssert(ok, "every record of the acknowledged batch is promised once without error")
	verifAssert(len(rb.batches) == nb-1 && rb.batchDrainIdx == drain-1, "the acknowledged batch is removed from the head")
	verifAssert(rb.batch0Seq == int32((int64(seq0)+int64(len(recs)))&0x7fffffff), "batch0Seq advances by the batch's record count mod 2^31")
	w.checkGlobal(int64(len(recs)))
	verifReached("c01-finish-success")
}

func VerifC01_finishBatchError() {
	w := verifC01Build()
	rb := w.bufs[0]
	verifAssume(len(rb.batches) >= 1 && rb.batchDrainIdx >= 1)
	w.seal()
	var all []promisedRec
	for _, b := range rb.batches {
		all = append(all, b.records...)
	}
	err := error(kerr.MessageTooLarge)
	rb.mu.Lock()
	w.cl.finishBatch(rb.batches[0], 1, 1, 5, err)
	rb.mu.Unlock()
	verifRunAll()
	ok := true
	for _, pr := range all {
		t := w.byRec[pr.Record]
		ok = ok && t.calls == 1 && t.err == err && t.offset == -1 && t.pid == -1
	}
	verifAssert(ok, "a failed batch fails every record of the partition once with that error and -1 sentinels")
	verifAssert(rb.batches == nil && rb.batchDrainIdx == 0 && rb.seq == rb.batch0Seq, "partition buffer is emptied and rewound")
	w.checkGlobal(int64(len(all)))
	verifReached("c01-finish-error")
}

func VerifC01_failBufferedRecords() {
	w := verifC01Build()
	p := &w.cl.producer
	var unknownRecs []promisedRec
	if verifChoose(2) == 1 {
		u := &unknownTopicProduces{wait: make(chan error, 5), fatal: make(chan error, 1)}
		n := 1 + verifChoose(2)
		for i := 0; i < n; i++ {
			u.buffered = append(u.buffered, w.newRec("unk"))
			w.total++
			w.bytes++
		}
		unknownRecs = u.buffered
		p.unknownTopics["unk"] = u
		w.unknown = u
	}
	w.seal()
	total := w.total
	err := errors.New("verif: abort")
	w.cl.failBufferedRecords(err)
	verifRunAll()
	ok := true
	for _, t := range w.tracks {
		ok = ok && t.calls == 1 && t.err == err
	}
	verifAssert(ok, "failBufferedRecords fails every buffered record (partitions and unknown-topic waiters) exactly once")
	verifAssert(len(p.unknownTopics) == 0, "unknown-topic waiters are removed")
	_ = unknownRecs
	w.checkGlobal(total)
	verifReached("c01-fail-buffered")
}

func VerifC01_bufferRecordArms() {
	w := verifC01Build()
	rb := w.bufs[0]
	rb.sink.produceVersion.Store(9)
	pr := w.newRec(rb.topic)
	arm := verifChoose(3)
	var want error
	ctx, cancel := context.WithCancel(context.Background())
	switch arm {
	case 0:
		rb.purged = true
		want = errPurged
	case 1:
		w.cl.ctx = ctx
		cancel()
		want = ErrClientClosed
	case 2:
	}
	// the record was admitted by produce(): it is counted
	w.total++
	w.bytes++
	w.seal()
	before := w.remaining()
	processed := rb.bufferRecord(pr, false)
	verifRunAll()
	t := w.byRec[pr.Record]
	verifAssert(processed, "bufferRecord processes the record")
	if arm < 2 {
		verifAssert(t.calls == 1 && t.err == want, "record hitting a purged partition or a closed client fails once with the documented error")
		verifAssert(w.remaining() == before, "failed record is not left in a batch")
		w.checkGlobal(1)
	} else {
		verifAssert(t.calls == 0, "buffered record's promise is not called yet")
		verifAssert(w.remaining() == before+1, "buffered record sits in exactly one batch")
		w.checkGlobal(0)
	}
	cancel()
	verifReached("c01-buffer-record")
}

//verif:replace (*Client).loadPartsAndPartition
func (cl *Client) verifC01LoadPartsAndPartition(pr promisedRec) {
	verifFail("early-fail arms must not reach partitioning")
}

func VerifC01_produceEarlyFail() {
	w := verifC01Build()
	w.seal()
	p := &w.cl.producer
	pr := w.newRec("")
	var want error
	switch verifChoose(2) {
	case 0:
		pr.Record.Topic = ""
		want = errNoTopic
	case 1:
		pr.Record.Topic = "a"
		id := "txn"
		w.cl.cfg.txnID = &id
		want = errNotInTransaction
	}
	r0, b0 := p.bufferedRecords, p.bufferedBytes
	w.cl.produce(context.Background(), pr.Record, pr.promise, true)
	verifRunAll()
	t := w.byRec[pr.Record]
	verifAssert(t.calls == 1 && t.err == want, "pre-buffer failure calls the promise once with the documented error")
	verifAssert(t.buf == 1 && t.unbuf == 1, "buffered and unbuffered hooks pair up for a pre-buffer failure")
	verifAssert(verifAnd(p.bufferedRecords == r0, p.bufferedBytes == b0), "pre-buffer failure leaves the accounting unchanged")
	w.checkGlobal(1)
	verifReached("c01-produce-early-fail")
}

//verif:replace (*Client).triggerUpdateMetadata
func (cl *Client) verifC01TriggerUpdateMetadata(must bool, why string) bool { return true }

//verif:replace (*sink).maybeTriggerBackoff
func (s *sink) verifC01MaybeTriggerBackoff(seq uint32) {}

// A produce request fails retriably (connection died, NOT_LEADER, ...) and its batches come
// back through handleRetryBatches. Whatever happened meanwhile — the partition stayed on the
// sink or a metadata update moved it to another sink while the request was in flight — and
// whatever the log level, the head batch must become drainable again (drain index rewound):
// otherwise it is never re-sent, its promise never runs and Flush hangs. The batch is then
// finished on whichever sink owns the partition, and every record is promised exactly once.
func VerifC01_retryAfterInflightFailure() {
	w := verifC01Build()
	rb := w.bufs[0]
	verifAssume(len(rb.batches) >= 1 && rb.batchDrainIdx >= 1)
	w.seal()
	old := rb.sink
	moved := verifChoose(2) == 1
	if moved {
		rb.sink = &sink{cl: w.cl, nodeID: 2}
	}
	updateMeta := verifChoose(2) == 1
	batch := rb.batches[0]
	var retry seqRecBatches
	retry.addSeqBatch(rb.topic, [16]byte{}, rb.partition, seqRecBatch{seq: rb.batch0Seq, recBatch: batch})
	old.handleRetryBatches(retry, nil, 0, updateMeta, false, "verif: request failed")
	verifAssert(rb.batchDrainIdx == 0, "after a retriable request failure the partition's head batch is drainable again (also when the partition moved to another sink while the request was in flight)")
	verifAssert(len(rb.batches) >= 1 && rb.batches[0] == batch, "the failed request's batch stays at the head of the partition")
	// ... it is re-sent on the owning sink and acknowledged
	recs := append([]promisedRec(nil), batch.records...)
	rb.batchDrainIdx = 1
	rb.mu.Lock()
	w.cl.finishBatch(batch, 1, 1, 7, nil)
	rb.mu.Unlock()
	verifRunAll()
	ok := true
	for _, pr := range recs {
		t := w.byRec[pr.Record]
		ok = ok && t.calls == 1 && t.err == nil
	}
	verifAssert(ok, "every record of the retried batch is promised exactly once")
	w.checkGlobal(int64(len(recs)))
	verifReached("c01-retry-after-failure")
}
