package kgo

import (
	"context"
	"errors"
	"io"
	"math"
	"sync"
	"time"

	"github.com/twmb/franz-go/pkg/kbin"
	"github.com/twmb/franz-go/pkg/kerr"
	"github.com/twmb/franz-go/pkg/kmsg"
)

// C02 co-simulation: the real per-partition sequence / drain / fail state machine of sink.go
// (createReq, tryAddBatch, AppendTo, handleReqResp, handleReqRespBatch, handleReqClientErr,
// handleRetryBatches, finishBatch, failAllRecords, resetBatchDrainIdx, decInflight,
// producerID/failProducerID/resetAllProducerSequences) runs against a ghost broker that
// implements Kafka's per-producer sequence rule on the bytes the client really wrote.
//
// The ghost is written from the property statement / Kafka's rule, not from the client: it
// decodes (producer id, epoch, first sequence, record count) out of the produce request
// wire bytes and keeps a log of which client batch (identity) it appended where.

// ---------------------------------------------------------------------------------------
// stubs

var verifC02Meta, verifC02Drains int

//verif:replace (*sink).maybeDrain
func (s *sink) verifC02MaybeDrain() { verifC02Drains++ }

//verif:replace (*Client).triggerUpdateMetadata
func (cl *Client) verifC02TriggerUpdateMetadata(must bool, why string) bool {
	verifC02Meta++
	return true
}

// ---------------------------------------------------------------------------------------
// ghost broker

type verifC02Rec struct {
	calls  int
	err    error
	offset int64
	pid    int64
	epoch  int16
	order  int
}

// verifC02GB is the ghost's view of one client batch (identity = position in produce order).
type verifC02GB struct {
	idx      int
	n        int
	recs     []*verifC02Rec
	appended int   // how often the ghost broker appended this batch
	base     int64 // base offset of the (first) append
	open     bool  // a written request carrying the batch got no broker answer (in flight or died)
	unsure   bool  // the broker answered REQUEST_TIMED_OUT: append state unknown to the client
}

type verifC02Entry struct {
	first, next int32
	off         int64
}

type verifC02Ghost struct {
	seen    bool
	epoch   int16
	nextSeq int32
	win     [5]verifC02Entry
	at, cnt int
	log     []int // client batch idx per appended batch, in log order
	hwm     int64
}

// process applies Kafka's idempotent-producer rule to one batch and returns the partition
// error code and base offset of the answer.
func (g *verifC02Ghost) process(gb *verifC02GB, epoch int16, first, n int32) (int16, int64) {
	next := int32((int64(first) + int64(n)) & math.MaxInt32)
	if g.seen && epoch < g.epoch {
		return kerr.InvalidProducerEpoch.Code, -1
	}
	if !g.seen || epoch != g.epoch {
		// a producer (epoch) the partition has no state for: a known producer must restart at 0
		if g.seen && first != 0 {
			return kerr.OutOfOrderSequenceNumber.Code, -1
		}
		g.seen, g.epoch = true, epoch
		g.win = [5]verifC02Entry{}
		g.at, g.cnt = 0, 0
	} else {
		for i := 0; i < g.cnt; i++ {
			if e := g.win[i]; e.first == first && e.next == next {
				return 0, e.off // duplicate of one of the last five: success at the original offset
			}
		}
		if first != g.nextSeq {
			return kerr.OutOfOrderSequenceNumber.Code, -1
		}
	}
	base := g.hwm
	g.nextSeq = next
	g.win[g.at] = verifC02Entry{first, next, base}
	g.at = (g.at + 1) % 5
	if g.cnt < 5 {
		g.cnt++
	}
	g.hwm += int64(n)
	g.log = append(g.log, gb.idx)
	if gb.appended == 0 {
		gb.base = base
	}
	gb.appended++
	return 0, base
}

// ---------------------------------------------------------------------------------------
// world

type verifC02Pending struct {
	req     *produceRequest
	batches recBatches // sliced() at issue time, as sink.produce does
	gb      *verifC02GB
	written bool // AppendTo ran (the request left the client)
	hasRecs bool // the wire carried the batch's records (not nulled by a concurrent failure)
	pid     int64
	epoch   int16
	first   int32
	n       int32
	stagedSeq int32
}

type verifC02World struct {
	cl   *Client
	s    *sink
	rb   *recBuf
	gbs  []*verifC02GB
	byB  map[*recBatch]*verifC02GB
	pend []*verifC02Pending
	g    verifC02Ghost

	order       int
	allowCancel bool
	cf          verifC02Conf
	strict      bool // check "failed => absent" against the ghost log (see VerifC02_failedAbsent)
	loadErrStep  bool // the current step is a metadata load error
	allowLoadErr bool // metadata load errors may be reported for the partition (bumpRepeatedLoadErr)
	loadErrs     int
	allowProduce bool // one more record may be produced at any step
	produced     bool
	noWire      bool // do not serialise requests (symbolic sequence numbers)
	injected    bool // the broker answered an OUT_OF_ORDER_SEQUENCE_NUMBER of its own
	idFatal     bool // the producer id failed fatally and the drain failed everything buffered
	cancel      context.CancelFunc
	recCtx      context.Context

	// bookkeeping for the documented "safe to fail" rule
	headAnswered bool // the step delivered a broker response for the partition's head batch
	failedSeen   int  // records already seen failed
	total        int64
	bytes        int64
}

const (
	verifC02TrigNone = iota
	verifC02TrigRetries
	verifC02TrigCtx
	verifC02TrigTimeout
	verifC02TrigAbort
)

type verifC02Conf struct {
	trig   int
	allow  bool // AllowIdempotentProduceCancellation
	inject bool // the broker may answer OUT_OF_ORDER_SEQUENCE_NUMBER on its own (it lost producer state)
	stop   bool // StopProducerOnDataLossDetected
}

func verifC02Build(sizes []int, fresh bool, cf verifC02Conf) *verifC02World {
	trig, allowCancel := cf.trig, cf.allow
	verifC02Meta, verifC02Drains = 0, 0
	cl := &Client{}
	cl.cfg.logger = new(nopLogger)
	cl.cfg.maxBufferedRecords = 1 << 40
	cl.cfg.acks.val = -1
	cl.cfg.produceTimeout = 10 * time.Second
	cl.cfg.maxBrokerWriteBytes = 100 << 20
	cl.cfg.recordRetries = math.MaxInt64
	cl.cfg.maxUnknownFailures = 4
	cl.cfg.allowIdempotentProduceCancellation = allowCancel
	cl.cfg.stopOnDataLoss = cf.stop
	cl.ctx = context.Background()
	cl.prsPool = newPrsPool()
	p := &cl.producer
	p.cl = cl
	p.c = sync.NewCond(&p.mu)
	p.topics = newTopicsPartitions()
	p.unknownTopics = make(map[string]*unknownTopicProduces)
	p.id.Store(&producerID{id: 7, epoch: 3})

	w := &verifC02World{cl: cl, byB: map[*recBatch]*verifC02GB{}, allowCancel: allowCancel, cf: cf}
	w.recCtx = context.Background()
	switch trig {
	case verifC02TrigRetries:
		cl.cfg.recordRetries = 0
	case verifC02TrigCtx:
		w.recCtx, w.cancel = context.WithCancel(context.Background())
	case verifC02TrigTimeout:
		cl.cfg.recordTimeout = time.Hour
	}

	s := &sink{cl: cl, nodeID: 1}
	s.produceVersion.Store(9)
	rb := &recBuf{cl: cl, topic: "t", partition: 0, maxRecordBatchBytes: 1 << 20, sink: s, lastAckedOffset: -1}
	s.recBufs = []*recBuf{rb}
	w.s, w.rb = s, rb
	tp := newTopicPartitions()
	tp.v.Store(&topicPartitionsData{topic: "t", partitions: []*topicPartition{{records: rb}}})
	p.topics.storeData(topicsPartitionsData{"t": tp})

	now := time.Now().Truncate(time.Millisecond)
	for bi, n := range sizes {
		b := rb.newRecordBatch()
		gb := &verifC02GB{idx: bi, n: n, base: -1}
		for j := 0; j < n; j++ {
			t := &verifC02Rec{offset: -99}
			gb.recs = append(gb.recs, t)
			r := &Record{Topic: "t", Value: []byte{byte(16*bi + j)}, Timestamp: now, Context: context.Background()}
			pr := promisedRec{w.recCtx, func(rr *Record, err error) {
				t.calls++
				t.err = err
				t.offset = rr.Offset
				t.pid, t.epoch = rr.ProducerID, rr.ProducerEpoch
				t.order = w.order
				w.order++
			}, r}
			appended, _ := b.tryBuffer(pr, 9, rb.maxRecordBatchBytes, false)
			verifAssume(appended)
			rb.buffered.Add(1)
			w.total++
			w.bytes += int64(pr.userSize())
		}
		rb.batches = append(rb.batches, b)
		w.gbs = append(w.gbs, gb)
		w.byB[b] = gb
	}
	p.bufferedRecords, p.bufferedBytes = w.total, w.bytes

	w.g.hwm = 100
	if fresh {
		// first produce ever: the broker has no state for this producer and, as Kafka does,
		// accepts whatever sequence comes first
		rb.batch0Seq, rb.seq = 0, 0
	} else {
		// mid-stream: earlier batches were appended and acknowledged; sequence wraps inside
		// the first pending batch or right after it
		rb.batch0Seq = math.MaxInt32 - 1
		rb.seq = rb.batch0Seq
		rb.okOnSink = true
		rb.lastAckedOffset = 100
		w.g.seen, w.g.epoch, w.g.nextSeq = true, 3, rb.batch0Seq
	}
	return w
}

// decode reads what a broker reads from a v9 produce request with one topic / partition.
func (p *verifC02Pending) decode(wire []byte) {
	r := kbin.Reader{Src: wire}
	r.CompactNullableString()
	r.Int16()
	r.Int32()
	nt := r.CompactArrayLen()
	verifAssert(nt == 1, "produce request carries exactly the one topic staged")
	r.CompactString()
	np := r.CompactArrayLen()
	verifAssert(np == 1, "produce request carries exactly the one partition staged")
	r.Int32()
	recs := r.CompactNullableBytes()
	verifAssert(r.Ok(), "produce request decodes")
	if recs == nil {
		return
	}
	var b kmsg.RecordBatch
	err := b.ReadFrom(recs)
	verifAssert(err == nil, "record batch on the wire decodes")
	p.hasRecs = true
	p.pid, p.epoch, p.first, p.n = b.ProducerID, b.ProducerEpoch, b.FirstSequence, b.NumRecords
}

// drain is the core of (*sink).produce: load the producer id, build the request, issue it.
func (w *verifC02World) drain(written bool) bool {
	id, epoch, err := w.cl.producerID(func() context.Context { return context.Background() })
	if err != nil {
		// sink.produce: a fatal producer id error fails everything buffered
		var pe *errProducerIDLoadFail
		verifAssert(!errors.As(err, &pe), "no InitProducerID load failure without a request")
		if w.idFatal {
			return false
		}
		w.idFatal = true
		w.cl.failBufferedRecords(err)
		return true
	}
	req, txnReq, _ := w.s.createReq(id, epoch)
	verifAssert(txnReq == nil, "no AddPartitionsToTxn for a non-transactional producer")
	if len(req.batches.bs) == 0 {
		return false
	}
	req.backoffSeq = w.s.backoffSeq
	req.version = 9
	p := &verifC02Pending{req: req, batches: req.batches.sliced(), written: written}
	verifAssert(len(p.batches) == 1, "one batch of the partition per request")
	sb := req.batches.bs["t"][0]
	p.gb = w.byB[sb.recBatch]
	p.stagedSeq = sb.seq
	verifAssert(p.gb != nil, "a staged batch is one of the partition's batches")
	if written && w.noWire {
		// symbolic-sequence runs: what AppendTo does to the batch, without serialising
		sb.mu.Lock()
		if sb.records != nil && !sb.isFailingFromLoadErr {
			sb.canFailFromLoadErrs = false
			p.hasRecs = true
			p.pid, p.epoch, p.first, p.n = id, epoch, sb.seq, int32(len(sb.records))
			p.gb.open = true
		}
		sb.mu.Unlock()
	} else if written {
		p.decode(req.AppendTo(nil))
		if p.hasRecs {
			verifAssert(p.pid == id && p.epoch == epoch, "wire batch carries the request's producer id and epoch")
			verifAssert(p.first == sb.seq && int(p.n) == p.gb.n, "wire batch carries the staged sequence and record count")
			p.gb.open = true
		}
	}
	w.pend = append(w.pend, p)
	return true
}

const (
	verifC02FateLost        = iota // never reached the broker; the request dies in the client
	verifC02FateAnswered           // broker applies the sequence rule, response delivered
	verifC02FateAnswerLost         // broker applies the sequence rule, response lost
	verifC02FateNotLeader          // broker refuses with NOT_LEADER_FOR_PARTITION, nothing appended
	verifC02FateTimeoutApp         // broker appends (sequence rule) but answers REQUEST_TIMED_OUT
	verifC02FateTimeoutNoApp       // broker answers REQUEST_TIMED_OUT without appending
	verifC02FateTooLarge           // broker refuses with MESSAGE_TOO_LARGE (only a batch it never took)
	verifC02FateOOOSN              // broker lost the producer's state: OUT_OF_ORDER_SEQUENCE_NUMBER, nothing appended
	verifC02NumFates
)

var errVerifC02ConnDead = io.EOF // retryable broker error: connection died

// canResolve says whether the fate applies to the oldest in-flight request.
func (w *verifC02World) canResolve(fate int) bool {
	if len(w.pend) == 0 {
		return false
	}
	p := w.pend[0]
	if !p.written && fate != verifC02FateLost {
		return false
	}
	if fate == verifC02FateTooLarge && p.gb.appended > 0 {
		return false // a batch the broker accepted before is not too large now
	}
	if fate == verifC02FateOOOSN && !w.cf.inject {
		return false
	}
	return true
}

// resolve finishes the oldest in-flight request with the chosen fate; false = fate not applicable.
func (w *verifC02World) resolve(fate int) bool {
	if !w.canResolve(fate) {
		return false
	}
	p := w.pend[0]
	w.pend = w.pend[1:]
	head := len(w.rb.batches) > 0 && w.byB[w.rb.batches[0]] == p.gb

	var (
		code    int16
		base    int64 = -1
		deliver       = true
		err     error
	)
	switch fate {
	case verifC02FateLost:
		deliver = false
		if p.written {
			err = errVerifC02ConnDead
		} else {
			err = errUnknownBroker
		}
	case verifC02FateAnswered, verifC02FateAnswerLost, verifC02FateTimeoutApp:
		if p.hasRecs {
			prevEpoch, n0 := w.g.epoch, len(w.g.log)
			code, base = w.g.process(p.gb, p.epoch, p.first, p.n)
			// Before the broker invents an error, and again for everything sent under the
			// client's current (bumped) epoch, the client's numbering is never refused.
			if code != 0 && head && !w.allowCancel && (!w.injected || p.epoch == w.idState().epoch) {
				verifFail("the client's own numbering never earns a sequence or epoch error on the partition's head batch")
			}
			if code == 0 && w.injected && p.epoch != prevEpoch && len(w.g.log) > n0 {
				verifAssert(p.first == 0 && head, "after a producer epoch bump the partition restarts with its head batch at sequence 0")
				verifReached("c02-epoch-restart")
			}
		} else {
			code = kerr.CorruptMessage.Code // null records: nothing to append
		}
		if fate == verifC02FateAnswerLost {
			deliver, err = false, errVerifC02ConnDead
		}
		if fate == verifC02FateTimeoutApp && code == 0 {
			code, base = kerr.RequestTimedOut.Code, -1
		}
	case verifC02FateNotLeader:
		code = kerr.NotLeaderForPartition.Code
	case verifC02FateTimeoutNoApp:
		code = kerr.RequestTimedOut.Code
	case verifC02FateTooLarge:
		code = kerr.MessageTooLarge.Code
	case verifC02FateOOOSN:
		code = kerr.OutOfOrderSequenceNumber.Code
		if head {
			w.injected = true
		}
	}

	var resp kmsg.Response
	if deliver {
		kresp := kmsg.NewPtrProduceResponse()
		kresp.Version = 9
		rt := kmsg.NewProduceResponseTopic()
		rt.Topic = "t"
		rp := kmsg.NewProduceResponseTopicPartition()
		rp.Partition = 0
		rp.ErrorCode = code
		rp.BaseOffset = base
		rp.LogStartOffset = 0
		rt.Partitions = append(rt.Partitions, rp)
		kresp.Topics = append(kresp.Topics, rt)
		resp = kresp
	}
	w.headAnswered = deliver && head
	if deliver {
		p.gb.open = false
		if head && code == kerr.RequestTimedOut.Code {
			p.gb.unsure = true
		}
	}

	// exactly what the closure handed to doSequenced does
	w.s.handleReqResp(nil, p.req, resp, err)
	p.batches.eachOwnerLocked((*recBatch).decInflight)
	verifRunAll()

	// a metadata refresh may come at any time; failing only gates draining, so clearing it
	// right away loses no behaviour (not draining is always possible)
	if w.rb.failing {
		w.rb.clearFailing()
	}
	return true
}

func (w *verifC02World) trigger(trig int) {
	switch trig {
	case verifC02TrigCtx:
		w.cancel()
	case verifC02TrigTimeout:
		verifAdvanceTime(int64(2 * time.Hour))
	case verifC02TrigAbort:
		w.cl.producer.aborting.Add(1)
	}
}

// checkI2 is the representation invariant of the partition buffer.
func (w *verifC02World) checkI2() {
	rb := w.rb
	verifAssert(rb.batchDrainIdx >= 0 && rb.batchDrainIdx <= len(rb.batches), "I2: 0 <= batchDrainIdx <= len(batches)")
	want := int64(rb.batch0Seq)
	var n int64
	for i, b := range rb.batches {
		if i < rb.batchDrainIdx {
			want = (want + int64(len(b.records))) & math.MaxInt32
		}
		n += int64(len(b.records))
	}
	verifAssert(int64(rb.seq) == want, "I2: seq = batch0Seq + records of drained batches (mod 2^31)")
	verifAssert(rb.seq >= 0 && rb.batch0Seq >= 0, "I2: sequence numbers stay in [0, 2^31)")
	verifAssert(rb.buffered.Load() == n, "I2: buffered gauge = records in batches")
	verifAssert(rb.inflight >= 0, "I2: inflight >= 0")
	verifAssert(int(rb.inflight) == len(w.pend), "I2: inflight = requests issued and not yet handled")
	var done int64
	for _, gb := range w.gbs {
		for _, t := range gb.recs {
			done += int64(t.calls)
		}
	}
	verifAssert(w.cl.producer.bufferedRecords == w.total-done, "client buffered-record count = records without a promise call")
}

// checkFailSafety applies, after every step, the documented rule for when a client-side limit
// may fail idempotent records: "if a record was never issued in a request to Kafka, or if it
// was requested and received a response" (RecordRetries / RecordDeliveryTimeout docs), and never
// while the outcome is unsure (REQUEST_TIMED_OUT answers). headBefore is the partition's head
// batch before the step, drainStep says the step was a drain.
func (w *verifC02World) checkFailSafety(headBefore *verifC02GB, openBefore, drainStep bool) {
	failed := 0
	for _, gb := range w.gbs {
		for _, t := range gb.recs {
			if t.calls > 0 && t.err != nil {
				failed++
			}
		}
	}
	if failed == w.failedSeen {
		return
	}
	w.failedSeen = failed
	if w.allowCancel || w.idFatal {
		return
	}
	verifAssert(headBefore != nil, "records are only failed while the partition has a head batch")
	if headBefore == nil {
		return
	}
	err := headBefore.recs[0].err
	verifAssert(headBefore.recs[0].calls == 1 && err != nil, "failing a partition's records fails its head batch")
	limit := errors.Is(err, ErrRecordRetries) || errors.Is(err, ErrRecordTimeout) || errors.Is(err, ErrAborting) || errors.Is(err, context.Canceled)
	retriable := kerr.IsRetriable(err)
	if w.loadErrStep {
		verifAssert(!openBefore, "fail-only-when-safe: a metadata load error does not fail a head batch that was sent and not answered")
		verifAssert(!headBefore.unsure, "fail-only-when-safe: a metadata load error does not fail a head batch whose append is unsure")
		return
	}
	if drainStep {
		verifAssert(limit, "a drain fails records only for a client-side limit")
		verifAssert(!openBefore, "fail-only-when-safe: a drain does not fail a head batch that was sent and not answered")
		verifAssert(!headBefore.unsure, "fail-only-when-safe: a drain does not fail a head batch whose append is unsure")
		return
	}
	verifAssert(w.headAnswered, "fail-only-when-safe: handling a request fails records only on a broker answer for the head batch")
	if limit || retriable {
		verifAssert(!headBefore.unsure, "fail-only-when-safe: a limit or retriable error does not fail a head batch whose append is unsure")
	}
}

func (w *verifC02World) final() {
	// the broker eventually processes everything still in flight; responses are delivered
	for len(w.pend) > 0 {
		head := w.head()
		open := head != nil && head.open
		if !w.resolve(verifC02FateAnswered) {
			w.resolve(verifC02FateLost)
		}
		w.checkI2()
		w.checkFailSafety(head, open, false)
	}
	// ghost log: no duplicates, produce order
	dup, ordered := false, true
	for i, bi := range w.g.log {
		if i > 0 && w.g.log[i-1] >= bi {
			ordered = false
		}
	}
	for _, gb := range w.gbs {
		if gb.appended > 1 {
			dup = true
		}
	}
	// Once the broker has answered OUT_OF_ORDER_SEQUENCE_NUMBER by itself (it lost state) the
	// client restarts at a new epoch and the broker cannot de-duplicate across epochs (KIP-360);
	// with cancellation allowed the client may give up batches the broker holds. The
	// exactly-once / order claims are checked in all other runs.
	if !w.injected {
		verifAssert(!dup, "no batch is appended to the log twice")
		verifAssert(ordered, "batches are appended in produce order")
	}

	once, okOffset, okAbsent, inOrder := true, true, true, true
	last := -1
	for _, gb := range w.gbs {
		for j, t := range gb.recs {
			if t.calls > 1 {
				once = false
			}
			if t.calls == 0 {
				continue
			}
			if t.order < last {
				inOrder = false
			}
			last = t.order
			if t.err == nil {
				if gb.appended < 1 || (!w.injected && gb.appended != 1) || (!w.injected && t.offset != gb.base+int64(j)) {
					okOffset = false
				}
			} else if gb.appended > 0 {
				okAbsent = false
			}
		}
	}
	verifAssert(once, "a record's promise runs at most once")
	verifAssert(inOrder, "promises run in produce order")
	verifAssert(okOffset, "an acknowledged record is in the log exactly once at the promised offset")
	if w.strict && !w.allowCancel && !w.injected {
		verifAssert(okAbsent, "a record whose promise reports an error is not in the log")
	}
}

func (w *verifC02World) idState() *producerID { return w.cl.producer.id.Load().(*producerID) }

func (w *verifC02World) head() *verifC02GB {
	if len(w.rb.batches) == 0 {
		return nil
	}
	return w.byB[w.rb.batches[0]]
}

const (
	verifC02ActDrain = iota
	verifC02ActDrainUnwritten
	verifC02ActTrigger
	verifC02ActResolve // + fate
)

const verifC02ActLoadErr = 1001 // a metadata update carries a retriable load error for the partition

const verifC02ActProduce = 1000 // a new record is produced to the partition (once per run, when enabled)

// produceOne buffers one more record through the real bufferRecord while earlier batches may be
// in flight or rewound, and teaches the ghost which client batch it ended up in.
func (w *verifC02World) produceOne() {
	t := &verifC02Rec{offset: -99}
	r := &Record{Topic: "t", Value: []byte{0xEE}, Timestamp: time.Now().Truncate(time.Millisecond), Context: context.Background()}
	pr := promisedRec{w.recCtx, func(rr *Record, err error) {
		t.calls++
		t.err = err
		t.offset = rr.Offset
		t.pid, t.epoch = rr.ProducerID, rr.ProducerEpoch
		t.order = w.order
		w.order++
	}, r}
	p := &w.cl.producer
	p.mu.Lock()
	p.bufferedRecords++
	p.bufferedBytes += pr.userSize()
	p.mu.Unlock()
	w.total++
	w.bytes += int64(pr.userSize())
	before := len(w.rb.batches)
	var lastB *recBatch
	lastN := 0
	if before > 0 {
		lastB = w.rb.batches[before-1]
		lastN = len(lastB.records)
	}
	w.rb.bufferRecord(pr, false)
	verifRunAll()
	switch {
	case len(w.rb.batches) > before:
		nb := w.rb.batches[len(w.rb.batches)-1]
		gb := &verifC02GB{idx: len(w.gbs), n: 1, base: -1, recs: []*verifC02Rec{t}}
		w.gbs = append(w.gbs, gb)
		w.byB[nb] = gb
	case lastB != nil && len(lastB.records) == lastN+1:
		gb := w.byB[lastB]
		gb.n++
		gb.recs = append(gb.recs, t)
	default:
		// failed right away (its promise ran); it belongs to no batch
		gb := &verifC02GB{idx: len(w.gbs), n: 1, base: -1, recs: []*verifC02Rec{t}}
		w.gbs = append(w.gbs, gb)
	}
}

func verifC02Run(k int, sizes []int, fresh bool, cf verifC02Conf, strict bool) {
	w := verifC02Build(sizes, fresh, cf)
	w.strict = strict
	w.checkI2()
	w.run(k)
}

func (w *verifC02World) run(k int) {
	cf := w.cf
	fired := false
	for step := 0; step < k; step++ {
		head := w.head()
		open := head != nil && head.open
		// the actions that can apply in this state (drain is over-approximated: createReq decides)
		var acts []int
		if w.rb.batchDrainIdx < len(w.rb.batches) {
			acts = append(acts, verifC02ActDrain, verifC02ActDrainUnwritten)
		}
		if cf.trig >= verifC02TrigCtx && !fired {
			acts = append(acts, verifC02ActTrigger)
		}
		if w.allowProduce && !w.produced {
			acts = append(acts, verifC02ActProduce)
		}
		if w.allowLoadErr && w.loadErrs < 2 && len(w.rb.batches) > 0 {
			acts = append(acts, verifC02ActLoadErr)
		}
		for f := 0; f < verifC02NumFates; f++ {
			if w.canResolve(f) {
				acts = append(acts, verifC02ActResolve+f)
			}
		}
		if len(acts) == 0 {
			break
		}
		a := acts[verifChoose(len(acts))]
		ok, drain := true, false
		switch {
		case a == verifC02ActDrain || a == verifC02ActDrainUnwritten:
			ok, drain = w.drain(a == verifC02ActDrain), true
			verifRunAll()
		case a == verifC02ActTrigger:
			fired = true
			w.trigger(cf.trig)
		case a == verifC02ActProduce:
			w.produced = true
			w.produceOne()
		case a == verifC02ActLoadErr:
			// a metadata refresh reports a retriable load error for the partition
			w.loadErrs++
			w.loadErrStep = true
			w.rb.bumpRepeatedLoadErr(kerr.LeaderNotAvailable)
			verifRunAll()
		default:
			ok = w.resolve(a - verifC02ActResolve)
		}
		if !ok {
			verifAssume(false) // createReq had nothing to drain: not a step
		}
		w.checkI2()
		w.checkFailSafety(head, open, drain)
		w.loadErrStep = false
	}
	w.final()
	verifReached("c02-cosim")
}

func VerifC02_cosim() {
	k := 4
	if verifThorough() {
		k = 5
	}
	shapes := [][]int{{2}, {2, 1}, {2, 1, 2}}
	if verifThorough() {
		shapes = [][]int{{2}, {2, 1}, {1, 2}, {2, 1, 2}}
	}
	confs := []verifC02Conf{
		{trig: verifC02TrigNone},
		{trig: verifC02TrigRetries},
		{trig: verifC02TrigCtx},
		{trig: verifC02TrigCtx, allow: true},
		{trig: verifC02TrigNone, inject: true},
		{trig: verifC02TrigNone, inject: true, stop: true},
	}
	if verifThorough() {
		confs = append(confs,
			verifC02Conf{trig: verifC02TrigTimeout},
			verifC02Conf{trig: verifC02TrigAbort},
			verifC02Conf{trig: verifC02TrigRetries, allow: true},
			verifC02Conf{trig: verifC02TrigTimeout, allow: true},
			verifC02Conf{trig: verifC02TrigRetries, inject: true},
		)
	}
	sizes := shapes[verifChoose(len(shapes))]
	// quick: three batches only mid-stream (a fresh partition cannot pipeline before its
	// first acknowledgement, so the third batch adds little there)
	fresh := (verifThorough() || len(sizes) < 3) && verifChoose(2) == 0
	cf := confs[verifChoose(len(confs))]
	verifC02Run(k, sizes, fresh, cf, false)
}

// VerifC02_produceDuringRetry: the application keeps producing to the partition while an
// earlier batch is in flight, lost or rewound for a retry; a record produced then must never
// join a batch the broker may already hold (its sequence range is fixed once sent).
func VerifC02_produceDuringRetry() {
	k := 4
	if verifThorough() {
		k = 5
	}
	sizes := [][]int{{1}, {2}, {1, 1}}[verifChoose(3)]
	fresh := verifChoose(2) == 0
	w := verifC02Build(sizes, fresh, verifC02Conf{trig: verifC02TrigNone})
	w.allowProduce = true
	w.checkI2()
	w.run(k)
}

// VerifC02_loadErrors: metadata load errors (bumpRepeatedLoadErr) interleaved with drains and
// request fates; with RecordRetries(0) a load error may fail the head batch only when that is
// safe (never sent, or sent and answered).
func VerifC02_loadErrors() {
	k := 4
	if verifThorough() {
		k = 5
	}
	sizes := [][]int{{1}, {2, 1}}[verifChoose(2)]
	fresh := verifChoose(2) == 0
	w := verifC02Build(sizes, fresh, verifC02Conf{trig: verifC02TrigRetries})
	w.allowLoadErr = true
	w.checkI2()
	w.run(k)
}

// VerifC02_failedAbsent: the property's last sentence taken literally, checked against the
// ghost log: with the default configuration (no AllowIdempotentProduceCancellation) a record
// whose promise reports an error is not in the partition's log. VerifC02_cosim checks the
// weaker rule the option docs state (a limit may fail a batch once it "was requested and
// received a response"); this harness checks what the caller observes. Configurations in which
// a client-side limit can fire: RecordRetries, record context cancellation, and (thorough)
// RecordDeliveryTimeout and the aborting flag.
func VerifC02_failedAbsent() {
	k := 4
	shapes := [][]int{{2}, {2, 1}}
	confs := []verifC02Conf{{trig: verifC02TrigRetries}, {trig: verifC02TrigCtx}}
	if verifThorough() {
		k = 5
		confs = append(confs, verifC02Conf{trig: verifC02TrigTimeout}, verifC02Conf{trig: verifC02TrigAbort}, verifC02Conf{trig: verifC02TrigNone})
	}
	sizes := shapes[verifChoose(len(shapes))]
	fresh := verifChoose(2) == 0
	cf := confs[verifChoose(len(confs))]
	verifC02Run(k, sizes, fresh, cf, true)
}

// VerifC02_symbolicSeq: the same machine from every 31-bit first sequence number. The
// partition starts mid-stream at a symbolic batch0Seq with d batches already pipelined, then
// takes free steps; the ghost broker compares sequence numbers symbolically, so the
// client/broker agreement (including the wrap at 2^31) is proved for all values.
func VerifC02_symbolicSeq() {
	k := 1
	shapes := [][]int{{2}, {2, 1}, {2, 1, 2}}
	if verifThorough() {
		k = 2
		shapes = [][]int{{1}, {2}, {1, 1}, {2, 1}, {1, 2}, {2, 2}, {2, 1, 2}, {1, 2, 1}}
	}
	confs := []verifC02Conf{{trig: verifC02TrigNone}, {trig: verifC02TrigRetries}, {trig: verifC02TrigNone, inject: true}}
	sizes := shapes[verifChoose(len(shapes))]
	cf := confs[verifChoose(len(confs))]
	w := verifC02Build(sizes, false, cf)
	w.noWire = true
	s0 := verifNondetInt32("batch0Seq")
	verifAssume(s0 >= 0)
	w.rb.batch0Seq, w.rb.seq, w.g.nextSeq = s0, s0, s0
	d := verifChoose(len(sizes) + 1)
	for i := 0; i < d; i++ {
		if !w.drain(true) {
			verifAssume(false)
		}
	}
	verifAssert(w.rb.batchDrainIdx == d, "pipelined prefix drained d batches")
	w.checkI2()
	w.run(k)
}
