package kgo

import (
	"context"
	"sync"
)

// The partitioning/sink side is replaced: an admitted record is handed to the harness, which
// later completes it through the real promise path (promiseBatch -> finishPromises ->
// finishRecordPromise), like a sink would.
var verifC03 struct {
	admitted []promisedRec
	autoSink bool // complete each admitted record from its own goroutine
	sinkErr  error
	overRecs bool // an admission left bufferedRecords above the limit
	overByte bool // an admission left bufferedBytes above the limit
}

//verif:replace (*Client).loadPartsAndPartition
func (cl *Client) verifC03LoadPartsAndPartition(pr promisedRec) {
	verifC03.admitted = append(verifC03.admitted, pr)
	p := &cl.producer
	p.mu.Lock()
	if p.bufferedRecords > cl.cfg.maxBufferedRecords {
		verifC03.overRecs = true
	}
	if cl.cfg.maxBufferedBytes > 0 && p.bufferedBytes > cl.cfg.maxBufferedBytes {
		verifC03.overByte = true
	}
	p.mu.Unlock()
	if verifC03.autoSink {
		go cl.producer.promiseBatch(batchPromise{recs: []promisedRec{pr}, err: verifC03.sinkErr})
	}
}

func verifC03Client(maxRecs, maxBytes int64) *Client {
	cl := &Client{}
	cl.cfg.logger = new(nopLogger)
	cl.cfg.maxBufferedRecords = maxRecs
	cl.cfg.maxBufferedBytes = maxBytes
	cl.ctx = context.Background()
	p := &cl.producer
	p.cl = cl
	p.c = sync.NewCond(&p.mu)
	p.batchPromises.initMaxLen(4)
	verifC03.admitted = nil
	verifC03.autoSink = false
	verifC03.sinkErr = nil
	verifC03.overRecs, verifC03.overByte = false, false
	return cl
}

// (a) Admission arithmetic for all int64 counter values: a non-blocking produce is admitted
// iff records < max and (maxBytes == 0 or bytes+size <= maxBytes); otherwise it fails with
// exactly ErrMaxBuffered and changes nothing.
func VerifC03_admission() {
	maxRecs, maxBytes := verifNondetInt64("maxRecs"), verifNondetInt64("maxBytes")
	recs, bytes := verifNondetInt64("bufferedRecords"), verifNondetInt64("bufferedBytes")
	verifAssume(verifAnd(maxRecs >= 1, maxBytes >= 0))
	verifAssume(verifAnd(verifAnd(recs >= 0, recs <= maxRecs), verifAnd(bytes >= 0, bytes < 1<<62)))
	verifAssume(verifOr(maxBytes == 0, bytes <= maxBytes))
	cl := verifC03Client(maxRecs, maxBytes)
	p := &cl.producer
	p.bufferedRecords, p.bufferedBytes = recs, bytes
	size := verifRange("valueLen", 0, 2)
	size = verifConcretize(size)
	r := &Record{Topic: "t", Value: make([]byte, size)}
	verifAssume(verifOr(maxBytes == 0, int64(size) <= maxBytes)) // else MessageTooLarge arm (separate harness)
	calls := 0
	var gotErr error
	block := verifNondetBool("block")
	cl.cfg.manualFlushing = true // blocking callers at the limit fail fast too (documented)
	cl.produce(context.Background(), r, func(_ *Record, err error) { calls++; gotErr = err }, block)
	verifRunAll()
	fits := verifAnd(recs < maxRecs, verifOr(maxBytes == 0, bytes+int64(size) <= maxBytes))
	if len(verifC03.admitted) == 1 {
		verifAssert(fits, "admitted only below both limits")
		verifAssert(verifAnd(p.bufferedRecords == recs+1, p.bufferedBytes == bytes+int64(size)), "admission adds exactly one record and its size")
		verifAssert(verifAnd(p.bufferedRecords <= maxRecs, verifOr(maxBytes == 0, p.bufferedBytes <= maxBytes)), "limits hold after admission")
		verifAssert(calls == 0, "promise not yet called for an admitted record")
	} else {
		verifAssert(verifNot(fits), "refused only at a limit")
		verifAssert(calls == 1 && gotErr == ErrMaxBuffered, "refused record fails exactly once with ErrMaxBuffered")
		verifAssert(verifAnd(p.bufferedRecords == recs, p.bufferedBytes == bytes), "refusal changes no accounting")
	}
	verifReached("c03-admission")
}

// A record larger than the byte limit is failed up front and never counted.
func VerifC03_tooLarge() {
	maxBytes := verifNondetInt64("maxBytes")
	verifAssume(verifAnd(maxBytes >= 1, maxBytes < 3))
	cl := verifC03Client(10, maxBytes)
	r := &Record{Topic: "t", Value: make([]byte, 3)}
	calls := 0
	var gotErr error
	cl.produce(context.Background(), r, func(_ *Record, err error) { calls++; gotErr = err }, true)
	verifRunAll()
	verifAssert(calls == 1 && gotErr != nil, "too-large record fails exactly once")
	verifAssert(len(verifC03.admitted) == 0 && cl.producer.bufferedRecords == 0 && cl.producer.bufferedBytes == 0, "too-large record is never buffered")
	verifReached("c03-too-large")
}

// (b) finishRecordPromise accounting + broadcast rule, all int64 values: completing a record
// subtracts exactly its size and one record, and asks for a broadcast whenever a blocked
// producer exists or a flush is waiting for zero.
func VerifC03_finishAccounting() {
	cl := verifC03Client(10, 0)
	p := &cl.producer
	recs, bytes := verifNondetInt64("bufferedRecords"), verifNondetInt64("bufferedBytes")
	blocked, flushing := verifNondetInt32("blocked"), verifNondetInt32("flushing")
	size := verifConcretize(verifRange("valueLen", 0, 2))
	verifAssume(verifAnd(verifAnd(recs >= 1, bytes >= int64(size)), verifAnd(blocked >= 0, flushing >= 0)))
	p.bufferedRecords, p.bufferedBytes = recs, bytes
	p.blocked.Store(blocked)
	p.flushing.Store(flushing)
	calls := 0
	// the promise may recycle the record's buffers (documented as allowed): sizes must be
	// captured before it runs
	recycle := verifNondetBool("promiseRecyclesRecord")
	pr := promisedRec{context.Background(), func(r *Record, _ error) {
		calls++
		if recycle {
			r.Value, r.Key, r.Headers = nil, nil, nil
		}
	}, &Record{Value: make([]byte, size)}}
	before := verifNondetBool("beforeBuf")
	bc := cl.finishRecordPromise(pr, nil, before)
	verifAssert(calls == 1, "promise called exactly once")
	if before {
		verifAssert(verifAnd(p.bufferedRecords == recs, p.bufferedBytes == bytes), "never-buffered record changes no accounting")
		verifAssert(!bc, "never-buffered record needs no broadcast")
	} else {
		verifAssert(verifAnd(p.bufferedRecords == recs-1, p.bufferedBytes == bytes-int64(size)), "completion subtracts one record and its size")
		want := verifOr(blocked > 0, verifAnd(recs == 1, flushing > 0))
		verifAssert(bc == want, "broadcast requested exactly when a blocked producer or a flush at zero may be waiting")
	}
	verifReached("c03-finish-accounting")
}

// (c) Bounded schedules: one buffered record, one blocked Produce, one Flush, sinks that
// complete every admitted record, optional cancellation of the blocked Produce.
func VerifC03_blockFlushSchedules() {
	delays := 2
	if verifThorough() {
		delays = 4
	}
	verifPreemptions(delays)
	cl := verifC03Client(1, 0)
	withCancel := verifChoose(2) == 1
	p1calls, p2calls := 0, 0
	var p2err error
	// record 1 is admitted synchronously and stays buffered until its sink runs
	cl.produce(context.Background(), &Record{Topic: "t", Value: []byte{1}}, func(*Record, error) { p1calls++ }, true)
	verifAssert(len(verifC03.admitted) == 1 && cl.producer.bufferedRecords == 1, "first record admitted")
	verifC03.autoSink = true
	ctx2, cancel2 := context.WithCancel(context.Background())
	p2done, flushDone := false, false
	var flushErr error
	p1AtFlushReturn := -1
	go func() {
		cl.produce(ctx2, &Record{Topic: "t", Value: []byte{2}}, func(_ *Record, err error) { p2calls++; p2err = err }, true)
		p2done = true
	}()
	go func() {
		flushErr = cl.Flush(context.Background())
		p1AtFlushReturn = p1calls
		flushDone = true
	}()
	if withCancel {
		go cancel2()
	}
	// the sink of record 1
	go cl.producer.promiseBatch(batchPromise{recs: []promisedRec{verifC03.admitted[0]}})
	verifRunAll()
	verifAssert(p2done, "blocked Produce returns (admitted after space frees, or cancelled)")
	verifAssert(flushDone, "Flush returns once every buffered and blocked record is finished")
	verifAssert(flushErr == nil, "Flush with a live context returns nil")
	verifAssert(p1AtFlushReturn == 1, "Flush returns only after the earlier record's promise ran")
	verifAssert(p1calls == 1, "first record's promise runs exactly once")
	verifAssert(p2calls == 1, "second record's promise runs exactly once")
	if !withCancel {
		verifAssert(p2err == nil, "uncancelled blocked Produce is eventually produced")
	} else {
		verifAssert(p2err == nil || p2err == context.Canceled, "cancelled Produce fails with the context error or was already admitted")
	}
	verifAssert(cl.producer.bufferedRecords == 0 && cl.producer.bufferedBytes == 0 && cl.producer.blocked.Load() == 0 && cl.producer.blockedBytes == 0, "all accounting returns to zero")
	verifAssert(cl.BufferedProduceRecords() == 0, "BufferedProduceRecords reports zero when nothing is buffered")
	verifAssert(verifBlockedCount() == 0, "no goroutine is left blocked")
	cancel2()
	verifReached("c03-block-flush")
}

// (d) Both limits at once: two Produces block on the record limit; when a batch of two small
// records completes, the byte limit admits only one of the large waiting records at a time.
func VerifC03_bothLimitsSchedules() {
	delays := 1
	if verifThorough() {
		delays = 3
	}
	verifPreemptions(delays)
	cl := verifC03Client(2, 100)
	calls := make([]int, 4)
	mk := func(i, n int) (*Record, func(*Record, error)) {
		return &Record{Topic: "t", Value: make([]byte, n)}, func(*Record, error) { calls[i]++ }
	}
	for i := 0; i < 2; i++ {
		r, pf := mk(i, 10)
		cl.produce(context.Background(), r, pf, true)
	}
	verifAssert(len(verifC03.admitted) == 2, "two small records admitted up to the record limit")
	first := append([]promisedRec(nil), verifC03.admitted...)
	verifC03.autoSink = true
	done := 0
	for i := 2; i < 4; i++ {
		r, pf := mk(i, 60)
		go func() {
			cl.produce(context.Background(), r, pf, true)
			done++
		}()
	}
	// the sink acknowledges the first two records as one batch
	go cl.producer.promiseBatch(batchPromise{recs: first})
	verifRunAll()
	verifAssert(!verifC03.overRecs, "no admission ever leaves more records buffered than MaxBufferedRecords")
	verifAssert(!verifC03.overByte, "no admission ever leaves more bytes buffered than MaxBufferedBytes")
	verifAssert(done == 2, "both blocked Produces are eventually admitted")
	ok := true
	for _, c := range calls {
		ok = ok && c == 1
	}
	verifAssert(ok, "every record's promise runs exactly once")
	verifAssert(cl.producer.bufferedRecords == 0 && cl.producer.bufferedBytes == 0 && cl.producer.blocked.Load() == 0 && cl.producer.blockedBytes == 0, "all accounting returns to zero")
	verifAssert(verifBlockedCount() == 0, "no goroutine is left blocked")
	verifReached("c03-both-limits")
}

// (e) Boundary: a record of exactly MaxBufferedBytes that has to wait is admitted as soon as
// the buffer is empty (the waiting predicate and the admission predicate agree at equality).
func VerifC03_exactFitBlocked() {
	verifPreemptions(1)
	size := 1 + verifChoose(2)
	cl := verifC03Client(5, int64(size))
	calls := make([]int, 2)
	cl.produce(context.Background(), &Record{Topic: "t", Value: make([]byte, 1)}, func(*Record, error) { calls[0]++ }, true)
	verifAssert(len(verifC03.admitted) == 1, "first record admitted")
	first := verifC03.admitted[0]
	verifC03.autoSink = true
	done := false
	go func() {
		cl.produce(context.Background(), &Record{Topic: "t", Value: make([]byte, size)}, func(*Record, error) { calls[1]++ }, true)
		done = true
	}()
	go cl.producer.promiseBatch(batchPromise{recs: []promisedRec{first}})
	verifRunAll()
	verifAssert(done, "a blocked record that exactly fits MaxBufferedBytes is admitted once the buffer drains")
	verifAssert(calls[0] == 1 && calls[1] == 1, "both promises run exactly once")
	verifAssert(!verifC03.overByte, "the byte limit is never exceeded")
	verifAssert(cl.producer.bufferedBytes == 0 && cl.producer.blocked.Load() == 0, "accounting returns to zero")
	verifAssert(verifBlockedCount() == 0, "no goroutine is left blocked")
	verifReached("c03-exact-fit")
}

// (c') A Produce that was already blocked at the limit when Flush begins counts as "produced
// before it began": Flush waits for blocked producers too, so it returns only after that
// record has been admitted and its promise has run. One buffered record, a second Produce
// parked at MaxBufferedRecords(1) BEFORE Flush starts, sinks that complete admitted records;
// every schedule within the delay budget.
func VerifC03_flushCoversBlockedProduce() {
	delays := 2
	if verifThorough() {
		delays = 4
	}
	verifPreemptions(delays)
	cl := verifC03Client(1, 0)
	p1calls, p2calls := 0, 0
	cl.produce(context.Background(), &Record{Topic: "t", Value: []byte{1}}, func(*Record, error) { p1calls++ }, true)
	verifC03.autoSink = true
	p2done, flushDone := false, false
	go func() {
		cl.produce(context.Background(), &Record{Topic: "t", Value: []byte{2}}, func(_ *Record, err error) { p2calls++ }, true)
		p2done = true
	}()
	verifRunAll() // the second Produce is now parked at the limit
	verifAssert(!p2done && cl.producer.blocked.Load() == 1, "the second Produce is blocked at MaxBufferedRecords")
	var flushErr error
	p1At, p2At := -1, -1
	go func() {
		flushErr = cl.Flush(context.Background())
		p1At, p2At = p1calls, p2calls
		flushDone = true
	}()
	go cl.producer.promiseBatch(batchPromise{recs: []promisedRec{verifC03.admitted[0]}})
	verifRunAll()
	verifAssert(p2done && flushDone && flushErr == nil, "the blocked Produce and the Flush both return")
	verifAssert(p1At == 1, "Flush returns only after the buffered record's promise ran")
	verifAssert(p2At == 1, "Flush returns only after the record of a Produce that was blocked when Flush began has been produced and its promise ran")
	verifAssert(verifBlockedCount() == 0, "no goroutine is left blocked")
	verifReached("c03-flush-covers-blocked")
}
