package kgo

// C04 / C14 (fetch side) kernel: draining a buffered fetch returns every unpaused record once,
// in order, moves each cursor to exactly the documented offset, re-enables each cursor once,
// and pairs the buffered/unbuffered hooks and gauges.

type verifC04Part struct {
	topic     string
	partition int32
	cur       *cursor
	recs      []*Record
	curOffset int64 // cursor offset before the take
	next      int64 // frozen next offset of the buffered fetch
	paused    bool
	returned  []*Record
}

type verifC04Hook struct {
	buf    map[*Record]int
	unbuf  map[*Record]int
	polled map[*Record]bool
}

func (h *verifC04Hook) OnFetchRecordBuffered(r *Record) { h.buf[r]++ }
func (h *verifC04Hook) OnFetchRecordUnbuffered(r *Record, polled bool) {
	h.unbuf[r]++
	h.polled[r] = polled
}

var verifC04Consumes int

//verif:replace (*source).maybeConsume
func (s *source) verifC04MaybeConsume() { verifC04Consumes++ }

type verifC04World struct {
	cl     *Client
	s      *source
	parts  []*verifC04Part
	hook   *verifC04Hook
	paused pausedTopics
	done   chan bool
}

func verifC04Build() *verifC04World {
	verifC04Consumes = 0
	cl := &Client{}
	cl.cfg.logger = new(nopLogger)
	hk := &verifC04Hook{buf: map[*Record]int{}, unbuf: map[*Record]int{}, polled: map[*Record]bool{}}
	cl.cfg.hooks = hooks{hk}
	s := &source{cl: cl, sem: make(chan struct{})}
	w := &verifC04World{cl: cl, s: s, hook: hk}
	w.done = make(chan bool, 4)
	s.buffered.doneFetch = w.done
	s.buffered.usedOffsets = make(usedOffsets)
	nt := 1 + verifChoose(2)
	for ti := 0; ti < nt; ti++ {
		topic := []string{"a", "b"}[ti]
		ft := FetchTopic{Topic: topic}
		np := 1
		if ti == 0 {
			np = 1 + verifChoose(2)
		}
		for pi := 0; pi < np; pi++ {
			p := &verifC04Part{topic: topic, partition: int32(pi)}
			p.curOffset = verifNondetInt64("cursorOffset")
			verifAssume(verifAnd(p.curOffset >= 0, p.curOffset < 1<<60))
			p.cur = &cursor{topic: topic, partition: int32(pi), source: s}
			p.cur.offset = p.curOffset
			nr := verifChoose(3)
			if ti == 1 && !verifThorough() {
				nr = 1
			}
			off := p.curOffset
			fp := FetchPartition{Partition: int32(pi), HighWatermark: verifNondetInt64("hwm")}
			for k := 0; k < nr; k++ {
				gap := verifNondetInt64("gap") // compaction gaps
				verifAssume(verifAnd(gap >= 0, gap < 1<<20))
				off += gap
				r := &Record{Topic: topic, Partition: int32(pi), Offset: off, LeaderEpoch: verifNondetInt32("epoch"), Value: []byte{1}}
				off++
				p.recs = append(p.recs, r)
				fp.Records = append(fp.Records, r)
			}
			tail := verifNondetInt64("tailGap") // next offset may pass filtered/control records
			verifAssume(verifAnd(tail >= 0, tail < 1<<20))
			p.next = off + tail
			if s.buffered.usedOffsets[topic] == nil {
				s.buffered.usedOffsets[topic] = map[int32]*cursorOffsetNext{}
			}
			s.buffered.usedOffsets[topic][int32(pi)] = &cursorOffsetNext{cursorOffset: cursorOffset{offset: p.next, lastConsumedEpoch: 3, hwm: fp.HighWatermark}, from: p.cur}
			ft.Partitions = append(ft.Partitions, fp)
			w.parts = append(w.parts, p)
		}
		s.buffered.fetch.Topics = append(s.buffered.fetch.Topics, ft)
	}
	// pausing: none / all of topic a / partition 0 of topic a
	switch verifChoose(3) {
	case 1:
		w.paused = pausedTopics{"a": pausedPartitions{all: true}}
	case 2:
		w.paused = pausedTopics{"a": pausedPartitions{m: map[int32]struct{}{0: {}}}}
	}
	for _, p := range w.parts {
		p.paused = w.paused.has(p.topic, p.partition)
	}
	// buffer it the way the source does
	s.hookBuffered(&s.buffered.fetch)
	return w
}

func (w *verifC04World) collect(f Fetch) {
	for _, t := range f.Topics {
		for _, fp := range t.Partitions {
			for _, p := range w.parts {
				if p.topic == t.Topic && p.partition == fp.Partition {
					p.returned = append(p.returned, fp.Records...)
				}
			}
		}
	}
}

func (w *verifC04World) total() (n int64) {
	for _, p := range w.parts {
		n += int64(len(p.recs))
	}
	return
}

func (w *verifC04World) checkFinal(polled bool, discard bool) {
	w.cl.consumer.runDeferredFetchHooks()
	okRecs, okOff, okUse := true, true, true
	for _, p := range w.parts {
		switch {
		case discard || p.paused:
			okRecs = okRecs && len(p.returned) == 0
			verifAssert(p.cur.offset == p.curOffset, "a paused or discarded partition's cursor does not move (it is re-fetched, not skipped)")
		default:
			okRecs = okRecs && len(p.returned) == len(p.recs)
			if len(p.returned) == len(p.recs) {
				for i := range p.recs {
					okRecs = okRecs && p.returned[i] == p.recs[i]
				}
			}
			verifAssert(p.cur.offset == p.next, "a fully taken partition's cursor moves to the fetch's frozen next offset")
		}
		okUse = okUse && p.cur.usable()
	}
	_ = okOff
	verifAssert(okRecs, "every unpaused record is returned exactly once, in order; paused/discarded records are not returned")
	verifAssert(okUse, "every cursor is usable again")
	verifAssert(verifC04Consumes == len(w.parts), "every cursor is re-enabled exactly once")
	okHooks := true
	for _, p := range w.parts {
		for _, r := range p.recs {
			okHooks = okHooks && w.hook.buf[r] == 1 && w.hook.unbuf[r] == 1 && w.hook.polled[r] == polled
		}
	}
	verifAssert(okHooks, "each record is buffered once and unbuffered once with the right polled flag")
	verifAssert(w.cl.consumer.bufferedRecords.Load() == 0 && w.cl.consumer.bufferedBytes.Load() == 0, "fetch gauges return to zero")
	verifAssert(len(w.done) == 1, "the fetch is released to the source exactly once")
	verifAssert(len(w.s.buffered.fetch.Topics) == 0 && w.s.buffered.usedOffsets == nil, "nothing stays buffered")
}

func VerifC04_takeBuffered() {
	w := verifC04Build()
	w.collect(w.s.takeBuffered(w.paused))
	w.checkFinal(true, false)
	verifReached("c04-take-buffered")
}

func VerifC04_discardBuffered() {
	w := verifC04Build()
	w.s.discardBuffered()
	w.checkFinal(false, true)
	verifReached("c04-discard-buffered")
}

func VerifC04_takeNBuffered() {
	w := verifC04Build()
	total := int(w.total())
	drained := false
	takenAll := 0
	for step := 0; step < 4 && !drained; step++ {
		n := verifConcretize(verifRange("n", 1, 3))
		if step == 3 {
			n = 1000
		}
		f, taken, d := w.s.takeNBuffered(w.paused, n)
		drained = d
		takenAll += taken
		w.collect(f)
		verifAssert(taken <= n, "never more than n records per call")
		// partially taken partitions: cursor sits right after the last returned record
		for _, p := range w.parts {
			if !p.paused && len(p.returned) > 0 && len(p.returned) < len(p.recs) {
				last := p.returned[len(p.returned)-1]
				verifAssert(p.cur.offset == last.Offset+1, "a partially taken partition's cursor is last returned offset + 1")
				verifAssert(!p.cur.usable(), "a partially taken partition is not fetched again yet")
			}
		}
	}
	verifAssert(drained, "taking everything drains the source")
	_ = total
	w.checkFinal(true, false)
	verifReached("c04-take-n-buffered")
}
