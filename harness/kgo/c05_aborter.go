package kgo

import "github.com/twmb/franz-go/pkg/kmsg"

// C05 kernel: read_committed filtering inside ProcessFetchPartition (buildAborter,
// shouldAbortBatch, trackAbortedPID) against a ghost transaction history.
//
// A history is a run of k single-record v2 batches at contiguous offsets base..base+k-1 written
// by two producers A != B. Each batch is one of: non-transactional data, transactional data,
// COMMIT marker, ABORT marker (control batch whose record key is version int16, type int16:
// 0 = abort, 1 = commit). The ghost (the harness, playing log + broker) tracks per producer
// the ongoing transaction and its first offset, exactly as Kafka's producer state does:
//   - the first transactional data batch after a marker (or ever) opens a transaction there;
//   - a producer may already be inside a transaction when the response starts (first offset
//     before the response);
//   - a marker ends the producer's ongoing transaction; ABORT makes all its data aborted;
//   - a transaction still ongoing at the end of the response is decided (everything below the
//     last stable offset is) but its marker lies beyond the response: either outcome.
// The broker's AbortedTransactions list holds (producer, first offset) of exactly the aborted
// transactions that overlap [fetch offset, end of response), in ARBITRARY order.
//
// Reference: the consumer returns exactly the non-control records at offset >= fetch offset that
// are non-transactional or belong to a transaction that is not aborted; control records iff
// KeepControlRecords.

const (
	verifC05NonTxn = iota
	verifC05TxnData
	verifC05Commit
	verifC05Abort
	verifC05NumKinds
)

type verifC05Batch struct {
	kind    int
	prod    int
	aborted bool // ghost: data batch of an aborted transaction
}

type verifC05Prod struct {
	seen    bool
	open    bool
	first   int64 // first offset of the ongoing transaction
	members []int // indices of its data batches inside the response
}

type verifC05Entry struct {
	prod  int
	first int64
}

func verifC05Encode(b *verifC05Batch, offset int64, pid int64, twoRecords bool) []byte {
	u := &verifRefUnit{
		magic:       2,
		baseOffset:  offset,
		leaderEpoch: 3,
		baseTs:      1000,
		maxTs:       1000,
		pid:         pid,
		pepoch:      1,
		baseSeq:     0,
		claimed:     1,
	}
	rec := verifRefRec{tsWidth: 1, key: verifBytes{b: []byte{'k'}}, val: verifBytes{b: []byte{'v'}}}
	switch b.kind {
	case verifC05NonTxn:
	case verifC05TxnData:
		u.attrs = 0x10
	case verifC05Commit:
		u.attrs = 0x30
		rec.key = verifBytes{b: []byte{0, 0, 0, 1}}
		rec.val = verifBytes{b: []byte{0, 0, 0, 0, 0, 7}}
	case verifC05Abort:
		u.attrs = 0x30
		rec.key = verifBytes{b: []byte{0, 0, 0, 0}}
		rec.val = verifBytes{b: []byte{0, 0, 0, 0, 0, 7}}
	}
	u.recs = []verifRefRec{rec}
	if twoRecords {
		// hostile: a control batch carrying two marker records (data batch: two records)
		r2 := rec
		r2.offDelta = 1
		u.recs = append(u.recs, r2)
		u.claimed = 2
		u.lastOffsetDelta = 1
	}
	return u.encode(nil)
}

func verifC05Permute(entries []verifC05Entry) []verifC05Entry {
	// arbitrary order: pick the next element among the remaining ones
	rest := append([]verifC05Entry(nil), entries...)
	var out []verifC05Entry
	for len(rest) > 0 {
		i := 0
		if len(rest) > 1 {
			i = verifChoose(len(rest))
		}
		out = append(out, rest[i])
		rest = append(rest[:i], rest[i+1:]...)
	}
	return out
}

func verifC05History(k int, fetchIdx int, symPids, symOffsets bool) {
	verifC05HistoryKinds(k, fetchIdx, symPids, symOffsets, 0)
}

// firstKind: lowest batch kind used (1 = transactional batches and markers only)
func verifC05HistoryKinds(k int, fetchIdx int, symPids, symOffsets bool, firstKind int) {
	pids := [2]int64{7, 9}
	if symPids {
		pids = [2]int64{verifNondetInt64("pidA"), verifNondetInt64("pidB")}
		verifAssume(verifAnd(pids[0] >= 0, verifAnd(pids[1] >= 0, pids[0] != pids[1])))
	}
	base, before := int64(1<<20), int64(5)
	if symOffsets {
		base = verifNondetInt64("base")
		verifAssume(verifAnd(base >= 1<<20, base < 1<<62))
		before = verifNondetInt64("distanceOfEarlierFirstOffset")
		verifAssume(verifAnd(before >= 1, before < 1<<20))
	}

	// the history
	batches := make([]verifC05Batch, k)
	for i := range batches {
		batches[i].kind = firstKind + verifChoose(verifC05NumKinds-firstKind)
		if i > 0 { // the first batch is producer A's without loss of generality
			batches[i].prod = verifChoose(2)
		}
	}

	// ghost producer state
	var st [2]verifC05Prod
	var entries []verifC05Entry
	for i := range batches {
		b := &batches[i]
		p := &st[b.prod]
		if b.kind == verifC05NonTxn {
			continue
		}
		if !p.seen {
			p.seen = true
			if verifChoose(2) == 1 { // already inside a transaction when the response starts
				p.open = true
				p.first = base - before - int64(b.prod)
			}
		}
		switch b.kind {
		case verifC05TxnData:
			if !p.open {
				p.open = true
				p.first = base + int64(i)
			}
			p.members = append(p.members, i)
		case verifC05Commit, verifC05Abort:
			if p.open {
				// the broker lists aborted transactions whose marker is at or after the fetch offset
				if b.kind == verifC05Abort && i >= fetchIdx {
					entries = append(entries, verifC05Entry{b.prod, p.first})
				}
				if b.kind == verifC05Abort {
					for _, m := range p.members {
						batches[m].aborted = true
					}
				}
				p.open = false
				p.members = nil
			}
			// else: a marker with no transaction in this partition (nothing to end, no entry)
		}
	}
	for pi := range st {
		p := &st[pi]
		if p.open && verifChoose(2) == 1 { // aborted by a marker beyond the response
			entries = append(entries, verifC05Entry{pi, p.first})
			for _, m := range p.members {
				batches[m].aborted = true
			}
		}
	}

	// the wire
	var data []byte
	for i := range batches {
		data = append(data, verifC05Encode(&batches[i], base+int64(i), pids[batches[i].prod], false)...)
	}
	rp := verifRespPartition(data)
	for _, e := range verifC05Permute(entries) {
		rp.AbortedTransactions = append(rp.AbortedTransactions, kmsg.FetchResponseTopicPartitionAbortedTransaction{ProducerID: pids[e.prod], FirstOffset: e.first})
	}
	keepControl := verifNondetBool("keepControl")
	opts := ProcessFetchPartitionOpts{
		KeepControlRecords:   keepControl,
		DisableCRCValidation: !symOffsets, // CRC handling is C06; on in the symbolic-offset variants
		Offset:               base + int64(fetchIdx),
		IsolationLevel:       IsolationLevel{1},
		Topic:                "t",
	}
	fp, next := ProcessFetchPartition(opts, rp, nil, nil)

	// reference
	verifAssert(fp.Err == nil, "a well-formed history yields no partition error")
	j := 0
	okPid, okControl := true, true
	for i := fetchIdx; i < k; i++ {
		b := &batches[i]
		isControl := b.kind == verifC05Commit || b.kind == verifC05Abort
		var want bool
		if isControl {
			if keepControl { // branch on the symbolic option: both sides explored
				want = true
			}
		} else {
			want = !b.aborted
		}
		got := j < len(fp.Records) && verifC05OffsetIs(fp.Records[j], base+int64(i))
		if want {
			verifAssert(got, "every committed / non-transactional record (and control record on request) at or after the fetch offset is returned, in order")
			if !got {
				return
			}
			r := fp.Records[j]
			okPid = verifAnd(okPid, r.ProducerID == pids[b.prod])
			okControl = verifAnd(okControl, r.Attrs.IsControl() == isControl)
			j++
		} else if got {
			if isControl {
				verifFail("a control record is returned although KeepControlRecords is not set")
			} else {
				verifFail("a record of an aborted transaction is returned under read_committed")
			}
			return
		}
	}
	verifAssert(j == len(fp.Records), "nothing but the reference's records is returned")
	verifAssert(okPid, "returned records carry their batch's producer id")
	verifAssert(okControl, "returned records carry their batch's control attribute")
	verifAssert(next == base+int64(k), "next offset is one past the last batch")
}

// offset equality decided by the solver once (the offsets base+i are distinct)
func verifC05OffsetIs(r *Record, off int64) bool {
	if r.Offset == off {
		return true
	}
	return false
}

// Histories of k batches fetched from their start.
func VerifC05_histories() {
	if verifThorough() {
		if verifChoose(2) == 0 {
			verifC05HistoryKinds(4, 0, false, false, 1) // k=4: transactional data and markers only
		} else {
			verifC05History(3, 0, true, false)
		}
	} else {
		verifC05History(3, 0, false, false)
	}
	verifReached("c05-histories")
}

// Same, k = 2, with symbolic producer ids and offsets (base offset, first offsets of earlier
// transactions) and CRC validation on.
func VerifC05_historiesSymbolicOffsets() {
	verifC05History(2, 0, true, true)
	verifReached("c05-histories-symbolic-offsets")
}

// The fetch offset lies inside the response (the broker may return earlier batches): batches
// before it are skipped, and aborted transactions that ended before it are not listed.
func VerifC05_fetchOffsetInside() {
	k := 3
	verifC05History(k, 1+verifChoose(k-1), verifThorough(), false)
	verifReached("c05-fetch-offset-inside")
}

// Hostile / buggy broker: any batch kinds (including control batches with two marker records),
// an aborted list that has nothing to do with the batches (any producers, any first offsets,
// duplicates, missing entries). Nothing may panic, non-transactional records are never
// filtered, and the next offset still ends one past the last batch.
func VerifC05_hostile() {
	pids := [2]int64{7, 9}
	base := int64(1 << 20)
	if verifThorough() {
		base = verifNondetInt64("base")
		verifAssume(verifAnd(base >= 0, base < 1<<62))
	}
	k := 2
	type hb struct {
		verifC05Batch
		two bool
		off int64
	}
	var batches []hb
	var data []byte
	off := base
	for i := 0; i < k; i++ {
		var b hb
		c := verifChoose(verifC05NumKinds + 1)
		if c == verifC05NumKinds { // abort marker batch with two marker records
			b.kind = verifC05Abort
			b.two = true
		} else {
			b.kind = c
		}
		if i > 0 {
			b.prod = verifChoose(2)
		}
		b.off = off
		data = append(data, verifC05Encode(&b.verifC05Batch, off, pids[b.prod], b.two)...)
		off++
		if b.two {
			off++
		}
		batches = append(batches, b)
	}
	rp := verifRespPartition(data)
	maxEntries := 2
	if verifThorough() {
		maxEntries = 3
	}
	n := verifChoose(maxEntries + 1)
	for i := 0; i < n; i++ {
		rp.AbortedTransactions = append(rp.AbortedTransactions, kmsg.FetchResponseTopicPartitionAbortedTransaction{
			ProducerID:  pids[verifChoose(2)],
			FirstOffset: verifNondetInt64("abortedFirstOffset"),
		})
	}
	opts := ProcessFetchPartitionOpts{
		KeepControlRecords:   verifNondetBool("keepControl"),
		DisableCRCValidation: true,
		Offset:               base,
		IsolationLevel:       IsolationLevel{1},
		Topic:                "t",
	}
	fp, next := ProcessFetchPartition(opts, rp, nil, nil)
	verifAssert(fp.Err == nil, "a hostile aborted list is not a parse error")
	verifAssert(next == off, "next offset is one past the last batch")
	for i := range batches {
		if batches[i].kind != verifC05NonTxn {
			continue
		}
		found := false
		for _, r := range fp.Records {
			if verifC05OffsetIs(r, batches[i].off) {
				found = true
			}
		}
		verifAssert(found, "a non-transactional record is returned whatever the aborted list says")
	}
	if !opts.KeepControlRecords {
		ok := true
		for _, r := range fp.Records {
			ok = verifAnd(ok, !r.Attrs.IsControl())
		}
		verifAssert(ok, "no control record is returned unless KeepControlRecords is set")
	}
	verifReached("c05-hostile")
}

// read_uncommitted ignores the aborted list: every data record is returned.
func VerifC05_readUncommitted() {
	pid := verifNondetInt64("pidA")
	base := verifNondetInt64("base")
	verifAssume(verifAnd(base >= 0, base < 1<<62))
	k := 2
	var kinds []int
	var data []byte
	for i := 0; i < k; i++ {
		b := verifC05Batch{kind: verifChoose(verifC05NumKinds)}
		kinds = append(kinds, b.kind)
		data = append(data, verifC05Encode(&b, base+int64(i), pid, false)...)
	}
	rp := verifRespPartition(data)
	if verifChoose(2) == 1 {
		rp.AbortedTransactions = append(rp.AbortedTransactions, kmsg.FetchResponseTopicPartitionAbortedTransaction{ProducerID: pid, FirstOffset: verifNondetInt64("abortedFirstOffset")})
	}
	opts := ProcessFetchPartitionOpts{Offset: base, IsolationLevel: IsolationLevel{0}, Topic: "t"}
	fp, next := ProcessFetchPartition(opts, rp, nil, nil)
	j := 0
	for i := 0; i < k; i++ {
		if kinds[i] == verifC05Commit || kinds[i] == verifC05Abort {
			continue
		}
		ok := j < len(fp.Records) && verifC05OffsetIs(fp.Records[j], base+int64(i))
		verifAssert(ok, "read_uncommitted returns every data record")
		j++
	}
	verifAssert(j == len(fp.Records), "read_uncommitted returns nothing but the data records")
	verifAssert(next == base+int64(k), "next offset is one past the last batch")
	verifReached("c05-read-uncommitted")
}

// The aborted-transaction list of a fetch response may list one producer's transactions in
// ANY order (the filtering treats a[pid][0] as the smallest remaining aborted first offset and
// pops it at each abort marker). buildAborter therefore has to hand the filter, per producer,
// exactly the listed first offsets in ascending order — for every list, not only ascending or
// descending ones. 0..4 entries over two producer ids, first offsets symbolic.
func VerifC05_buildAborterOrdersEveryList() {
	n := verifChoose(5)
	rp := kmsg.NewFetchResponseTopicPartition()
	var offs []int64
	var pids []int64
	for i := 0; i < n; i++ {
		at := kmsg.NewFetchResponseTopicPartitionAbortedTransaction()
		at.ProducerID = int64(7 + 2*verifChoose(2))
		at.FirstOffset = verifNondetInt64("aborted.firstOffset")
		verifAssume(verifAnd(at.FirstOffset >= 0, at.FirstOffset < 1<<40))
		offs, pids = append(offs, at.FirstOffset), append(pids, at.ProducerID)
		rp.AbortedTransactions = append(rp.AbortedTransactions, at)
	}
	a := buildAborter(&rp)
	if n == 0 {
		verifAssert(len(a) == 0, "no aborted transactions: nothing to filter")
		verifReached("c05-build-aborter")
		return
	}
	for _, pid := range []int64{7, 9} {
		want := 0
		for i := range pids {
			if pids[i] == pid {
				want++
			}
		}
		got := a[pid]
		verifAssert(len(got) == want, "every listed aborted transaction of a producer is kept")
		if len(got) != want {
			continue
		}
		asc := true
		for i := 1; i < len(got); i++ {
			asc = verifAnd(asc, got[i-1] <= got[i])
		}
		verifAssert(asc, "a producer's aborted first offsets are handed to the filter in ascending order, whatever order the broker listed them in")
		// same multiset: every listed offset occurs as often in the result as in the list
		for i := range pids {
			if pids[i] != pid {
				continue
			}
			inList, inGot := 0, 0
			for j := range pids {
				if pids[j] == pid {
					inList = verifIteInt(offs[j] == offs[i], inList+1, inList)
				}
			}
			for _, g := range got {
				inGot = verifIteInt(g == offs[i], inGot+1, inGot)
			}
			verifAssert(inList == inGot, "the ordered offsets are exactly the listed ones")
		}
	}
	verifReached("c05-build-aborter")
}
