package kgo

import (
	"hash/crc32"
	"time"

	"github.com/twmb/franz-go/pkg/kmsg"
)

// Reference encoder and reference result for C06 / C05.
//
// Written from the Kafka log format description (kafka.apache.org "Message format":
// RecordBatch / Record / Record Header for magic 2; the 0.10 "message set" description and
// KIP-31/KIP-32 for magic 0 and 1), NOT from kgo's produce path or kmsg's AppendTo.
//
//   RecordBatch (magic 2), big endian:
//     baseOffset int64 | batchLength int32 (bytes after this field) | partitionLeaderEpoch int32
//     | magic int8 | crc uint32 (CRC-32C of everything after the crc field) | attributes int16
//     | lastOffsetDelta int32 | baseTimestamp int64 | maxTimestamp int64 | producerId int64
//     | producerEpoch int16 | baseSequence int32 | recordsCount int32 | records
//     attributes: bits 0-2 codec, bit 3 timestampType, bit 4 transactional, bit 5 control
//   Record:
//     length varint | attributes int8 | timestampDelta varlong | offsetDelta varint
//     | keyLength varint (-1 null) key | valueLength varint (-1 null) value
//     | headersCount varint | { keyLength varint key valueLength varint (-1 null) value }*
//   Message (magic 0 / 1):
//     offset int64 | messageSize int32 | crc uint32 (IEEE CRC-32 of everything after the crc
//     field) | magic int8 | attributes int8 | [magic 1: timestamp int64]
//     | keyLength int32 (-1 null) key | valueLength int32 (-1 null) value
//     attributes: bits 0-2 codec, bit 3 timestampType (magic 1)

type verifBytes struct {
	b    []byte // nil with null => null
	null bool
}

type verifRefHeader struct {
	key verifBytes // header keys are never null
	val verifBytes
}

type verifRefRec struct {
	attrs    int8
	tsDelta  int64 // encoded in tsWidth bytes (1: [-64,63], 2: [-8192,8191] outside 1-byte range allowed too)
	tsWidth  int
	offDelta int32 // encoded in one byte: [-64,63]
	key, val verifBytes
	headers  []verifRefHeader
}

// one unit of the log: a v0 message, a v1 message, or a v2 batch
type verifRefUnit struct {
	magic int // 0, 1, 2

	// magic 2
	baseOffset      int64
	leaderEpoch     int32
	attrs           int16
	lastOffsetDelta int32
	baseTs, maxTs   int64
	pid             int64
	pepoch          int16
	baseSeq         int32
	claimed         int32 // recordsCount on the wire
	recs            []verifRefRec
	rawRecords      []byte // if non-nil, used instead of encoding recs (compressed payload placeholder)

	// magic 0 / 1
	offset   int64
	mattrs   int8
	ts       int64
	key, val verifBytes

	// wire corruption knobs
	crcOverride  bool
	crc          uint32
	sizeOverride bool
	size         int32
}

func verifBE16(dst []byte, v uint16) []byte { return append(dst, byte(v>>8), byte(v)) }
func verifBE32(dst []byte, v uint32) []byte {
	return append(dst, byte(v>>24), byte(v>>16), byte(v>>8), byte(v))
}
func verifBE64(dst []byte, v uint64) []byte {
	return append(dst, byte(v>>56), byte(v>>48), byte(v>>40), byte(v>>32), byte(v>>24), byte(v>>16), byte(v>>8), byte(v))
}

// zig-zag LEB128 of a CONCRETE value (lengths, counts).
func verifVarintConcrete(dst []byte, v int64) []byte {
	u := uint64(v<<1) ^ uint64(v>>63)
	for u >= 0x80 {
		dst = append(dst, byte(u)|0x80)
		u >>= 7
	}
	return append(dst, byte(u))
}

// zig-zag LEB128 of a possibly symbolic value in exactly `width` bytes (the caller assumes the
// value's range fits: width 1 => [-64,63], width 2 => [-8192,8191]). No branching on v.
func verifVarintWidth(dst []byte, v int64, width int) []byte {
	u := uint64(v<<1) ^ uint64(v>>63)
	for i := 0; i < width-1; i++ {
		dst = append(dst, byte(u&0x7f)|0x80)
		u >>= 7
	}
	return append(dst, byte(u&0x7f))
}

func verifFitsWidth(v int64, width int) bool {
	if width == 1 {
		return verifAnd(v >= -64, v <= 63)
	}
	if width == 2 {
		return verifAnd(v >= -8192, v <= 8191)
	}
	lim := int64(1) << uint(7*width-1)
	return verifAnd(v >= -lim, v <= lim-1)
}

func verifVarBytes(dst []byte, b verifBytes) []byte {
	if b.null {
		return verifVarintConcrete(dst, -1)
	}
	dst = verifVarintConcrete(dst, int64(len(b.b)))
	return append(dst, b.b...)
}

func verifInt32Bytes(dst []byte, b verifBytes) []byte {
	if b.null {
		return verifBE32(dst, 0xffffffff)
	}
	dst = verifBE32(dst, uint32(len(b.b)))
	return append(dst, b.b...)
}

func (r *verifRefRec) encode(dst []byte) []byte {
	var body []byte
	body = append(body, byte(r.attrs))
	body = verifVarintWidth(body, r.tsDelta, r.tsWidth)
	body = verifVarintWidth(body, int64(r.offDelta), 1)
	body = verifVarBytes(body, r.key)
	body = verifVarBytes(body, r.val)
	body = verifVarintConcrete(body, int64(len(r.headers)))
	for i := range r.headers {
		body = verifVarBytes(body, r.headers[i].key)
		body = verifVarBytes(body, r.headers[i].val)
	}
	dst = verifVarintConcrete(dst, int64(len(body)))
	return append(dst, body...)
}

var verifCastagnoli = crc32.MakeTable(crc32.Castagnoli)

func (u *verifRefUnit) encode(dst []byte) []byte {
	switch u.magic {
	case 2:
		var tail []byte // everything after the crc
		tail = verifBE16(tail, uint16(u.attrs))
		tail = verifBE32(tail, uint32(u.lastOffsetDelta))
		tail = verifBE64(tail, uint64(u.baseTs))
		tail = verifBE64(tail, uint64(u.maxTs))
		tail = verifBE64(tail, uint64(u.pid))
		tail = verifBE16(tail, uint16(u.pepoch))
		tail = verifBE32(tail, uint32(u.baseSeq))
		tail = verifBE32(tail, uint32(u.claimed))
		if u.rawRecords != nil {
			tail = append(tail, u.rawRecords...)
		} else {
			for i := range u.recs {
				tail = u.recs[i].encode(tail)
			}
		}
		crc := crc32.Checksum(tail, verifCastagnoli)
		if u.crcOverride {
			crc = u.crc
		}
		size := uint32(4 + 1 + 4 + len(tail))
		if u.sizeOverride {
			size = uint32(u.size)
		}
		dst = verifBE64(dst, uint64(u.baseOffset))
		dst = verifBE32(dst, size)
		dst = verifBE32(dst, uint32(u.leaderEpoch))
		dst = append(dst, 2)
		dst = verifBE32(dst, crc)
		return append(dst, tail...)
	default:
		var tail []byte
		tail = append(tail, byte(u.magic), byte(u.mattrs))
		if u.magic == 1 {
			tail = verifBE64(tail, uint64(u.ts))
		}
		tail = verifInt32Bytes(tail, u.key)
		tail = verifInt32Bytes(tail, u.val)
		crc := crc32.ChecksumIEEE(tail)
		if u.crcOverride {
			crc = u.crc
		}
		size := uint32(4 + len(tail))
		if u.sizeOverride {
			size = uint32(u.size)
		}
		dst = verifBE64(dst, uint64(u.offset))
		dst = verifBE32(dst, size)
		dst = verifBE32(dst, crc)
		return append(dst, tail...)
	}
}

// ---- what a reader of the log must produce ----

type verifWantRec struct {
	offset      int64
	tsMillis    int64
	key, val    verifBytes
	headers     []verifRefHeader
	attrs       uint8
	pid         int64
	pepoch      int16
	leaderEpoch int32
}

// records of one unit, in order, before any offset / control / abort filtering
func (u *verifRefUnit) records() []verifWantRec {
	switch u.magic {
	case 2:
		out := make([]verifWantRec, 0, len(u.recs))
		for i := range u.recs {
			r := &u.recs[i]
			w := verifWantRec{
				offset:      u.baseOffset + int64(r.offDelta),
				key:         r.key,
				val:         r.val,
				headers:     r.headers,
				attrs:       uint8(u.attrs),
				pid:         u.pid,
				pepoch:      u.pepoch,
				leaderEpoch: u.leaderEpoch,
			}
			// timestampType (bit 3): 0 = CreateTime (base + delta), 1 = LogAppendTime (max)
			w.tsMillis = verifIteInt64(u.attrs&0x08 == 0, u.baseTs+r.tsDelta, u.maxTs)
			out = append(out, w)
		}
		return out
	case 1:
		return []verifWantRec{{offset: u.offset, tsMillis: u.ts, key: u.key, val: u.val,
			attrs: uint8(u.mattrs), pid: -1, pepoch: -1, leaderEpoch: -1}}
	default:
		// kgo marks magic-0 records with the top attribute bit ("no timestamp")
		return []verifWantRec{{offset: u.offset, key: u.key, val: u.val,
			attrs: uint8(u.mattrs) | 0x80, pid: -1, pepoch: -1, leaderEpoch: -1}}
	}
}

func (u *verifRefUnit) isControl() bool { // term, no branching
	if u.magic != 2 {
		return false
	}
	return u.attrs&0x20 != 0
}
func (u *verifRefUnit) isTxn() bool {
	if u.magic != 2 {
		return false
	}
	return u.attrs&0x10 != 0
}

// last offset the unit covers
func (u *verifRefUnit) lastOffset() int64 {
	if u.magic == 2 {
		return u.baseOffset + int64(u.lastOffsetDelta)
	}
	return u.offset
}

func verifBytesEq(got []byte, want verifBytes) bool {
	if want.null {
		return got == nil
	}
	if got == nil || len(got) != len(want.b) {
		return false
	}
	ok := true
	for i := range got {
		ok = verifAnd(ok, got[i] == want.b[i])
	}
	return ok
}

// A candidate record of the reference with its (symbolic) membership in the result.
type verifCand struct {
	want  verifWantRec
	keep  bool // term: the reference returns this record
	hasTS bool // magic-0 records carry no timestamp (zero time)
}

const verifZeroTimeUnix = -62135596800 // time.Time{}.Unix()

const verifTimestampLabelDefault = "record timestamp equals the encoded timestamp in ms (CreateTime: base+delta, LogAppendTime: max; none for magic 0)"

// label of the timestamp assertion (a harness that isolates one timestamp rule sets its own)
var verifTimestampLabel = verifTimestampLabelDefault

func verifHeadersEq(got []RecordHeader, want []verifRefHeader) bool {
	if len(got) != len(want) {
		return false
	}
	ok := true
	for i := range want {
		ok = verifAnd(ok, verifBytesEq([]byte(got[i].Key), verifBytes{b: want[i].key.b}))
		ok = verifAnd(ok, verifBytesEq(got[i].Value, want[i].val))
	}
	return ok
}

// verifCompareRecords: got must be exactly the kept candidates, in order, field by field.
// Membership is decided by an ordinary branch (on a path of ProcessFetchPartition the path
// condition has already fixed it, so only one side is feasible); the field comparisons are
// one conjunction (= one solver query) per field group over all records.
func verifCompareRecords(got []*Record, cands []verifCand, topic string, partition int32) {
	var kept []*verifCand
	for i := range cands {
		if cands[i].keep {
			kept = append(kept, &cands[i])
		}
	}
	verifAssert(len(got) == len(kept), "exactly as many records are returned as the reference decoder yields")
	if len(got) != len(kept) {
		return
	}
	okOffset, okKey, okVal, okHdr, okAttrs, okProd, okTP, okTS := true, true, true, true, true, true, true, true
	for j, c := range kept {
		g := got[j]
		okOffset = verifAnd(okOffset, g.Offset == c.want.offset)
		okKey = verifAnd(okKey, verifBytesEq(g.Key, c.want.key))
		okVal = verifAnd(okVal, verifBytesEq(g.Value, c.want.val))
		okHdr = verifAnd(okHdr, verifHeadersEq(g.Headers, c.want.headers))
		okAttrs = verifAnd(okAttrs, g.Attrs.attrs == c.want.attrs)
		okProd = verifAnd(okProd, verifAnd(g.ProducerID == c.want.pid, verifAnd(g.ProducerEpoch == c.want.pepoch, g.LeaderEpoch == c.want.leaderEpoch)))
		okTP = verifAnd(okTP, verifAnd(g.Topic == topic, g.Partition == partition))
		wantUnix := int64(verifZeroTimeUnix)
		if c.hasTS {
			wantUnix = c.want.tsMillis
		}
		// timeFromMillis is replaced by verifTimeFromMillis (below): Unix() is the ms value
		okTS = verifAnd(okTS, g.Timestamp.Unix() == wantUnix)
	}
	verifAssert(okOffset, "returned records are the reference's, in order: offset = base offset + offset delta")
	verifAssert(okKey, "record key equals the encoded key (null stays nil)")
	verifAssert(okVal, "record value equals the encoded value (null stays nil)")
	verifAssert(okHdr, "record headers equal the encoded headers (count, keys, values; null value stays nil)")
	verifAssert(okAttrs, "record attributes equal the batch/message attributes")
	verifAssert(okProd, "producer id, producer epoch and leader epoch equal the batch's (-1 for message sets)")
	verifAssert(okTP, "record topic and partition are the requested ones")
	verifAssert(okTS, verifTimestampLabel)
}

func verifMaxInt64(a, b int64) int64 { return verifIteInt64(a > b, a, b) }

// timeFromMillis(ms) = time.Unix(0, ms*1e6) drags a 64-bit multiplication and division into
// every later solver query. The parsing harnesses replace it by a marker time whose Unix()
// is the millisecond value; the real function is checked on its own in
// VerifC06_timeFromMillis.
//
//verif:replace timeFromMillis
func verifTimeFromMillis(millis int64) time.Time {
	return time.Unix(millis, 0)
}

// ---- a Decompressor that hands back harness-chosen bytes ----

type verifFakeDecompressor struct {
	out   [][]byte // per call
	err   error
	calls int
	codec []CompressionCodecType
	src   [][]byte
}

func (d *verifFakeDecompressor) Decompress(src []byte, codec CompressionCodecType) ([]byte, error) {
	i := d.calls
	d.calls++
	d.codec = append(d.codec, codec)
	d.src = append(d.src, src)
	if d.err != nil {
		return nil, d.err
	}
	if i < len(d.out) {
		return d.out[i], nil
	}
	return src, nil
}

func verifRespPartition(data []byte) *kmsg.FetchResponseTopicPartition {
	return &kmsg.FetchResponseTopicPartition{
		Partition:        verifNondetInt32("rp.partition"),
		HighWatermark:    verifNondetInt64("rp.hwm"),
		LastStableOffset: verifNondetInt64("rp.lso"),
		LogStartOffset:   verifNondetInt64("rp.logstart"),
		RecordBatches:    data,
	}
}

// ---- record shapes (lengths are shape; contents symbolic) ----

func verifSymBytes(name string, n int) verifBytes {
	if n < 0 {
		return verifBytes{null: true}
	}
	if n == 0 {
		return verifBytes{b: []byte{}}
	}
	return verifBytes{b: verifNondetBytes(name, n)}
}

const verifNumRecShapes = 5

// (key, value, headers) shapes: lengths -1 (null), 0, 1, 2; 0..2 headers
func verifRecShape(shape int) (key, val verifBytes, hdrs []verifRefHeader) {
	switch shape {
	case 0:
		return verifSymBytes("key", -1), verifSymBytes("val", -1), nil
	case 1:
		return verifSymBytes("key", 0), verifSymBytes("val", 0), nil
	case 2:
		return verifSymBytes("key", 1), verifSymBytes("val", 2), []verifRefHeader{{verifSymBytes("hkey", 1), verifSymBytes("hval", 1)}}
	case 3:
		return verifSymBytes("key", 2), verifSymBytes("val", 1), []verifRefHeader{{verifSymBytes("hkey", 0), verifSymBytes("hval", -1)}}
	default:
		return verifSymBytes("key", -1), verifSymBytes("val", 1), []verifRefHeader{
			{verifSymBytes("hkey", 2), verifSymBytes("hval", 0)},
			{verifSymBytes("hkey", 1), verifSymBytes("hval", 2)}}
	}
}
