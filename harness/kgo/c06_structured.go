package kgo

// C06 family 1: structured differential. Units are encoded by the reference encoder
// (c06_ref.go) and fed to the real ProcessFetchPartition; the result is compared field by
// field with the reference's own reading of the same units.

type verifC06Cfg struct {
	offset      int64
	keepControl bool
	disableCRC  bool
	isolation   int8
	topic       string
}

func verifC06SymCfg() verifC06Cfg {
	return verifC06Cfg{
		offset:      verifNondetInt64("fetchOffset"),
		keepControl: verifNondetBool("keepControl"),
		disableCRC:  verifNondetBool("disableCRC"),
		isolation:   verifIteInt8(verifNondetBool("readCommitted"), 1, 0),
		topic:       "t",
	}
}

func verifIteInt8(c bool, a, b int8) int8 { return int8(verifIteInt32(c, int32(a), int32(b))) }

func (c verifC06Cfg) opts() ProcessFetchPartitionOpts {
	return ProcessFetchPartitionOpts{
		KeepControlRecords:   c.keepControl,
		DisableCRCValidation: c.disableCRC,
		Offset:               c.offset,
		IsolationLevel:       IsolationLevel{c.isolation},
		Topic:                c.topic,
	}
}

// symbolic v2 batch with nrec records of the given shapes. Offsets: base >= 0, record deltas
// strictly increasing in [0,63], lastOffsetDelta >= last record delta (compaction may have
// removed trailing records) and < 2^20.
func verifC06SymBatch(nrec int, shapes [2]int, tsWidth int) *verifRefUnit {
	u := &verifRefUnit{
		magic:           2,
		baseOffset:      verifNondetInt64("base"),
		leaderEpoch:     verifNondetInt32("leaderEpoch"),
		attrs:           verifNondetInt16("attrs"),
		lastOffsetDelta: verifNondetInt32("lastOffsetDelta"),
		baseTs:          verifNondetInt64("baseTs"),
		maxTs:           verifNondetInt64("maxTs"),
		pid:             verifNondetInt64("pid"),
		pepoch:          verifNondetInt16("pepoch"),
		baseSeq:         verifNondetInt32("baseSeq"),
		claimed:         int32(nrec),
	}
	// uncompressed (codec bits 0); bits 3..6 free (timestamp type, transactional, control,
	// delete horizon); bits 7..15 are unused in the format and written as zero
	verifAssume(u.attrs&^0x78 == 0)
	verifAssume(verifAnd(u.baseOffset >= 0, u.baseOffset < 1<<62))
	verifAssume(verifAnd(u.lastOffsetDelta >= 0, u.lastOffsetDelta < 1<<20))
	// timestamps: -1 (none) up to 2^43 ms
	verifAssume(verifAnd(u.baseTs >= -1, u.baseTs < 1<<43))
	verifAssume(verifAnd(u.maxTs >= -1, u.maxTs < 1<<43))
	prev := int32(-1)
	for i := 0; i < nrec; i++ {
		var r verifRefRec
		r.attrs = verifNondetInt8("rec.attrs")
		r.tsWidth = tsWidth
		r.tsDelta = verifNondetInt64("rec.tsDelta")
		verifAssume(verifFitsWidth(r.tsDelta, tsWidth))
		verifAssume(u.baseTs+r.tsDelta >= -1)
		r.offDelta = verifNondetInt32("rec.offDelta")
		verifAssume(verifAnd(r.offDelta > prev, verifAnd(r.offDelta <= 63, r.offDelta <= u.lastOffsetDelta)))
		prev = r.offDelta
		r.key, r.val, r.headers = verifRecShape(shapes[i])
		u.recs = append(u.recs, r)
	}
	return u
}

func verifC06SymMessage(magic int, shape int) *verifRefUnit {
	u := &verifRefUnit{
		magic:  magic,
		offset: verifNondetInt64("msg.offset"),
		mattrs: verifNondetInt8("msg.attrs"),
	}
	verifAssume(verifAnd(u.offset >= 0, u.offset < 1<<62))
	if magic == 1 {
		u.ts = verifNondetInt64("msg.ts")
		verifAssume(verifAnd(u.ts >= -1, u.ts < 1<<43))
		// codec 0, only the timestamp-type bit may be set
		verifAssume(u.mattrs&^0x08 == 0)
	} else {
		verifAssume(u.mattrs == 0)
	}
	u.key, u.val, _ = verifRecShape(shape)
	return u
}

// verifC06Check runs ProcessFetchPartition on the encoded units (cut to the first `cut`
// bytes; complete = number of units wholly inside the cut) and compares with the reference.
func verifC06Check(cfg verifC06Cfg, units []*verifRefUnit, data []byte, complete int, dec Decompressor) {
	rp := verifRespPartition(data)
	fp, next := ProcessFetchPartition(cfg.opts(), rp, dec, nil)

	verifAssert(fp.Err == nil, "well-formed data yields no partition error")
	verifAssert(fp.Partition == rp.Partition, "partition number is copied")
	verifAssert(verifAnd(fp.HighWatermark == rp.HighWatermark, verifAnd(fp.LastStableOffset == rp.LastStableOffset, fp.LogStartOffset == rp.LogStartOffset)),
		"watermarks are copied")

	// reference reading (no branching on symbolic values)
	wantNext := cfg.offset
	var cands []verifCand
	for ui := 0; ui < complete; ui++ {
		u := units[ui]
		recs := u.records()
		for i := range recs {
			// at or after the requested offset; control records only on request
			keep := verifAnd(recs[i].offset >= cfg.offset, verifOr(verifNot(u.isControl()), cfg.keepControl))
			cands = append(cands, verifCand{want: recs[i], keep: keep, hasTS: u.magic != 0})
		}
		wantNext = verifMaxInt64(wantNext, u.lastOffset()+1)
	}
	verifCompareRecords(fp.Records, cands, cfg.topic, rp.Partition)
	verifAssert(next == wantNext, "next offset is one past the last complete unit (never below the requested offset)")
}

// One v2 batch: every header field symbolic, 0..2 records of every shape.
func VerifC06_batchV2() {
	cfg := verifC06SymCfg()
	nrec := verifChoose(3)
	var shapes [2]int
	tsWidth := 1
	if verifThorough() {
		// one record: 5 shapes x 1- or 2-byte timestamp delta; two records: all 16 pairs of
		// the first 4 shapes
		if nrec == 2 {
			shapes = [2]int{verifChoose(4), verifChoose(4)}
			verifAssume(cfg.isolation == 0)
		} else {
			shapes[0] = verifChoose(verifNumRecShapes)
			tsWidth = 1 + verifChoose(2)
		}
	} else {
		// quick: every shape for one record; for two records the four shape pairs (i, i+1)
		shapes[0] = verifChoose(4)
		shapes[1] = (shapes[0] + 1) % 4
		verifAssume(cfg.isolation == 0)
		if nrec == 2 {
			verifAssume(!cfg.disableCRC)
		}
	}
	u := verifC06SymBatch(nrec, shapes, tsWidth)
	data := u.encode(nil)
	verifC06Check(cfg, []*verifRefUnit{u}, data, 1, nil)
	verifReached("c06-batch-v2")
}

// One v2 batch with one record whose timestamp delta needs a 5- or 6-byte varint (beyond
// +-2^31 ms, about 25 days): the record's timestamp is still firstTimestamp + delta.
func VerifC06_batchV2WideTimestampDelta() {
	cfg := verifC06SymCfg()
	verifAssume(cfg.isolation == 0)
	shapes := [2]int{verifChoose(2), 0}
	u := verifC06SymBatch(1, shapes, 5+verifChoose(2))
	data := u.encode(nil)
	verifC06Check(cfg, []*verifRefUnit{u}, data, 1, nil)
	verifReached("c06-batch-v2-wide-ts-delta")
}

// One or two uncompressed magic-0 / magic-1 messages, everything symbolic.
func VerifC06_messages() {
	cfg := verifC06SymCfg()
	n := 1 + verifChoose(2)
	var units []*verifRefUnit
	var data []byte
	prevLast := int64(-1)
	for i := 0; i < n; i++ {
		// quick: every (magic, shape) for one message; for two, every magic pair with shapes 2,3
		shape := 2 + i
		if n == 1 || verifThorough() {
			shape = verifChoose(4)
		}
		u := verifC06SymMessage(verifChoose(2), shape)
		verifAssume(u.offset > prevLast) // a log's offsets strictly increase
		prevLast = u.offset
		units = append(units, u)
		data = u.encode(data)
	}
	verifC06Check(cfg, units, data, n, nil)
	verifReached("c06-messages")
}

// unit kinds for the mixed walk
const (
	verifKindV0 = iota
	verifKindV1
	verifKindBatch1
	verifKindBatch2
	verifKindBatchEmpty // compacted-away batch: zero records, offsets still covered
	verifNumKinds
)

func verifC06Unit(kind int, seq int) *verifRefUnit {
	switch kind {
	case verifKindV0:
		return verifC06SymMessage(0, 2+seq%2)
	case verifKindV1:
		return verifC06SymMessage(1, 2+seq%2)
	case verifKindBatch1:
		return verifC06SymBatch(1, [2]int{2 + seq%2}, 1)
	case verifKindBatch2:
		return verifC06SymBatch(2, [2]int{seq % 2, 2 + seq%2}, 1)
	default:
		return verifC06SymBatch(0, [2]int{}, 1)
	}
}

func (u *verifRefUnit) firstOffset() int64 {
	if u.magic == 2 {
		return u.baseOffset
	}
	return u.offset
}

// Up to three units of any magic in any order with strictly increasing (possibly gapped)
// offsets; the fetch offset anywhere.
func VerifC06_mixed() {
	cfg := verifC06SymCfg()
	verifAssume(cfg.isolation == 0)
	verifAssume(cfg.disableCRC)
	var kinds []int
	plain := !verifThorough() // only CreateTime data batches
	if verifThorough() {
		// every pair with free attributes; every triple of {v1 message, 1-record batch, empty
		// batch} with CreateTime data batches
		if verifChoose(2) == 0 {
			kinds = []int{verifChoose(verifNumKinds), verifChoose(verifNumKinds)}
		} else {
			pick := [3]int{verifKindV1, verifKindBatch1, verifKindBatchEmpty}
			kinds = []int{pick[verifChoose(3)], pick[verifChoose(3)], pick[verifChoose(3)]}
			plain = true
		}
	} else if verifChoose(2) == 0 {
		// ten ordered pairs of kinds: every kind first and second, with two different partners
		first := verifChoose(verifNumKinds)
		kinds = []int{first, (first + 1 + 2*verifChoose(2)) % verifNumKinds}
	} else {
		// three units: first from {v1 message, 1-record batch}, then one of these or an empty
		// batch, then a 1-record batch
		pick := [3]int{verifKindV1, verifKindBatch1, verifKindBatchEmpty}
		kinds = []int{pick[verifChoose(2)], pick[verifChoose(3)], verifKindBatch1}
	}
	var units []*verifRefUnit
	var data []byte
	prevLast := int64(-1)
	for i, k := range kinds {
		u := verifC06Unit(k, i)
		verifAssume(u.firstOffset() > prevLast)
		prevLast = u.lastOffset()
		if u.magic == 2 && plain {
			verifAssume(u.attrs&0x28 == 0) // control batches, LogAppendTime: VerifC06_batchV2
		}
		units = append(units, u)
		data = u.encode(data)
	}
	verifC06Check(cfg, units, data, len(units), nil)
	verifReached("c06-mixed")
}

// The real timeFromMillis on boundary samples (its 64-bit multiply/divide is beyond the
// solver, see verifTimeFromMillis): the returned time is that many ms after the epoch.
// Same sequences with CRC validation enabled (the CRC table and coverage differ per unit format).
func VerifC06_mixedCRC() {
	cfg := verifC06SymCfg()
	verifAssume(cfg.isolation == 0)
	verifAssume(!cfg.disableCRC) // CRC validation on: each unit is checked with the table of ITS format (IEEE for v0/v1, Castagnoli for v2)
	var kinds []int
	plain := !verifThorough() // only CreateTime data batches
	if verifThorough() {
		// every pair with free attributes; every triple of {v1 message, 1-record batch, empty
		// batch} with CreateTime data batches
		if verifChoose(2) == 0 {
			kinds = []int{verifChoose(verifNumKinds), verifChoose(verifNumKinds)}
		} else {
			pick := [3]int{verifKindV1, verifKindBatch1, verifKindBatchEmpty}
			kinds = []int{pick[verifChoose(3)], pick[verifChoose(3)], pick[verifChoose(3)]}
			plain = true
		}
	} else if verifChoose(2) == 0 {
		// ten ordered pairs of kinds: every kind first and second, with two different partners
		first := verifChoose(verifNumKinds)
		kinds = []int{first, (first + 1 + 2*verifChoose(2)) % verifNumKinds}
	} else {
		// three units: first from {v1 message, 1-record batch}, then one of these or an empty
		// batch, then a 1-record batch
		pick := [3]int{verifKindV1, verifKindBatch1, verifKindBatchEmpty}
		kinds = []int{pick[verifChoose(2)], pick[verifChoose(3)], verifKindBatch1}
	}
	var units []*verifRefUnit
	var data []byte
	prevLast := int64(-1)
	for i, k := range kinds {
		u := verifC06Unit(k, i)
		verifAssume(u.firstOffset() > prevLast)
		prevLast = u.lastOffset()
		if u.magic == 2 && plain {
			verifAssume(u.attrs&0x28 == 0) // control batches, LogAppendTime: VerifC06_batchV2
		}
		units = append(units, u)
		data = u.encode(data)
	}
	verifC06Check(cfg, units, data, len(units), nil)
	verifReached("c06-mixed-crc")
}

// The real timeFromMillis on boundary samples (its 64-bit multiply/divide is beyond the
// solver, see verifTimeFromMillis): the returned time is that many ms after the epoch.
func VerifC06_timeFromMillis() {
	samples := []int64{-1, 0, 1, 999, 1000, 1001, 1<<31 - 1, 1 << 31, 1700000000123, 1<<43 - 1}
	ms := samples[verifChoose(len(samples))]
	t := timeFromMillis__real(ms)
	verifAssert(t.UnixMilli() == ms, "timeFromMillis(ms) is ms milliseconds after the Unix epoch")
	verifAssert(t.Nanosecond()%1000000 == 0, "timeFromMillis has no sub-millisecond part")
	verifReached("c06-time-from-millis")
}
