package kgo

import "github.com/twmb/franz-go/pkg/kmsg"

// C06 family 3: totality. RecordBatches is arbitrary bytes. Every panic inside
// ProcessFetchPartition is reported by the engine as `uncaught-panic`; in addition the next
// offset never moves backwards, and memory is bounded by the input size (allocation budget).

// the decompressor of the totality harnesses returns its input (so any codec bits are allowed)
type verifIdentityDecompressor struct{}

func (verifIdentityDecompressor) Decompress(src []byte, _ CompressionCodecType) ([]byte, error) {
	return src, nil
}

func verifC06TotalCfg() ProcessFetchPartitionOpts {
	return ProcessFetchPartitionOpts{
		KeepControlRecords:   verifNondetBool("keepControl"),
		// A CRC over symbolic bytes is an uninterpreted function for the solver: a model in
		// which a garbage CRC "matches" cannot be replayed natively. CRC validation is off
		// here (the code behind the check is the same) and exercised in VerifC06_badCRC.
		DisableCRCValidation: true,
		Offset:               verifNondetInt64("fetchOffset"),
		Topic:                "t",
	}
}

func verifC06TotalRun(o ProcessFetchPartitionOpts, data []byte, maxRecords int) {
	rp := &kmsg.FetchResponseTopicPartition{RecordBatches: data}
	// offsets on the wire are far below 2^63 (offset + 1 must not wrap)
	verifAssume(data[0] < 0x40)
	// one Record (~250 B) + one kmsg.Record (~110 B) per claimed record, and a batch cannot
	// claim more records than it has record bytes
	verifAllocBudget(int64(512*len(data) + 8192))
	fp, next := ProcessFetchPartition(o, rp, verifIdentityDecompressor{}, nil)
	verifAssert(next >= o.Offset, "next offset never moves below the requested offset")
	verifAssert(len(fp.Records) <= maxRecords, "no more records are returned than the bytes can hold")
	ok := true
	for _, r := range fp.Records {
		ok = verifAnd(ok, verifAnd(r.Offset >= o.Offset, r.Offset < next))
	}
	verifAssert(ok, "every returned record lies in [requested offset, next offset)")
}

// N arbitrary bytes with the magic byte (offset 16) case-split: 0, 1, 2, anything else.
// N < 61, so a magic-2 header never fits: that arm exercises the length / short-read guards.
func VerifC06_totalityBytes() {
	n := 34 // a magic-1 message with empty key and value; a magic-0 message with 8 bytes of key/value
	if verifThorough() {
		n = 40
	}
	data := verifNondetBytes("data", n)
	switch verifChoose(4) {
	case 0:
		verifAssume(data[16] == 0)
	case 1:
		verifAssume(data[16] == 1)
	case 2:
		verifAssume(data[16] == 2)
	default:
		verifAssume(data[16] > 2)
	}
	o := verifC06TotalCfg()
	verifC06TotalRun(o, data, n/26)
	verifReached("c06-totality-bytes")
}

// A magic-2 batch whose header fields are arbitrary except for a consistent length, followed
// by R arbitrary record-area bytes: record count, attributes (any codec, identity
// decompressor), offsets, varints inside records all arbitrary.
//
// The inputs are split in two harnesses by whether the record area starts with a 5-byte varint
// that overflows 32 bits (80 80 80 80 1x..): with R <= 8 a record-length varint can only start
// at byte 0 (a second record needs a complete first one of >= 7 bytes).
func verifC06TotalityBatch(r int, overflowVarint bool) {
	hdr := verifNondetBytes("hdr", 61)
	rec := verifNondetBytes("rec", r)
	data := append(hdr, rec...)
	// consistent length, magic 2
	length := uint32(49 + r)
	verifAssume(verifAnd(verifAnd(data[8] == byte(length>>24), data[9] == byte(length>>16)), verifAnd(data[10] == byte(length>>8), data[11] == byte(length))))
	verifAssume(data[16] == 2)
	if r >= 5 {
		cont := verifAnd(verifAnd(rec[0] >= 0x80, rec[1] >= 0x80), verifAnd(rec[2] >= 0x80, rec[3] >= 0x80))
		verifAssume(verifAnd(cont, rec[4] > 0x0f) == overflowVarint)
	}
	if !verifThorough() {
		// quick: record count negative, 0, 1 or larger than the record area
		nr := int32(uint32(hdr[57])<<24 | uint32(hdr[58])<<16 | uint32(hdr[59])<<8 | uint32(hdr[60]))
		verifAssume(verifOr(nr <= 1, nr > int32(r)))
	}
	o := verifC06TotalCfg()
	verifAssume(!o.KeepControlRecords)
	verifC06TotalRun(o, data, r/7)
}

func VerifC06_totalityBatch() {
	r := 7
	if verifThorough() {
		r = 8
	}
	verifC06TotalityBatch(r, false)
	verifReached("c06-totality-batch")
}

// The other half of the inputs: the record area starts with an overflowing 5-byte varint.
func VerifC06_totalityBatchVarintOverflow() {
	verifC06TotalityBatch(5, true)
	verifReached("c06-totality-batch-varint-overflow")
}

// A unit whose CRC field is arbitrary: unless it equals the CRC of the unit's bytes the unit is
// rejected with an error, nothing is returned and the offset does not move.
func VerifC06_badCRC() {
	cfg := verifC06Cfg{offset: verifNondetInt64("fetchOffset"), topic: "t"}
	u := verifC06Unit(verifChoose(3), 0) // v0 message, v1 message, 1-record batch
	good := u.encode(nil)
	var goodCRC uint32
	if u.magic == 2 {
		goodCRC = uint32(good[17])<<24 | uint32(good[18])<<16 | uint32(good[19])<<8 | uint32(good[20])
	} else {
		goodCRC = uint32(good[12])<<24 | uint32(good[13])<<16 | uint32(good[14])<<8 | uint32(good[15])
	}
	u.crcOverride = true
	u.crc = verifNondetUint32("crc")
	verifAssume(u.crc != goodCRC)
	data := u.encode(nil)
	rp := verifRespPartition(data)
	fp, next := ProcessFetchPartition(cfg.opts(), rp, nil, nil)
	verifAssert(fp.Err != nil, "a unit whose CRC does not match is reported as a partition error")
	verifAssert(len(fp.Records) == 0, "a unit whose CRC does not match yields no records")
	verifAssert(next == cfg.offset, "a unit whose CRC does not match does not move the next offset")
	verifReached("c06-bad-crc")
}
