package kgo

// C06 family 2: truncation. Kafka cuts a fetch response at maxBytes, so the trailing unit may be
// incomplete: a reader of the log format ignores it. Units wholly inside the cut are delivered
// exactly as without the cut; the partial unit contributes nothing and does not move the next
// offset.

func VerifC06_truncated() {
	cfg := verifC06Cfg{
		offset:      verifNondetInt64("fetchOffset"),
		keepControl: verifNondetBool("keepControl"),
		topic:       "t",
	}
	var kinds [2]int
	if verifThorough() {
		kinds = [2]int{[3]int{verifKindBatch1, verifKindV1, verifKindBatch2}[verifChoose(3)], [3]int{verifKindBatch2, verifKindV0, verifKindBatch1}[verifChoose(3)]}
	} else {
		// (1-record batch, 2-record batch) or (v1 message, v0 message)
		c := verifChoose(2)
		kinds = [2]int{[2]int{verifKindBatch1, verifKindV1}[c], [2]int{verifKindBatch2, verifKindV0}[c]}
	}
	var units []*verifRefUnit
	var data []byte
	var ends []int
	prevLast := int64(-1)
	for i, k := range kinds {
		u := verifC06Unit(k, i)
		verifAssume(u.firstOffset() > prevLast)
		prevLast = u.lastOffset()
		if u.magic == 2 {
			verifAssume(u.attrs&0x28 == 0) // CreateTime data batches
		}
		units = append(units, u)
		data = u.encode(data)
		ends = append(ends, len(data))
	}
	// every byte boundary
	cut := verifConcretize(verifRange("cut", 0, len(data)))
	complete := 0
	for _, e := range ends {
		if e <= cut {
			complete++
		}
	}
	verifC06Check(cfg, units, data[:cut:cut], complete, nil)
	verifReached("c06-truncated")
}

// A batch whose header is intact but whose record area holds fewer records than it claims
// (what a truncated compressed payload looks like after decompression, or corruption): the
// decodable records may be delivered, but the next offset must not jump to the batch's last
// offset + 1, because the missing records have offsets in between.
func VerifC06_shortRecords() {
	cfg := verifC06Cfg{
		offset:      verifNondetInt64("fetchOffset"),
		keepControl: verifNondetBool("keepControl"),
		disableCRC:  true,
		topic:       "t",
	}
	nrec := 1 + verifChoose(2)
	u := verifC06SymBatch(nrec, [2]int{2, 3}, 1)
	// the batch claims more records than it holds
	u.claimed = verifNondetInt32("claimed")
	if verifThorough() {
		verifAssume(u.claimed > int32(nrec))
	} else if c := verifChoose(3); c < 2 {
		verifAssume(u.claimed == int32(nrec+1+c))
	} else {
		verifAssume(u.claimed > 1000) // more than the record area has bytes
	}
	if !verifThorough() {
		verifAssume(u.attrs&0x08 == 0)
	}
	// record area: the nrec records, then the first k bytes of one more record
	var raw []byte
	for i := range u.recs {
		raw = u.recs[i].encode(raw)
	}
	extra := verifRefRec{tsWidth: 1, tsDelta: 0, offDelta: 63}
	extra.key, extra.val, extra.headers = verifRecShape(2)
	extraBytes := extra.encode(nil)
	var k int
	if verifThorough() {
		k = [4]int{0, 1, len(extraBytes) / 2, len(extraBytes) - 1}[verifChoose(4)]
	} else {
		k = [3]int{0, 1, len(extraBytes) - 1}[verifChoose(3)]
	}
	raw = append(raw, extraBytes[:k]...)
	u.rawRecords = raw
	data := u.encode(nil)

	rp := verifRespPartition(data)
	fp, next := ProcessFetchPartition(cfg.opts(), rp, nil, nil)
	verifAssert(fp.Err == nil, "a short record area is treated as truncation, not as an error")

	var cands []verifCand
	recs := u.records()
	for i := range recs {
		keep := verifAnd(recs[i].offset >= cfg.offset, verifOr(verifNot(u.isControl()), cfg.keepControl))
		cands = append(cands, verifCand{want: recs[i], keep: keep, hasTS: true})
	}
	verifCompareRecords(fp.Records, cands, cfg.topic, rp.Partition)

	lastDecoded := recs[len(recs)-1].offset
	verifAssert(next >= cfg.offset, "next offset never moves below the requested offset")
	verifAssert(next <= verifMaxInt64(cfg.offset, lastDecoded+1), "next offset does not pass the records that were not decodable")
	if n := len(fp.Records); n > 0 {
		verifAssert(next > fp.Records[n-1].Offset, "next offset is past every returned record")
	}
	verifReached("c06-short-records")
}
