package kgo

import "errors"

// C06 family 1b: compressed units. The codec itself is C19; here the Decompressor handed to
// ProcessFetchPartition is a fake that returns harness-chosen "decompressed" bytes, so the
// code that walks the decompressed payload and rebases offsets is the real one.
//
// Format rules used by the reference (KIP-31, KIP-32, message format docs):
//   * magic 2: the records area is compressed as a whole; attributes bits 0-2 name the codec.
//   * magic 1 wrapper: value = compressed message set of inner messages whose offsets are
//     RELATIVE (0..n-1, possibly with gaps after compaction); the wrapper's offset is the
//     absolute offset of the LAST inner message: absolute_i = wrapper - lastInner + inner_i.
//     If the wrapper's timestamp type is LogAppendTime, every inner message takes the wrapper's
//     timestamp (the broker does not rewrite inner messages); otherwise the inner timestamp.
//   * magic 0 wrapper: inner offsets are absolute; the wrapper carries the last inner offset.

// A compressed v2 batch: codec any non-zero value of bits 0-2.
func VerifC06_compressedBatch() {
	cfg := verifC06Cfg{
		offset:      verifNondetInt64("fetchOffset"),
		keepControl: verifNondetBool("keepControl"),
		disableCRC:  verifNondetBool("disableCRC"),
		topic:       "t",
	}
	nrec := 1 + verifChoose(2)
	u := verifC06SymBatch(nrec, [2]int{2, 3}, 1)
	codec := verifNondetInt16("codec")
	verifAssume(verifAnd(codec >= 1, codec <= 7))
	u.attrs |= codec
	var plain []byte
	for i := range u.recs {
		plain = u.recs[i].encode(plain)
	}
	wire := verifNondetBytes("compressed", 3)
	u.rawRecords = wire
	data := u.encode(nil)
	dec := &verifFakeDecompressor{out: [][]byte{plain}}
	verifC06Check(cfg, []*verifRefUnit{u}, data, 1, dec)
	verifAssert(dec.calls <= 1, "the decompressor is called at most once per compressed batch")
	if dec.calls == 1 {
		verifAssert(int16(dec.codec[0]) == codec, "the decompressor is told the codec of attribute bits 0-2")
		ok := len(dec.src[0]) == len(wire)
		if ok {
			for i := range wire {
				ok = verifAnd(ok, dec.src[0][i] == wire[i])
			}
		}
		verifAssert(ok, "the decompressor receives exactly the batch's record area")
	}
	verifReached("c06-compressed-batch")
}

// inner message set of a wrapper: n inner messages of the given magic with strictly increasing
// offsets inner_0 < inner_1 (symbolic; relative for a v1 wrapper, absolute for v0).
func verifC06Inner(n int, magics [2]int) (inner []*verifRefUnit, plain []byte) {
	prev := int64(-1)
	for i := 0; i < n; i++ {
		m := verifC06SymMessage(magics[i], 2+i)
		verifAssume(verifAnd(m.offset > prev, m.offset < 1<<40))
		prev = m.offset
		inner = append(inner, m)
		plain = m.encode(plain)
	}
	return inner, plain
}

func verifC06WrapperCheck(cfg verifC06Cfg, w *verifRefUnit, inner []*verifRefUnit, cands []verifCand, plain []byte, wantNext int64) {
	data := w.encode(nil)
	dec := &verifFakeDecompressor{out: [][]byte{plain}}
	rp := verifRespPartition(data)
	fp, next := ProcessFetchPartition(cfg.opts(), rp, dec, nil)
	verifAssert(fp.Err == nil, "a well-formed compressed message set yields no partition error")
	verifCompareRecords(fp.Records, cands, cfg.topic, rp.Partition)
	verifAssert(next == verifMaxInt64(cfg.offset, wantNext), "next offset is one past the wrapper's (= last inner message's) offset")
	verifAssert(dec.calls == 1, "the decompressor is called once per wrapper message")
	_ = inner
}

// magic-1 wrapper (CreateTime) around magic-1 inner messages (thorough: inner magic 0 too).
func VerifC06_wrapperV1() {
	verifTimestampLabel = verifTimestampLabelDefault
	verifC06WrapperV1(false)
	verifReached("c06-wrapper-v1")
}

// magic-1 wrapper with timestamp type LogAppendTime: the inner messages take the wrapper's
// timestamp (KIP-32: the broker stamps only the wrapper and leaves the compressed inner
// messages untouched; "the timestamp of the wrapper is used for all inner messages").
func VerifC06_wrapperV1LogAppendTime() {
	verifTimestampLabel = "inner messages of a magic-1 wrapper with timestamp type LogAppendTime take the wrapper's timestamp (KIP-32)"
	verifC06WrapperV1(true)
	verifTimestampLabel = verifTimestampLabelDefault
	verifReached("c06-wrapper-v1-log-append-time")
}

func verifC06WrapperV1(logAppendTime bool) {
	cfg := verifC06Cfg{offset: verifNondetInt64("fetchOffset"), disableCRC: verifNondetBool("disableCRC"), topic: "t"}
	n := 1 + verifChoose(2)
	magics := [2]int{1, 1}
	if verifThorough() && !logAppendTime {
		magics = [2]int{verifChoose(2), verifChoose(2)}
	}
	inner, plain := verifC06Inner(n, magics)

	w := &verifRefUnit{magic: 1, offset: verifNondetInt64("wrapper.offset"), mattrs: verifNondetInt8("wrapper.attrs"), ts: verifNondetInt64("wrapper.ts")}
	codec := w.mattrs & 0x07
	// codecs of the message-set era: gzip 1, snappy 2, lz4 3; timestamp-type bit 3
	verifAssume(verifAnd(w.mattrs&^0x0b == 0, codec != 0))
	verifAssume((w.mattrs&0x08 != 0) == logAppendTime)
	verifAssume(verifAnd(w.ts >= -1, w.ts < 1<<43))
	lastInner := inner[n-1].offset
	// the wrapper carries the absolute offset of the last inner message
	verifAssume(verifAnd(w.offset >= lastInner, verifAnd(w.offset != 0, w.offset < 1<<62)))
	w.key = verifBytes{null: true}
	w.val = verifBytes{b: verifNondetBytes("compressed", 3)}

	var cands []verifCand
	for _, m := range inner {
		r := m.records()[0]
		r.offset = w.offset - lastInner + m.offset
		r.attrs |= uint8(codec)
		if m.magic == 1 && logAppendTime {
			// KIP-32 / Kafka's DeepRecordsIterator: wrapper timestamp AND timestamp type
			r.tsMillis = w.ts
			r.attrs |= 0x08
		}
		cands = append(cands, verifCand{want: r, keep: r.offset >= cfg.offset, hasTS: m.magic == 1})
	}
	verifC06WrapperCheck(cfg, w, inner, cands, plain, w.offset+1)
}

// magic-0 wrapper around magic-0 inner messages with absolute offsets.
func VerifC06_wrapperV0() {
	cfg := verifC06Cfg{offset: verifNondetInt64("fetchOffset"), disableCRC: verifNondetBool("disableCRC"), topic: "t"}
	n := 1 + verifChoose(2)
	inner, plain := verifC06Inner(n, [2]int{0, 0})

	w := &verifRefUnit{magic: 0, mattrs: verifNondetInt8("wrapper.attrs")}
	codec := w.mattrs & 0x07
	verifAssume(verifAnd(w.mattrs&^0x03 == 0, codec != 0))
	w.offset = inner[n-1].offset
	w.key = verifBytes{null: true}
	w.val = verifBytes{b: verifNondetBytes("compressed", 3)}

	var cands []verifCand
	for _, m := range inner {
		r := m.records()[0]
		r.attrs |= uint8(codec)
		cands = append(cands, verifCand{want: r, keep: r.offset >= cfg.offset, hasTS: false})
	}
	verifC06WrapperCheck(cfg, w, inner, cands, plain, w.offset+1)
	verifReached("c06-wrapper-v0")
}

// A unit that fails to decompress. After at least one delivered record it is what a response
// cut inside a compressed unit looks like: the earlier records are delivered without error and
// the next offset stays before the broken unit. As the very first unit the error is surfaced
// and the offset does not move.
func VerifC06_decompressError() {
	cfg := verifC06Cfg{offset: verifNondetInt64("fetchOffset"), disableCRC: true, topic: "t"}
	withFirst := verifChoose(2) == 1
	var units []*verifRefUnit
	var data []byte
	prevLast := int64(-1)
	if withFirst {
		u := verifC06Unit([2]int{verifKindBatch1, verifKindV1}[verifChoose(2)], 0)
		prevLast = u.lastOffset()
		units = append(units, u)
		data = u.encode(data)
	}
	var broken *verifRefUnit
	switch verifChoose(3) {
	case 0:
		broken = verifC06SymBatch(0, [2]int{}, 1)
		broken.attrs |= 1 + int16(verifChoose(4))
		broken.claimed = 1
		broken.rawRecords = verifNondetBytes("compressed", 3)
	case 1:
		broken = &verifRefUnit{magic: 1, offset: verifNondetInt64("wrapper.offset"), mattrs: 1, ts: 0,
			key: verifBytes{null: true}, val: verifBytes{b: verifNondetBytes("compressed", 3)}}
	default:
		broken = &verifRefUnit{magic: 0, offset: verifNondetInt64("wrapper.offset"), mattrs: 2,
			key: verifBytes{null: true}, val: verifBytes{b: verifNondetBytes("compressed", 3)}}
	}
	verifAssume(verifAnd(broken.firstOffset() > prevLast, broken.firstOffset() < 1<<62))
	data = broken.encode(data)

	dec := &verifFakeDecompressor{err: errors.New("verif: corrupt compressed data")}
	rp := verifRespPartition(data)
	fp, next := ProcessFetchPartition(cfg.opts(), rp, dec, nil)

	var cands []verifCand
	wantNext := cfg.offset
	for _, u := range units {
		recs := u.records()
		for i := range recs {
			cands = append(cands, verifCand{want: recs[i], keep: verifAnd(recs[i].offset >= cfg.offset, verifNot(u.isControl())), hasTS: u.magic != 0})
		}
		wantNext = verifMaxInt64(wantNext, u.lastOffset()+1)
	}
	verifCompareRecords(fp.Records, cands, cfg.topic, rp.Partition)
	verifAssert(next == wantNext, "a unit that fails to decompress does not move the next offset")
	verifReached("c06-decompress-error")
}
