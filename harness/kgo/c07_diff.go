package kgo

// C07 (client kernel): the partitions a member reports as added/lost between two group
// sessions are exactly the set differences of its assignments (cooperative), or the whole new
// assignment (eager) -- so a member never keeps fetching a partition it lost and never skips
// the revoke of one.

func verifC07Assignment(prefix string) map[string][]int32 {
	m := map[string][]int32{}
	for _, t := range []string{"a", "b"} {
		n := verifChoose(3) // topic absent / 1 / 2 partitions
		if n == 0 {
			continue
		}
		var ps []int32
		for i := 0; i < n; i++ {
			p := verifNondetInt32(prefix + "." + t)
			verifAssume(verifAnd(p >= 0, p < 4))
			ps = append(ps, p)
		}
		if n == 2 {
			verifAssume(ps[0] != ps[1])
		}
		m[t] = ps
	}
	return m
}

func verifC07Has(m map[string][]int32, t string, p int32) bool {
	has := false
	for _, x := range m[t] {
		has = verifOr(has, x == p)
	}
	return has
}

func verifC07Count(m map[string][]int32, t string, p int32) int {
	n := 0
	for _, x := range m[t] {
		n = verifIteInt(x == p, n+1, n)
	}
	return n
}

func VerifC07_diffAssigned() {
	cl := &Client{}
	cl.cfg.logger = new(nopLogger)
	g := &groupConsumer{cl: cl, cfg: &cl.cfg}
	coop := verifChoose(2) == 1
	g.cooperative.Store(coop)
	last := verifC07Assignment("last")
	now := verifC07Assignment("now")
	g.lastAssigned = last
	g.nowAssigned.store(now)
	added, lost := g.diffAssigned()
	for _, t := range []string{"a", "b"} {
		for p := int32(0); p < 4; p++ {
			inNow, inLast := verifC07Has(now, t, p), verifC07Has(last, t, p)
			if coop {
				verifAssert(verifC07Count(added, t, p) == verifIteInt(verifAnd(inNow, verifNot(inLast)), 1, 0), "cooperative: added is exactly now minus last, without duplicates")
				verifAssert(verifC07Count(lost, t, p) == verifIteInt(verifAnd(inLast, verifNot(inNow)), 1, 0), "cooperative: lost is exactly last minus now, without duplicates")
			} else {
				verifAssert(verifC07Count(added, t, p) == verifIteInt(inNow, 1, 0), "eager: everything now assigned is (re)added")
			}
		}
	}
	if !coop {
		verifAssert(lost == nil, "eager: nothing is reported lost by the diff (everything was revoked at session end)")
	}
	verifReached("c07-diff-assigned")
}
