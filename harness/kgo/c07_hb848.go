package kgo

import (
	"context"
	"time"

	"github.com/twmb/franz-go/pkg/kmsg"
)

// C07 (client kernel, KIP-848): what a member reports as owned in its heartbeats. The
// coordinator hands a partition to another member as soon as the previous owner's heartbeat
// no longer lists it. While the member's OnPartitionsRevoked for lost partitions is still
// running (g848.prerevoking), its heartbeats must therefore be keep-alives (Topics == nil,
// "same as last time") — never a full owned list, which is built from the NEW assignment and
// so omits the partitions whose revoke has not completed.
//
// The heartbeat body is a closure inside manage848; the harness runs the real manage848 with
// initialJoin and setupAssignedAndHeartbeat replaced: the latter captures the real closure
// and unwinds, and the harness then calls that closure under chosen member states. The
// network is a stub that records the ConsumerGroupHeartbeat request.

type verifC07Stop struct{}

var verifC07HB struct {
	fn   func() (time.Duration, error)
	sent []*kmsg.ConsumerGroupHeartbeatRequest
}

//verif:replace newStringUUID
func verifC07NewStringUUID() string { return "verif-member" }

//verif:replace (*g848).initialJoin
func (g *g848) verifC07InitialJoin() (time.Duration, error) { return time.Second, nil }

//verif:replace (*groupConsumer).setupAssignedAndHeartbeat
func (g *groupConsumer) verifC07SetupAssignedAndHeartbeat(initialHb time.Duration, hbfn func() (time.Duration, error)) (string, error) {
	verifC07HB.fn = hbfn
	panic(verifC07Stop{})
}

//verif:replace (*Client).Request
func (cl *Client) verifC07Request(ctx context.Context, req kmsg.Request) (kmsg.Response, error) {
	hb, ok := req.(*kmsg.ConsumerGroupHeartbeatRequest)
	if !ok {
		return nil, errUnknownBroker
	}
	verifC07HB.sent = append(verifC07HB.sent, hb)
	resp := kmsg.NewPtrConsumerGroupHeartbeatResponse()
	resp.MemberEpoch = hb.MemberEpoch
	resp.HeartbeatIntervalMillis = 1000
	return resp, nil
}

func verifC07Topics(mask int) map[string][]int32 {
	m := map[string][]int32{}
	var ps []int32
	for p := int32(0); p < 2; p++ {
		if mask&(1<<p) != 0 {
			ps = append(ps, p)
		}
	}
	if len(ps) > 0 {
		m["t"] = ps
	}
	return m
}

func VerifC07_hb848KeepaliveWhileRevoking() {
	verifC07HB.fn, verifC07HB.sent = nil, nil
	cl := &Client{}
	cl.cfg.logger = new(nopLogger)
	cl.cfg.group = "g"
	cl.cfg.balancers = []GroupBalancer{CooperativeStickyBalancer()}
	cl.cfg.autocommitDisable = true
	cl.cfg.heartbeatInterval = time.Second
	cl.ctx = context.Background()
	g := &groupConsumer{c: &cl.consumer, cl: cl, cfg: &cl.cfg, manageDone: make(chan struct{})}
	cl.consumer.cl = cl
	cl.consumer.g = g
	g.ctx, g.cancel = context.WithCancel(cl.ctx)
	g.tps = newTopicsPartitions()
	tp := newTopicPartitions()
	d := &topicPartitionsData{topic: "t"}
	d.id[0] = 9
	tp.v.Store(d)
	g.tps.storeData(topicsPartitionsData{"t": tp})

	func() {
		defer func() {
			if r := recover(); r != nil {
				if _, ok := r.(verifC07Stop); !ok {
					panic(r)
				}
			}
		}()
		g.manage848()
	}()
	verifAssert(verifC07HB.fn != nil, "manage848 reaches the heartbeat session after a successful join")
	if verifC07HB.fn == nil {
		return
	}
	g8 := g.g848
	g.memberGen.store("m", 5)

	// the member owned `old` and has reported it; the coordinator's last response moved it to `now`
	old := 1 + verifChoose(3)   // {0}, {1}, {0,1}
	now := verifChoose(4) & old // any subset of old, including nothing: only revocations
	lostAny := now != old
	g.nowAssigned.store(verifC07Topics(old))
	verifC07HB.fn() // full report of `old`, remembered as the last sent state
	verifAssert(len(verifC07HB.sent) == 1 && verifC07HB.sent[0].Topics != nil, "the first heartbeat of a session reports the owned partitions in full")
	g.nowAssigned.store(verifC07Topics(now))
	revoking := verifChoose(2) == 1
	g8.prerevoking.Store(revoking)

	verifC07HB.sent = nil
	verifC07HB.fn()
	verifC07HB.fn()
	verifAssert(len(verifC07HB.sent) == 2, "every heartbeat call sends one request")
	for _, hb := range verifC07HB.sent {
		if revoking {
			verifAssert(hb.Topics == nil, "while OnPartitionsRevoked is still running, heartbeats are keep-alives: the owned-partition list is not reported, so the coordinator cannot hand a partition to another member before the revoke completes")
			continue
		}
		if hb.Topics == nil {
			continue // keep-alive: nothing changed since the last full report
		}
		// a full report lists exactly the current assignment
		n := 0
		for _, t := range hb.Topics {
			n += len(t.Partitions)
		}
		want := 0
		for _, ps := range verifC07Topics(now) {
			want += len(ps)
		}
		verifAssert(n == want, "a full heartbeat reports exactly the partitions the member currently owns")
	}
	if !revoking && lostAny {
		verifAssert(verifC07HB.sent[0].Topics != nil, "once the revoke has completed the next heartbeat reports the reduced ownership in full")
	}
	g.cancel()
	verifReached("c07-hb848")
}
