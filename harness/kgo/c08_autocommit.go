package kgo

import (
	"context"
	"errors"
	"time"

	"github.com/twmb/franz-go/pkg/kmsg"
)

// C08 — group autocommit never skips records (at-least-once), kernel.
//
// One member, one partition ("t", 0). A symbolic sequence of k steps drives the REAL offset
// bookkeeping and commit machinery:
//
//	poll      = undirtyUncommitted (poll start) + updateUncommitted(records) (poll return)
//	tick      = one iteration of loopCommit (real goroutine, modelled ticker fired once)
//	revoke    = defaultRevoke -> commitOffsetsSync -> commit
//	rebalance = the generation changes (commit responses in flight become stale)
//
// commit, commitOffsetsSync, waitJoinSyncMu, getUncommitted(Locked), updateCommitted run for
// real; only the network (Client.Request) is replaced by a model coordinator with a symbolic
// outcome per request. Ghost state: `returned` = offset after the last record returned by a
// poll; `safe` = value of `returned` at the start of the latest poll (= everything that was
// returned by a poll that was followed by another poll start).

type verifC08Commit struct {
	offset      int64
	epoch       int32
	safe        int64 // ghost values at the time the request reached the coordinator
	returned    int64
	marked      int64
	generation  int32
	accepted    bool
}

var verifC08 struct {
	g        *groupConsumer
	log      []verifC08Commit
	safe     int64
	returned int64
	marked   int64
	coord    int64 // offset stored by the model coordinator (-1: none)
	bad      bool
}

//verif:replace (*consumer).assignPartitions
func (c *consumer) verifC08AssignPartitions(assignments map[string]map[int32]Offset, how assignHow, tps *topicsPartitions, why string) {
}

//verif:replace (*Client).Request
func (cl *Client) verifC08Request(ctx context.Context, req kmsg.Request) (kmsg.Response, error) {
	oc, ok := req.(*kmsg.OffsetCommitRequest)
	if !ok {
		return nil, errors.New("verif: unexpected request")
	}
	g := verifC08.g
	outcome := verifChoose(4) // 0 ok, 1 partition error, 2 request error, 3 ok but the generation moved while in flight
	resp := kmsg.NewPtrOffsetCommitResponse()
	resp.Version = 9
	if len(oc.Topics) != 1 || oc.Topics[0].Topic != "t" || len(oc.Topics[0].Partitions) != 1 || oc.Topics[0].Partitions[0].Partition != 0 {
		verifC08.bad = true
	}
	for _, t := range oc.Topics {
		rt := kmsg.NewOffsetCommitResponseTopic()
		rt.Topic = t.Topic
		for _, p := range t.Partitions {
			rp := kmsg.NewOffsetCommitResponseTopicPartition()
			rp.Partition = p.Partition
			c := verifC08Commit{offset: p.Offset, epoch: p.LeaderEpoch, safe: verifC08.safe, returned: verifC08.returned, marked: verifC08.marked, generation: oc.Generation}
			switch outcome {
			case 0, 3:
				c.accepted = true
				verifC08.coord = p.Offset
			case 1:
				rp.ErrorCode = 27 // REBALANCE_IN_PROGRESS: per-partition, not a fatal member error
			}
			verifC08.log = append(verifC08.log, c)
			rt.Partitions = append(rt.Partitions, rp)
		}
		resp.Topics = append(resp.Topics, rt)
	}
	if outcome == 2 {
		return nil, errors.New("verif: commit request failed")
	}
	if outcome == 3 {
		g.memberGen.storeGeneration(g.memberGen.generation() + 1)
	}
	return resp, nil
}

const (
	verifC08Default = iota
	verifC08Greedy
	verifC08Marks
	verifC08Disabled
)

func verifC08Group(mode int) *groupConsumer {
	cl := &Client{}
	cl.cfg.logger = new(nopLogger)
	cl.ctx = context.Background()
	cl.metrics.firstObserve = make(chan struct{})
	cl.cfg.group = "g"
	cl.cfg.autocommitInterval = 5 * time.Second
	switch mode {
	case verifC08Greedy:
		cl.cfg.autocommitGreedy = true
	case verifC08Marks:
		cl.cfg.autocommitMarks = true
	case verifC08Disabled:
		cl.cfg.autocommitDisable = true
	}
	g := &groupConsumer{c: &cl.consumer, cl: cl, cfg: &cl.cfg}
	cl.consumer.cl = cl
	cl.consumer.g = g
	g.ctx, g.cancel = context.WithCancel(cl.ctx)
	g.rejoinCh = make(chan string, 1)
	g.tps = newTopicsPartitions()
	tp := newTopicPartitions()
	d := &topicPartitionsData{topic: "t"}
	d.id[0] = 9
	tp.v.Store(d)
	g.tps.storeData(topicsPartitionsData{"t": tp})
	g.memberGen.store("member", 1)
	cl.cfg.commitCallback = g.defaultCommitCallback
	verifC08.g = g
	verifC08.log = nil
	verifC08.coord = -1
	verifC08.bad = false
	return g
}

func verifC08Steps(mode int) int {
	if mode == verifC08Default || verifThorough() {
		return 4
	}
	return 3
}

func verifC08Run(mode int) {
	g := verifC08Group(mode)

	// Start of the session: either a commit c exists (fetchOffsets seeds {c,c,c} and consumption
	// starts at c; by induction every record below c was returned to some member), or none.
	pos := verifNondetInt64("start.position")
	verifAssume(verifAnd(pos >= 0, pos < 1<<40))
	epoch := verifNondetInt32("start.epoch")
	verifAssume(verifAnd(epoch >= -1, epoch < 1<<20))
	start := EpochOffset{Epoch: epoch, Offset: pos}
	seeded := verifChoose(2) == 1
	if seeded {
		c := start
		g.uncommitted = uncommitted{"t": {0: uncommit{dirty: c, head: c, committed: c}}}
		verifC08.coord = pos
	}
	verifC08.safe, verifC08.returned, verifC08.marked = pos, pos, pos
	var lastRec *Record

	k := verifC08Steps(mode)
	for step := 0; step < k; step++ {
		nOps := 5
		switch verifChoose(nOps) {
		case 0: // poll returning records [pos .. last], possibly with holes
			g.undirtyUncommitted()
			verifC08.safe = verifC08.returned
			last := verifNondetInt64("poll.lastOffset")
			e2 := verifNondetInt32("poll.epoch")
			verifAssume(verifAnd(last >= pos, last < 1<<40))
			verifAssume(verifAnd(e2 >= epoch, e2 < 1<<20)) // leader epochs never decrease along the log
			epoch = e2
			// two records: the first at the consume position, the last at a symbolic later
			// offset (updateUncommitted only reads the last record of a partition)
			verifAssume(last > pos)
			recs := []*Record{{Topic: "t", Partition: 0, Offset: pos, LeaderEpoch: epoch}, {Topic: "t", Partition: 0, Offset: last, LeaderEpoch: epoch}}
			lastRec = recs[len(recs)-1]
			g.updateUncommitted(Fetches{{Topics: []FetchTopic{{Topic: "t", Partitions: []FetchPartition{{Partition: 0, Records: recs}}}}}})
			pos = last + 1
			verifC08.returned = pos
		case 1: // poll returning nothing
			g.undirtyUncommitted()
			verifC08.safe = verifC08.returned
		case 2: // autocommit tick: one real loopCommit iteration
			if mode == verifC08Disabled {
				continue // loopCommit is not started when autocommit is disabled
			}
			go g.loopCommit()
			verifRunAll()
			verifFireTimers()
			verifRunAll()
		case 3: // revoke / leave with the default OnPartitionsRevoked
			g.defaultRevoke(context.Background(), g.cl, map[string][]int32{"t": {0}})
			verifRunAll()
		case 4:
			if mode == verifC08Marks && lastRec != nil {
				// the application marks the last record it received
				g.cl.MarkCommitRecords(lastRec)
				verifC08.marked = lastRec.Offset + 1
			} else {
				// rebalance without revocation of this partition: new generation
				g.memberGen.storeGeneration(g.memberGen.generation() + 1)
			}
		}
	}
	verifRunAll()

	// optionally the session ends with a graceful leave (Close / LeaveGroup): the manage loop
	// sees its context cancelled and goes through the real manageFailWait, which runs
	// OnPartitionsRevoked (the default one commits) and then drops the session state
	if verifChoose(2) == 1 {
		g.cfg.onRevoked = g.defaultRevoke
		g.cfg.onLost = func(context.Context, *Client, map[string][]int32) {}
		g.nowAssigned.store(map[string][]int32{"t": {0}})
		g.manageFailWait(0, context.Canceled)
		verifRunAll()
	}

	verifAssert(!verifC08.bad, "every OffsetCommit names exactly the one consumed partition")
	ok, okMono, okRet := true, true, true
	for _, c := range verifC08.log {
		switch mode {
		case verifC08Default:
			ok = verifAnd(ok, c.offset <= c.safe)
		case verifC08Greedy:
			ok = verifAnd(ok, c.offset <= c.returned)
		case verifC08Marks:
			ok = verifAnd(ok, c.offset <= c.marked)
		}
		okRet = verifAnd(okRet, c.offset <= c.returned)
		okMono = verifAnd(okMono, c.offset >= 0)
	}
	switch mode {
	case verifC08Default:
		verifAssert(ok, "default autocommit only ever commits offsets covered by a poll that was followed by another poll start")
	case verifC08Greedy:
		verifAssert(ok, "greedy autocommit only ever commits offsets of records already returned by a poll")
	case verifC08Marks:
		verifAssert(ok, "mark autocommit only ever commits offsets the application marked")
	case verifC08Disabled:
		verifAssert(len(verifC08.log) == 0, "with autocommit disabled neither the ticker nor the default revoke commits")
	}
	verifAssert(okRet, "no commit ever covers a record that was not returned by a poll")
	verifAssert(okMono, "committed offsets are non-negative")

	// the client's view of what is committed only moves to values the coordinator accepted
	if g.uncommitted != nil {
		if u, has := g.uncommitted["t"][0]; has {
			known := verifAnd(u.committed.Offset == 0, u.committed.Epoch == -1) // never committed
			if seeded {
				known = verifOr(known, verifAnd(u.committed.Offset == start.Offset, u.committed.Epoch == start.Epoch))
			}
			for _, c := range verifC08.log {
				known = verifOr(known, verifAnd(c.accepted, verifAnd(c.offset == u.committed.Offset, c.epoch == u.committed.Epoch)))
			}
			verifAssert(known, "the recorded committed offset is the session's starting commit or a request the coordinator accepted")
			verifAssert(u.committed.Offset <= verifC08.returned, "the recorded committed offset never passes the records returned")
			verifAssert(u.dirty.Offset <= verifC08.returned, "dirty never passes the records returned")
			if mode == verifC08Default {
				verifAssert(u.head.Offset <= verifC08.safe, "under default autocommit the committable head never passes the records of completed polls")
			}
		}
	}
	if verifC08.coord >= 0 && mode == verifC08Default {
		verifAssert(verifC08.coord <= verifC08.safe, "the group's committed offset only covers records returned by a poll that was followed by another poll start")
	}
	g.cancel()
	verifRunAll()
	if len(verifC08.log) > 0 {
		verifReached("c08-run-with-commit-requests")
	}
	verifReached("c08-run")
}

func VerifC08_defaultAutocommit() { verifC08Run(verifC08Default) }
func VerifC08_greedyAutocommit()  { verifC08Run(verifC08Greedy) }
func VerifC08_markAutocommit()    { verifC08Run(verifC08Marks) }
func VerifC08_disabled()          { verifC08Run(verifC08Disabled) }
