package kgo

import (
	"context"
	"errors"

	"github.com/twmb/franz-go/pkg/kmsg"
)

// C09: commits are issued to the coordinator one at a time in the order they were made, and
// the locally recorded committed offset is the last successful one.

type verifC09Arrival struct {
	offset int64
	gate   chan struct{}
	fail   bool
}

var verifC09 struct {
	arrivals []*verifC09Arrival
	inflight int
	maxIn    int
	failMask int
}

// A commit whose own context is already cancelled still has to wait for the commit in flight
// before it: its (failing) turn must not let a later commit overtake the earlier one.
func VerifC09_cancelledMiddleCommit() {
	delays := 2
	if verifThorough() {
		delays = 3
	}
	verifPreemptions(delays)
	verifC09.arrivals, verifC09.inflight, verifC09.maxIn, verifC09.failMask = nil, 0, 0, 0
	cl := &Client{}
	cl.cfg.logger = new(nopLogger)
	cl.cfg.group = "g"
	g := &groupConsumer{cl: cl, cfg: &cl.cfg, tps: newTopicsPartitions()}
	g.memberGen.store("m", 1)
	g.uncommitted = uncommitted{"t": {0: uncommit{}}}
	offs := []int64{10, 20, 30}
	var doneOrder []int
	doneErr := make([]error, 3)
	cancelled, cancel := context.WithCancel(context.Background())
	cancel()
	for i := 0; i < 3; i++ {
		i := i
		ctx := context.Background()
		if i == 1 {
			ctx = cancelled
		}
		g.mu.Lock()
		g.commit(ctx, map[string]map[int32]EpochOffset{"t": {0: {Epoch: 1, Offset: offs[i]}}},
			func(_ *Client, req *kmsg.OffsetCommitRequest, resp *kmsg.OffsetCommitResponse, err error) {
				doneOrder = append(doneOrder, i)
				doneErr[i] = err
				if err == nil {
					g.updateCommitted(req, resp)
				}
			})
		g.mu.Unlock()
	}
	verifRunAll()
	verifAssert(len(verifC09.arrivals) == 1 && verifC09.arrivals[0].offset == 10, "only the first commit is at the coordinator while it is unanswered")
	close(verifC09.arrivals[0].gate)
	verifRunAll()
	verifAssert(len(verifC09.arrivals) == 2 && verifC09.arrivals[1].offset == 30, "the third commit follows once the first is answered and the cancelled one has failed")
	close(verifC09.arrivals[1].gate)
	verifRunAll()
	verifAssert(verifC09.maxIn == 1, "never two commit requests in flight at once")
	verifAssert(len(doneOrder) == 3 && doneOrder[0] == 0 && doneOrder[1] == 1 && doneOrder[2] == 2, "callbacks run once each, in issue order")
	verifAssert(doneErr[0] == nil && doneErr[1] != nil && doneErr[2] == nil, "only the cancelled commit fails")
	verifAssert(g.uncommitted["t"][0].committed.Offset == 30, "committed offset is that of the last successful commit")
	verifAssert(verifBlockedCount() == 0, "no goroutine is left blocked")
	verifReached("c09-cancelled-middle")
}

//verif:replace (*Client).Request
func (cl *Client) verifC09Request(ctx context.Context, req kmsg.Request) (kmsg.Response, error) {
	r := req.(*kmsg.OffsetCommitRequest)
	if err := ctx.Err(); err != nil {
		return nil, err // like the real client: a cancelled request is never sent
	}
	a := &verifC09Arrival{offset: r.Topics[0].Partitions[0].Offset, gate: make(chan struct{})}
	a.fail = verifC09.failMask&(1<<len(verifC09.arrivals)) != 0
	verifC09.arrivals = append(verifC09.arrivals, a)
	verifC09.inflight++
	if verifC09.inflight > verifC09.maxIn {
		verifC09.maxIn = verifC09.inflight
	}
	<-a.gate // the coordinator answers when the harness lets it
	verifC09.inflight--
	if a.fail {
		return nil, errors.New("verif: commit request failed")
	}
	resp := kmsg.NewPtrOffsetCommitResponse()
	resp.Version = 9
	for _, t := range r.Topics {
		rt := kmsg.NewOffsetCommitResponseTopic()
		rt.Topic = t.Topic
		for _, p := range t.Partitions {
			rp := kmsg.NewOffsetCommitResponseTopicPartition()
			rp.Partition = p.Partition
			rt.Partitions = append(rt.Partitions, rp)
		}
		resp.Topics = append(resp.Topics, rt)
	}
	return resp, nil
}

//verif:replace (*metrics).observeTime
func (m *metrics) verifC09ObserveTime(field *metricTime, millis int64) {}

func VerifC09_commitOrdering() {
	delays := 2
	if verifThorough() {
		delays = 3
	}
	verifPreemptions(delays)
	verifC09.arrivals, verifC09.inflight, verifC09.maxIn = nil, 0, 0
	n := 3
	// which commits fail at the request level
	if verifThorough() {
		verifC09.failMask = verifChoose(1 << n)
	} else {
		verifC09.failMask = []int{0, 2, 5}[verifChoose(3)]
	}
	cl := &Client{}
	cl.cfg.logger = new(nopLogger)
	cl.cfg.group = "g"
	g := &groupConsumer{cl: cl, cfg: &cl.cfg, tps: newTopicsPartitions()}
	g.memberGen.store("m", 1)
	g.uncommitted = uncommitted{"t": {0: uncommit{}}}
	offs := make([]int64, n)
	var doneOrder []int
	doneErr := make([]error, n)
	for i := 0; i < n; i++ {
		i := i
		offs[i] = verifNondetInt64("offset")
		verifAssume(verifAnd(offs[i] >= 0, offs[i] < 1<<62))
		g.mu.Lock()
		g.commit(context.Background(), map[string]map[int32]EpochOffset{"t": {0: {Epoch: 1, Offset: offs[i]}}},
			func(_ *Client, req *kmsg.OffsetCommitRequest, resp *kmsg.OffsetCommitResponse, err error) {
				doneOrder = append(doneOrder, i)
				doneErr[i] = err
				if err == nil {
					g.updateCommitted(req, resp)
				}
			})
		g.mu.Unlock()
	}
	// let the coordinator answer one request at a time
	for k := 0; k < n; k++ {
		verifRunAll()
		verifAssert(len(verifC09.arrivals) == k+1, "exactly one more commit reaches the coordinator after each response")
		verifAssert(verifC09.arrivals[k].offset == offs[k], "commits reach the coordinator in the order they were issued")
		close(verifC09.arrivals[k].gate)
	}
	verifRunAll()
	verifAssert(verifC09.maxIn == 1, "never two commit requests in flight at once")
	ok := len(doneOrder) == n
	for i := 0; ok && i < n; i++ {
		ok = doneOrder[i] == i && (doneErr[i] != nil) == (verifC09.failMask&(1<<i) != 0)
	}
	verifAssert(ok, "every commit's callback runs once, in issue order, with its own outcome")
	// committed = last successful commit (or untouched)
	want, any := int64(0), false
	for i := 0; i < n; i++ {
		if verifC09.failMask&(1<<i) == 0 {
			want, any = offs[i], true
		}
	}
	got := g.uncommitted["t"][0].committed.Offset
	if any {
		verifAssert(got == want, "committed offset is that of the last successful commit")
	} else {
		verifAssert(got == 0, "failed commits leave the committed offset untouched")
	}
	verifAssert(verifBlockedCount() == 0, "no goroutine is left blocked")
	verifReached("c09-commit-ordering")
}

// Commits issued WHILE earlier ones complete: A is in flight when B is issued (B chains behind
// A); A is answered; C is issued while B is still in flight at the coordinator. C must chain
// behind B: it reaches the coordinator only after B was answered, never two requests are in
// flight, and the committed offset ends at C's. (VerifC09_commitOrdering issues all commits
// before any answer; this is the staggered shape.)
func VerifC09_commitIssuedWhilePriorCompletes() {
	delays := 2
	if verifThorough() {
		delays = 3
	}
	verifPreemptions(delays)
	verifC09.arrivals, verifC09.inflight, verifC09.maxIn, verifC09.failMask = nil, 0, 0, 0
	cl := &Client{}
	cl.cfg.logger = new(nopLogger)
	cl.cfg.group = "g"
	g := &groupConsumer{cl: cl, cfg: &cl.cfg, tps: newTopicsPartitions()}
	g.memberGen.store("m", 1)
	g.uncommitted = uncommitted{"t": {0: uncommit{}}}
	offs := []int64{10, 20, 30}
	var doneOrder []int
	issue := func(i int) {
		g.mu.Lock()
		g.commit(context.Background(), map[string]map[int32]EpochOffset{"t": {0: {Epoch: 1, Offset: offs[i]}}},
			func(_ *Client, req *kmsg.OffsetCommitRequest, resp *kmsg.OffsetCommitResponse, err error) {
				doneOrder = append(doneOrder, i)
				if err == nil {
					g.updateCommitted(req, resp)
				}
			})
		g.mu.Unlock()
	}
	issue(0)
	issue(1)
	verifRunAll()
	verifAssert(len(verifC09.arrivals) == 1 && verifC09.arrivals[0].offset == 10, "only the first commit is at the coordinator")
	close(verifC09.arrivals[0].gate) // A is answered
	verifRunAll()
	verifAssert(len(verifC09.arrivals) == 2 && verifC09.arrivals[1].offset == 20, "the second commit reaches the coordinator after the first was answered")
	issue(2) // C, while B is still in flight
	verifRunAll()
	verifAssert(len(verifC09.arrivals) == 2, "a commit issued while an earlier one is in flight does not reach the coordinator before that one was answered")
	close(verifC09.arrivals[1].gate) // B is answered
	verifRunAll()
	verifAssert(len(verifC09.arrivals) == 3 && verifC09.arrivals[2].offset == 30, "the third commit reaches the coordinator after the second was answered")
	if len(verifC09.arrivals) == 3 {
		close(verifC09.arrivals[2].gate)
	}
	verifRunAll()
	verifAssert(verifC09.maxIn == 1, "never two commit requests in flight at once")
	verifAssert(len(doneOrder) == 3 && doneOrder[0] == 0 && doneOrder[1] == 1 && doneOrder[2] == 2, "every commit's callback runs once, in issue order")
	verifAssert(g.uncommitted["t"][0].committed.Offset == 30, "the committed offset is that of the last commit issued")
	verifAssert(verifBlockedCount() == 0, "no goroutine is left blocked")
	verifReached("c09-commit-staggered")
}
