package kgo

import (
	"context"
	"errors"
	"sync"

	"github.com/twmb/franz-go/pkg/kerr"
	"github.com/twmb/franz-go/pkg/kmsg"
)

// C11 kernel: the real EndTransaction / maybeRecoverProducerID / BeginTransaction / producerID /
// doInitProducerID / failProducerID run against a ghost transaction coordinator reached through
// a stubbed (*Client).Request. Every EndTxn and InitProducerID request gets a fault chosen by
// the harness: not delivered, applied but response lost, applied and answered, or rejected
// with an error code.

const (
	verifC11None = iota
	verifC11Committed
	verifC11Aborted
)

const (
	verifC11FaultOK = iota
	verifC11FaultNotDelivered
	verifC11FaultAppliedLost
	verifC11FaultRejected
	verifC11NumFaults
)

var errVerifC11Transport = errors.New("verif: connection died")

type verifC11World struct {
	cl       *Client
	supports bool // cluster advertises transaction.version >= 2

	// ghost coordinator state for the transactional id
	pid     int64
	epoch   int16
	ongoing bool // transaction T1 (the one being ended) is ongoing broker-side
	outcome int  // outcome of T1
	tv2     bool // KIP-890 part 2 semantics: EndTxn bumps the epoch

	endSent, endApplied int
	initSent            int
	lastEndCommit       bool
	lastEndEpoch        int16
	plainFaults         bool // final phase: only delivered / not delivered
	rejectCodes         []int16
}

var verifC11 *verifC11World

//verif:replace (*Client).supportsKIP890p2
func (cl *Client) verifC11Supports() bool { return verifC11.supports }

//verif:replace (*Client).Request
func (cl *Client) verifC11Request(ctx context.Context, req kmsg.Request) (kmsg.Response, error) {
	w := verifC11
	switch r := req.(type) {
	case *kmsg.EndTxnRequest:
		return w.endTxn(ctx, r)
	case *kmsg.InitProducerIDRequest:
		return w.initProducerID(r)
	}
	verifFail("only EndTxn and InitProducerID requests are expected")
	return nil, errVerifC11Transport
}

func (w *verifC11World) fault() (int, int16) {
	if w.plainFaults {
		return verifChoose(2), 0
	}
	f := verifChoose(verifC11NumFaults)
	var code int16
	if f == verifC11FaultRejected {
		code = w.rejectCodes[verifChoose(len(w.rejectCodes))]
	}
	return f, code
}

func (w *verifC11World) endTxn(ctx context.Context, r *kmsg.EndTxnRequest) (kmsg.Response, error) {
	w.endSent++
	pinned := false
	if pin, ok := ctx.Value(ctxPinReq).(*pinReq); ok && pin.pinMax && pin.max <= 4 {
		pinned = true
	}
	verifAssert(pinned == !w.cl.producer.tx890p2.Load(), "EndTxn is capped below v5 exactly when the client is not in KIP-890p2 mode")
	verifAssert(r.TransactionalID == *w.cl.cfg.txnID, "EndTxn names the client's transactional id")
	f, code := w.fault()
	resp := kmsg.NewPtrEndTxnResponse()
	resp.Version = 4
	if !pinned && w.tv2 {
		resp.Version = 5
	}
	switch f {
	case verifC11FaultNotDelivered:
		return nil, errVerifC11Transport
	case verifC11FaultRejected:
		resp.ErrorCode = code
		return resp, nil
	}
	// the coordinator acts on the request
	w.lastEndCommit, w.lastEndEpoch = r.Commit, r.ProducerEpoch
	switch {
	case r.ProducerID != w.pid:
		resp.ErrorCode = kerr.InvalidProducerIDMapping.Code
	case r.ProducerEpoch < w.epoch:
		resp.ErrorCode = kerr.ProducerFenced.Code
	case r.ProducerEpoch > w.epoch:
		resp.ErrorCode = kerr.InvalidProducerEpoch.Code
	case !w.ongoing && !(w.tv2 && !r.Commit):
		resp.ErrorCode = kerr.InvalidTxnState.Code
	default:
		if w.ongoing {
			w.ongoing = false
			w.outcome = verifC11Aborted
			if r.Commit {
				w.outcome = verifC11Committed
			}
		}
		w.endApplied++
		if w.tv2 {
			w.epoch++
			if resp.Version >= 5 {
				resp.ProducerID, resp.ProducerEpoch = w.pid, w.epoch
			}
		}
	}
	if f == verifC11FaultAppliedLost {
		return nil, errVerifC11Transport
	}
	return resp, nil
}

func (w *verifC11World) initProducerID(r *kmsg.InitProducerIDRequest) (kmsg.Response, error) {
	w.initSent++
	f, code := w.fault()
	resp := kmsg.NewPtrInitProducerIDResponse()
	resp.Version = 4
	switch f {
	case verifC11FaultNotDelivered:
		return nil, errVerifC11Transport
	case verifC11FaultRejected:
		resp.ErrorCode = code
		return resp, nil
	}
	switch {
	case r.ProducerID != w.pid:
		resp.ErrorCode = kerr.InvalidProducerIDMapping.Code
	case r.ProducerEpoch == w.epoch || r.ProducerEpoch == w.epoch-1:
		// re-initialisation at the current (or, as a retry, the previous) epoch: fence-abort
		// whatever is ongoing and bump
		if w.ongoing {
			w.ongoing = false
			w.outcome = verifC11Aborted
		}
		w.epoch++
		resp.ProducerID, resp.ProducerEpoch = w.pid, w.epoch
	default:
		resp.ErrorCode = kerr.ProducerFenced.Code
	}
	if f == verifC11FaultAppliedLost {
		return nil, errVerifC11Transport
	}
	return resp, nil
}

type verifC11Init struct {
	added   [2]bool
	offsets bool
	group   bool
}

func verifC11Build(tv2 bool, init verifC11Init, produced bool, idErr error) (*verifC11World, []*recBuf, *groupConsumer) {
	cl := &Client{}
	cl.cfg.logger = new(nopLogger)
	id := "tx"
	cl.cfg.txnID = &id
	cl.ctx = context.Background()
	p := &cl.producer
	p.cl = cl
	p.c = sync.NewCond(&p.mu)
	p.topics = newTopicsPartitions()
	p.unknownTopics = make(map[string]*unknownTopicProduces)
	p.idVersion = 4
	p.id.Store(&producerID{id: 7, epoch: 3, err: idErr})
	p.inTxn = true
	p.producingTxn.Store(true)
	p.tx890p2.Store(tv2)
	p.producedInTxn.Store(produced)

	s := &sink{cl: cl, nodeID: 1}
	var rbs []*recBuf
	var parts []*topicPartition
	for i := 0; i < 2; i++ {
		rb := &recBuf{cl: cl, topic: "t", partition: int32(i), sink: s, lastAckedOffset: -1}
		rb.addedToTxn.Store(init.added[i])
		rbs = append(rbs, rb)
		parts = append(parts, &topicPartition{records: rb})
	}
	tp := newTopicPartitions()
	tp.v.Store(&topicPartitionsData{topic: "t", partitions: parts})
	p.topics.storeData(topicsPartitionsData{"t": tp})

	var g *groupConsumer
	if init.group {
		g = &groupConsumer{cl: cl, cfg: &cl.cfg}
		g.offsetsAddedToTxn = init.offsets
		cl.consumer.g = g
	}

	w := &verifC11World{cl: cl, supports: tv2, pid: 7, epoch: 3, tv2: tv2}
	w.rejectCodes = []int16{
		kerr.CoordinatorLoadInProgress.Code, // retriable that outlived the request's retries
		kerr.UnknownServerError.Code,
		kerr.ProducerFenced.Code,
		kerr.InvalidProducerEpoch.Code,
		kerr.TransactionAbortable.Code,
	}
	if verifThorough() {
		w.rejectCodes = append(w.rejectCodes,
			kerr.InvalidTxnState.Code,
			kerr.InvalidProducerIDMapping.Code,
			kerr.UnknownProducerID.Code,
			kerr.NotCoordinator.Code,
			kerr.RequestTimedOut.Code,
			kerr.TransactionalIDAuthorizationFailed.Code,
			kerr.TransactionCoordinatorFenced.Code,
		)
	}
	verifC11 = w
	return w, rbs, g
}

func (w *verifC11World) idState() *producerID { return w.cl.producer.id.Load().(*producerID) }

// VerifC11_endTruth: one transaction T1, up to two EndTransaction calls, then BeginTransaction
// and the producer id load of the next transaction's first produce.
func VerifC11_endTruth() {
	tv2 := verifChoose(2) == 1
	var init verifC11Init
	switch verifChoose(4) {
	case 0: // nothing reached the transaction
	case 1:
		init.added[0] = true
	case 2:
		init.added[0], init.added[1] = true, true
	case 3:
		init.group, init.offsets = true, true
		init.added[1] = verifThorough() && verifChoose(2) == 1
	}
	anyAdded := init.added[0] || init.added[1] || init.offsets
	produced := anyAdded || verifChoose(2) == 1
	var idErr error
	switch verifChoose(3) {
	case 0:
	case 1:
		idErr = kerr.InvalidProducerEpoch // a produce failed the producer id
	case 2:
		idErr = kerr.TransactionAbortable
	}
	w, rbs, g := verifC11Build(tv2, init, produced, idErr)
	cl := w.cl
	p := &cl.producer

	// broker side: the transaction is ongoing if anything was added; under KIP-890p2 a failed
	// produce may have registered its partition although the client saw no success
	w.ongoing = anyAdded
	if !anyAdded && tv2 && produced {
		w.ongoing = verifChoose(2) == 1
	}
	ongoing0 := w.ongoing

	restored := func() bool {
		ok := p.inTxn && rbs[0].addedToTxn.Load() == init.added[0] && rbs[1].addedToTxn.Load() == init.added[1]
		if g != nil {
			ok = ok && g.offsetsAddedToTxn == init.offsets
		}
		return ok
	}

	// check is the truthfulness contract of one EndTransaction call.
	commitTried := false // an earlier call attempted an EndTxn(commit) whose outcome it reported as an error
	check := func(commit bool, err error, sentBefore int, unconfirmedBefore bool) {
		sent := w.endSent - sentBefore
		verifAssert(sent <= 1, "one EndTransaction call sends at most one EndTxn")
		verifAssert(!p.producingTxn.Load(), "produces are refused once EndTransaction ran")
		if unconfirmedBefore {
			verifAssert(sent == 0, "a retry after an unconfirmed outcome sends no EndTxn")
			// (a transaction in which nothing was added has nothing to commit: the call is turned
			// into an abort and may succeed)
			verifAssert(!commit || !anyAdded || err != nil, "a TryCommit retry after an unconfirmed outcome is refused")
		}
		switch {
		case err == nil && commit:
			verifAssert(!anyAdded || w.outcome == verifC11Committed, "EndTransaction(TryCommit) == nil: the transaction that has records or offsets is committed at the coordinator")
			verifAssert(!p.inTxn && !p.endUnconfirmed, "a successful end leaves the client outside a transaction")
		case err == nil && !commit:
			// If the caller never had a commit attempted the transaction cannot be committed.
			// If an earlier commit attempt's answer was lost, the coordinator may hold a commit
			// the client could not learn of; the caller was told so by that call's error.
			verifAssert(w.outcome != verifC11Committed || commitTried, "EndTransaction(TryAbort) == nil: not committed, unless an earlier commit attempt was reported unconfirmed")
			verifAssert(!p.inTxn && !p.endUnconfirmed, "a successful end leaves the client outside a transaction")
		case sent > 0: // error after an attempted EndTxn
			verifAssert(w.idState().err != nil, "an error after an attempted EndTxn fails the producer id")
			verifAssert(restored(), "an error after an attempted EndTxn restores inTxn / addedToTxn / offsetsAddedToTxn")
			verifAssert(p.endUnconfirmed, "an error after an attempted EndTxn marks the outcome unconfirmed")
			commitTried = commitTried || commit
		case unconfirmedBefore && commit:
			// refused commit retry: documented; the transaction state is given up
		default: // refused before anything was sent
			verifAssert(commit && errors.Is(err, kerr.OperationNotAttempted), "only a commit on a failed producer id is refused before sending")
			verifAssert(restored() && p.endUnconfirmed == unconfirmedBefore, "a commit that was not attempted restores the transaction state")
		}
	}

	// ---- first call
	commit1 := verifChoose(2) == 1
	err1 := cl.EndTransaction(context.Background(), TransactionEndTry(commit1))
	check(commit1, err1, 0, false)
	if err1 != nil && w.endSent == 0 {
		verifAssert(w.outcome == verifC11None && w.ongoing == ongoing0, "a commit that was not attempted leaves the coordinator untouched")
	}

	// ---- optional second call (the documented retry, or a stubborn commit)
	if err1 != nil && verifChoose(2) == 1 {
		unconfirmed, sent := p.endUnconfirmed, w.endSent
		commit2 := verifChoose(2) == 1
		err2 := cl.EndTransaction(context.Background(), TransactionEndTry(commit2))
		check(commit2, err2, sent, unconfirmed)
	}

	// ---- next transaction
	w.plainFaults = true
	wasIn := p.inTxn
	err3 := cl.BeginTransaction()
	if wasIn {
		verifAssert(err3 != nil, "BeginTransaction is refused while the failed end left the client inside the transaction")
		verifReached("c11-begin-refused")
		return
	}
	if err3 != nil {
		verifAssert(w.idState().err != nil, "BeginTransaction fails only on a failed producer id")
		verifReached("c11-begin-fatal")
		return
	}
	verifAssert(p.inTxn && p.producingTxn.Load() && !p.producedInTxn.Load(), "BeginTransaction opens a fresh transaction")
	// the first produce of the next transaction loads the producer id (sink.produce)
	id, epoch, err := cl.producerID(func() context.Context { return context.Background() })
	if err == nil {
		verifAssert(!(w.ongoing && id == w.pid && epoch == w.epoch), "no silent merge: the next transaction never produces at the id/epoch of a transaction still ongoing at the coordinator")
		verifAssert(id == w.pid && epoch == w.epoch, "the next transaction produces at the coordinator's current id/epoch")
	}
	verifReached("c11-next-txn")
}

//verif:replace (*sink).maybeDrain
func (s *sink) verifC11MaybeDrain() {}

// VerifC11_undoStaged: createReq stages batches of up to three partitions of a transactional
// producer and marks the ones it newly adds to the transaction; undoStagedBatches (the
// producer-epoch recheck in sink.produce and doTxnReq's failure path) must rewind exactly
// that: partitions added by an earlier request keep their membership, newly added ones lose
// it, and drain index / sequence / inflight return to their pre-drain values.
func VerifC11_undoStaged() {
	tv2 := verifChoose(2) == 1
	cl := &Client{}
	cl.cfg.logger = new(nopLogger)
	id := "tx"
	cl.cfg.txnID = &id
	cl.cfg.acks.val = -1
	cl.cfg.maxBrokerWriteBytes = 100 << 20
	cl.cfg.recordRetries = 1 << 62
	cl.ctx = context.Background()
	cl.prsPool = newPrsPool()
	p := &cl.producer
	p.cl = cl
	p.c = sync.NewCond(&p.mu)
	p.topics = newTopicsPartitions()
	p.tx890p2.Store(tv2)
	p.id.Store(&producerID{id: 7, epoch: 3})
	s := &sink{cl: cl, nodeID: 1}
	s.produceVersion.Store(9)

	type part struct {
		topic string
		p     int32
	}
	parts := []part{{"a", 0}, {"a", 1}, {"b", 0}}
	flags := verifChoose(8)   // which partitions an earlier request already added
	skipped := verifChoose(4) // which partition (if any) is not drainable right now
	var rbs []*recBuf
	seqs := make([]int32, len(parts))
	for i, pt := range parts {
		rb := &recBuf{cl: cl, topic: pt.topic, partition: pt.p, maxRecordBatchBytes: 1 << 20, sink: s, lastAckedOffset: -1}
		rb.addedToTxn.Store(flags&(1<<i) != 0)
		seqs[i] = int32(5 * i)
		if i == 0 {
			seqs[i] = verifNondetInt32("batch0Seq")
			verifAssume(seqs[i] >= 0)
		}
		rb.batch0Seq, rb.seq = seqs[i], seqs[i]
		b := rb.newRecordBatch()
		r := &Record{Topic: pt.topic, Value: []byte{1}, Context: context.Background()}
		ok, _ := b.tryBuffer(promisedRec{context.Background(), func(*Record, error) {}, r}, 9, rb.maxRecordBatchBytes, false)
		verifAssume(ok)
		rb.batches = append(rb.batches, b)
		rb.buffered.Add(1)
		rb.failing = i == skipped
		rb.recBufsIdx = i
		rbs = append(rbs, rb)
	}
	s.recBufs = rbs

	req, txnReq, _ := s.createReq(7, 3)
	staged := func(i int) bool { return i != skipped }
	okStage, okReq := true, true
	for i, rb := range rbs {
		was := flags&(1<<i) != 0
		if staged(i) {
			okStage = okStage && rb.batchDrainIdx == 1 && rb.inflight == 1
			if !tv2 {
				okStage = okStage && rb.addedToTxn.Load()
			} else {
				okStage = okStage && rb.addedToTxn.Load() == was
			}
		} else {
			okStage = okStage && rb.batchDrainIdx == 0 && rb.inflight == 0 && rb.addedToTxn.Load() == was
		}
		want := staged(i) && !was && !tv2
		got := txnReq != nil && txnReqContains(txnReq, rb.topic, rb.partition)
		okReq = okReq && want == got
	}
	verifAssert(okStage, "createReq stages every drainable partition once and marks it added (pre-KIP-890p2 only)")
	verifAssert(okReq, "AddPartitionsToTxn names exactly the staged partitions that were not in the transaction yet")
	if txnReq != nil {
		n := 0
		for _, t := range txnReq.Topics {
			n += len(t.Partitions)
		}
		want := 0
		for i := range rbs {
			if staged(i) && flags&(1<<i) == 0 {
				want++
			}
		}
		verifAssert(n == want, "AddPartitionsToTxn lists no partition twice")
		verifAssert(txnReq.ProducerID == 7 && txnReq.ProducerEpoch == 3 && txnReq.TransactionalID == "tx", "AddPartitionsToTxn carries the request's id / epoch / transactional id")
	} else {
		verifAssert(tv2 || flags|(1<<skipped)&7 == 7, "no AddPartitionsToTxn only if nothing new was staged or the producer is in KIP-890p2 mode")
	}

	req.undoStagedBatches(txnReq)
	okUndo := true
	for i, rb := range rbs {
		was := flags&(1<<i) != 0
		okUndo = okUndo && rb.addedToTxn.Load() == was && rb.batchDrainIdx == 0 && rb.inflight == 0 && rb.inflightOnSink == nil
		verifAssert(verifAnd(rb.seq == seqs[i], rb.batch0Seq == seqs[i]), "undoStagedBatches rewinds the sequence number")
	}
	verifAssert(okUndo, "undoStagedBatches restores addedToTxn exactly for the partitions this request added, and the drain index / inflight of every staged partition")
	verifReached("c11-undo-staged")
}
