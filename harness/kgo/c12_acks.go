package kgo

import (
	"context"
	"sync"

	"github.com/twmb/franz-go/pkg/kerr"
	"github.com/twmb/franz-go/pkg/kmsg"
)

// C12 — share-group acknowledgements: range building, staleness filter, per-record CAS.
//
// The acceptance oracle for "ascending, non-overlapping" is kfake's validateOneAckBatch rule
// threaded over the batches of one partition (first <= last, first > prevEnd, prevEnd := last,
// prevEnd starting at -1). harness/kfake/c12_oracle.go proves that the real kfake function
// implements exactly this predicate; the kgo harnesses below use the predicate.

const verifC12MaxOff = int64(1) << 40

type verifC12Env struct {
	cl   *Client
	sc   *shareConsumer
	s1   *source
	s2   *source
	cur  *shareCursor
	slab [2]*shareAckSlab
}

func verifC12NewSource(cl *Client, sc *shareConsumer, node int32) *source {
	s := &source{cl: cl, nodeID: node}
	s.share.s = s
	s.share.sc = sc
	s.share.ackCh = make(chan struct{}, 1)
	s.share.ackFlushCh = make(chan struct{}, 1)
	s.share.sessionParts = make(map[tidp]struct{})
	return s
}

func verifC12NewEnv() *verifC12Env {
	cl := &Client{}
	cl.cfg.logger = new(nopLogger)
	cl.ctx = context.Background()
	sc := &shareConsumer{cl: cl, cfg: &cl.cfg}
	sc.ackC = sync.NewCond(&sc.ackMu)
	sc.cond = sync.NewCond(&sc.mu)
	e := &verifC12Env{cl: cl, sc: sc}
	e.s1 = verifC12NewSource(cl, sc, 1)
	e.s2 = verifC12NewSource(cl, sc, 2)
	e.cur = &shareCursor{topic: "t", partition: 0}
	e.cur.topicID[0] = 7
	e.cur.source.Store(e.s1)
	e.s1.share.cursors = []*shareCursor{e.cur}
	return e
}

// verifC12Ascending is the oracle predicate: the emitted batches are accepted by
// validateOneAckBatch with prevEnd threading (types are checked separately).
func verifC12Ascending(rs []shareAckRange) bool {
	ok := true
	prevEnd := int64(-1)
	for _, r := range rs {
		ok = verifAnd(ok, verifAnd(r.firstOffset <= r.lastOffset, r.firstOffset > prevEnd))
		prevEnd = r.lastOffset
	}
	return ok
}

// verifC12Off returns a symbolic offset. Full mode: any offset in [0, 2^40). Window mode (used
// where an arbitrary probe offset is compared against every emitted batch; the containment
// queries are intractable for the solvers on full-width offsets): base + w with base = 2^33
// concrete and w symbolic in [0, 2^8).
func verifC12Off(name string, window bool) int64 {
	if window {
		return verifC12Base + int64(verifNondetUint8(name))
	}
	o := verifNondetInt64(name)
	verifAssume(verifAnd(o >= 0, o < verifC12MaxOff))
	return o
}

const verifC12Base = int64(1) << 33

type verifC12Gap struct {
	first, last int64
	typ         int8
}

// verifC12Build runs buildAckRanges on nEnt distinct record states (arbitrary order, arbitrary
// status 0..4, optionally one duplicated pointer as left behind by renew-then-terminal) and nGap
// gap ranges, and checks the result against the statement.
func verifC12Build(nEnt, nGap int, dup bool, label string, onlyAscending bool) {
	e := verifC12NewEnv()
	// two slabs = two fetches; both from source s1 (stale/migrated ones are removed by
	// filterStaleEntries before buildAckRanges is called, see VerifC12_filterStale).
	ep0, ep1 := verifNondetInt32("slab0.epoch"), verifNondetInt32("slab1.epoch")
	e.slab[0] = &shareAckSlab{ackSource: e.s1, cursor: e.cur, sessionEpoch: ep0}
	e.slab[1] = &shareAckSlab{ackSource: e.s1, cursor: e.cur, sessionEpoch: ep1}

	// Slice order. Order harnesses: arbitrary. Coverage harness: ascending or descending by
	// offset (chosen per path).
	order := -1
	if !onlyAscending {
		order = verifChoose(2)
	}
	states := make([]*shareAckState, nEnt)
	offs := make([]int64, nEnt)
	stats := make([]int32, nEnt)
	for i := 0; i < nEnt; i++ {
		offs[i] = verifC12Off("entry.offset", !onlyAscending)
		stats[i] = int32(verifNondetInt8("entry.status"))
		verifAssume(verifAnd(stats[i] >= 0, stats[i] <= 4))
		for j := 0; j < i; j++ {
			verifAssume(offs[i] != offs[j]) // distinct delivered records have distinct offsets
		}
		if i > 0 && order == 0 {
			verifAssume(offs[i-1] < offs[i])
		}
		if i > 0 && order == 1 {
			verifAssume(offs[i-1] > offs[i])
		}
		st := &shareAckState{deliveryCount: 1, offset: offs[i], slab: e.slab[i&1]}
		st.status.Store(stats[i])
		states[i] = st
	}
	entries := append([]*shareAckState(nil), states...)
	if dup && nEnt > 0 {
		// renew-then-terminal: the same state pointer is queued twice
		entries = append(entries, states[0])
	}

	gaps := make([]shareAckRange, nGap)
	gs := make([]verifC12Gap, nGap)
	for i := 0; i < nGap; i++ {
		g := verifC12Gap{first: verifC12Off("gap.first", !onlyAscending), last: verifC12Off("gap.last", !onlyAscending)}
		rel := verifNondetBool("gap.isRelease")
		g.typ = int8(verifIteInt32(rel, int32(AckRelease), 0))
		verifAssume(g.first <= g.last)
		for j := 0; j < i; j++ { // gaps are disjoint
			verifAssume(verifOr(g.last < gs[j].first, gs[j].last < g.first))
		}
		if i > 0 && order == 0 {
			verifAssume(gs[i-1].first < g.first)
		}
		if i > 0 && order == 1 {
			verifAssume(gs[i-1].first > g.first)
		}
		for j := 0; j < nEnt; j++ { // gaps never cover a delivered record
			verifAssume(verifOr(offs[j] < g.first, offs[j] > g.last))
		}
		gs[i] = g
		gaps[i] = shareAckRange{firstOffset: g.first, lastOffset: g.last, source: e.s1, sessionEpoch: verifIteInt32(verifNondetBool("gap.slab1"), ep1, ep0), ackType: g.typ}
	}

	ranges, hasRenew := buildAckRanges(entries, gaps)
	if onlyAscending {
		verifAssert(verifC12Ascending(ranges), label)
		verifReached("c12-build-ascending")
		return
	}

	// every emitted range is well formed and carries a wire-legal type
	wf := true
	for _, r := range ranges {
		wf = verifAnd(wf, verifAnd(r.firstOffset <= r.lastOffset, verifAnd(r.ackType >= 0, r.ackType <= 4)))
	}
	verifAssert(wf, "every acknowledgement batch has first <= last within the offsets handed in and a type in 0..4")

	// coverage, checked for an arbitrary probe offset p: p is in exactly one emitted range with
	// the final status of its record / the type of its gap, or in none when nothing is due.
	// (batches lie within [0, MaxOff) by the assertion above, so probes outside are vacuous)
	p := verifC12Off("probe", true)
	want := int32(-1)
	for i := 0; i < nEnt; i++ {
		want = verifIteInt32(verifAnd(offs[i] == p, stats[i] != 0), stats[i], want)
	}
	for i := 0; i < nGap; i++ {
		want = verifIteInt32(verifAnd(gs[i].first <= p, p <= gs[i].last), int32(gs[i].typ), want)
	}
	anyIn, twoIn := false, false
	got := int32(-1)
	for _, r := range ranges {
		in := verifAnd(r.firstOffset <= p, p <= r.lastOffset)
		twoIn = verifOr(twoIn, verifAnd(anyIn, in))
		anyIn = verifOr(anyIn, in)
		got = verifIteInt32(in, int32(r.ackType), got)
	}
	verifAssert(verifImplies(want == -1, !anyIn), "no batch covers an offset that has neither a decided record nor a gap")
	verifAssert(verifImplies(want != -1, verifAnd(anyIn, !twoIn)), "every decided record / gap offset is acknowledged exactly once per request")
	verifAssert(verifImplies(verifAnd(want != -1, verifAnd(anyIn, !twoIn)), got == want), "each offset is sent with its final status / gap type")

	anyRenew := false
	for i := 0; i < nEnt; i++ {
		anyRenew = verifOr(anyRenew, stats[i] == int32(AckRenew))
	}
	verifAssert(hasRenew == anyRenew, "hasRenew is reported iff some emitted entry is a renew")

	verifReached("c12-build")
}

func verifC12N() (int, int) {
	if verifThorough() {
		return 4, 3
	}
	return 3, 2
}

// Order, user entries only (0..nEnt, with and without a duplicated pointer).
func VerifC12_buildEntriesAscending() {
	nEnt, _ := verifC12N()
	verifC12Build(verifChoose(nEnt+1), 0, verifChoose(2) == 1, "entry-only acknowledgement batches are strictly ascending and non-overlapping", true)
}

// Order, gap ranges only.
func VerifC12_buildGapsAscending() {
	_, nGap := verifC12N()
	verifC12Build(0, 1+verifChoose(nGap), false, "gap-only acknowledgement batches are strictly ascending and non-overlapping", true)
}

// Order, all mixes of pending user acknowledgements and gap ranges (DESIGN §6 item 4).
func VerifC12_buildMixedAscending() {
	nEnt, nGap := verifC12N()
	if !verifThorough() {
		nEnt, nGap = 2, 2 // the interleaving of sorted acks and gaps forks per comparison
	}
	verifC12Build(1+verifChoose(nEnt), 1+verifChoose(nGap), verifChoose(2) == 1, "acknowledgement batches mixing user acks and gaps are strictly ascending and non-overlapping", true)
}

// Coverage, single acknowledgement, final status, hasRenew for every mix of 0..nEnt entries and
// 0..nGap gaps (everything but the order, which has its own harnesses above so that the order
// finding does not cut this exploration short).
func VerifC12_buildCoverage() {
	nEnt, nGap := 3, 2
	ne, ng, dup := verifChoose(nEnt+1), verifChoose(nGap+1), verifChoose(2) == 1
	if !verifThorough() && (ne+ng > 4 || dup && ne > 2) {
		// quick tier: at most 4 items in total, duplicated pointer with <= 2 states
		verifReached("c12-build-skipped-in-quick")
		return
	}
	verifC12Build(ne, ng, dup, "", false)
}

// coalesceAppendRange: merges exactly when contiguous with same type/source/epoch, otherwise
// appends; never touches earlier elements.
func VerifC12_coalesce() {
	e := verifC12NewEnv()
	srcs := [2]*source{e.s1, e.s2}
	mk := func(n string) shareAckRange {
		r := shareAckRange{firstOffset: verifNondetInt64(n + ".first"), lastOffset: verifNondetInt64(n + ".last"), sessionEpoch: verifNondetInt32(n + ".epoch"), ackType: verifNondetInt8(n + ".type")}
		r.source = srcs[verifChoose(2)]
		verifAssume(verifAnd(r.firstOffset >= 0, verifAnd(r.firstOffset <= r.lastOffset, r.lastOffset < verifC12MaxOff)))
		return r
	}
	a, b, c := mk("a"), mk("b"), mk("c")
	out := coalesceAppendRange(nil, a)
	verifAssert(len(out) == 1 && out[0] == a, "coalesce onto empty appends")
	out = coalesceAppendRange(out, b)
	out = coalesceAppendRange(out, c)
	// reference: fold
	ref := []shareAckRange{a}
	for _, r := range []shareAckRange{b, c} {
		l := &ref[len(ref)-1]
		if l.source == r.source && verifAnd(verifAnd(l.ackType == r.ackType, l.sessionEpoch == r.sessionEpoch), l.lastOffset+1 == r.firstOffset) {
			l.lastOffset = r.lastOffset
		} else {
			ref = append(ref, r)
		}
	}
	verifAssert(len(out) == len(ref), "coalesce merges exactly the contiguous same-type same-source same-epoch neighbours")
	if len(out) == len(ref) {
		ok := true
		for i := range out {
			ok = verifAnd(ok, verifAnd(out[i].firstOffset == ref[i].firstOffset, verifAnd(out[i].lastOffset == ref[i].lastOffset, verifAnd(out[i].ackType == ref[i].ackType, out[i].sessionEpoch == ref[i].sessionEpoch))))
			ok = verifAnd(ok, out[i].source == ref[i].source)
		}
		verifAssert(ok, "coalesced ranges keep first offset, extend last offset, keep type/source/epoch")
	}
	verifReached("c12-coalesce")
}

// filterStaleEntries: an entry/gap survives iff it was decoded on the sending source at an epoch
// not above the current session epoch; order is preserved; counts and the reported error follow
// the first dropped entry.
func VerifC12_filterStale() {
	e := verifC12NewEnv()
	srcs := [2]*source{e.s1, e.s2}
	epoch := verifNondetInt32("session.epoch")
	nEnt, nGap := 3, 2
	if verifThorough() {
		nEnt, nGap = 4, 3
	}
	nEnt = verifChoose(nEnt + 1)
	nGap = verifChoose(nGap + 1)
	type ent struct {
		st    *shareAckState
		src   *source
		epoch int32
	}
	ents := make([]ent, nEnt)
	entries := make([]*shareAckState, nEnt)
	for i := range ents {
		src := srcs[verifChoose(2)]
		ep := verifNondetInt32("entry.epoch")
		slab := &shareAckSlab{ackSource: src, cursor: e.cur, sessionEpoch: ep}
		st := &shareAckState{offset: int64(i), slab: slab}
		ents[i] = ent{st, src, ep}
		entries[i] = st
	}
	gaps := make([]shareAckRange, nGap)
	gsrc := make([]*source, nGap)
	gep := make([]int32, nGap)
	for i := range gaps {
		gsrc[i] = srcs[verifChoose(2)]
		gep[i] = verifNondetInt32("gap.epoch")
		gaps[i] = shareAckRange{firstOffset: int64(100 + i), lastOffset: int64(100 + i), source: gsrc[i], sessionEpoch: gep[i]}
	}
	drains := []cursorAckDrain{{cursor: e.cur, entries: entries, gaps: gaps}}
	nLive, nStale, res := filterStaleEntries(e.s1, epoch, drains)

	// reference, straight from the doc comment
	var wantE []*shareAckState
	var wantErr error
	for _, x := range ents {
		switch {
		case x.src != e.s1:
			if wantErr == nil {
				wantErr = kerr.InvalidRecordState
			}
		case x.epoch > epoch:
			if wantErr == nil {
				wantErr = kerr.InvalidShareSessionEpoch
			}
		default:
			wantE = append(wantE, x.st)
		}
	}
	var wantG []int64
	for i := range gsrc {
		if gsrc[i] == e.s1 && gep[i] <= epoch {
			wantG = append(wantG, int64(100+i))
		}
	}
	d := drains[0]
	verifAssert(len(d.entries) == len(wantE), "exactly the non-stale, non-migrated user acks survive the filter")
	if len(d.entries) == len(wantE) {
		for i := range wantE {
			verifAssert(d.entries[i] == wantE[i], "surviving user acks keep their order")
		}
	}
	verifAssert(len(d.gaps) == len(wantG), "exactly the non-stale, non-migrated gaps survive the filter")
	if len(d.gaps) == len(wantG) {
		for i := range wantG {
			verifAssert(d.gaps[i].firstOffset == wantG[i], "surviving gaps keep their order")
		}
	}
	verifAssert(nLive == int64(len(wantE)) && nLive+nStale == int64(nEnt), "live + stale counts add up to the drained user acks")
	if wantErr == nil {
		verifAssert(len(res) == 0, "no stale result without a dropped user ack")
	} else {
		verifAssert(len(res) == 1 && res[0].Err == wantErr && res[0].Topic == "t" && res[0].Partition == 0, "dropped user acks are reported once per partition with the first drop's error")
	}
	verifReached("c12-filter")
}

// tryAck with two concurrent ackers on one record, all interleavings at atomic-operation
// granularity: at most one terminal status ever wins, a renew wins only from the undecided
// state, strictZero wins only from the undecided state, and the final status is explained by
// the winners.
func VerifC12_tryAckConcurrent() {
	verifPreemptions(3)
	st := &shareAckState{offset: 5}
	init := int32(verifChoose(5)) // any prior status
	st.status.Store(init)
	sA, sB := AckStatus(1+verifChoose(4)), AckStatus(1+verifChoose(4))
	zA, zB := verifChoose(2) == 1, verifChoose(2) == 1
	var okA, okB bool
	done := make(chan struct{}, 2)
	go func() { okA = st.tryAck(sA, zA); done <- struct{}{} }()
	go func() { okB = st.tryAck(sB, zB); done <- struct{}{} }()
	<-done
	<-done
	fin := st.status.Load()
	termA, termB := sA != AckRenew, sB != AckRenew
	initTerm := init >= 1 && init <= 3
	nTerm := 0
	if okA && termA {
		nTerm++
	}
	if okB && termB {
		nTerm++
	}
	if initTerm {
		verifAssert(!okA && !okB && fin == init, "a terminal status is never overwritten")
	}
	verifAssert(nTerm <= 1, "at most one terminal acknowledgement wins per record")
	if okA && !termA || okB && !termB {
		verifAssert(init == 0, "renew only wins from the undecided state")
	}
	if okA && zA || okB && zB {
		verifAssert(init == 0, "strictZero only wins from the undecided state")
	}
	if okA && okB {
		// both can only win as renew-then-terminal
		verifAssert(termA != termB && init == 0, "two winners are always a renew followed by a terminal status")
	}
	switch {
	case okA && termA:
		verifAssert(fin == int32(sA), "final status is the winning terminal status")
	case okB && termB:
		verifAssert(fin == int32(sB), "final status is the winning terminal status")
	case okA || okB:
		verifAssert(fin == int32(AckRenew), "final status is renew when only a renew won")
	default:
		verifAssert(fin == init, "status unchanged when nobody won")
	}
	if init == 0 {
		verifAssert(okA || okB, "from the undecided state somebody wins")
	}
	verifReached("c12-tryack")
}

// ---- end to end through the real enqueue / drain / request-building code ----

var verifC12Sent []*kmsg.ShareAcknowledgeRequest

// per-partition error code the stub coordinator answers with (0 = success)
var verifC12AnswerCode int16

//verif:replace (*retryable).Request
func (r *retryable) verifC12Request(ctx context.Context, req kmsg.Request) (kmsg.Response, error) {
	ack, ok := req.(*kmsg.ShareAcknowledgeRequest)
	if !ok {
		return nil, errUnknownBroker
	}
	verifC12Sent = append(verifC12Sent, ack)
	resp := kmsg.NewPtrShareAcknowledgeResponse()
	for _, t := range ack.Topics {
		rt := kmsg.NewShareAcknowledgeResponseTopic()
		rt.TopicID = t.TopicID
		for _, p := range t.Partitions {
			rp := kmsg.NewShareAcknowledgeResponseTopicPartition()
			rp.Partition = p.Partition
			rp.ErrorCode = verifC12AnswerCode
			rt.Partitions = append(rt.Partitions, rp)
		}
		resp.Topics = append(resp.Topics, rt)
	}
	return resp, nil
}

//verif:replace (*source).signalShareAcks
func (s *source) verifC12SignalShareAcks() {}

// One ShareFetch response delivered records at offsets o0 < o1 < o2 out of one acquired range
// [o0, o2] (compacted topic: the offsets between them may be missing). As handleShareReqResp
// does, the gap ranges computed for the acquired range (maximal runs of offsets without a
// record; that is what processSharePartition's two-pointer scan emits) are queued with
// enqueueGaps. The application then acknowledges a symbolic subset of the records with
// Record.Ack's body (tryAck + appendAck) BEFORE the source's next request is built — e.g.
// PollRecords(2) followed by Ack on both records while record o2 is still buffered: the source
// loop waits for the buffer to drain and the 1s ack timer calls shareAck(nil). The real
// shareAck drains the cursor, filters, builds the ShareAcknowledge request; the stub in place
// of the network captures it. The captured AcknowledgementBatches must satisfy kfake's
// acceptance rule.
func VerifC12_shareAckRequest() { verifC12ShareAck(false) }

// Same scenario, only the paths where one drain holds user acks AND gaps: order of the batches.
func VerifC12_shareAckRequestMixedAscending() { verifC12ShareAck(true) }

func verifC12ShareAck(mixedOnly bool) {
	verifC12Sent = nil
	verifC12AnswerCode = 0
	e := verifC12NewEnv()
	s, cur := e.s1, e.cur
	s.share.sessionEpoch = 3
	e.sc.memberGen.store("m", 1)
	slab := &shareAckSlab{ackSource: s, cursor: cur, sessionEpoch: 3}
	const n = 3
	var offs [n]int64
	slab.states = make([]shareAckState, n)
	for i := 0; i < n; i++ {
		offs[i] = verifNondetInt64("record.offset")
		verifAssume(verifAnd(offs[i] >= 0, offs[i] < verifC12MaxOff))
		if i > 0 {
			verifAssume(offs[i] > offs[i-1])
		}
		slab.states[i] = shareAckState{deliveryCount: 1, offset: offs[i], slab: slab}
	}
	// gaps of acquired range [offs[0], offs[n-1]]
	var gaps []shareAckRange
	for i := 1; i < n; i++ {
		if offs[i] > offs[i-1]+1 {
			gaps = append(gaps, shareAckRange{firstOffset: offs[i-1] + 1, lastOffset: offs[i] - 1, source: s, sessionEpoch: 3, ackType: 0})
		}
	}
	if len(gaps) > 0 {
		verifAssert(cur.enqueueGaps(gaps), "gaps are accepted by an open cursor")
	}
	// the application acks some records (any terminal status or renew), in delivery order
	var acked [n]int32
	for i := 0; i < n; i++ {
		st8 := verifNondetInt8("ack.status")
		verifAssume(verifAnd(st8 >= 0, st8 <= 4))
		st := AckStatus(st8)
		if st == 0 {
			continue
		}
		if slab.states[i].tryAck(st, false) {
			slab.states[i].appendAck()
			acked[i] = int32(st)
		}
	}
	nDue := len(gaps)
	for i := 0; i < n; i++ {
		if acked[i] != 0 {
			nDue++
		}
	}
	mixed := len(gaps) > 0 && nDue > len(gaps)
	if mixedOnly && !mixed {
		verifReached("c12-e2e-not-mixed")
		return
	}
	s.shareAck(nil)
	verifRunAll()

	if nDue == 0 {
		verifAssert(len(verifC12Sent) == 0, "nothing is sent when nothing is pending")
		verifReached("c12-e2e-empty")
		return
	}
	verifAssert(len(verifC12Sent) == 1, "one ShareAcknowledge request carries the drained acks")
	if len(verifC12Sent) != 1 {
		return
	}
	req := verifC12Sent[0]
	verifAssert(len(req.Topics) == 1 && len(req.Topics[0].Partitions) == 1, "the request names the one partition")
	bs := req.Topics[0].Partitions[0].AcknowledgementBatches
	ok := true
	prevEnd := int64(-1)
	for _, b := range bs {
		ok = verifAnd(ok, verifAnd(b.FirstOffset <= b.LastOffset, b.FirstOffset > prevEnd))
		ok = verifAnd(ok, len(b.AcknowledgeTypes) == 1)
		prevEnd = b.LastOffset
	}
	if mixedOnly {
		verifAssert(ok, "ShareAcknowledge batches for a partition holding user acks and gaps are strictly ascending and non-overlapping (kfake validateOneAckBatch accepts them)")
		verifReached("c12-e2e-mixed")
		return
	}
	if !mixed {
		verifAssert(ok, "ShareAcknowledge batches for a partition are strictly ascending and non-overlapping (kfake validateOneAckBatch accepts them)")
	}
	verifAssert(len(cur.pendingAcks) == 0 && len(cur.pendingGaps) == 0, "the drain leaves nothing queued")
	verifAssert(e.sc.pendingAcks.Load() == 0, "the pending-acks counter returns to zero after the callback entry ran")
	verifReached("c12-e2e")
}

// The next poll finalises the previous one (finalizePreviousPoll, called at the top of every
// PollRecords): every record of the previous poll that has no FINAL outcome yet — never
// acknowledged, or only renewed (a renew is not a final outcome and does not persist across
// polls) — is accepted; a record with a final outcome keeps it. Each of 3 records starts from
// any of {untouched, accept, release, reject, renew} as the application's Record.Ack body
// leaves it (tryAck + appendAck, renew still queued on the cursor = not yet confirmed by the
// broker). After finalizePreviousPoll the real shareAck drains and builds the request: each
// record offset appears in exactly one batch carrying its one final outcome.
func VerifC12_nextPollFinalizes() {
	verifC12Sent = nil
	verifC12AnswerCode = 0
	e := verifC12NewEnv()
	s, cur := e.s1, e.cur
	s.share.sessionEpoch = 3
	e.sc.memberGen.store("m", 1)
	slab := &shareAckSlab{ackSource: s, cursor: cur, sessionEpoch: 3}
	const n = 3
	slab.states = make([]shareAckState, n)
	var init [n]AckStatus
	for i := 0; i < n; i++ {
		slab.states[i] = shareAckState{deliveryCount: 1, offset: int64(10 + 2*i), slab: slab}
		init[i] = AckStatus(verifChoose(5))
		if init[i] != 0 {
			verifAssert(slab.states[i].tryAck(init[i], false), "the first acknowledgement of a record wins")
			slab.states[i].appendAck()
		}
		e.sc.lastPolled = append(e.sc.lastPolled, &slab.states[i])
	}
	e.sc.finalizePreviousPoll()
	verifAssert(len(e.sc.lastPolled) == 0, "the previous poll's record list is emptied by the next poll")
	for i := 0; i < n; i++ {
		fin := AckStatus(slab.states[i].status.Load())
		if init[i] == 0 || init[i] == AckRenew {
			verifAssert(fin == AckAccept, "a record left without a final outcome (unacknowledged or only renewed) is accepted at the next poll")
		} else {
			verifAssert(fin == init[i], "a final outcome chosen by the application is not overridden by the next poll")
		}
	}
	s.shareAck(nil)
	verifRunAll()
	verifAssert(len(verifC12Sent) == 1, "one ShareAcknowledge request carries the finalised records")
	if len(verifC12Sent) != 1 {
		return
	}
	req := verifC12Sent[0]
	verifAssert(len(req.Topics) == 1 && len(req.Topics[0].Partitions) == 1, "the request names the one partition")
	bs := req.Topics[0].Partitions[0].AcknowledgementBatches
	for i := 0; i < n; i++ {
		off := int64(10 + 2*i)
		cnt := 0
		var typ int8
		for _, b := range bs {
			if b.FirstOffset <= off && off <= b.LastOffset {
				cnt++
				if len(b.AcknowledgeTypes) == 1 {
					typ = b.AcknowledgeTypes[0]
				} else if int(off-b.FirstOffset) < len(b.AcknowledgeTypes) {
					typ = b.AcknowledgeTypes[off-b.FirstOffset]
				}
			}
		}
		verifAssert(cnt == 1, "every record of the previous poll is acknowledged exactly once in the request built after the next poll")
		want := int8(init[i])
		if init[i] == 0 || init[i] == AckRenew {
			want = int8(AckAccept)
		}
		verifAssert(typ == want, "the acknowledged outcome is the record's final outcome")
	}
	verifAssert(e.sc.pendingAcks.Load() == 0, "the pending-acks counter returns to zero after the callback entry ran")
	verifReached("c12-next-poll")
}

// A ShareAcknowledge answered with a retriable per-partition error (REQUEST_TIMED_OUT): the
// acknowledgements are put back on the cursor to be sent again. They are still pending for
// FlushAcks: the pending counter keeps counting them (FlushAcks returns only after their
// callback ran), no callback runs for them yet, and the retry — answered with success — sends
// the same acknowledgements again and brings the counter to zero.
func VerifC12_retriableAckErrorKeepsPending() {
	verifC12Sent = nil
	verifC12AnswerCode = 7 // REQUEST_TIMED_OUT
	defer func() { verifC12AnswerCode = 0 }()
	e := verifC12NewEnv()
	s, cur := e.s1, e.cur
	s.share.sessionEpoch = 3
	e.sc.memberGen.store("m", 1)
	slab := &shareAckSlab{ackSource: s, cursor: cur, sessionEpoch: 3}
	n := 1 + verifChoose(3)
	slab.states = make([]shareAckState, n)
	for i := 0; i < n; i++ {
		slab.states[i] = shareAckState{deliveryCount: 1, offset: int64(10 + 2*i), slab: slab}
		st := AckStatus(1 + verifChoose(3)) // accept / release / reject
		verifAssert(slab.states[i].tryAck(st, false), "the first acknowledgement of a record wins")
		slab.states[i].appendAck()
	}
	verifAssert(e.sc.pendingAcks.Load() == int64(n), "every user acknowledgement is pending")
	s.shareAck(nil)
	verifRunAll()
	verifAssert(len(verifC12Sent) == 1, "the acknowledgements were sent once")
	verifAssert(len(cur.pendingAcks) == n, "acknowledgements answered with a retriable error are queued on the cursor again")
	verifAssert(e.sc.pendingAcks.Load() == int64(n), "re-queued acknowledgements stay pending: FlushAcks keeps waiting for them")
	verifC12AnswerCode = 0
	s.shareAck(nil)
	verifRunAll()
	verifAssert(len(verifC12Sent) == 2, "the re-queued acknowledgements are sent again")
	if len(verifC12Sent) == 2 {
		a, b := verifC12Sent[0].Topics[0].Partitions[0].AcknowledgementBatches, verifC12Sent[1].Topics[0].Partitions[0].AcknowledgementBatches
		same := len(a) == len(b)
		for i := 0; same && i < len(a); i++ {
			same = a[i].FirstOffset == b[i].FirstOffset && a[i].LastOffset == b[i].LastOffset && len(a[i].AcknowledgeTypes) == len(b[i].AcknowledgeTypes) && a[i].AcknowledgeTypes[0] == b[i].AcknowledgeTypes[0]
		}
		verifAssert(same, "the retry carries the same acknowledgement batches")
	}
	verifAssert(len(cur.pendingAcks) == 0 && e.sc.pendingAcks.Load() == 0, "after the successful retry nothing is pending")
	verifReached("c12-retriable-ack-error")
}
