package kgo

import (
	"context"
	"sync"
)

// C14: buffered/unbuffered hooks pair up exactly once per record. The hook-pairing and gauge
// assertions live in the C01 (produce side) and C04 (fetch side) kernels' final checks
// (checkGlobal / checkFinal: "every promise is paired with one unbuffered hook carrying the
// same error", "each record is buffered once and unbuffered once with the right polled flag",
// gauges back to their pre-buffer values); this file runs those kernels under C14.

func VerifC14_produceFinishSuccess()  { VerifC01_finishBatchSuccess() }
func VerifC14_produceFinishError()    { VerifC01_finishBatchError() }
func VerifC14_produceFailBuffered()   { VerifC01_failBufferedRecords() }
func VerifC14_produceEarlyFail()      { VerifC01_produceEarlyFail() }
func VerifC14_produceBufferRecord()   { VerifC01_bufferRecordArms() }
func VerifC14_fetchTake()             { VerifC04_takeBuffered() }
func VerifC14_fetchDiscard()          { VerifC04_discardBuffered() }
func VerifC14_fetchTakeN()            { VerifC04_takeNBuffered() }

// Session stop (rebalance, RemoveConsumePartitions, purge) discards buffered fetches and hands
// their unbuffered-hook dispatches to a goroutine; a poll that starts right after queues new
// dispatches for the fetches it takes. Whatever the interleaving of that goroutine with the
// poller, every record's OnFetchRecordUnbuffered runs exactly once — discarded records with
// polled=false, polled records with polled=true. Two sources with one buffered record each are
// discarded by the real stopSession; then 1..2 further sources are buffered and taken by a
// "poll" (takeBuffered + runDeferredFetchHooks) before, or after, the dispatch goroutine ran.
func verifC14Source(cl *Client, topic string, off int64) (*source, *Record) {
	s := &source{cl: cl, sem: make(chan struct{})}
	s.buffered.doneFetch = make(chan bool, 4)
	s.buffered.usedOffsets = make(usedOffsets)
	cur := &cursor{topic: topic, partition: 0, source: s}
	cur.offset = off
	r := &Record{Topic: topic, Partition: 0, Offset: off, Value: []byte{1}}
	fp := FetchPartition{Partition: 0, Records: []*Record{r}}
	s.buffered.usedOffsets[topic] = map[int32]*cursorOffsetNext{0: {cursorOffset: cursorOffset{offset: off + 1, lastConsumedEpoch: 3}, from: cur}}
	s.buffered.fetch.Topics = []FetchTopic{{Topic: topic, Partitions: []FetchPartition{fp}}}
	s.hookBuffered(&s.buffered.fetch)
	return s, r
}

func VerifC14_stopSessionDiscardThenPoll() {
	cl := &Client{}
	cl.cfg.logger = new(nopLogger)
	hk := &verifC04Hook{buf: map[*Record]int{}, unbuf: map[*Record]int{}, polled: map[*Record]bool{}}
	cl.cfg.hooks = hooks{hk}
	cl.ctx = context.Background()
	c := &cl.consumer
	c.cl = cl
	ctx, cancel := context.WithCancel(cl.ctx)
	sess := &consumerSession{c: c}
	sess.ctx, sess.cancel = ctx, cancel
	sess.workersCond = sync.NewCond(&sess.workersMu)
	c.session.Store(sess)

	s1, r1 := verifC14Source(cl, "a", 10)
	s2, r2 := verifC14Source(cl, "b", 20)
	c.sourcesReadyForDraining = []*source{s1, s2}

	c.stopSession()
	c.sessionChangeMu.Unlock() // stopSession returns holding it; its callers release it
	if verifChoose(2) == 1 {
		verifRunAll() // the dispatch goroutine gets to run before the next poll
	}

	// the next poll takes freshly buffered fetches from 1..2 sources
	nPoll := 1 + verifChoose(2)
	var polled []*Record
	for i := 0; i < nPoll; i++ {
		s, r := verifC14Source(cl, []string{"c", "d"}[i], int64(30+10*i))
		polled = append(polled, r)
		c.sourcesReadyMu.Lock()
		s.takeBuffered(nil)
		c.sourcesReadyMu.Unlock()
	}
	if verifChoose(2) == 1 {
		verifRunAll()
	}
	c.runDeferredFetchHooks()
	verifRunAll()

	for _, r := range []*Record{r1, r2} {
		verifAssert(hk.buf[r] == 1 && hk.unbuf[r] == 1 && !hk.polled[r], "a record discarded at session stop is unbuffered exactly once, as not polled")
	}
	for _, r := range polled {
		verifAssert(hk.buf[r] == 1 && hk.unbuf[r] == 1 && hk.polled[r], "a polled record is unbuffered exactly once, as polled")
	}
	verifAssert(c.bufferedRecords.Load() == 0 && c.bufferedBytes.Load() == 0, "fetch gauges return to zero")
	verifReached("c14-stop-session")
}

// Two pollers: A has taken two sources and is inside its unbuffered-hook dispatch (user hooks
// may be slow: the hook yields) when B takes two more sources and dispatches its own. Each
// queued dispatch runs exactly once — every record of all four sources is unbuffered exactly
// once, as polled — whatever the interleaving (2 delays; thorough 3).
type verifC14YieldHook struct {
	unbuf map[*Record]int
}

func (h *verifC14YieldHook) OnFetchRecordBuffered(r *Record) {}
func (h *verifC14YieldHook) OnFetchRecordUnbuffered(r *Record, polled bool) {
	h.unbuf[r]++
	verifYield()
}

func VerifC14_concurrentPollersDeferredHooks() {
	delays := 2
	if verifThorough() {
		delays = 3
	}
	verifPreemptions(delays)
	cl := &Client{}
	cl.cfg.logger = new(nopLogger)
	hk := &verifC14YieldHook{unbuf: map[*Record]int{}}
	cl.cfg.hooks = hooks{hk}
	cl.ctx = context.Background()
	c := &cl.consumer
	c.cl = cl
	var recs []*Record
	take := func(i int) {
		s, r := verifC14Source(cl, []string{"a", "b", "c", "d"}[i], int64(10*(i+1)))
		recs = append(recs, r)
		c.sourcesReadyMu.Lock()
		s.takeBuffered(nil)
		c.sourcesReadyMu.Unlock()
	}
	take(0)
	take(1)
	doneA, doneB := false, false
	go func() { c.runDeferredFetchHooks(); doneA = true }()
	go func() {
		take(2)
		take(3)
		c.runDeferredFetchHooks()
		doneB = true
	}()
	verifRunAll()
	c.runDeferredFetchHooks() // anything still queued is dispatched by the next poll
	verifAssert(doneA && doneB, "both pollers finish")
	for _, r := range recs {
		verifAssert(hk.unbuf[r] == 1, "with concurrent pollers every polled record is unbuffered exactly once")
	}
	verifAssert(c.bufferedRecords.Load() == 0 && c.bufferedBytes.Load() == 0, "fetch gauges return to zero")
	verifReached("c14-concurrent-pollers")
}
