package kgo

// C14: buffered/unbuffered hooks pair up exactly once per record. The hook-pairing and gauge
// assertions live in the C01 (produce side) and C04 (fetch side) kernels' final checks
// (checkGlobal / checkFinal: "every promise is paired with one unbuffered hook carrying the
// same error", "each record is buffered once and unbuffered once with the right polled flag",
// gauges back to their pre-buffer values); this file runs those kernels under C14.

func VerifC14_produceFinishSuccess()  { VerifC01_finishBatchSuccess() }
func VerifC14_produceFinishError()    { VerifC01_finishBatchError() }
func VerifC14_produceFailBuffered()   { VerifC01_failBufferedRecords() }
func VerifC14_produceEarlyFail()      { VerifC01_produceEarlyFail() }
func VerifC14_produceBufferRecord()   { VerifC01_bufferRecordArms() }
func VerifC14_fetchTake()             { VerifC04_takeBuffered() }
func VerifC14_fetchDiscard()          { VerifC04_discardBuffered() }
func VerifC14_fetchTakeN()            { VerifC04_takeNBuffered() }
