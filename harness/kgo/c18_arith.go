package kgo

import "context"

// Arithmetic harnesses: only the *numbers* are symbolic (accumulated batch lengths, accumulated
// request length, limits); slices stay tiny. They cover int32 overflow / wrap-around in the
// accounting for every value inside the configured limits, which the concrete-shape size
// harness cannot reach.

// number of base-128 groups needed for u (reference, written from the varint definition)
func verifC18RefUvarLen(u uint64) int64 {
	n := int64(1)
	for _, lim := range []uint64{1 << 7, 1 << 14, 1 << 21, 1 << 28, 1 << 35} {
		n += int64(verifIteInt(u >= lim, 1, 0))
	}
	return n
}

func verifC18RefVarintLen(v int32) int64 {
	z := uint32(v<<1) ^ uint32(v>>31)
	return verifC18RefUvarLen(uint64(z))
}

// recordNumbers.wireLength, uvarlen, flexibleWireLength, v0wireLength, batchLength against the
// varint definition, in 64-bit arithmetic (no wrap) for every length up to 2^30.
func VerifC18_arith_lengths() {
	switch verifChoose(3) {
	case 0:
		l := verifNondetInt32("lengthField")
		verifAssume(verifAnd(l >= 0, l <= 1<<30))
		got := recordNumbers{lengthField: l}.wireLength()
		verifAssert(int64(got) == verifC18RefVarintLen(l)+int64(l), "record wire length = zigzag varint length of the length field + the length field, without wrap")
	case 1:
		l := verifNondetInt("len")
		verifAssume(verifAnd(l >= 0, l <= 1<<30))
		verifAssert(int64(uvarlen(l)) == verifC18RefUvarLen(uint64(l)+1), "uvarlen(l) is the uvarint length of l+1 (compact length prefix)")
	case 2:
		w := verifNondetInt32("wireLength")
		v1 := verifNondetInt32("v1wireLength")
		verifAssume(verifAnd(w >= 65, w <= 1<<30))
		verifAssume(verifAnd(v1 >= 38, v1 <= 1<<30))
		b := &recBatch{wireLength: w, v1wireLength: v1}
		verifAssert(int64(b.batchLength()) == int64(w)-4, "batchLength drops the 4-byte length prefix")
		verifAssert(int64(b.flexibleWireLength()) == int64(w)-4+verifC18RefUvarLen(uint64(w)-4+1), "flexible wire length = compact prefix + batch, without wrap")
		verifAssert(int64(b.v0wireLength()) == int64(v1)-8, "v0 wire length is the v1 length minus one timestamp")
		for _, pv := range []int32{-1, 0, 1, 2, 3, 8, 9, 13} {
			got, flex, ids := b.wireLengthForProduceVersion(pv)
			verifAssert(flex == (pv >= 9) && ids == (pv >= 13), "flexible from v9, topic ids from v13")
			if pv < 0 {
				verifAssert(verifAnd(verifAnd(got >= w, got >= v1), got >= b.flexibleWireLength()), "unknown version uses the largest of the three encodings")
			}
		}
	}
	verifReached("c18-arith-lengths")
}

func verifC18ArithBatch(e *verifC18EnvT, rb *recBuf, pv int32) *recBatch {
	// one real record, then the accumulated lengths are replaced by symbolic ones ("as if many
	// more records had been buffered"), constrained by what tryBuffer guarantees for pv
	verifAssert(e.buffer(rb, &Record{Key: []byte{1}, Value: []byte{2, 3}, Timestamp: verifC18Time(0)}), "bufferRecord processes the record")
	b := rb.batches[0]
	w, v1 := verifNondetInt32("batch.wireLength"), verifNondetInt32("batch.v1wireLength")
	verifAssume(verifAnd(w >= b.wireLength, v1 >= b.v1wireLength))
	b.wireLength, b.v1wireLength = w, v1
	m := rb.maxRecordBatchBytes
	switch {
	case pv < 0:
		verifAssume(verifAnd(w <= m, v1 <= m))
	case pv <= 1:
		verifAssume(v1-8 <= m)
	case pv == 2:
		verifAssume(v1 <= m)
	case pv <= 8:
		verifAssume(w <= m)
	default:
		// flexible: tryBuffer checks compact-prefix(before) + batch(after) <= m and the prefix is
		// at least one byte, so the stored wireLength (which counts a 4-byte prefix) is <= m+3
		verifAssume(int64(w) <= int64(m)+3)
	}
	return b
}

// One tryAddBatch step from an arbitrary accumulated request length: the decision and the new
// length never wrap, the new length stays within the limit, and a batch is rejected only when
// it really would not fit.
func VerifC18_arith_tryAddBatch() {
	pvs := []int32{-1, 2, 3, 9, 13}
	if verifThorough() {
		pvs = []int32{-1, 0, 1, 2, 3, 8, 9, 12, 13}
	}
	pv := pvs[verifChoose(len(pvs))]
	limit, cfgMax := verifNondetInt32("maxBrokerWriteBytes"), verifNondetInt32("maxRecordBatchBytes")
	verifAssume(verifAnd(limit >= 1<<10, limit <= 1<<30))
	verifAssume(verifAnd(cfgMax >= 512, cfgMax <= limit))
	id := "client-id"
	e := verifC18NewEnv(pv, &id, nil, false, limit, cfgMax)
	var tid [16]byte
	tid[0] = 1
	topic := verifC18Topics[0]
	existing := 2 * verifChoose(2) // partitions of this topic already in the request
	if verifThorough() {
		topic = verifC18Topics[verifChoose(2)]
		existing = verifChoose(3)
	}
	rb := e.addBuf(topic, tid, 5)
	b := verifC18ArithBatch(e, rb, pv)

	p := &produceRequest{producerID: -1, wireLengthLimit: limit}
	acc := verifNondetInt32("request.wireLength")
	verifAssume(verifAnd(acc >= e.cl.baseProduceRequestLength(), acc <= limit))
	p.wireLength = acc
	for i := existing; i > 0; i-- {
		other := &recBatch{owner: rb, wireLength: 65}
		p.batches.addBatch(topic, tid, int32(100+i), 0, other)
	}

	batchLen, _, _ := b.wireLengthForProduceVersion(pv)
	added := p.tryAddBatch(pv, rb, b)
	if added {
		verifAssert(p.wireLength <= limit, "accepted batch keeps the accounted request length within the limit")
		verifAssert(int64(p.wireLength)-int64(acc) >= int64(batchLen)+4, "accepted batch grows the accounted length by at least partition index + batch (no wrap)")
		verifAssert(int64(p.wireLength)-int64(acc) <= int64(batchLen)+4+2+int64(len(topic))+4+17, "accepted batch grows the accounted length by at most batch + partition + topic overhead")
		verifAssert(b.frozen, "accepted batch is frozen")
	} else {
		verifAssert(p.wireLength == acc, "rejected batch leaves the accounted length unchanged")
		verifAssert(int64(acc)+int64(batchLen)+4+2+int64(len(topic))+4+17 > int64(limit), "a batch is rejected only when it does not fit")
	}
	verifReached("c18-arith-tryAddBatch")
}

// One tryBuffer step onto a batch with arbitrary accumulated lengths (record-batch versions):
// the new length is exact in 64-bit arithmetic, the batch stays within maxBatchBytes, and the
// record is refused only when it would not fit.
func VerifC18_arith_tryBuffer() {
	pvs := []int32{3, 8, 9, 13}
	pv := pvs[verifChoose(len(pvs))]
	limit, cfgMax := verifNondetInt32("maxBrokerWriteBytes"), verifNondetInt32("maxRecordBatchBytes")
	verifAssume(verifAnd(limit >= 1<<10, limit <= 1<<30))
	verifAssume(verifAnd(cfgMax >= 512, cfgMax <= limit))
	e := verifC18NewEnv(pv, nil, nil, false, limit, cfgMax)
	var tid [16]byte
	rb := e.addBuf("t", tid, 0)
	b := verifC18ArithBatch(e, rb, pv)
	w0 := b.wireLength
	before, _, _ := b.wireLengthForProduceVersion(pv)

	// second record: key 2, value 3, one header ("h", 1 byte), 5 ms after the first
	r := &Record{Key: []byte{1, 2}, Value: []byte{1, 2, 3}, Headers: []RecordHeader{{Key: "h", Value: []byte{9}}}, Timestamp: verifC18Time(5), Context: context.Background()}
	const body = 1 + 1 + 1 + (1 + 2) + (1 + 3) + 1 + (1 + 1 + 1 + 1) // attrs, tsDelta, offsetDelta, key, value, header count, header
	const recWire = 1 + body
	appended, aborted := b.tryBuffer(promisedRec{ctx: context.Background(), promise: func(*Record, error) {}, Record: r}, pv, rb.maxRecordBatchBytes, false)
	verifAssert(!aborted, "no abort without abortOnNewBatch")
	after, _, _ := b.wireLengthForProduceVersion(pv)
	_ = after
	if appended {
		verifAssert(int64(b.wireLength) == int64(w0)+recWire, "appending adds exactly the record's wire length (no wrap)")
		if pv <= 8 {
			verifAssert(after <= rb.maxRecordBatchBytes, "non-flexible: length-prefixed batch stays within the partition's max batch bytes after the append")
		} else {
			verifAssert(int64(b.wireLength) <= int64(rb.maxRecordBatchBytes)+3, "flexible: the stored wire length keeps the invariant wireLength <= max+3 after the append")
		}
		verifAssert(int64(b.wireLength)-4 <= int64(rb.maxRecordBatchBytes) && int64(b.wireLength)-4 <= int64(cfgMax), "the record batch proper (without length prefix) stays within the configured max batch bytes")
		verifAssert(len(b.records) == 2 && r.LeaderEpoch == body, "record is stored with its length field")
	} else {
		verifAssert(b.wireLength == w0 && len(b.records) == 1, "refused record leaves the batch unchanged")
		verifAssert(int64(before)+recWire+1 > int64(rb.maxRecordBatchBytes), "a record is refused only when it does not fit")
	}
	verifReached("c18-arith-tryBuffer")
}
