package kgo

import (
	"context"
	"math"
	"time"

	"github.com/twmb/franz-go/pkg/kmsg"
)

// ---- shared C18 environment: a Client / sink / recBufs built directly (never NewClient) ----

// The drain loop is not the subject: records are buffered with the real bufferRecord and the
// request is cut with the real createReq, called synchronously by the harness.
//
//verif:replace (*sink).maybeDrain
func (s *sink) verifC18MaybeDrain() {}

type verifC18EnvT struct {
	cl       *Client
	s        *sink
	promised int // number of promise callbacks (records failed while buffering)
}

func verifC18NewEnv(pv int32, id, txn *string, tx890p2 bool, limit, batchMax int32) *verifC18EnvT {
	cl := &Client{}
	cl.cfg.logger = new(nopLogger)
	cl.ctx = context.Background()
	cl.prsPool = newPrsPool()
	cl.cfg.id = id
	cl.cfg.txnID = txn
	cl.cfg.maxBrokerWriteBytes = limit
	cl.cfg.maxRecordBatchBytes = func(string) int32 { return batchMax }
	cl.cfg.recordRetries = math.MaxInt64
	cl.cfg.acks = AllISRAcks()
	cl.cfg.produceTimeout = 10 * time.Second
	cl.producer.tx890p2.Store(tx890p2)
	if id != nil {
		cl.reqFormatter = kmsg.NewRequestFormatter(kmsg.FormatterClientID(*id))
	} else {
		cl.reqFormatter = kmsg.NewRequestFormatter()
	}
	s := cl.newSink(1)
	s.produceVersion.Store(pv)
	return &verifC18EnvT{cl: cl, s: s}
}

// addBuf mirrors what metadata.go does for a new partition: the batch limit is the real
// maxRecordBatchBytesForTopic, the buffer is registered with the real addRecBuf.
func (e *verifC18EnvT) addBuf(topic string, id [16]byte, partition int32) *recBuf {
	rb := &recBuf{
		cl:                  e.cl,
		topic:               topic,
		topicID:             id,
		partition:           partition,
		maxRecordBatchBytes: e.cl.maxRecordBatchBytesForTopic(topic),
		sink:                e.s,
	}
	e.s.addRecBuf(rb)
	return rb
}

func (e *verifC18EnvT) buffer(rb *recBuf, r *Record) bool {
	r.Context = context.Background()
	pr := promisedRec{ctx: context.Background(), promise: func(*Record, error) { e.promised++ }, Record: r}
	return rb.bufferRecord(pr, false)
}

const verifC18BaseMillis = 1_700_000_000_000

func verifC18Time(deltaMillis int64) time.Time {
	return time.UnixMilli(verifC18BaseMillis + deltaMillis)
}

// ---- reference wire-format helpers (written from the Kafka protocol guide) ----

func verifBE16(b []byte) int16 { return int16(uint16(b[0])<<8 | uint16(b[1])) }
func verifBE32(b []byte) int32 {
	return int32(uint32(b[0])<<24 | uint32(b[1])<<16 | uint32(b[2])<<8 | uint32(b[3]))
}
func verifBE64(b []byte) int64 {
	return int64(uint64(uint32(verifBE32(b)))<<32 | uint64(uint32(verifBE32(b[4:]))))
}

// verifC18SplitFrame checks the request header of a framed request and returns the body.
// Header: int32 size, int16 key, int16 version, int32 correlation id, nullable string client
// id (never compact), and for flexible requests an empty tag section.
func verifC18SplitFrame(frame []byte, version int16, corr int32, id *string) (body []byte, ok bool) {
	if len(frame) < 14 {
		return nil, false
	}
	if int(verifBE32(frame)) != len(frame)-4 {
		return nil, false
	}
	if verifBE16(frame[4:]) != 0 || verifBE16(frame[6:]) != version || verifBE32(frame[8:]) != corr {
		return nil, false
	}
	at := 14
	idl := verifBE16(frame[12:])
	if id == nil {
		if idl != -1 {
			return nil, false
		}
	} else {
		if int(idl) != len(*id) || len(frame) < at+len(*id) || string(frame[at:at+len(*id)]) != *id {
			return nil, false
		}
		at += len(*id)
	}
	if version >= 9 {
		if len(frame) <= at || frame[at] != 0 {
			return nil, false
		}
		at++
	}
	return frame[at:], true
}
