package kgo

import (
	"bytes"
	"hash/crc32"

	"github.com/twmb/franz-go/pkg/kmsg"
)

// Stub compressor variant: the Compressor is a contract stub returning arbitrary bytes of a
// chosen length and an arbitrary codec 1..4 (or nil = error). The patched length / attribute
// fields, the CRC, and for flexible versions the shifted-down compact length prefix must stay
// consistent; for message sets the wrapper message must be well formed.

type verifC18Compressor struct {
	outLen  int // -1 = return nil (error)
	codec   CompressionCodecType
	out     []byte
	srcLen  int
	sawZstd bool
	calls   int
}

func (c *verifC18Compressor) Compress(dst *bytes.Buffer, src []byte, flags ...CompressFlag) ([]byte, CompressionCodecType) {
	c.calls++
	c.srcLen = len(src)
	for _, f := range flags {
		if f == CompressDisableZstd {
			c.sawZstd = true
		}
	}
	if c.outLen < 0 {
		return nil, CodecError
	}
	n := c.outLen
	if n >= 900 { // 900..1100 are relative to the input: 1000 = same length, 1001 = one longer, 999 = one shorter
		n = len(src) + (n - 1000)
	}
	c.out = verifNondetBytes("compressed", n)
	return c.out, c.codec
}

func VerifC18_compressed() {
	vs := []int16{0, 2, 3, 8, 9}
	if verifThorough() {
		vs = []int16{0, 1, 2, 3, 6, 7, 8, 9, 12, 13}
	}
	ev := vs[verifChoose(len(vs))]
	comp := &verifC18Compressor{}
	comp.outLen = []int{-1, 0, 3, 40, 999, 1000, 1001}[verifChoose(7)]
	codec := verifNondetInt8("codec")
	verifAssume(verifAnd(codec >= 1, codec <= 4))
	comp.codec = CompressionCodecType(codec)

	cid := "cl"
	var txn *string
	tx := verifChoose(2) == 1
	if tx {
		t := "txn"
		txn = &t
	}
	e := verifC18NewEnv(int32(ev), &cid, txn, ev >= 12, 100<<20, 1000012)
	e.cl.cfg.compressor = comp
	var tid [16]byte
	tid[0] = 1
	rb := e.addBuf("topic", tid, 2)
	// record 0 has a 70-byte value: the uncompressed batch is >= 127 bytes, so its compact
	// (flexible) length prefix takes two bytes and shrinks to one when compressed small
	nRecs := 1 + verifChoose(2)
	var want []verifC18WantRec
	for i := 0; i < nRecs; i++ {
		r := &Record{Key: verifC18Bytes(i), Value: verifC18Bytes(70 - 69*i), Timestamp: verifC18Time(int64(i * 3))}
		verifAssert(e.buffer(rb, r), "bufferRecord processes the record")
		want = append(want, verifC18WantRec{key: r.Key, val: r.Value, ms: verifC18BaseMillis + int64(i*3)})
	}
	pid, epoch := int64(77), int16(3)
	req, _, _ := e.s.createReq(pid, epoch)
	req.SetVersion(ev)
	frame := e.cl.reqFormatter.AppendRequest(nil, req, 5)
	verifAssert(comp.calls == 1, "the compressor is called once per batch")
	verifAssert(comp.sawZstd == (ev < 7), "CompressDisableZstd is passed exactly for produce versions below 7")
	verifAssert(int32(len(frame)) <= req.wireLength, "compressed request is not longer than the accounted uncompressed length")

	body, ok := verifC18SplitFrame(frame, ev, 5, &cid)
	verifAssert(ok, "request header is well formed")
	dec := kmsg.ProduceRequest{Version: ev}
	verifAssert(dec.ReadFrom(body) == nil, "request body decodes as a ProduceRequest of the negotiated version")
	if len(dec.Topics) != 1 || len(dec.Topics[0].Partitions) != 1 {
		verifFail("exactly one topic and partition are written")
		return
	}
	raw := dec.Topics[0].Partitions[0].Records
	m := req.metrics["topic"][2]
	verifAssert(m.NumRecords == nRecs && m.UncompressedBytes == comp.srcLen, "batch metrics report the record count and uncompressed size")

	if ev >= 3 {
		used := comp.out != nil && len(comp.out) < comp.srcLen // compressed output is used only when strictly shorter
		if used {
			verifC18CheckRecordBatchC(raw, want, pid, epoch, 0, tx, comp.out, int16(codec))
			verifAssert(m.CompressedBytes == len(comp.out) && m.CompressionType == uint8(codec), "batch metrics report the compressed size and codec")
			verifReached("c18-compressed-used")
		} else {
			verifC18CheckRecordBatch(raw, want, pid, epoch, 0, tx)
			verifAssert(m.CompressedBytes == m.UncompressedBytes && m.CompressionType == 0, "batch metrics report no compression")
		}
	} else {
		magic := byte(ev >> 1)
		// wrapper message: offset(8) size(4) crc(4) magic(1) attrs(1) [timestamp(8)] key(-1: 4) value(4+n)
		wrapped := 26 + len(comp.out)
		if magic == 1 {
			wrapped += 8
		}
		used := comp.out != nil && wrapped < comp.srcLen
		if used {
			r := &verifC18Rd{b: raw}
			off, size := r.i64(), r.i32()
			start := r.at
			crc := r.i32()
			crcFrom := r.at
			gotMagic, attrs := r.u8(), r.u8()
			var ts int64
			if magic == 1 {
				ts = r.i64()
			}
			kl, vl := r.i32(), r.i32()
			verifAssert(!r.bad, "wrapper message is complete")
			if r.bad {
				return
			}
			verifAssert(int(off) == nRecs-1, "wrapper message offset is the last inner offset")
			verifAssert(int(size) == len(raw)-start, "wrapper message size covers the rest of the message set")
			verifAssert(gotMagic == magic && int8(attrs) == codec, "wrapper message carries the magic and the codec in its attributes")
			if magic == 1 {
				verifAssert(ts == want[0].ms, "wrapper message timestamp is the first record's timestamp")
			}
			verifAssert(uint32(crc) == crc32.ChecksumIEEE(raw[crcFrom:]), "wrapper message CRC is the IEEE CRC-32 of everything after the CRC field")
			verifAssert(kl == -1, "wrapper message key is null")
			verifAssert(int(vl) == len(comp.out) && verifC18SameBytes(raw[r.at:], false, comp.out), "wrapper message value is exactly the compressor's output")
			verifReached("c18-compressed-used")
		} else {
			verifC18CheckMessageSet(raw, magic, want)
		}
	}
	verifReached("c18-compressed")
}

// Compression at the compact-length-prefix boundaries, and re-encoding of a buffered batch.
//
// (a) Flexible versions write the records as compact bytes (uvarint of length+1). The batch is
// written uncompressed first, compressed in place, and the prefix re-written; the compressed
// batch has to be shifted down exactly when the NEW prefix is shorter than the old one. The
// interesting inputs are uncompressed batch lengths at 126..129 and 16382..16385 (length+1
// crossing 128 / 16384) against compressed lengths on either side. One record whose value
// length puts the uncompressed batch at every length in those windows; compressor output of
// 3 bytes, one byte shorter than the input, or exactly at the lower boundary.
// (b) A batch that stays buffered is encoded again on retry, possibly under a different codec
// decision (zstd is disabled below produce v7; a compressor may decline): the second
// encoding's attributes carry the second codec only.
func VerifC18_compressedBoundaryAndReencode() {
	verifUnwind(20000) // byte loops over a 16 KiB value
	ev := []int16{9, 12}[verifChoose(2)]
	comp := &verifC18Compressor{}
	window := verifChoose(2)
	delta := verifChoose(5) // uncompressed batch length window: boundary-2 .. boundary+2
	comp.outLen = []int{3, 999}[verifChoose(2)]
	codec := int8(1 + verifChoose(4))
	comp.codec = CompressionCodecType(codec)
	cid := "cl"
	e := verifC18NewEnv(int32(ev), &cid, nil, ev >= 12, 100<<20, 1000012)
	e.cl.cfg.compressor = comp
	var tid [16]byte
	tid[0] = 1
	rb := e.addBuf("topic", tid, 2)

	// a record with an empty non-null key and a v-byte value occupies 7+v bytes (v < 8192: the
	// record length and value length varints take 1 byte below 57/64 and 2..3 bytes above);
	// the batch is 61 header bytes + records. Pick v so that 61 + recordSize == target.
	boundary := []int{127, 16383}[window]
	target := boundary - 2 + delta
	v := 0
	for cand := boundary - 90; cand < boundary-40; cand++ {
		body := 1 + 1 + 1 + 1 + kbinVarintLenC18(int32(cand)) + cand + 1 // attrs, tsdelta, offdelta, keylen(0 => 1 byte), vallen, value, header count
		if 61+kbinVarintLenC18(int32(body))+body == target {
			v = cand
			break
		}
	}
	verifAssume(v > 0)
	r := &Record{Key: []byte{}, Value: verifC18Bytes(v), Timestamp: verifC18Time(0)}
	verifAssert(e.buffer(rb, r), "bufferRecord processes the record")
	want := []verifC18WantRec{{key: r.Key, val: r.Value, ms: verifC18BaseMillis}}

	pid, epoch := int64(77), int16(3)
	req, _, _ := e.s.createReq(pid, epoch)
	req.SetVersion(ev)
	check := func(frame []byte, corr int32, wantCodec int8, label string) {
		body, ok := verifC18SplitFrame(frame, ev, corr, &cid)
		verifAssert(ok, "request header is well formed")
		dec := kmsg.ProduceRequest{Version: ev}
		verifAssert(dec.ReadFrom(body) == nil, "request body decodes as a ProduceRequest of the negotiated version (compact length prefix and batch position agree)")
		if len(dec.Topics) != 1 || len(dec.Topics[0].Partitions) != 1 {
			verifFail("exactly one topic and partition are written")
			return
		}
		raw := dec.Topics[0].Partitions[0].Records
		used := comp.out != nil && len(comp.out) < comp.srcLen
		if used {
			verifC18CheckRecordBatchC(raw, want, pid, epoch, 0, false, comp.out, int16(wantCodec))
			verifReached(label)
			if len(raw) == boundary {
				// witness that the case this harness exists for is generated at all (a
				// mis-set stub once kept every compressed batch away from the boundary)
				verifReached("c18-compressed-batch-exactly-at-prefix-boundary")
			}
		} else {
			verifC18CheckRecordBatch(raw, want, pid, epoch, 0, false)
		}
	}
	frame := e.cl.reqFormatter.AppendRequest(nil, req, 5)
	verifAssert(comp.srcLen == target-61, "the harness hit the intended uncompressed batch length")
	check(frame, 5, codec, "c18-boundary-compressed")

	// the same buffered batch is encoded again with another codec decision
	codec2 := int8(1 + (int(codec)+verifChoose(3))%4)
	comp.codec = CompressionCodecType(codec2)
	if verifChoose(2) == 1 {
		comp.outLen = 1000 // not shorter: the batch goes out uncompressed this time
	}
	frame2 := e.cl.reqFormatter.AppendRequest(nil, req, 6)
	check(frame2, 6, codec2, "c18-reencode-compressed")
	verifReached("c18-boundary")
}

func kbinVarintLenC18(v int32) int {
	u := uint32(v<<1) ^ uint32(v>>31)
	n := 1
	for u >= 0x80 {
		u >>= 7
		n++
	}
	return n
}
