package kgo

import (
	"hash/crc32"
	"time"

	"github.com/twmb/franz-go/pkg/kmsg"
)

// Content harness: small concrete lengths (shape by forking), symbolic contents, timestamps,
// producer id / epoch / sequence. The bytes written by the real path are parsed back by a
// reference parser written from the Kafka protocol guide (record batch v2, message set v0/v1)
// and compared with the records that were buffered.

type verifC18WantRec struct {
	key, val []byte
	hdrs     []RecordHeader
	ms       int64
}

// ---- reference parser ----

type verifC18Rd struct {
	b   []byte
	at  int
	bad bool
}

func (r *verifC18Rd) need(n int) bool {
	if r.bad || n < 0 || len(r.b)-r.at < n {
		r.bad = true
		return false
	}
	return true
}
func (r *verifC18Rd) u8() byte {
	if !r.need(1) {
		return 0
	}
	v := r.b[r.at]
	r.at++
	return v
}
func (r *verifC18Rd) i16() int16 {
	if !r.need(2) {
		return 0
	}
	v := verifBE16(r.b[r.at:])
	r.at += 2
	return v
}
func (r *verifC18Rd) i32() int32 {
	if !r.need(4) {
		return 0
	}
	v := verifBE32(r.b[r.at:])
	r.at += 4
	return v
}
func (r *verifC18Rd) i64() int64 {
	if !r.need(8) {
		return 0
	}
	v := verifBE64(r.b[r.at:])
	r.at += 8
	return v
}

// zigzag base-128 varint, at most maxBytes bytes
func (r *verifC18Rd) varlong(maxBytes int) int64 {
	var x uint64
	for i := 0; i < maxBytes; i++ {
		c := r.u8()
		if r.bad {
			return 0
		}
		x |= uint64(c&0x7f) << (7 * uint(i))
		if c&0x80 == 0 {
			return int64(x>>1) ^ -int64(x&1)
		}
	}
	r.bad = true
	return 0
}
func (r *verifC18Rd) varint() int32 { return int32(r.varlong(5)) }

// length-prefixed bytes; isNil reports a -1 length
func (r *verifC18Rd) span(l int) []byte {
	if !r.need(l) {
		return nil
	}
	v := r.b[r.at : r.at+l]
	r.at += l
	return v
}

func verifC18SameBytes(got []byte, gotNil bool, want []byte) bool {
	if (want == nil) != gotNil {
		return false
	}
	if len(got) != len(want) {
		return false
	}
	ok := true
	for i := range want {
		ok = verifAnd(ok, got[i] == want[i])
	}
	return ok
}

// verifC18CheckRecordBatch parses `raw` as exactly one RecordBatch (magic 2) and compares it
// with the wanted records and producer fields.
func verifC18CheckRecordBatch(raw []byte, want []verifC18WantRec, pid int64, epoch int16, seq int32, txn bool) {
	verifC18CheckRecordBatchC(raw, want, pid, epoch, seq, txn, nil, 0)
}

// With comp != nil the records region must be exactly comp and the attributes carry codec.
func verifC18CheckRecordBatchC(raw []byte, want []verifC18WantRec, pid int64, epoch int16, seq int32, txn bool, comp []byte, codec int16) {
	r := &verifC18Rd{b: raw}
	firstOffset := r.i64()
	length := r.i32()
	leaderEpoch := r.i32()
	magic := r.u8()
	crc := r.i32()
	crcFrom := r.at
	attrs := r.i16()
	lastOffsetDelta := r.i32()
	firstTs := r.i64()
	maxTs := r.i64()
	gotPid := r.i64()
	gotEpoch := r.i16()
	gotSeq := r.i32()
	n := r.i32()
	verifAssert(!r.bad, "record batch header is complete")
	if r.bad {
		return
	}
	verifAssert(firstOffset == 0, "record batch base offset is 0")
	verifAssert(int(length) == len(raw)-12, "record batch length field equals the bytes that follow it")
	verifAssert(leaderEpoch == -1, "record batch partition leader epoch is -1")
	verifAssert(magic == 2, "record batch magic is 2")
	verifAssert(uint32(crc) == crc32.Checksum(raw[crcFrom:], crc32.MakeTable(crc32.Castagnoli)), "record batch CRC is the CRC-32C of everything after the CRC field")
	wantAttrs := int16(0)
	if txn {
		wantAttrs = 0x10
	}
	if comp != nil {
		wantAttrs |= codec
	}
	verifAssert(attrs == wantAttrs, "record batch attributes: codec bits iff compressed, create time, transactional bit iff a transactional id is set")
	verifAssert(int(n) == len(want), "record batch record count equals the buffered record count")
	verifAssert(int(lastOffsetDelta) == len(want)-1, "last offset delta is record count - 1")
	verifAssert(firstTs == want[0].ms, "first timestamp is the first record's timestamp in milliseconds")
	wantMax := want[0].ms
	for _, w := range want[1:] {
		wantMax = verifIteInt64(w.ms > wantMax, w.ms, wantMax)
	}
	verifAssert(maxTs == wantMax, "max timestamp is the largest record timestamp")
	verifAssert(verifAnd(gotPid == pid, gotEpoch == epoch), "producer id and epoch are the request's")
	wantSeq := seq
	if pid < 0 {
		wantSeq = 0
	}
	verifAssert(gotSeq == wantSeq, "first sequence is the partition's sequence (0 when not idempotent)")

	if int(n) != len(want) {
		return
	}
	if comp != nil {
		verifAssert(verifC18SameBytes(raw[r.at:], false, comp), "compressed batch carries exactly the compressor's output after the record count")
		return
	}
	for i, w := range want {
		l := r.varint()
		start := r.at
		ra := r.u8()
		tsd := r.varlong(10)
		od := r.varint()
		kl := r.varint()
		var k, v []byte
		if kl >= 0 {
			k = r.span(int(kl))
		}
		vl := r.varint()
		if vl >= 0 {
			v = r.span(int(vl))
		}
		nh := r.varint()
		verifAssert(!r.bad, "record is complete")
		if r.bad {
			return
		}
		verifAssert(ra == 0, "record attributes are 0")
		verifAssert(tsd == w.ms-want[0].ms, "record timestamp delta is relative to the first timestamp")
		verifAssert(int(od) == i, "record offset delta is the record's index")
		verifAssert(verifC18SameBytes(k, kl < 0, w.key), "record key round-trips (nil stays null)")
		verifAssert(verifC18SameBytes(v, vl < 0, w.val), "record value round-trips (nil stays null)")
		verifAssert(int(nh) == len(w.hdrs), "record header count round-trips")
		if int(nh) != len(w.hdrs) {
			return
		}
		for _, wh := range w.hdrs {
			hkl := r.varint()
			var hk, hv []byte
			if hkl >= 0 {
				hk = r.span(int(hkl))
			}
			hvl := r.varint()
			if hvl >= 0 {
				hv = r.span(int(hvl))
			}
			verifAssert(!r.bad, "record header is complete")
			if r.bad {
				return
			}
			verifAssert(verifC18SameBytes(hk, hkl < 0, []byte(wh.Key)), "header key round-trips")
			verifAssert(verifC18SameBytes(hv, hvl < 0, wh.Value), "header value round-trips (nil stays null)")
		}
		verifAssert(int(l) == r.at-start, "record length prefix equals the record's encoded size")
	}
	verifAssert(r.at == len(raw), "nothing follows the last record")
}

// verifC18CheckMessageSet parses `raw` as a message set of v0 (magic 0) or v1 (magic 1) messages.
func verifC18CheckMessageSet(raw []byte, magic byte, want []verifC18WantRec) {
	r := &verifC18Rd{b: raw}
	for i, w := range want {
		off := r.i64()
		size := r.i32()
		start := r.at
		crc := r.i32()
		crcFrom := r.at
		m := r.u8()
		attrs := r.u8()
		var ts int64
		if magic == 1 {
			ts = r.i64()
		}
		kl := r.i32()
		var k, v []byte
		if kl >= 0 {
			k = r.span(int(kl))
		}
		vl := r.i32()
		if vl >= 0 {
			v = r.span(int(vl))
		}
		verifAssert(!r.bad, "message is complete")
		if r.bad {
			return
		}
		verifAssert(int(off) == i, "message offset is the record's index")
		verifAssert(int(size) == r.at-start, "message size field equals the message's encoded size")
		verifAssert(uint32(crc) == crc32.ChecksumIEEE(raw[crcFrom:r.at]), "message CRC is the IEEE CRC-32 of everything after the CRC field")
		verifAssert(m == magic, "message magic matches the produce version")
		verifAssert(attrs == 0, "message attributes are 0 (no compression)")
		if magic == 1 {
			verifAssert(ts == w.ms, "message timestamp is the record's timestamp in milliseconds")
		}
		verifAssert(verifC18SameBytes(k, kl < 0, w.key), "message key round-trips (nil stays null)")
		verifAssert(verifC18SameBytes(v, vl < 0, w.val), "message value round-trips (nil stays null)")
	}
	verifAssert(r.at == len(raw), "nothing follows the last message")
}

// record shapes: lengths are concrete per shape, contents symbolic
func verifC18SymRecord(name string, shape int, ms int64, subMilli time.Duration) (*Record, verifC18WantRec) {
	r := &Record{}
	switch shape {
	case 0: // null key, null value
	case 1:
		r.Key, r.Value = []byte{}, []byte{}
		r.Headers = []RecordHeader{{Key: "", Value: nil}}
	case 2:
		r.Key, r.Value = verifNondetBytes(name+".key", 1), verifNondetBytes(name+".val", 2)
		r.Headers = []RecordHeader{{Key: verifNondetString(name+".hk", 1), Value: []byte{}}}
	case 3:
		r.Key, r.Value = verifNondetBytes(name+".key", 2), verifNondetBytes(name+".val", 1)
		r.Headers = []RecordHeader{{Key: verifNondetString(name+".hk0", 1), Value: verifNondetBytes(name+".hv0", 1)}, {Key: "", Value: verifNondetBytes(name+".hv1", 2)}}
	case 4:
		r.Value = verifNondetBytes(name+".val", 3)
	case 5:
		r.Key = verifNondetBytes(name+".key", 3)
	}
	r.Timestamp = verifC18Time(ms - verifC18BaseMillis).Add(subMilli)
	w := verifC18WantRec{key: r.Key, val: r.Value, hdrs: r.Headers, ms: ms}
	return r, w
}

var verifC18TsPatterns = [][]int64{
	{0, 0, 0},
	{-70, 8191, -8193},
	{1 << 33, -(1 << 34), 1},
	{5, -3, 64},
}

func VerifC18_content() {
	vs := []int16{0, 2, 3, 9, 13}
	if verifThorough() {
		vs = []int16{0, 1, 2, 3, 7, 8, 9, 12, 13}
	}
	ev := vs[verifChoose(len(vs))]
	const nShapes = 6
	nParts, maxRecs, nPatterns, nSecond := 1, 2, 3, 2
	if verifThorough() {
		nParts = 1 + verifChoose(2)
		maxRecs, nPatterns, nSecond = 3, len(verifC18TsPatterns), nShapes
		if nParts == 2 { // two partitions: fewer record combinations
			maxRecs, nPatterns, nSecond = 2, 2, 1
		}
	}
	nRecs := 1 + verifChoose(maxRecs)
	// concrete per-record timestamp deltas (ms) around the varlong length boundaries; symbolic
	// timestamps are the subject of VerifC18_timestamps
	tsPattern := verifC18TsPatterns[verifChoose(nPatterns)]
	// shapes of the first partition's records: first free, second free (quick: 2 of the 6), third
	// derived; the second partition's shapes are derived from the first's
	shapes := []int{verifChoose(nShapes)}
	if nRecs > 1 {
		shapes = append(shapes, (shapes[0]+1+verifChoose(nSecond))%nShapes)
	}
	if nRecs > 2 {
		shapes = append(shapes, (shapes[0]+shapes[1]+1)%nShapes)
	}

	var id, txn *string
	cid := "cl"
	id = &cid
	tx := ev >= 3 && verifChoose(2) == 1 // message sets have no transactional marker
	if tx {
		t := "txn"
		txn = &t
	}
	e := verifC18NewEnv(int32(ev), id, txn, ev >= 12, 100<<20, 1000012)

	pid, epoch := verifNondetInt64("producerID"), verifNondetInt16("producerEpoch")
	var tid [16]byte
	tid[3] = 9
	var bufs []*recBuf
	var wants [][]verifC18WantRec
	var seqs []int32
	for p := 0; p < nParts; p++ {
		rb := e.addBuf("topic", tid, int32(p+4))
		seq := verifNondetInt32("seq")
		verifAssume(seq >= 0)
		rb.seq = seq
		var want []verifC18WantRec
		for i := 0; i < nRecs; i++ {
			shape := (shapes[i] + 3*p) % nShapes
			r, w := verifC18SymRecord("r", shape, verifC18BaseMillis+tsPattern[i], time.Duration(i*499_999))
			verifAssert(e.buffer(rb, r), "bufferRecord processes the record")
			want = append(want, w)
		}
		verifAssert(len(rb.batches) == 1, "small records share one batch")
		bufs, wants, seqs = append(bufs, rb), append(wants, want), append(seqs, seq)
	}

	req, _, more := e.s.createReq(pid, epoch)
	verifAssert(!more, "everything buffered fits one request")
	req.SetVersion(ev)
	frame := e.cl.reqFormatter.AppendRequest(nil, req, 5)
	body, ok := verifC18SplitFrame(frame, ev, 5, id)
	verifAssert(ok, "request header is well formed")
	dec := kmsg.ProduceRequest{Version: ev}
	verifAssert(dec.ReadFrom(body) == nil, "request body decodes as a ProduceRequest of the negotiated version")

	if ev >= 3 {
		verifAssert((dec.TransactionID == nil) == (txn == nil) && (txn == nil || *dec.TransactionID == *txn), "transactional id round-trips")
	}
	verifAssert(dec.Acks == -1 && dec.TimeoutMillis == 10000, "acks and timeout are the configured ones")
	verifAssert(len(dec.Topics) == 1, "one topic")
	if len(dec.Topics) != 1 {
		return
	}
	dt := dec.Topics[0]
	if ev >= 13 {
		verifAssert(dt.TopicID == tid, "v13 carries the topic id")
	} else {
		verifAssert(dt.Topic == "topic", "topic name round-trips")
	}
	verifAssert(len(dt.Partitions) == nParts, "one partition entry per buffered partition")
	seen := 0
	for _, dp := range dt.Partitions {
		for p, rb := range bufs {
			if rb.partition != dp.Partition {
				continue
			}
			seen++
			if ev >= 3 {
				verifC18CheckRecordBatch(dp.Records, wants[p], pid, epoch, seqs[p], tx)
			} else {
				verifC18CheckMessageSet(dp.Records, byte(ev>>1), wants[p])
			}
		}
	}
	verifAssert(seen == nParts, "every buffered partition is written exactly once")
	verifReached("c18-content")
}

// Timestamps with sub-millisecond parts, also before 1970: every record gets time.Unix(sec, nsec)
// from a concrete list (symbolic sec/nsec make the solver decide 64-bit division-by-constant
// identities, which z3 does not do within minutes); the written first/max timestamps, per-record
// deltas (record batch) and per-message timestamps (message set v1) must be the millisecond
// floor of the record timestamps.
func VerifC18_timestamps() {
	ev := []int16{2, 3}[verifChoose(2)]
	cid := "cl"
	e := verifC18NewEnv(int32(ev), &cid, nil, false, 100<<20, 1000012)
	var tid [16]byte
	rb := e.addBuf("topic", tid, 0)
	n := 2
	if verifThorough() {
		n = 3
	}
	var want []verifC18WantRec
	for i := 0; i < n; i++ {
		secs := []int64{verifC18BaseMillis / 1000, verifC18BaseMillis/1000 - 86400, -1}
		nsecs := []int64{0, 999_999, 1_000_000, 500_000_001, 999_999_999}
		var sec, nsec int64
		if i < 2 {
			sec, nsec = secs[verifChoose(len(secs))], nsecs[verifChoose(len(nsecs))]
		} else {
			sec, nsec = secs[i%len(secs)], nsecs[(i+2)%len(nsecs)]
		}
		r := &Record{Timestamp: time.Unix(sec, nsec)}
		verifAssert(e.buffer(rb, r), "bufferRecord processes the record")
		want = append(want, verifC18WantRec{ms: sec*1000 + nsec/1_000_000})
	}
	req, _, _ := e.s.createReq(-1, -1)
	req.SetVersion(ev)
	frame := e.cl.reqFormatter.AppendRequest(nil, req, 5)
	body, ok := verifC18SplitFrame(frame, ev, 5, &cid)
	verifAssert(ok, "request header is well formed")
	dec := kmsg.ProduceRequest{Version: ev}
	verifAssert(dec.ReadFrom(body) == nil, "request body decodes as a ProduceRequest of the negotiated version")
	if len(dec.Topics) != 1 || len(dec.Topics[0].Partitions) != 1 {
		verifFail("exactly one topic and partition are written")
		return
	}
	raw := dec.Topics[0].Partitions[0].Records
	if ev >= 3 {
		verifC18CheckRecordBatch(raw, want, -1, -1, 0, false)
	} else {
		verifC18CheckMessageSet(raw, 1, want)
	}
	verifReached("c18-timestamps")
}
