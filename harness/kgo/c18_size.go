package kgo

import (
	"github.com/twmb/franz-go/pkg/kmsg"
)

// Size harness: concrete small shapes, real buffering (bufferRecord -> tryBuffer ->
// calculateRecordNumbers/appendRecord), real request cutting (createReq -> tryAddBatch), real
// framing (kmsg RequestFormatter.AppendRequest -> produceRequest.AppendTo). BrokerMaxWriteBytes
// and the configured max batch bytes are symbolic, so the accept/reject decisions of tryBuffer
// and tryAddBatch are explored both ways, and the solver is free to put either limit exactly
// at the accounted size.

type verifC18RecShape struct {
	key, val int // -1 = nil
	hdrs     int
}

// record-shape variants; index 0 is used for the first record, then cycling
var verifC18Variants = [][]verifC18RecShape{
	{{-1, -1, 0}, {-1, -1, 0}, {-1, -1, 0}},
	{{3, 70, 2}, {64, 1, 0}, {1, 1, 1}},
	{{1, 2, 0}, {0, 1, 0}, {2, -1, 0}},
	{{0, 3, 1}, {1, 0, 2}, {-1, 2, 1}},
}

func verifC18Bytes(n int) []byte {
	if n < 0 {
		return nil
	}
	b := make([]byte, n)
	for i := range b {
		b[i] = byte(i + 1)
	}
	return b
}

func verifC18MkRecord(sh verifC18RecShape, extraVal int, tsDelta int64) *Record {
	r := &Record{Key: verifC18Bytes(sh.key), Value: verifC18Bytes(sh.val), Timestamp: verifC18Time(tsDelta)}
	if extraVal > 0 {
		r.Value = verifC18Bytes(extraVal + len(r.Value))
	}
	for i := 0; i < sh.hdrs; i++ {
		r.Headers = append(r.Headers, RecordHeader{Key: "hk"[:i+1], Value: verifC18Bytes(i)})
	}
	return r
}

var verifC18Topics = []string{"t", "a-topic-name-of-twenty-3"}

// Which assertions a size harness makes. The write-limit and batch-max assertions have their
// own entry points for the version classes where they are violated by the code under test, so
// that the remaining assertions of that class are still explored completely.
const (
	verifC18CkWriteLimit = 1 << iota // written request <= BrokerMaxWriteBytes
	verifC18CkBatchMax               // written batch <= configured max batch bytes
	verifC18CkRest                   // framing, decodability, exact batch length accounting
	verifC18CkAll        = verifC18CkWriteLimit | verifC18CkBatchMax | verifC18CkRest
)

func verifC18Pick(quick, thorough []int16) int16 {
	vs := quick
	if verifThorough() {
		vs = thorough
	}
	return vs[verifChoose(len(vs))]
}

// Message-set produce versions (v0/v1 = message set v0, v2 = message set v1); the sink knows
// the version (batching version == encoding version).
func VerifC18_size_msgset() {
	v := verifC18Pick([]int16{0, 2}, []int16{0, 1, 2})
	verifC18SizeRun(int32(v), v, verifC18CkWriteLimit|verifC18CkRest)
}

func VerifC18_size_msgset_batchMax() {
	v := verifC18Pick([]int16{0, 2}, []int16{0, 1, 2})
	verifC18SizeRun(int32(v), v, verifC18CkBatchMax)
}

// Record-batch, non-flexible produce versions 3..8.
func VerifC18_size_recordbatch() {
	v := verifC18Pick([]int16{8}, []int16{3, 4, 5, 6, 7, 8})
	verifC18SizeRun(int32(v), v, verifC18CkAll)
}

// Flexible produce versions 9..13 (13 = topic IDs).
func VerifC18_size_flexible() {
	v := verifC18Pick([]int16{9, 13}, []int16{9, 10, 11, 12, 13})
	verifC18SizeRun(int32(v), v, verifC18CkBatchMax|verifC18CkRest)
}

func VerifC18_size_flexible_writeLimit() {
	v := verifC18Pick([]int16{9, 13}, []int16{9, 10, 11, 12, 13})
	verifC18SizeRun(int32(v), v, verifC18CkWriteLimit)
}

// The sink does not know the produce version yet (-1: first request on this broker): batching
// uses the pessimistic maximum, the request is then written with whatever version is negotiated.
func VerifC18_size_unknownVersion() {
	v := verifC18Pick([]int16{0, 2, 8, 9, 13}, []int16{0, 1, 2, 3, 8, 9, 12, 13})
	ck := verifC18CkRest
	if v < 9 {
		ck |= verifC18CkWriteLimit
	}
	if v >= 3 {
		ck |= verifC18CkBatchMax
	}
	verifC18SizeRun(-1, v, ck)
}

func VerifC18_size_unknownVersion_writeLimit() {
	v := verifC18Pick([]int16{9, 13}, []int16{9, 12, 13})
	verifC18SizeRun(-1, v, verifC18CkWriteLimit)
}

func VerifC18_size_unknownVersion_batchMax() {
	v := verifC18Pick([]int16{0, 2}, []int16{0, 1, 2})
	verifC18SizeRun(-1, v, verifC18CkBatchMax)
}

func verifC18SizeRun(pv int32, ev int16, ck int) {

	nTopics := 1 + verifChoose(2)
	nParts := 1 + verifChoose(2)
	maxRecs := 2
	if verifThorough() {
		maxRecs = 3
	}
	nRecs := 1 + verifChoose(maxRecs)
	nVariants, nIDs := 2, 2
	if verifThorough() {
		nVariants = len(verifC18Variants)
	}
	variant := verifC18Variants[verifChoose(nVariants)]
	filler := 1000 // pushes the accounted request size above the smallest legal limit (1024)
	if verifChoose(2) == 1 {
		filler = 0 // all batches tiny (1-byte compact length prefixes); the write limit cannot bind
	}

	// client id / transactional id combinations
	var id, txn *string
	tx890p2 := false
	switch verifChoose(nIDs) {
	case 0:
	case 1:
		s, t := "c", "my-transactional-id"
		id, txn = &s, &t
		tx890p2 = ev >= 12 // produce v12+ with a transactional id requires KIP-890 part 2
	case 2:
		s := "client"
		id = &s
	}

	limit := verifNondetInt32("maxBrokerWriteBytes")
	batchMax := verifNondetInt32("maxRecordBatchBytes")
	// config validation (cfg.validate): 1<<10 <= write bytes <= 1<<30, 512 <= batch bytes <= 1<<30,
	// batch bytes <= write bytes
	verifAssume(verifAnd(limit >= 1<<10, limit <= 1<<30))
	verifAssume(verifAnd(batchMax >= 512, verifAnd(batchMax <= 1<<30, batchMax <= limit)))

	e := verifC18NewEnv(pv, id, txn, tx890p2, limit, batchMax)

	var bufs []*recBuf
	for t := 0; t < nTopics; t++ {
		var tid [16]byte
		tid[0], tid[15] = byte(t+1), 0xee
		for p := 0; p < nParts; p++ {
			bufs = append(bufs, e.addBuf(verifC18Topics[t], tid, int32(3*p+1)))
		}
	}
	for bi, rb := range bufs {
		for i := 0; i < nRecs; i++ {
			extra := 0
			if bi == 0 && i == 0 {
				extra = filler
			}
			done := e.buffer(rb, verifC18MkRecord(variant[i], extra, int64(i*70)))
			verifAssert(done, "bufferRecord without abortOnNewBatch always processes the record")
		}
	}

	req, _, _ := e.s.createReq(9, 1)
	if ck&verifC18CkRest != 0 {
		verifAssert(req.wireLength <= limit, "accounted request length stays within BrokerMaxWriteBytes")
	}
	if int16(13) > req.produceMax && ev > req.produceMax {
		verifFail("harness: encode version above produceMax")
	}
	req.SetVersion(ev)
	frame := e.cl.reqFormatter.AppendRequest(nil, req, 77)

	if ck&verifC18CkWriteLimit != 0 {
		verifAssert(int32(len(frame)) <= limit, "written produce request never exceeds BrokerMaxWriteBytes")
	}

	body, ok := verifC18SplitFrame(frame, ev, 77, id)
	dec := kmsg.ProduceRequest{Version: ev}
	err := dec.ReadFrom(body)
	rest := ck&verifC18CkRest != 0
	if rest {
		verifAssert(ok, "request header is well formed and the size prefix equals the bytes that follow")
		verifAssert(err == nil, "request body decodes as a ProduceRequest of the negotiated version")
	} else if !ok || err != nil {
		return
	}

	nBatches := 0
	for _, dt := range dec.Topics {
		topic := dt.Topic
		if ev >= 13 {
			topic = req.batches.id2t[dt.TopicID]
		}
		parts, exists := req.batches.bs[topic]
		if rest {
			verifAssert(exists, "decoded topic is one that was added to the request")
			verifAssert(len(parts) == len(dt.Partitions), "one encoded partition per added batch")
		}
		for _, dp := range dt.Partitions {
			b, exists := parts[dp.Partition]
			if rest {
				verifAssert(exists, "decoded partition is one that was added to the request")
			}
			if !exists {
				continue
			}
			nBatches++
			n := int32(len(dp.Records))
			if rest && ev >= 3 {
				verifAssert(n == b.wireLength-4, "encoded record batch length equals the wireLength accounted while buffering")
			}
			if ck&verifC18CkBatchMax != 0 {
				verifAssert(n <= batchMax, "written batch never exceeds the configured maximum batch size")
			}
		}
	}
	if rest {
		verifAssert(len(dec.Topics) == len(req.batches.bs), "one encoded topic per added topic")
	}
	if nBatches > 0 {
		verifReached("c18-size-request-with-batches")
	}
	verifReached("c18-size")
}
