package kgo

import (
	"bytes"
)

func verifC19EqBytes(got, want []byte) bool {
	if len(got) != len(want) {
		return false
	}
	ok := true
	for i := range want {
		ok = verifAnd(ok, got[i] == want[i])
	}
	return ok
}

// ---- codec selection and zstd gating ----

// DefaultCompressor(codecs...) followed by Compress: the codec used is the first configured
// option that is not (zstd while CompressDisableZstd is passed); with nothing usable the input
// is returned with codec 0; zstd is never reported under CompressDisableZstd.
func VerifC19_select() {
	verifC19Reset()
	maxN := 2
	if verifThorough() {
		maxN = 3
	}
	n := verifChoose(maxN + 1)
	var codecs []CompressionCodec
	var types []CompressionCodecType
	for i := 0; i < n; i++ {
		t := CompressionCodecType(verifConcretize(verifRange("codec", -1, 5)))
		level := verifNondetInt("level")
		verifAssume(verifAnd(level >= -4, level <= 24))
		codecs = append(codecs, CompressionCodec{t, level})
		types = append(types, t)
	}

	// reference: de-duplicate keeping first occurrences; reject unknown codecs; keep options up
	// to and including the first CodecNone; a leading CodecNone means "no compressor"
	var dedup []CompressionCodecType
	invalid := false
	for _, t := range types {
		seen := false
		for _, d := range dedup {
			seen = seen || d == t
		}
		if !seen {
			dedup = append(dedup, t)
			invalid = invalid || t < 0 || t > 4
		}
	}
	var options []CompressionCodecType
	for _, t := range dedup {
		options = append(options, t)
		if t == CodecNone {
			break
		}
	}

	c, err := DefaultCompressor(codecs...)
	if n == 0 {
		verifAssert(c == nil && err == nil, "no codecs: no compressor, no error")
		verifReached("c19-select-none")
		return
	}
	if invalid {
		verifAssert(c == nil && err != nil, "an unknown codec is rejected")
		verifReached("c19-select-invalid")
		return
	}
	verifAssert(err == nil, "valid codecs never fail")
	if options[0] == CodecNone {
		verifAssert(c == nil, "a leading CodecNone yields no compressor")
		verifReached("c19-select-passthrough")
		return
	}
	verifAssert(c != nil, "a leading real codec yields a compressor")
	if c == nil {
		return
	}

	// 0..2 flags with symbolic values: CompressDisableZstd counts wherever it stands in the list
	// (other flag values are reserved and must not switch it off again)
	var flags []CompressFlag
	disable := false
	for i, nf := 0, verifChoose(3); i < nf; i++ {
		f := CompressFlag(verifNondetUint16("flag"))
		flags = append(flags, f)
		disable = verifOr(disable, f == CompressDisableZstd)
	}
	want := CodecNone
	for _, o := range options {
		if o == CodecZstd && disable {
			continue
		}
		want = o
		break
	}

	src := verifNondetBytes("src", 3)
	w := byteBuffers.Get().(*bytes.Buffer)
	w.Reset()
	out, used := c.Compress(w, src, flags...)

	verifAssert(!(disable && used == CodecZstd), "zstd is never chosen when CompressDisableZstd is passed")
	if used == CodecError {
		verifAssert(out == nil && (want == CodecGzip || want == CodecLz4), "CodecError only from a failing gzip/lz4 writer, with nil output")
		verifReached("c19-select-error")
		return
	}
	verifAssert(used == want, "the codec used is the first option that is not disabled zstd (0 when nothing qualifies)")
	if want == CodecNone {
		verifAssert(len(out) == len(src) && (len(src) == 0 || &out[0] == &src[0]), "with no usable codec the input is returned as is")
	} else {
		verifAssert(verifC19.encCodec == want, "the library of the reported codec produced the output")
		verifAssert(verifC19EqBytes(out, verifC19.encoded), "the output is exactly what the codec library produced")
	}
	verifReached("c19-select")
}

// mkCompressFlags: CompressDisableZstd exactly for produce versions below 7 (zstd needs v7+).
func VerifC19_flags() {
	v := verifNondetInt16("produceVersion")
	flags := mkCompressFlags(v)
	has := false
	for _, f := range flags {
		has = has || f == CompressDisableZstd
	}
	verifAssert(has == (v < 7), "CompressDisableZstd is passed exactly for produce versions below 7")
	verifReached("c19-flags")
}

// ---- bounded decompression ----

type verifC19Pool struct {
	length, capacity int
	got              int
}

func (p *verifC19Pool) GetDecompressBytes(compressed []byte, codec CompressionCodecType) []byte {
	p.got++
	s := make([]byte, p.capacity)
	for i := range s {
		s[i] = 0xAA // stale content that must never show up in the output
	}
	return s[:p.length]
}
func (p *verifC19Pool) PutDecompressBytes([]byte) {}

func verifC19MaxDecompressed() int64 {
	hi := int64(2)
	if verifThorough() {
		hi = 4
	}
	m := verifNondetInt64("maxDecompressedSize")
	verifAssume(verifAnd(m >= 0, m <= hi))
	return m
}

// Decompress on arbitrary bytes with any codec value: data or an error, never more than
// maxDecompressedSize bytes, and the data is exactly what the codec library delivered (no
// stale pool prefix, nothing dropped).
func VerifC19_decompress() {
	verifC19Reset()
	max := verifC19MaxDecompressed()
	saved := maxDecompressedSize
	maxDecompressedSize = max
	defer func() { maxDecompressedSize = saved }()
	verifC19.decodeBudget = func() int64 { return max }

	var ps []Pool
	var pool *verifC19Pool
	switch verifChoose(3) {
	case 1:
		pool = &verifC19Pool{length: 0, capacity: 2}
	case 2:
		pool = &verifC19Pool{length: 2, capacity: 4}
	}
	if pool != nil {
		ps = append(ps, pool)
	}
	d := DefaultDecompressor(ps...)

	// the stub readers never look at src; only snappy (real s2.DecodedLen) does
	codec := int8(verifConcretize(verifRange("codec", -1, 5)))
	srcLen := 2
	if codec == int8(CodecSnappy) {
		srcLen = []int{0, 1, 2, 5}[verifChoose(4)]
	}
	src := verifNondetBytes("src", srcLen)
	out, err := d.Decompress(src, CompressionCodecType(codec))

	verifAssert(verifC19.decodeLenOK, "s2.Decode is only called with a claimed length within maxDecompressedSize")
	switch {
	case codec == 0:
		verifAssert(err == nil && verifC19EqBytes(out, src), "CodecNone returns the input")
	case codec < 0 || codec > 4:
		verifAssert(err != nil && out == nil, "unknown codecs are an error")
	case err == nil:
		verifAssert(int64(len(out)) <= max, "decompressed data never exceeds maxDecompressedSize")
		verifAssert(verifC19EqBytes(out, verifC19.delivered), "decompressed data is exactly what the codec library delivered")
		if codec == int8(CodecZstd) {
			verifAssert(verifC19.zstdMaxMemSet && verifC19.zstdMaxMem == uint64(max), "the zstd decoder is created with WithDecoderMaxMemory(maxDecompressedSize)")
		}
		if pool != nil {
			verifAssert(pool.got == 1, "the user pool is asked for exactly one slice")
		}
		verifReached("c19-decompress-data")
	default:
		verifAssert(out == nil, "an error comes with no data")
	}
	verifReached("c19-decompress")
}

// xerialDecode on arbitrary bytes (16 header bytes + up to 12 more): never panics, never reads
// past src (bounds-checked slicing), total output (including what dst already holds) never
// exceeds maxDecompressedSize, output = dst ++ decoded chunks in order.
func VerifC19_xerial() {
	verifC19Reset()
	max := verifC19MaxDecompressed()
	saved := maxDecompressedSize
	maxDecompressedSize = max
	defer func() { maxDecompressedSize = saved }()

	var dst []byte
	nDst := 2
	if verifThorough() {
		nDst = 3
	}
	switch verifChoose(nDst) {
	case 2:
		dst = make([]byte, 0, 4)
	case 1:
		dst = verifNondetBytes("dst", 1)
		verifAssume(int64(len(dst)) <= max) // a pooled destination is handed over empty; a non-empty one is within the limit
	}
	dst0 := append([]byte(nil), dst...)
	verifC19.decodeBudget = func() int64 { return max - int64(len(dst0)) - int64(len(verifC19.delivered)) }

	extra := []int{0, 3, 4, 5, 6, 12} // 12 = two chunks of up to 2 bytes, or one of up to 8
	if verifThorough() {
		extra = []int{0, 1, 2, 3, 4, 5, 6, 7, 8, 9, 10, 11, 12}
	}
	src := verifNondetBytes("src", 16+extra[verifChoose(len(extra))])
	out, err := xerialDecode(dst, src)

	verifAssert(verifC19.decodeLenOK, "every chunk's claimed length is checked against the remaining allowance before it is decoded")
	if err == nil {
		verifAssert(int64(len(out)) <= max, "xerial output never exceeds maxDecompressedSize")
		want := append(dst0, verifC19.delivered...)
		verifAssert(verifC19EqBytes(out, want), "xerial output is dst followed by the decoded chunks in order")
		verifReached("c19-xerial-data")
	} else {
		verifAssert(out == nil, "an error comes with no data")
	}
	verifReached("c19-xerial")
}

// Decompress dispatches xerial-framed snappy (magic header, > 16 bytes) to xerialDecode, with
// the user pool's slice as destination; everything else goes to plain snappy.
func VerifC19_xerialDispatch() {
	verifC19Reset()
	max := verifC19MaxDecompressed()
	saved := maxDecompressedSize
	maxDecompressedSize = max
	defer func() { maxDecompressedSize = saved }()
	verifC19.decodeBudget = func() int64 { return max - int64(len(verifC19.delivered)) }

	var ps []Pool
	if verifChoose(2) == 1 {
		ps = append(ps, &verifC19Pool{length: 2, capacity: 4})
	}
	d := DefaultDecompressor(ps...)
	src := append([]byte{}, xerialPfx...)
	src = append(src, verifNondetBytes("version", 8)...)
	src = append(src, verifNondetBytes("chunks", []int{0, 1, 5, 6}[verifChoose(4)])...)
	out, err := d.Decompress(src, CodecSnappy)
	verifAssert(verifC19.decodeLenOK, "claimed lengths are checked before decoding")
	if err == nil {
		verifAssert(int64(len(out)) <= max, "decompressed data never exceeds maxDecompressedSize")
		verifAssert(verifC19EqBytes(out, verifC19.delivered), "decompressed data is exactly the decoded chunks (no stale pool bytes)")
	}
	verifReached("c19-xerial-dispatch")
}

// xerialDecode on WELL-FORMED chunks: 1..3 chunks, each a valid snappy block holding one
// literal of 0..2 symbolic bytes, appended to a destination of 0..1 bytes, under any
// maxDecompressedSize in range. Unlike VerifC19_xerial (arbitrary bytes, which the real snappy
// decoder mostly rejects), a counterexample here replays natively against the real library:
// the result is data of exactly len(dst)+sum(literal lengths) bytes when that fits the limit,
// and errDecompressedTooLarge (no data) as soon as the running total would exceed it.
func VerifC19_xerialLiteralChunks() {
	verifC19Reset()
	max := verifC19MaxDecompressed()
	saved := maxDecompressedSize
	maxDecompressedSize = max
	defer func() { maxDecompressedSize = saved }()

	var dst []byte
	if verifChoose(2) == 1 {
		dst = verifNondetBytes("dst", 1)
		verifAssume(int64(len(dst)) <= max)
	}
	dst0 := append([]byte(nil), dst...)
	verifC19.decodeBudget = func() int64 { return max - int64(len(dst0)) - int64(len(verifC19.delivered)) }

	src := verifNondetBytes("hdr", 16)
	k := 1 + verifChoose(3)
	total := int64(len(dst0))
	fits := true
	for i := 0; i < k; i++ {
		n := verifChoose(3)
		chunk := []byte{byte(n)}
		if n > 0 {
			chunk = append(chunk, byte((n-1)<<2))
			chunk = append(chunk, verifNondetBytes("lit", n)...)
		}
		src = append(src, 0, 0, 0, byte(len(chunk)))
		src = append(src, chunk...)
		total += int64(n)
		if total > max {
			fits = false
		}
	}
	out, err := xerialDecode(dst, src)
	verifAssert(verifC19.decodeLenOK, "every chunk's claimed length is checked against the remaining allowance before it is decoded")
	if err == nil {
		verifAssert(int64(len(out)) <= max, "xerial output never exceeds maxDecompressedSize")
		verifAssert(int64(len(out)) == total, "xerial output is dst followed by every chunk's bytes")
		verifAssert(fits, "a chunk sequence whose running total exceeds maxDecompressedSize is refused")
	} else {
		verifAssert(out == nil, "an error comes with no data")
		if !verifSymbolic() {
			verifAssert(!fits, "well-formed chunks within the limit decode without error")
		}
	}
	verifReached("c19-xerial-literals")
}
