package kgo

import (
	"compress/gzip"
	"errors"
	"io"

	"github.com/klauspost/compress/s2"
	"github.com/klauspost/compress/zstd"
	"github.com/pierrec/lz4/v4"
)

// Contract stubs for the codec libraries (redirected by engine/interp/ext_a5_redirect.go).
// They say only what the libraries' documentation promises:
//   * encoders produce arbitrary bytes (or fail where the API can fail);
//   * gzip.NewWriterLevel / zstd.WithEncoderLevel reject levels outside their documented range;
//   * an io.Reader-style decoder hands out, per Read, any n in [0,len(p)] arbitrary bytes with
//     nil, io.EOF or another error, and reaches EOF within verifC19MaxReads() reads;
//   * s2.Decode returns an error or exactly s2.DecodedLen(src) bytes (DecodedLen itself is the
//     real, interpreted library function), reusing dst when cap(dst) suffices;
//   * zstd DecodeAll appends at most the configured WithDecoderMaxMemory bytes to dst.

func verifC19MaxReads() int {
	if verifThorough() {
		return 3
	}
	return 2
}

var verifC19 struct {
	gzDst, lzDst io.Writer
	encoded      []byte // what the stub encoder produced last
	encCodec     CompressionCodecType
	badZstdLevel bool

	reads         int
	delivered     []byte // decoded bytes handed out by the stub decoders, in order
	zstdMaxMem    uint64
	zstdMaxMemSet bool
	decodeLenOK   bool // every s2.Decode call had a claimed length within the allowed remainder
	decodeBudget  func() int64
}

func verifC19Reset() {
	verifC19.gzDst, verifC19.lzDst, verifC19.encoded, verifC19.encCodec = nil, nil, nil, 0
	verifC19.badZstdLevel = false
	verifC19.reads, verifC19.delivered = 0, nil
	verifC19.zstdMaxMem, verifC19.zstdMaxMemSet = 0, false
	verifC19.decodeLenOK, verifC19.decodeBudget = true, nil
}

var errVerifC19 = errors.New("verif: codec library error")

func verifC19SomeBytes(name string) []byte {
	return verifNondetBytes(name, []int{0, 1, 3}[verifChoose(3)])
}

// ---- gzip ----

func verifExt_gzip_NewWriterLevel(w io.Writer, level int) (*gzip.Writer, error) {
	if level < gzip.HuffmanOnly || level > gzip.BestCompression {
		return nil, errVerifC19
	}
	return new(gzip.Writer), nil
}
func verifExt_gzip_Writer_Reset(z *gzip.Writer, w io.Writer) { verifC19.gzDst = w }
func verifExt_gzip_Writer_Write(z *gzip.Writer, p []byte) (int, error) {
	if verifNondetBool("gzip.Write.fails") {
		return 0, errVerifC19
	}
	return len(p), nil
}
func verifExt_gzip_Writer_Close(z *gzip.Writer) error {
	if verifNondetBool("gzip.Close.fails") {
		return errVerifC19
	}
	verifC19.encoded, verifC19.encCodec = verifC19SomeBytes("gzip.out"), CodecGzip
	verifC19.gzDst.Write(verifC19.encoded)
	return nil
}
func verifExt_gzip_Reader_Reset(z *gzip.Reader, r io.Reader) error {
	if verifNondetBool("gzip.header.bad") {
		return errVerifC19
	}
	return nil
}
func verifExt_gzip_Reader_Read(z *gzip.Reader, p []byte) (int, error) { return verifC19Read(p) }

func verifC19Read(p []byte) (int, error) {
	verifC19.reads++
	if verifC19.reads > verifC19MaxReads() {
		return 0, io.EOF
	}
	n := verifConcretize(verifRange("read.n", 0, len(p)))
	b := verifNondetBytes("read.data", n)
	copy(p, b)
	verifC19.delivered = append(verifC19.delivered, b...)
	switch verifChoose(3) {
	case 0:
		return n, nil
	case 1:
		return n, io.EOF
	}
	return n, errVerifC19
}

// ---- lz4 ----

func verifExt_lz4_NewWriter(w io.Writer) *lz4.Writer                        { return new(lz4.Writer) }
func verifExt_lz4_NewReader(r io.Reader) *lz4.Reader                        { return new(lz4.Reader) }
func verifExt_lz4_CompressionLevelOption(l lz4.CompressionLevel) lz4.Option { return nil }
func verifExt_lz4_Writer_Reset(z *lz4.Writer, w io.Writer)                  { verifC19.lzDst = w }
func verifExt_lz4_Reader_Reset(z *lz4.Reader, r io.Reader)                  {}
func verifExt_lz4_Reader_Read(z *lz4.Reader, p []byte) (int, error)         { return verifC19Read(p) }
func verifExt_lz4_Writer_Apply(z *lz4.Writer, opts ...lz4.Option) (err error) {
	if verifNondetBool("lz4.Apply.fails") {
		return errVerifC19
	}
	return nil
}
func verifExt_lz4_Writer_Write(z *lz4.Writer, p []byte) (int, error) {
	if verifNondetBool("lz4.Write.fails") {
		return 0, errVerifC19
	}
	return len(p), nil
}
func verifExt_lz4_Writer_Close(z *lz4.Writer) error {
	if verifC19.lzDst == nil { // DefaultCompressor closes its probe writer
		return nil
	}
	if verifNondetBool("lz4.Close.fails") {
		return errVerifC19
	}
	verifC19.encoded, verifC19.encCodec = verifC19SomeBytes("lz4.out"), CodecLz4
	verifC19.lzDst.Write(verifC19.encoded)
	return nil
}

// ---- snappy / s2 ----

func verifExt_s2_MaxEncodedLen(n int) int { return 32 + n + n/6 }
func verifExt_s2_EncodeSnappy(dst, src []byte) []byte {
	verifC19.encoded, verifC19.encCodec = verifC19SomeBytes("snappy.out"), CodecSnappy
	return verifC19.encoded
}
func verifExt_s2_Decode(dst, src []byte) ([]byte, error) {
	l, err := s2.DecodedLen(src) // real library function (interpreted)
	if err != nil {
		return nil, err
	}
	if verifC19.decodeBudget != nil && int64(l) > verifC19.decodeBudget() {
		// the library would allocate l bytes here; the caller must have checked the claim first
		verifC19.decodeLenOK = false
		return nil, errVerifC19
	}
	if verifNondetBool("s2.Decode.corrupt") {
		if s2.ErrCorrupt != nil {
			return nil, s2.ErrCorrupt
		}
		return nil, errVerifC19 // the executor may skip the library's package initialiser
	}
	n := verifConcretize(l)
	if n <= cap(dst) {
		dst = dst[:n]
	} else {
		dst = make([]byte, n)
	}
	b := verifNondetBytes("s2.decoded", n)
	copy(dst, b)
	verifC19.delivered = append(verifC19.delivered, b...)
	return dst, nil
}

// ---- zstd ----

func verifExt_zstd_NewWriter(w io.Writer, opts ...zstd.EOption) (*zstd.Encoder, error) {
	if verifC19.badZstdLevel {
		verifC19.badZstdLevel = false
		return nil, errVerifC19
	}
	return new(zstd.Encoder), nil
}
func verifExt_zstd_WithWindowSize(n int) zstd.EOption         { return nil }
func verifExt_zstd_WithEncoderConcurrency(n int) zstd.EOption { return nil }
func verifExt_zstd_WithZeroFrames(b bool) zstd.EOption        { return nil }
func verifExt_zstd_WithEncoderLevel(l zstd.EncoderLevel) zstd.EOption {
	if l < zstd.SpeedFastest || l > zstd.SpeedBestCompression {
		verifC19.badZstdLevel = true // the next NewWriter fails, as the real option does
	}
	return nil
}

// the real methods dereference their receiver: an encoder that NewWriter refused to build (nil)
// must never be used
func verifC19NeedEncoder(e *zstd.Encoder) {
	if e == nil {
		panic("zstd: method called on a nil *Encoder (NewWriter had failed)")
	}
}
func verifExt_zstd_Encoder_Close(e *zstd.Encoder) error { verifC19NeedEncoder(e); return nil }
func verifExt_zstd_Encoder_MaxEncodedSize(e *zstd.Encoder, n int) int {
	verifC19NeedEncoder(e)
	return n + 64
}
func verifExt_zstd_Encoder_EncodeAll(e *zstd.Encoder, src, dst []byte) []byte {
	verifC19NeedEncoder(e)
	verifC19.encoded, verifC19.encCodec = verifC19SomeBytes("zstd.out"), CodecZstd
	return append(dst, verifC19.encoded...)
}

func verifExt_zstd_NewReader(r io.Reader, opts ...zstd.DOption) (*zstd.Decoder, error) {
	return new(zstd.Decoder), nil
}
func verifExt_zstd_WithDecoderLowmem(b bool) zstd.DOption     { return nil }
func verifExt_zstd_WithDecoderConcurrency(n int) zstd.DOption { return nil }
func verifExt_zstd_WithDecoderMaxMemory(n uint64) zstd.DOption {
	verifC19.zstdMaxMem, verifC19.zstdMaxMemSet = n, true
	return nil
}
func verifExt_zstd_Decoder_Close(d *zstd.Decoder) {}
func verifExt_zstd_Decoder_DecodeAll(d *zstd.Decoder, input, dst []byte) ([]byte, error) {
	if verifNondetBool("zstd.DecodeAll.fails") {
		return dst, errVerifC19
	}
	n := verifNondetInt("zstd.decoded.n")
	verifAssume(verifAnd(n >= 0, n <= 6)) // no WithDecoderMaxMemory: the library default (64 GiB) is "unbounded" here
	if verifC19.zstdMaxMemSet {
		verifAssume(uint64(n) <= verifC19.zstdMaxMem)
	}
	n = verifConcretize(n)
	b := verifNondetBytes("zstd.decoded", n)
	verifC19.delivered = append(verifC19.delivered, b...)
	return append(dst, b...), nil
}
