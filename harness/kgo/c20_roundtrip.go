package kgo

import (
	"bytes"
	"io"
	"time"
)

// C20: for a fixed list of concrete layouts whose fields are all size-prefixed or fixed-width,
// a RecordReader with the same layout reads back, record by record, what a RecordFormatter
// wrote for symbolic small records, then returns io.EOF exactly at the end of the stream.

const (
	verifC20Topic = 1 << iota
	verifC20Key
	verifC20Value
	verifC20Headers
	verifC20Partition
	verifC20Offset
	verifC20Epoch
	verifC20Time
	verifC20PID
	verifC20PEpoch
)

// how a numeric field is encoded by the layout, which decides its admissible range ("any
// numeric field within the layout's width") and how much of it is symbolic
type verifC20Enc struct {
	kind byte // 'b' binary (all bits symbolic), 'h' fixed-width hex, 'a' ascii, 't' bool
	bits int  // encoded width in bits for 'b' and 'h' (0 = the field's own width: lossless)
}

type verifC20Layout struct {
	layout                        string
	fields                        int
	part, off, epoch, pid, pepoch verifC20Enc
	asciiTime                     bool
}

const verifC20KV = verifC20Key | verifC20Value

var (
	vB = verifC20Enc{kind: 'b'}
	vA = verifC20Enc{kind: 'a'}
	vT = verifC20Enc{kind: 't'}
)

func vBn(bits int) verifC20Enc { return verifC20Enc{kind: 'b', bits: bits} }
func vH(bits int) verifC20Enc  { return verifC20Enc{kind: 'h', bits: bits} }

var verifC20Layouts = []verifC20Layout{
	// 0: binary big-endian sizes
	{layout: "%K{big32}%k%V{big32}%v", fields: verifC20KV},
	// 1: topic, little-endian sizes, headers with byte sizes
	{layout: "%T{byte}%t%K{little16}%k%V{little32}%v%H{big16}%h{%K{byte}%k%V{byte}%v}", fields: verifC20Topic | verifC20KV | verifC20Headers},
	// 2: every numeric field, lossless binary widths
	{layout: "%p{big32}%o{big64}%e{little32}%d{big64}%x{little64}%y{big16}%V{byte}%v", fields: verifC20Value | verifC20Partition | verifC20Offset | verifC20Epoch | verifC20Time | verifC20PID | verifC20PEpoch,
		part: vB, off: vB, epoch: vB, pid: vB, pepoch: vB},
	// 3: fixed-width hex numbers
	{layout: "%p{hex8}%o{hex64}%e{hex32}%x{hex16}%y{hex4}%K{hex8}%k%V{hex16}%v", fields: verifC20KV | verifC20Partition | verifC20Offset | verifC20Epoch | verifC20PID | verifC20PEpoch,
		part: vH(8), off: vH(64), epoch: vH(32), pid: vH(16), pepoch: vH(4)},
	// 4: ascii sizes with separators, trailing newline
	{layout: "%K{ascii} %k %V{number} %v\n", fields: verifC20KV},
	// 5: ascii numbers (default encoding) with separators
	{layout: "%p %o %e %x %y %d|%V %v\n", fields: verifC20Value | verifC20Partition | verifC20Offset | verifC20Epoch | verifC20Time | verifC20PID | verifC20PEpoch,
		part: vA, off: vA, epoch: vA, pid: vA, pepoch: vA, asciiTime: true},
	// 6: ascii topic size, ascii header count and header sizes with literals
	{layout: "%T %t %H %h{%K:%k=%V:%v;}%K-%k%V-%v", fields: verifC20Topic | verifC20KV | verifC20Headers},
	// 7: narrow binary widths
	{layout: "%p{byte}%o{little16}%e{big8}%y{little8}%x{big16}%V{big64}%v", fields: verifC20Value | verifC20Partition | verifC20Offset | verifC20Epoch | verifC20PID | verifC20PEpoch,
		part: vBn(8), off: vBn(16), epoch: vBn(8), pid: vBn(16), pepoch: vBn(8)},
	// 8: bool number, layout ending in an ascii number (EOF directly after digits)
	{layout: "%e{bool}%V{byte}%v%p", fields: verifC20Value | verifC20Partition | verifC20Epoch, part: vA, epoch: vT},
	// 9: literal escapes around sized fields
	{layout: "\\x00%K{byte}%k\\t%V{byte}%v%%%{%}\\n", fields: verifC20KV},
	// 10: 32-bit widths for 64-bit fields, hex timestamp
	{layout: "%o{big32}%x{little32}%d{hex64}%V{hex4}%v", fields: verifC20Value | verifC20Offset | verifC20PID | verifC20Time, off: vBn(32), pid: vBn(32)},
}

// numeric field number idx of a record; sym says whether this field is the symbolic one on
// this path for the one-symbolic-field encodings (hex, ascii, bool)
func verifC20Num(name string, e verifC20Enc, own int, idx int, sym bool) int64 {
	const pattern = uint64(0x9a2b3c4d5e6f7081)
	bits := e.bits
	if bits == 0 {
		bits = own
	}
	trunc := func(u uint64) int64 {
		if bits < own { // narrower than the field: unsigned values below 2^bits are "within the width"
			return int64(u & (1<<uint(bits) - 1))
		}
		switch own { // lossless: the field's whole signed range
		case 16:
			return int64(int16(u))
		case 32:
			return int64(int32(u))
		}
		return int64(u)
	}
	switch e.kind {
	case 'b':
		return trunc(verifNondetUint64(name))
	case 'h':
		if !sym {
			return trunc(pattern >> uint(idx))
		}
		if bits == 4 {
			return int64(verifNondetUint8(name) & 0xf)
		}
		// one symbolic byte at a byte position (quick: lowest, middle, highest), the rest fixed
		nPos := bits / 8
		var pos int
		if !verifThorough() && nPos > 2 {
			pos = []int{0, nPos / 2, nPos - 1}[verifChoose(3)]
		} else {
			pos = verifChoose(nPos)
		}
		k := uint(8 * pos)
		return trunc(pattern&^(0xff<<k) | uint64(verifNondetUint8(name))<<k)
	case 'a':
		if !sym {
			return []int64{7, 42, 999, 0, 10}[idx]
		}
		// three-digit numbers symbolically; below 100 strconv slices its digit table at the
		// number (one path per value), so only the digit-count boundaries are taken
		small := []int64{0, 99}
		if verifThorough() {
			small = []int64{0, 9, 10, 99}
		}
		if c := verifChoose(1 + len(small)); c > 0 {
			return small[c-1]
		}
		v := verifNondetInt64(name)
		verifAssume(verifAnd(v >= 100, v <= 999))
		return v
	case 't':
		if !sym {
			return 1
		}
		if verifNondetBool(name) {
			return 1
		}
		return 0
	}
	return 0
}

// record shapes: lengths concrete per shape, contents symbolic
func verifC20Record(l *verifC20Layout, shape int, symField int) *Record {
	r := &Record{}
	var kl, vl, tl, nh, hkl, hvl int // -1 = nil
	switch shape {
	case 0:
		kl, vl, tl, nh = -1, -1, 0, 0
	case 1:
		kl, vl, tl, nh, hkl, hvl = 0, 1, 1, 1, 0, -1
	case 2:
		kl, vl, tl, nh, hkl, hvl = 1, 2, 2, 1, 1, 1
	case 3:
		kl, vl, tl, nh, hkl, hvl = 2, 0, 1, 1, 1, 0
	case 4:
		kl, vl, tl, nh = 2, 2, 2, 0
	}
	if l.fields&verifC20Key != 0 && kl >= 0 {
		r.Key = verifNondetBytes("key", kl)
	}
	if l.fields&verifC20Value != 0 && vl >= 0 {
		r.Value = verifNondetBytes("value", vl)
	}
	if l.fields&verifC20Topic != 0 {
		r.Topic = verifNondetString("topic", tl)
	}
	if l.fields&verifC20Headers != 0 {
		for i := 0; i < nh; i++ {
			h := RecordHeader{Key: verifNondetString("hkey", hkl)}
			if hvl >= 0 {
				h.Value = verifNondetBytes("hvalue", hvl)
			}
			r.Headers = append(r.Headers, h)
		}
	}
	if l.fields&verifC20Partition != 0 {
		r.Partition = int32(verifC20Num("partition", l.part, 32, 0, symField == 0))
	}
	if l.fields&verifC20Offset != 0 {
		r.Offset = verifC20Num("offset", l.off, 64, 1, symField == 1)
	}
	if l.fields&verifC20Epoch != 0 {
		r.LeaderEpoch = int32(verifC20Num("leaderEpoch", l.epoch, 32, 2, symField == 2))
	}
	if l.fields&verifC20PID != 0 {
		r.ProducerID = verifC20Num("producerID", l.pid, 64, 3, symField == 3)
	}
	if l.fields&verifC20PEpoch != 0 {
		r.ProducerEpoch = int16(verifC20Num("producerEpoch", l.pepoch, 16, 4, symField == 4))
	}
	if l.fields&verifC20Time != 0 {
		// concrete millisecond timestamps (the ms<->time.Time conversion is 64-bit division by
		// constants); ascii layouts need [0,999]
		ms := []int64{0, 999, 1_700_000_000_123, -5}
		if l.asciiTime {
			r.Timestamp = time.UnixMilli(ms[shape%2])
		} else {
			r.Timestamp = time.UnixMilli(ms[verifChoose(len(ms))])
		}
	}
	return r
}

func verifC20EqBytes(got, want []byte) bool {
	if len(got) != len(want) {
		return false
	}
	ok := true
	for i := range want {
		ok = verifAnd(ok, got[i] == want[i])
	}
	return ok
}

func verifC20Check(l *verifC20Layout, got, want *Record) {
	if l.fields&verifC20Topic != 0 {
		verifAssert(verifC20EqBytes([]byte(got.Topic), []byte(want.Topic)), "topic reads back")
	}
	if l.fields&verifC20Key != 0 {
		verifAssert(verifC20EqBytes(got.Key, want.Key), "key reads back")
	}
	if l.fields&verifC20Value != 0 {
		verifAssert(verifC20EqBytes(got.Value, want.Value), "value reads back")
	}
	if l.fields&verifC20Headers != 0 {
		verifAssert(len(got.Headers) == len(want.Headers), "header count reads back")
		if len(got.Headers) == len(want.Headers) {
			for i := range want.Headers {
				verifAssert(verifC20EqBytes([]byte(got.Headers[i].Key), []byte(want.Headers[i].Key)), "header key reads back")
				verifAssert(verifC20EqBytes(got.Headers[i].Value, want.Headers[i].Value), "header value reads back")
			}
		}
	}
	if l.fields&verifC20Partition != 0 {
		verifAssert(got.Partition == want.Partition, "partition reads back")
	}
	if l.fields&verifC20Offset != 0 {
		verifAssert(got.Offset == want.Offset, "offset reads back")
	}
	if l.fields&verifC20Epoch != 0 {
		verifAssert(got.LeaderEpoch == want.LeaderEpoch, "leader epoch reads back")
	}
	if l.fields&verifC20PID != 0 {
		verifAssert(got.ProducerID == want.ProducerID, "producer id reads back")
	}
	if l.fields&verifC20PEpoch != 0 {
		verifAssert(got.ProducerEpoch == want.ProducerEpoch, "producer epoch reads back")
	}
	if l.fields&verifC20Time != 0 {
		verifAssert(got.Timestamp.UnixMilli() == want.Timestamp.UnixMilli(), "timestamp (milliseconds) reads back")
	}
}

func verifC20Run(l *verifC20Layout) {
	f, err := NewRecordFormatter(l.layout)
	verifAssert(err == nil, "layout compiles as a formatter")
	if err != nil {
		return
	}
	nRecs := 1 + verifChoose(2)
	nShapes := 5
	// for hex / ascii / bool encodings one numeric field of one record is symbolic per path
	// (every symbolic hex or decimal digit forks the reader's digit classification)
	var symFields []int
	for i, e := range []verifC20Enc{l.part, l.off, l.epoch, l.pid, l.pepoch} {
		if e.kind == 'h' || e.kind == 'a' || e.kind == 't' {
			symFields = append(symFields, i)
		}
	}
	symField, symRec := -1, 0
	if len(symFields) > 0 {
		symField = symFields[verifChoose(len(symFields))]
		if !verifThorough() {
			nRecs = 2 // single-record streams are covered by the other layouts
		}
		symRec = verifChoose(nRecs)
	}
	nShape0 := nShapes
	if symField >= 0 && !verifThorough() {
		nShape0 = 2 // record shapes are independent of the digit encodings
	}
	shape0 := verifChoose(nShape0)
	var want []*Record
	var stream []byte
	for i := 0; i < nRecs; i++ {
		shape := (shape0 + 2*i) % nShapes
		sf := -1
		if i == symRec {
			sf = symField
		}
		r := verifC20Record(l, shape, sf)
		want = append(want, r)
		stream = f.AppendRecord(stream, r)
	}
	rd, err := NewRecordReader(bytes.NewReader(stream), l.layout)
	verifAssert(err == nil, "layout compiles as a reader")
	if err != nil {
		return
	}
	for _, w := range want {
		got, err := rd.ReadRecord()
		verifAssert(err == nil, "a written record reads back without error")
		if err != nil {
			return
		}
		verifC20Check(l, got, w)
	}
	_, err = rd.ReadRecord()
	verifAssert(err == io.EOF, "io.EOF exactly at the end of the stream")
	_, err = rd.ReadRecord()
	verifAssert(err == io.EOF, "io.EOF stays io.EOF")
	verifReached("c20-roundtrip")
}

func VerifC20_layout00() { verifC20Run(&verifC20Layouts[0]) }
func VerifC20_layout01() { verifC20Run(&verifC20Layouts[1]) }
func VerifC20_layout02() { verifC20Run(&verifC20Layouts[2]) }
func VerifC20_layout03() { verifC20Run(&verifC20Layouts[3]) }
func VerifC20_layout04() { verifC20Run(&verifC20Layouts[4]) }
func VerifC20_layout05() { verifC20Run(&verifC20Layouts[5]) }
func VerifC20_layout06() { verifC20Run(&verifC20Layouts[6]) }
func VerifC20_layout07() { verifC20Run(&verifC20Layouts[7]) }
func VerifC20_layout08() { verifC20Run(&verifC20Layouts[8]) }
func VerifC20_layout09() { verifC20Run(&verifC20Layouts[9]) }
func VerifC20_layout10() { verifC20Run(&verifC20Layouts[10]) }

// Size-prefixed ENCODED text (hex / base64): the property names these encodings, so they are
// checked too, in their own entry points. The formatter's %K/%V/%T print the length of the raw
// bytes, the reader's %K/%V/%T are documented as "the size of the encoded value actually being
// read", so these layouts cannot round-trip unless the field is empty.
var verifC20EncodedLayouts = []verifC20Layout{
	{layout: "%K{byte}%k{hex}%V{byte}%v{hex}", fields: verifC20KV},
	{layout: "%V{big16}%v{base64}", fields: verifC20Value},
	{layout: "%T{byte}%t{hex}%V{byte}%v", fields: verifC20Topic | verifC20Value},
}

func VerifC20_encoded_hex()      { verifC20Run(&verifC20EncodedLayouts[0]) }
func VerifC20_encoded_base64()   { verifC20Run(&verifC20EncodedLayouts[1]) }
func VerifC20_encoded_topicHex() { verifC20Run(&verifC20EncodedLayouts[2]) }

// Sized fields longer than the reader's 64 KiB read chunk: the reader accumulates such a field
// in several reads. Two records whose value length is one of {65535, 65536, 65537, 70000,
// 131072, 131073} (concrete pattern bytes; 4-byte big-endian size), a 1-byte key after it so
// that an over-read of the value is visible in the NEXT field, read back through ReadRecord.
func VerifC20_chunkedLargeField() {
	verifUnwind(300000) // byte loops over two values of up to 131073 bytes
	n := []int{65535, 65536, 65537, 70000, 131072, 131073}[verifChoose(6)]
	layout := "%V{big32}%v%K{byte}%k"
	f, err := NewRecordFormatter(layout)
	verifAssert(err == nil, "layout compiles as a formatter")
	if err != nil {
		return
	}
	var stream []byte
	var want []*Record
	for i := 0; i < 2; i++ {
		v := make([]byte, n)
		for j := range v {
			v[j] = byte(j*7 + i)
		}
		r := &Record{Value: v, Key: []byte{byte(0xA0 + i)}}
		want = append(want, r)
		stream = f.AppendRecord(stream, r)
	}
	rd, err := NewRecordReader(bytes.NewReader(stream), layout)
	verifAssert(err == nil, "layout compiles as a reader")
	if err != nil {
		return
	}
	for _, w := range want {
		got, err := rd.ReadRecord()
		verifAssert(err == nil, "a written record reads back without error")
		if err != nil {
			return
		}
		verifAssert(len(got.Value) == len(w.Value) && len(got.Key) == 1, "a field longer than the read chunk reads back with its length, and the next field starts right after it")
		if len(got.Value) != len(w.Value) || len(got.Key) != 1 {
			return
		}
		same := got.Key[0] == w.Key[0]
		for j := range w.Value {
			same = same && got.Value[j] == w.Value[j]
		}
		verifAssert(same, "a field longer than the read chunk reads back byte for byte")
	}
	_, err = rd.ReadRecord()
	verifAssert(err == io.EOF, "io.EOF exactly at the end of the stream")
	verifReached("c20-large-field")
}
