package kgo

import (
	"bytes"
	"io"
)

// VerifC20_setReader: one RecordReader reused across two streams with SetReader (the documented
// way to reuse a compiled layout). For the two header layouts (binary-sized and text-sized
// %H/%h{...}): stream A with one record is read to io.EOF, SetReader installs stream B (one or
// two records of other shapes), and every record of B must read back - including its headers,
// which are parsed by the layout's inner header reader - followed by io.EOF exactly at the end
// of B. Also the variant where A is abandoned before it is drained.
func VerifC20_setReader() {
	var hl []*verifC20Layout
	for i := range verifC20Layouts {
		if verifC20Layouts[i].fields&verifC20Headers != 0 {
			hl = append(hl, &verifC20Layouts[i])
		}
	}
	verifAssert(len(hl) >= 1, "there is a layout with headers to test")
	if len(hl) == 0 {
		return
	}
	l := hl[verifPickC20(len(hl))]
	f, err := NewRecordFormatter(l.layout)
	verifAssert(err == nil, "layout compiles as a formatter")
	if err != nil {
		return
	}
	shapeA := verifChoose(5)
	a := verifC20Record(l, shapeA, -1)
	streamA := f.AppendRecord(nil, a)
	nB := 1 + verifChoose(2)
	var wantB []*Record
	var streamB []byte
	for i := 0; i < nB; i++ {
		r := verifC20Record(l, (shapeA+1+2*i)%5, -1)
		wantB = append(wantB, r)
		streamB = f.AppendRecord(streamB, r)
	}
	drainA := verifChoose(2) == 1
	if !drainA {
		streamA = append(streamA, streamA...) // a second record stays unread in A
	}
	rd, err := NewRecordReader(bytes.NewReader(streamA), l.layout)
	verifAssert(err == nil, "layout compiles as a reader")
	if err != nil {
		return
	}
	got, err := rd.ReadRecord()
	verifAssert(err == nil, "a written record reads back without error")
	if err != nil {
		return
	}
	verifC20Check(l, got, a)
	if drainA {
		_, err = rd.ReadRecord()
		verifAssert(err == io.EOF, "io.EOF exactly at the end of the stream")
	}
	rd.SetReader(bytes.NewReader(streamB))
	for _, w := range wantB {
		got, err := rd.ReadRecord()
		verifAssert(err == nil, "after SetReader a written record of the new stream reads back without error")
		if err != nil {
			return
		}
		verifC20Check(l, got, w)
	}
	_, err = rd.ReadRecord()
	verifAssert(err == io.EOF, "after SetReader io.EOF comes exactly at the end of the new stream")
	verifReached("c20-setreader")
}

func verifPickC20(n int) int {
	if n <= 1 {
		return 0
	}
	return verifChoose(n)
}
