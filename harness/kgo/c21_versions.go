package kgo

import (
	"context"
	"errors"
	"time"

	"github.com/twmb/franz-go/pkg/kmsg"
	"github.com/twmb/franz-go/pkg/kversion"
)

// ---- harness request type ----

type verifC21Req struct {
	key     int16
	max     int16
	version int16
	set     bool
}

func (r *verifC21Req) Key() int16                   { return r.key }
func (r *verifC21Req) MaxVersion() int16            { return r.max }
func (r *verifC21Req) SetVersion(v int16)           { r.version = v; r.set = true }
func (r *verifC21Req) GetVersion() int16            { return r.version }
func (r *verifC21Req) IsFlexible() bool             { return false }
func (r *verifC21Req) AppendTo(dst []byte) []byte   { return dst }
func (r *verifC21Req) ReadFrom([]byte) error        { return nil }
func (r *verifC21Req) ResponseKind() kmsg.Response  { return nil }

var verifC21State struct {
	cxn     *brokerCxn
	written bool
	version int16
	fresh   *brokerVersions // what this connection's ApiVersions exchange yields
}

//verif:replace (*broker).loadConnection
func (b *broker) verifC21LoadConnection(ctx context.Context, req kmsg.Request) (*brokerCxn, error) {
	// like the real connection init, (re)connecting stores the versions this broker now
	// advertises; what an earlier connection advertised must not be used for this request
	b.storeVersions(verifC21State.fresh)
	return verifC21State.cxn, nil
}

//verif:replace (*brokerCxn).writeRequest
func (cxn *brokerCxn) verifC21WriteRequest(ctx context.Context, enq time.Time, req kmsg.Request) (int32, int, time.Duration, time.Duration, time.Time, error) {
	verifC21State.written = true
	verifC21State.version = req.GetVersion()
	return 0, 1, 0, 0, time.Time{}, errors.New("verif: write stopped here")
}

//verif:replace (*brokerCxn).die
func (cxn *brokerCxn) verifC21Die() {}

//verif:replace (*brokerCxn).hookWriteE2E
func (cxn *brokerCxn) verifC21HookWriteE2E(key int16, bytesWritten int, writeWait, timeToWrite time.Duration, writeErr error) {
}

func verifMin16(a, b int16) int16 {
	return verifIteInt16(a < b, a, b)
}

func verifIteInt16(c bool, a, b int16) int16 {
	return int16(verifIteInt32(c, int32(a), int32(b)))
}

// For every int16 combination of request max, broker min/max (advertised or not), user
// MaxVersions/MinVersions entries (set/unset/has key or not) and request pin: a written
// request carries min(all applicable maxima) and respects every applicable minimum; otherwise
// nothing is written and the promise gets exactly one error.
func VerifC21_negotiate() {
	cl := &Client{}
	cl.cfg.logger = new(nopLogger)
	b := &broker{cl: cl}
	verifC21State.cxn = &brokerCxn{cl: cl, b: b}
	verifC21State.written = false

	key := verifNondetInt16("key")
	reqMax := verifNondetInt16("req.max")
	verifAssume(verifAnd(key >= 0, reqMax >= 0))
	req := &verifC21Req{key: key, max: reqMax}

	// broker versions: either none loaded (pinned pre-0.10: empty maps), or loaded with
	// ApiVersions (key 18 -> 0 always present, i.e. maxVersion(0)>=0 via key 0) and the
	// request key present or not.
	v := newBrokerVersions(4)
	loaded := verifNondetBool("broker.loaded")
	hasKey := verifNondetBool("broker.hasKey")
	bMax, bMin := verifNondetInt16("broker.max"), verifNondetInt16("broker.min")
	verifAssume(verifAnd(bMin >= 0, bMax >= bMin))
	b0Max := verifNondetInt16("broker.key0max")
	verifAssume(b0Max >= 0)
	if loaded {
		if key != 0 {
			v.maxVers[0] = b0Max
			v.minVers[0] = 0
		}
		if hasKey || key == 0 {
			v.maxVers[key] = bMax
			v.minVers[key] = bMin
		}
	}
	verifC21State.fresh = v
	// before the (re)connect the broker may have advertised anything else for this key
	stale := newBrokerVersions(4)
	if verifNondetBool("stale.present") {
		stale.maxVers[0], stale.minVers[0] = 3, 0
		stale.maxVers[key], stale.minVers[key] = verifNondetInt16("stale.max"), verifNondetInt16("stale.min")
	}
	b.storeVersions(stale)
	advertised := loaded && (hasKey || key == 0)

	// user max / min versions
	userMaxSet, userMaxHas := verifNondetBool("userMax.set"), verifNondetBool("userMax.hasKey")
	userMinSet, userMinHas := verifNondetBool("userMin.set"), verifNondetBool("userMin.hasKey")
	uMax, uMin := verifNondetInt16("userMax"), verifNondetInt16("userMin")
	verifAssume(verifAnd(uMax >= 0, uMin >= 0))
	if userMaxSet {
		cl.cfg.maxVersions = new(kversion.Versions)
		if userMaxHas {
			cl.cfg.maxVersions.SetMaxKeyVersion(key, uMax)
		}
	}
	if userMinSet {
		cl.cfg.minVersions = new(kversion.Versions)
		if userMinHas {
			cl.cfg.minVersions.SetMaxKeyVersion(key, uMin)
		}
	}

	// pin
	ctx := context.Background()
	pinned := verifNondetBool("pinned")
	pin := &pinReq{min: verifNondetInt16("pin.min"), max: verifNondetInt16("pin.max"), pinMin: verifNondetBool("pin.pinMin"), pinMax: verifNondetBool("pin.pinMax")}
	verifAssume(verifAnd(pin.min >= 0, pin.max >= 0))
	if pinned {
		ctx = context.WithValue(ctx, ctxPinReq, pin)
	}

	calls := 0
	var gotErr error
	var gotResp kmsg.Response
	b.handleReq(promisedReq{ctx: ctx, req: req, promise: func(r kmsg.Response, err error) {
		calls++
		gotErr, gotResp = err, r
	}})

	verifAssert(calls == 1, "promise called exactly once")
	verifAssert(gotErr != nil && gotResp == nil, "stubbed write always ends in an error, never a response")

	// reference negotiation
	wantMax := reqMax
	if pinned && pin.pinMax {
		wantMax = verifMin16(wantMax, pin.max)
	}
	if advertised {
		wantMax = verifMin16(wantMax, bMax)
	}
	if userMaxSet && userMaxHas {
		wantMax = verifMin16(wantMax, uMax)
	}
	mustRefuse := false
	if userMaxSet && !userMaxHas {
		mustRefuse = true // user's MaxVersions lacks the key
	}
	if loaded && !advertised {
		mustRefuse = true // broker does not advertise the key after ApiVersions
	}
	minOK := true
	if pinned && pin.pinMin {
		minOK = verifAnd(minOK, pin.min <= wantMax)
	}
	if advertised {
		minOK = verifAnd(minOK, bMin <= wantMax)
	}
	if userMinSet && userMinHas {
		minOK = verifAnd(minOK, uMin <= wantMax)
	}

	if verifC21State.written {
		verifAssert(!mustRefuse, "never written when the key is not usable")
		verifAssert(verifC21State.version == wantMax, "written version is the minimum of every applicable maximum")
		verifAssert(minOK, "written version respects every applicable minimum")
		verifAssert(verifAnd(req.set, req.version == wantMax), "request carries the negotiated version")
	} else {
		verifAssert(verifOr(mustRefuse, verifNot(minOK)), "refused only when no version satisfies all bounds")
	}
	if mustRefuse {
		verifAssert(!verifC21State.written, "unusable key is never written")
	}
	verifReached("c21-negotiate")
}
