package kgo

import "github.com/twmb/franz-go/pkg/kmsg"

// C21 (which version table a connection uses): the versions a request may be written at are the
// ones the broker advertised in the ApiVersions exchange OF THAT CONNECTION's broker, most
// recent exchange last. Two successive connections to one broker (the first died): the first
// completes discovery at v3 with a key table A and finalized features; the second is answered
// at a lower ApiVersions version (old broker after a downgrade / rolling restart: first an
// UNSUPPORTED_VERSION pointing at v0, then a v0 answer) with a DIFFERENT key table B. After
// the second exchange the broker's stored table is exactly B — never the stale A.
// (Runs with the C22 harness file's connection model; real writeRequest/readResponse.)
func verifC21ApiVersionsFrame(corr byte, version int16, resp *kmsg.ApiVersionsResponse) verifC22Frame {
	resp.Version = version
	buf := []byte{0, 0, 0, corr}
	return verifC22Frame{buf: resp.AppendTo(buf)}
}

func VerifC21_reconnectAdoptsAdvertisedVersions() {
	cxn1, _ := verifC22Cxn()
	cl, b := cxn1.cl, cxn1.b
	cl.reqFormatter = kmsg.NewRequestFormatter()
	cl.bufPool = newBufPool()

	maxA := verifNondetInt16("tableA.metadataMax")
	maxB := verifNondetInt16("tableB.metadataMax")
	verifAssume(verifAnd(verifAnd(maxA >= 0, maxA <= 13), verifAnd(maxB >= 0, maxB <= 13)))

	// first connection: v3+ answer (request goes out at v4), key 3 (Metadata) up to maxA, one feature
	ra := kmsg.NewPtrApiVersionsResponse()
	ka := kmsg.NewApiVersionsResponseApiKey()
	ka.ApiKey, ka.MinVersion, ka.MaxVersion = 3, 0, maxA
	ra.ApiKeys = append(ra.ApiKeys, ka)
	k18 := kmsg.NewApiVersionsResponseApiKey()
	k18.ApiKey, k18.MinVersion, k18.MaxVersion = 18, 0, 4
	ra.ApiKeys = append(ra.ApiKeys, k18)
	f := kmsg.NewApiVersionsResponseFinalizedFeature()
	f.Name, f.MaxVersionLevel, f.MinVersionLevel = "transaction.version", 2, 0
	ra.FinalizedFeatures = append(ra.FinalizedFeatures, f)
	ra.FinalizedFeaturesEpoch = 1
	verifC22.frames = []verifC22Frame{verifC21ApiVersionsFrame(0, 4, ra)}
	err := cxn1.requestAPIVersions(0)
	verifAssert(err == nil, "discovery on the first connection succeeds")
	v1 := b.loadVersions()
	verifAssert(v1 != nil && v1.maxVersion(3) == maxA, "the first connection's advertised table is stored")

	// second connection to the same broker: UNSUPPORTED_VERSION -> v0, then a v0 table B
	cxn2 := &brokerCxn{cl: cl, b: b, conn: &verifC22Conn{}, deadCh: make(chan struct{})}
	verifC22.reads = 0
	un := kmsg.NewPtrApiVersionsResponse()
	un.ErrorCode = 35
	ku := kmsg.NewApiVersionsResponseApiKey()
	ku.ApiKey, ku.MinVersion, ku.MaxVersion = 18, 0, 0
	un.ApiKeys = append(un.ApiKeys, ku)
	rb := kmsg.NewPtrApiVersionsResponse()
	kb := kmsg.NewApiVersionsResponseApiKey()
	kb.ApiKey, kb.MinVersion, kb.MaxVersion = 3, 0, maxB
	rb.ApiKeys = append(rb.ApiKeys, kb)
	kb18 := kmsg.NewApiVersionsResponseApiKey()
	kb18.ApiKey, kb18.MinVersion, kb18.MaxVersion = 18, 0, 0
	rb.ApiKeys = append(rb.ApiKeys, kb18)
	verifC22.frames = []verifC22Frame{verifC21ApiVersionsFrame(0, 0, un), verifC21ApiVersionsFrame(1, 0, rb)}
	err = cxn2.requestAPIVersions(0)
	verifAssert(err == nil, "discovery on the second connection succeeds after the downgrade")
	v2 := b.loadVersions()
	verifAssert(v2 != nil && v2.maxVersion(3) == maxB, "after a reconnect the stored table is the one the broker advertised in the latest exchange, not a stale earlier one")
	verifAssert(v2 != nil && v2.maxVersion(18) == 0, "the latest exchange's ApiVersions entry is stored")
	verifReached("c21-reconnect-versions")
}
