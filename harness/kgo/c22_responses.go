package kgo

import (
	"context"
	"errors"
	"io"
	"net"
	"time"

	"github.com/twmb/franz-go/pkg/kbin"
	"github.com/twmb/franz-go/pkg/kmsg"
)

// C22 — responses are matched to their requests; hostile bytes are safe.

// ---- environment ----

type verifC22Conn struct{ closed int }

func (c *verifC22Conn) Read(b []byte) (int, error)         { return 0, io.EOF }
func (c *verifC22Conn) Write(b []byte) (int, error)        { return len(b), nil }
func (c *verifC22Conn) Close() error                       { c.closed++; return nil }
func (c *verifC22Conn) LocalAddr() net.Addr                { return nil }
func (c *verifC22Conn) RemoteAddr() net.Addr               { return nil }
func (c *verifC22Conn) SetDeadline(t time.Time) error      { return nil }
func (c *verifC22Conn) SetReadDeadline(t time.Time) error  { return nil }
func (c *verifC22Conn) SetWriteDeadline(t time.Time) error { return nil }

// one scripted frame per read: either an error or the bytes after the 4-byte size prefix
type verifC22Frame struct {
	err error
	buf []byte
}

var verifC22 struct {
	frames []verifC22Frame
	reads  int
}

//verif:replace (*brokerCxn).readConn
func (cxn *brokerCxn) verifC22ReadConn(ctx context.Context, timeout time.Duration, enqueuedForReadingAt time.Time) (nread int, buf []byte, readWait, timeToRead time.Duration, err error) {
	i := verifC22.reads
	verifC22.reads++
	if c, ok := cxn.conn.(*verifC22Conn); ok && c.closed > 0 {
		return 0, nil, 0, 0, net.ErrClosed
	}
	if i >= len(verifC22.frames) {
		return 0, nil, 0, 0, io.EOF
	}
	f := verifC22.frames[i]
	if f.err != nil {
		return 0, nil, 0, 0, f.err
	}
	return 4 + len(f.buf), f.buf, 0, 0, nil
}

// harness response: records what it was asked to parse
type verifC22Resp struct {
	key     int16
	version int16
	readErr error
	got     [][]byte
}

func (r *verifC22Resp) Key() int16                 { return r.key }
func (r *verifC22Resp) MaxVersion() int16          { return 5 }
func (r *verifC22Resp) SetVersion(v int16)         { r.version = v }
func (r *verifC22Resp) GetVersion() int16          { return r.version }
func (r *verifC22Resp) IsFlexible() bool           { return false }
func (r *verifC22Resp) AppendTo(b []byte) []byte   { return b }
func (r *verifC22Resp) RequestKind() kmsg.Request  { return nil }
func (r *verifC22Resp) ReadFrom(b []byte) error {
	r.got = append(r.got, b)
	return r.readErr
}

func verifC22Cxn() (*brokerCxn, *verifC22Conn) {
	cl := &Client{}
	cl.cfg.logger = new(nopLogger)
	cl.ctx = context.Background()
	b := &broker{cl: cl}
	b.meta.NodeID = 1
	conn := &verifC22Conn{}
	cxn := &brokerCxn{cl: cl, b: b, conn: conn, deadCh: make(chan struct{})}
	verifC22.frames = nil
	verifC22.reads = 0
	return cxn, conn
}

// ---- parseReadSize: all 4 bytes, every configured maximum ----

func VerifC22_parseReadSize() {
	cxn, _ := verifC22Cxn()
	max := verifNondetInt32("maxBrokerReadBytes")
	verifAssume(max >= 0)
	cxn.cl.cfg.maxBrokerReadBytes = max
	sb := verifNondetBytes("size", 4)
	want := int32(uint32(sb[0])<<24 | uint32(sb[1])<<16 | uint32(sb[2])<<8 | uint32(sb[3]))
	size, err := cxn.parseReadSize(sb)
	if err == nil {
		verifAssert(size == want, "an accepted size is the big-endian value of the four bytes")
		verifAssert(verifAnd(size >= 0, size <= max), "an accepted size lies within [0, MaxBrokerReadBytes]")
	} else {
		verifAssert(size == 0, "a rejected size is reported as 0")
		verifAssert(verifOr(want < 0, want > max), "a size is rejected only if negative or above MaxBrokerReadBytes")
	}
	verifReached("c22-parse-size")
}

// ---- readResponse ----

// reference decoder for one unsigned varint (LEB128, at most 5 bytes, value below 2^32)
func verifC22Uvarint(b []byte) (v uint32, n int, ok bool) {
	for i := 0; i < 5; i++ {
		if i >= len(b) {
			return 0, 0, false
		}
		c := b[i]
		if i == 4 && c > 0x0f {
			return 0, 0, false
		}
		v |= uint32(c&0x7f) << (7 * uint(i))
		if c&0x80 == 0 {
			return v, i + 1, true
		}
	}
	return 0, 0, false
}

// reference for KIP-482 tagged fields: count, then (tag, size, size bytes) each; returns the
// bytes after the section.
func verifC22SkipTagsRef(b []byte) (rest []byte, num uint32, ok bool) {
	num, n, ok := verifC22Uvarint(b)
	if !ok {
		return nil, 0, false
	}
	b = b[n:]
	for i := uint32(0); i < num; i++ {
		_, n, ok := verifC22Uvarint(b)
		if !ok {
			return nil, num, false
		}
		b = b[n:]
		sz, n, ok := verifC22Uvarint(b)
		if !ok {
			return nil, num, false
		}
		b = b[n:]
		if uint64(sz) > uint64(len(b)) {
			return nil, num, false
		}
		b = b[sz:]
	}
	return b, num, true
}

func verifC22MaxBuf() int {
	if verifThorough() {
		return 12
	}
	return 9
}

// Any frame of 0..9 (thorough 12) symbolic bytes, or a read error: bytes are returned only when
// the first four equal the correlation ID; the tag section is stripped exactly for flexible
// headers; everything else is an error; never a panic.
func VerifC22_readResponse() {
	cxn, _ := verifC22Cxn()
	corr := verifNondetInt32("corrID")
	flex := verifChoose(2) == 1
	n := verifChoose(verifC22MaxBuf() + 2) // last choice = read error
	var buf []byte
	readFails := n == verifC22MaxBuf()+1
	if readFails {
		verifC22.frames = []verifC22Frame{{err: io.ErrUnexpectedEOF}}
		if verifChoose(2) == 1 {
			cxn.dead.Store(true) // die() raced the blocked read (the stub read fails first)
		}
	} else {
		buf = verifNondetBytes("frame", n)
		verifC22.frames = []verifC22Frame{{buf: buf}}
	}
	var rest []byte
	var num uint32
	tagsOK := true
	if flex && n >= 4 && !readFails {
		rest, num, tagsOK = verifC22SkipTagsRef(buf[4:])
		// Bound the tag count: SkipTags keeps iterating on an exhausted reader until the
		// announced count is used up; the count itself is covered by VerifC22_skipTagsWork.
		verifAssume(num <= 3)
	}
	got, err := cxn.readResponse(context.Background(), 3, 1, corr, flex, 0, 0, 0, 0, time.Time{})

	if readFails {
		verifAssert(got == nil && err != nil, "a failed read is an error")
		if cxn.dead.Load() {
			verifAssert(err == errChosenBrokerDead, "a read failing on a connection that was killed reports the retryable dead-connection error")
		} else {
			verifAssert(err == io.ErrUnexpectedEOF, "a failed read reports the read error")
		}
		verifReached("c22-read-response-err")
		return
	}
	if n < 4 {
		verifAssert(got == nil && err == kbin.ErrNotEnoughData, "a frame shorter than a correlation ID is not enough data")
		verifReached("c22-read-response-short")
		return
	}
	id := int32(uint32(buf[0])<<24 | uint32(buf[1])<<16 | uint32(buf[2])<<8 | uint32(buf[3]))
	if err == nil {
		verifAssert(id == corr, "bytes are returned only for the frame carrying the awaited correlation ID")
	}
	if id != corr {
		verifAssert(got == nil && err == errCorrelationIDMismatch, "a frame with another correlation ID is a mismatch error")
		verifReached("c22-read-response-mismatch")
		return
	}
	if !flex {
		verifAssert(err == nil && len(got) == n-4, "a non-flexible header yields exactly the bytes after the correlation ID")
		ok := true
		for i := range got {
			ok = verifAnd(ok, got[i] == buf[4+i])
		}
		verifAssert(ok, "the body bytes are unchanged")
		verifReached("c22-read-response-plain")
		return
	}
	if !tagsOK {
		verifAssert(err == kbin.ErrNotEnoughData && len(got) == 0, "a truncated or overlong tag section is not enough data")
		verifReached("c22-read-response-badtags")
		return
	}
	verifAssert(err == nil && len(got) == len(rest), "a flexible header yields the bytes after the tag section")
	if len(got) == len(rest) {
		ok := true
		for i := range got {
			ok = verifAnd(ok, got[i] == rest[i])
		}
		verifAssert(ok, "the body bytes after the tag section are unchanged")
	}
	verifReached("c22-read-response-flex")
}

// ---- work done on a hostile tag count ----

type verifC22Stop struct{}

type verifC22CountingReader struct {
	r     kbin.Reader
	calls int
	limit int
}

func (c *verifC22CountingReader) tick() {
	c.calls++
	if c.calls > c.limit {
		panic(verifC22Stop{})
	}
}
func (c *verifC22CountingReader) Uvarint() uint32   { c.tick(); return c.r.Uvarint() }
func (c *verifC22CountingReader) Span(l int) []byte { c.tick(); return c.r.Span(l) }

// Ok exposes the wrapped reader's state, as the *kbin.Reader that readResponse passes does.
func (c *verifC22CountingReader) Ok() bool { return c.r.Ok() }

// The response-header tag section of n <= 6 hostile bytes is skipped with a number of reader
// operations bounded by the input: every well-formed tag costs at least 2 bytes and 3 operations,
// so 1 + 3*(n+1) operations always suffice for an implementation that stops at the first failed
// read. (readResponse calls kmsg.SkipTags on the handleResps goroutine, after the read deadline
// has been cleared: work here is time no configured timeout covers.)
func VerifC22_skipTagsWork() {
	n := verifChoose(7)
	src := verifNondetBytes("tags", n)
	cr := &verifC22CountingReader{r: kbin.Reader{Src: src}, limit: 1 + 3*(n+1)}
	exceeded := false
	func() {
		defer func() {
			if r := recover(); r != nil {
				if _, ok := r.(verifC22Stop); !ok {
					panic(r)
				}
				exceeded = true
			}
		}()
		kmsg.SkipTags(cr)
	}()
	verifAssert(!exceeded, "skipping a response header's tag section does work bounded by the bytes received (no hostile tag count can make the client spin)")
	verifReached("c22-skiptags-work")
}

// ---- pipelined drain: waitResp / handleResps / handleResp / die ----

type verifC22Out struct {
	calls int
	resp  kmsg.Response
	err   error
}

// Up to 3 pipelined requests on one connection. Per read the model broker sends a frame whose
// correlation ID is symbolic (so it may or may not be the awaited one) with a 2-byte body, or the
// read fails; the response parser fails or not (symbolic). The connection may be killed
// (die, as the reaper / stopForever would) before any push. The broker worker (harness) may let
// the reader goroutine run after each push or only at the end.
func VerifC22_drain() {
	cxn, conn := verifC22Cxn()
	n := 1 + verifChoose(3)
	dieBefore := verifChoose(n+2) - 1 // -1: never; k in 0..n: die() before push k (n = after all)
	eager := verifChoose(2) == 1

	corr := make([]int32, n)
	frameID := make([]int32, n)
	resps := make([]*verifC22Resp, n)
	outs := make([]*verifC22Out, n)
	bodies := make([][]byte, n)
	readErr := make([]bool, n)
	parseErr := errors.New("verif: parse error")
	for i := 0; i < n; i++ {
		corr[i] = int32(i + 1) // writeRequest hands out consecutive IDs
		resps[i] = &verifC22Resp{key: 3}
		if verifNondetBool("resp.parseFails") {
			resps[i].readErr = parseErr
		}
		outs[i] = &verifC22Out{}
		readErr[i] = verifNondetBool("read.fails")
		if readErr[i] {
			verifC22.frames = append(verifC22.frames, verifC22Frame{err: io.EOF})
			continue
		}
		frameID[i] = verifNondetInt32("frame.corrID")
		bodies[i] = verifNondetBytes("frame.body", 2)
		buf := []byte{byte(uint32(frameID[i]) >> 24), byte(uint32(frameID[i]) >> 16), byte(uint32(frameID[i]) >> 8), byte(uint32(frameID[i]))}
		buf = append(buf, bodies[i]...)
		verifC22.frames = append(verifC22.frames, verifC22Frame{buf: buf})
	}
	// a parked request (waiting for a reauthentication) must be failed exactly once by die
	parkedCalls := 0
	var parkedErr error
	cxn.parked = append(cxn.parked, promisedReq{promise: func(_ kmsg.Response, err error) { parkedCalls++; parkedErr = err }})

	for i := 0; i < n; i++ {
		if dieBefore == i {
			cxn.die()
		}
		out := outs[i]
		cxn.waitResp(promisedResp{ctx: context.Background(), corrID: corr[i], resp: resps[i], promise: func(r kmsg.Response, err error) {
			out.calls++
			out.resp, out.err = r, err
		}})
		if eager {
			verifRunAll()
		}
	}
	if dieBefore == n {
		cxn.die()
	}
	verifRunAll()
	verifAssert(verifBlockedCount() == 0, "no reader goroutine is left blocked")

	// Schedule-independent reference: reads happen in request order while the connection is
	// alive; the first request that fails (bad read, foreign correlation ID, or the kill) ends
	// the connection and everything behind it gets the retryable dead-connection error.
	alive := true
	for i := 0; i < n; i++ {
		o := outs[i]
		verifAssert(o.calls == 1, "every request's promise is called exactly once")
		if o.calls != 1 {
			continue
		}
		goodFrame := !readErr[i] && frameID[i] == corr[i]
		if o.resp != nil {
			verifAssert(alive, "no response is delivered behind a failed request on the same connection")
			verifAssert(o.resp == kmsg.Response(resps[i]), "a promise only ever receives its own response object")
			verifAssert(goodFrame, "a response is delivered only from the frame carrying the request's correlation ID")
			verifAssert(len(resps[i].got) == 1, "a delivered response parsed exactly one frame")
			if len(resps[i].got) == 1 && goodFrame {
				g := resps[i].got[0]
				verifAssert(len(g) == 2 && verifAnd(g[0] == bodies[i][0], g[1] == bodies[i][1]), "the delivered payload is the body of the frame with the request's correlation ID")
			}
			verifAssert(o.err == resps[i].readErr, "a delivered response carries exactly the parser's error")
			verifAssert(dieBefore < 0 || dieBefore > i, "no response is delivered to a request issued after the connection was killed")
			continue
		}
		verifAssert(o.err != nil, "a request without a response gets an error")
		verifAssert(len(resps[i].got) == 0, "no frame is parsed into a request that is failed")
		if !alive {
			verifAssert(o.err == errChosenBrokerDead, "after the first failure every later pipelined request fails with the retryable dead-connection error")
		} else if dieBefore < 0 {
			verifAssert(!goodFrame, "a live connection only fails a request on a failed read or a foreign correlation ID")
			if !readErr[i] {
				verifAssert(o.err == errCorrelationIDMismatch, "a foreign correlation ID is reported as a mismatch")
			}
		}
		if dieBefore >= 0 && dieBefore <= i {
			verifAssert(o.err == errChosenBrokerDead, "requests issued on a killed connection fail with the retryable dead-connection error")
		}
		alive = false
	}
	if !alive || dieBefore >= 0 {
		verifAssert(cxn.dead.Load() && conn.closed == 1, "a failed connection is closed exactly once")
		verifAssert(parkedCalls == 1 && parkedErr == errChosenBrokerDead, "requests parked on the connection are failed exactly once")
		// die is idempotent
		cxn.die()
		verifAssert(conn.closed == 1 && parkedCalls == 1, "die is idempotent")
		// late pushes fail immediately
		late := &verifC22Out{}
		cxn.waitResp(promisedResp{ctx: context.Background(), corrID: 99, resp: &verifC22Resp{key: 3}, promise: func(r kmsg.Response, err error) { late.calls++; late.err = err }})
		verifRunAll()
		verifAssert(late.calls == 1 && late.err == errChosenBrokerDead, "a request pushed after death fails at once")
	} else {
		verifAssert(!cxn.dead.Load() && conn.closed == 0 && parkedCalls == 0, "a healthy drain leaves the connection open")
		verifAssert(cxn.resps.empty(), "the response ring is empty after the drain")
		verifAssert(cxn.successes == uint64(n), "every delivered response counts as a success")
	}
	verifAssert(verifC22.reads <= n, "never more reads than pipelined requests")
	verifReached("c22-drain")
}

// ---- a request sleeping on a throttle does not outlive its connection ----

// writeRequest sleeps until cxn.throttleUntil before writing. The property bounds every wait
// by "throttles and disconnects produce errors, never ... waits beyond the configured
// timeouts": the sleeper must end, with the right error, as soon as the connection dies (the
// real die(), e.g. from a failed read of a pipelined request), its own context is cancelled, or
// the client is closed — in each case WITHOUT the throttle timer firing (timers never fire in
// the executor unless asked to). Which event happens, and whether it happens before the
// request reaches writeRequest or while it sleeps, are chosen per path.
func VerifC22_throttleWaitEndsOnDisconnect() {
	cxn, conn := verifC22Cxn()
	cl := cxn.cl
	var clCancel context.CancelFunc
	cl.ctx, clCancel = context.WithCancel(context.Background())
	cl.reqFormatter = kmsg.NewRequestFormatter()
	cl.bufPool = newBufPool()
	cxn.throttleUntil.Store(time.Now().Add(time.Hour).UnixNano())
	ctx, cancel := context.WithCancel(context.Background())
	event := verifChoose(3)
	early := verifChoose(2) == 0
	fire := func() {
		switch event {
		case 0:
			cxn.die()
		case 1:
			cancel()
		case 2:
			clCancel()
		}
	}
	if early {
		fire()
	}
	var err error
	done := false
	go func() {
		_, _, _, _, _, err = cxn.writeRequest(ctx, time.Now(), kmsg.NewPtrMetadataRequest())
		done = true
	}()
	verifRunAll()
	if !early {
		verifAssert(!done, "a throttled request is not written before the throttle ends")
		fire()
		verifRunAll()
	}
	verifAssert(done, "a request sleeping on a throttle ends as soon as its connection dies, its context is cancelled or the client closes")
	if done {
		switch event {
		case 0:
			verifAssert(err == errChosenBrokerDead, "a throttled request whose connection died fails with the dead-connection error (retried on a fresh connection)")
			verifAssert(conn.closed == 1, "the dead connection was closed exactly once")
		case 1:
			verifAssert(err == context.Canceled, "a throttled request whose context was cancelled fails with the context's error")
		case 2:
			verifAssert(err == ErrClientClosed, "a throttled request fails with ErrClientClosed once the client is closed")
		}
	}
	cancel()
	clCancel()
	verifReached("c22-throttle")
}

// ---- a request registered while the connection is being torn down ----

// die() may run on any goroutine (a failed read, the reaper, a metadata update) while
// handleReqs registers the next written request with waitResp. Whatever the interleaving of
// die's steps with waitResp's, the request's promise is called EXACTLY once: either the ring
// reports the connection dead to waitResp (which then fails the request itself), or the
// request made it into the ring and is failed by the reader / the ring's death — never both,
// never neither. One request is already in flight (its reader goroutine parked or running),
// die() and waitResp(second request) race, 2 delays (thorough 3).
func VerifC22_registerWhileDying() {
	delays := 2
	if verifThorough() {
		delays = 3
	}
	verifPreemptions(delays)
	cxn, conn := verifC22Cxn()
	verifC22.frames = []verifC22Frame{{err: io.EOF}, {err: io.EOF}}
	outs := []*verifC22Out{{}, {}}
	mk := func(i int) promisedResp {
		out := outs[i]
		return promisedResp{ctx: context.Background(), corrID: int32(i + 1), resp: &verifC22Resp{key: 3}, promise: func(r kmsg.Response, err error) {
			out.calls++
			out.resp, out.err = r, err
		}}
	}
	cxn.waitResp(mk(0)) // first in flight: spawns the reader
	done := make(chan struct{}, 1)
	go func() { cxn.die(); done <- struct{}{} }()
	cxn.waitResp(mk(1))
	<-done
	verifRunAll()
	verifAssert(verifBlockedCount() == 0, "no goroutine is left blocked")
	for i, o := range outs {
		_ = i
		verifAssert(o.calls == 1, "every request's promise is called exactly once, also when it is registered while the connection is being torn down")
		verifAssert(o.calls == 0 || o.err != nil, "a request on a dying connection ends with an error")
	}
	verifAssert(conn.closed == 1, "the connection is closed exactly once")
	verifReached("c22-register-while-dying")
}

// ---- ApiVersions discovery against a broker that keeps answering UNSUPPORTED_VERSION ----

// Connection initialisation runs on no request context, so nothing but the client closing would
// end an endless downgrade loop: a (buggy or hostile) broker must not be able to keep the client
// re-asking. The broker answers every ApiVersions request with UNSUPPORTED_VERSION and one key
// (18) whose max version is an arbitrary int16 each time. requestAPIVersions must return after
// at most 5 requests (v4, then strictly lower versions down to v0).
func VerifC22_apiVersionsDowngradeTerminates() {
	cxn, conn := verifC22Cxn()
	_ = conn
	cl := cxn.cl
	cl.reqFormatter = kmsg.NewRequestFormatter()
	cl.bufPool = newBufPool()
	const rounds = 8
	for i := 0; i < rounds; i++ {
		v := verifNondetInt16("advertised.maxVersion")
		verifC22.frames = append(verifC22.frames, verifC22Frame{buf: []byte{
			0, 0, 0, byte(i), // correlation id
			0, 35, // UNSUPPORTED_VERSION
			0, 0, 0, 1, // one key
			0, 18, 0, 0, byte(uint16(v) >> 8), byte(v), // ApiVersions, min 0, max v
		}})
	}
	err := cxn.requestAPIVersions(0)
	verifAssert(verifC22.reads <= 5, "a broker that keeps answering UNSUPPORTED_VERSION gets at most 5 ApiVersions requests (v4 and strictly lower versions): the downgrade loop terminates")
	verifAssert(err != nil, "discovery against such a broker ends with an error")
	verifReached("c22-apiversions-downgrade")
}
