package kgo

import (
	"context"
	"errors"
	"time"

	"github.com/twmb/franz-go/pkg/kerr"
	"github.com/twmb/franz-go/pkg/kmsg"
)

// C23 kernel: shard + merge of the partition-leader family (ListOffsets, DeleteRecords) and the
// coordinator family (DescribeGroups, DeleteGroups) account for every requested item exactly
// once, address each shard to the item's leader/coordinator or carry an error.

var verifC23 struct {
	meta   map[string]cachedMetaTopic
	coords map[string]brokerOrErr
}

//verif:replace (*Client).resolveTopicMeta
func (cl *Client) verifC23ResolveTopicMeta(ctx context.Context, topics []string, useCache bool, limit time.Duration) (map[string]cachedMetaTopic, error) {
	if verifC23.meta != nil {
		return verifC23.meta, nil
	}
	// live mode: the metadata answer changes between calls
	i := verifC23Live.metaCalls
	verifC23Live.metaCalls++
	if i >= len(verifC23Live.metaSeq) {
		i = len(verifC23Live.metaSeq) - 1
	}
	return verifC23Live.metaSeq[i], nil
}

//verif:replace (*Client).loadCoordinators
func (cl *Client) verifC23LoadCoordinators(ctx context.Context, typ int8, keys ...string) map[string]brokerOrErr {
	return verifC23.coords
}

// ---- issue / re-split loop: leaders move between the first sharding and the retry ----

var verifC23Live struct {
	trueLeader map[verifC23Item]int32 // where each partition really lives
	metaCalls  int
	metaSeq    []map[string]cachedMetaTopic // metadata answer per resolveTopicMeta call (last one repeats)
	served     map[verifC23Item]int        // how often a broker answered a partition successfully
	requests   int
}

//verif:replace (*Client).brokerOrErr
func (cl *Client) verifC23BrokerOrErr(ctx context.Context, id int32, err error) (*broker, error) {
	b := &broker{cl: cl}
	b.meta.NodeID = id
	return b, nil
}

//verif:replace (*broker).waitResp
func (b *broker) verifC23WaitResp(ctx context.Context, req kmsg.Request) (kmsg.Response, error) {
	verifC23Live.requests++
	r := req.(*kmsg.ListOffsetsRequest)
	resp := kmsg.NewPtrListOffsetsResponse()
	for _, t := range r.Topics {
		rt := kmsg.NewListOffsetsResponseTopic()
		rt.Topic = t.Topic
		for _, p := range t.Partitions {
			rp := kmsg.NewListOffsetsResponseTopicPartition()
			rp.Partition = p.Partition
			it := verifC23Item{t.Topic, p.Partition}
			if verifC23Live.trueLeader[it] != b.meta.NodeID {
				rp.ErrorCode = kerr.NotLeaderForPartition.Code
			} else {
				verifC23Live.served[it]++
			}
			rt.Partitions = append(rt.Partitions, rp)
		}
		resp.Topics = append(resp.Topics, rt)
	}
	return resp, nil
}

//verif:replace (*Client).waitTries
func (cl *Client) verifC23WaitTries(ctx context.Context, backoff time.Duration) bool { return true }

//verif:replace (*Client).maybeDeleteCachedMeta
func (cl *Client) verifC23MaybeDeleteCachedMeta(unknownTopic bool, ts ...string) bool { return len(ts) > 0 }

func verifC23MetaFor(leaders map[verifC23Item]int32) map[string]cachedMetaTopic {
	m := map[string]cachedMetaTopic{}
	for it, l := range leaders {
		mt, ok := m[it.topic]
		if !ok {
			mt = cachedMetaTopic{ps: map[int32]kmsg.MetadataResponseTopicPartition{}}
		}
		mp := kmsg.NewMetadataResponseTopicPartition()
		mp.Partition, mp.Leader = it.part, l
		mt.ps[it.part] = mp
		m[it.topic] = mt
	}
	return m
}

// A ListOffsets request over 2-3 partitions on two brokers; between the first sharding and the
// retry one partition's leader moves (stale metadata first, fresh metadata afterwards). Every
// requested partition must end up answered exactly once in the returned shards and in the
// merged response -- the retry re-issues only the piece that failed.
func VerifC23_reshardAfterLeaderMove() {
	cl := &Client{}
	cl.cfg.logger = new(nopLogger)
	cl.cfg.retries = 5
	cl.cfg.retryBackoff = func(int) time.Duration { return 0 }
	cl.cfg.retryTimeout = func(int16) time.Duration { return 0 }
	cl.ctx = context.Background()
	items := []verifC23Item{{"a", 0}, {"a", 1}}
	if verifChoose(2) == 1 {
		items = append(items, verifC23Item{"b", 0})
	}
	stale := map[verifC23Item]int32{}
	fresh := map[verifC23Item]int32{}
	for _, it := range items {
		stale[it] = int32(verifChoose(2))
		fresh[it] = stale[it]
	}
	moved := items[verifChoose(len(items))]
	fresh[moved] = 2 // moved to a third broker
	verifC23Live.trueLeader = fresh
	verifC23Live.served = map[verifC23Item]int{}
	verifC23Live.requests, verifC23Live.metaCalls = 0, 0
	verifC23Live.metaSeq = []map[string]cachedMetaTopic{verifC23MetaFor(stale), verifC23MetaFor(fresh)}
	verifC23.meta = nil

	req := kmsg.NewPtrListOffsetsRequest()
	byTopic := map[string]*kmsg.ListOffsetsRequestTopic{}
	var order []string
	for _, it := range items {
		rt, ok := byTopic[it.topic]
		if !ok {
			t := kmsg.NewListOffsetsRequestTopic()
			t.Topic = it.topic
			rt = &t
			byTopic[it.topic] = rt
			order = append(order, it.topic)
		}
		rp := kmsg.NewListOffsetsRequestTopicPartition()
		rp.Partition = it.part
		rt.Partitions = append(rt.Partitions, rp)
	}
	for _, t := range order {
		req.Topics = append(req.Topics, *byTopic[t])
	}
	shards, merge := cl.handleShardedReq(context.Background(), req)
	answered := map[verifC23Item]int{}
	for _, sh := range shards {
		verifAssert(sh.Err == nil, "every shard is eventually answered once the leader is found")
		if sh.Resp == nil {
			continue
		}
		for _, t := range sh.Resp.(*kmsg.ListOffsetsResponse).Topics {
			for _, p := range t.Partitions {
				if p.ErrorCode == 0 {
					answered[verifC23Item{t.Topic, p.Partition}]++
				}
			}
		}
	}
	ok := true
	for _, it := range items {
		ok = ok && answered[it] == 1 && verifC23Live.served[it] >= 1 // a failed shard is re-issued as a whole, so its healthy partitions may be asked twice
	}
	verifAssert(ok, "after a leader move every requested partition is answered exactly once (the retry re-issues only the failed piece)")
	merged, err := merge(shards)
	verifAssert(err == nil, "merge of answered shards has no error")
	mc := map[verifC23Item]int{}
	for _, t := range merged.(*kmsg.ListOffsetsResponse).Topics {
		for _, p := range t.Partitions {
			if p.ErrorCode == 0 {
				mc[verifC23Item{t.Topic, p.Partition}]++
			}
		}
	}
	mok := true
	for _, it := range items {
		mok = mok && mc[it] == 1
	}
	verifAssert(mok, "the merged response lists every requested partition exactly once")
	verifReached("c23-reshard-after-move")
}

type verifC23Item struct {
	topic string
	part  int32
}

// verifC23Meta builds a symbolic-shape metadata mapping for topics a,b x partitions 0,1:
// topic missing / topic error / partition missing / partition error / no leader / leader 0..2.
func verifC23Meta(topics []string, parts [][]int32) map[verifC23Item]int32 {
	verifC23.meta = map[string]cachedMetaTopic{}
	want := map[verifC23Item]int32{} // -1 = must travel in an error shard
	// a topic listed twice in the request is one topic in the metadata
	utopics, uparts := []string{}, [][]int32{}
	for ti, t := range topics {
		found := false
		for ui, ut := range utopics {
			if ut == t {
				uparts[ui] = append(uparts[ui], parts[ti]...)
				found = true
			}
		}
		if !found {
			utopics = append(utopics, t)
			uparts = append(uparts, append([]int32(nil), parts[ti]...))
		}
	}
	topics, parts = utopics, uparts
	for ti, t := range topics {
		kind := verifChoose(3) // 0 present, 1 missing, 2 topic-level error
		if kind == 1 {
			for _, p := range parts[ti] {
				want[verifC23Item{t, p}] = -1
			}
			continue
		}
		mt := cachedMetaTopic{ps: map[int32]kmsg.MetadataResponseTopicPartition{}}
		if kind == 2 {
			mt.t.ErrorCode = kerr.TopicAuthorizationFailed.Code
		}
		for _, p := range parts[ti] {
			switch pk := verifChoose(5); pk {
			case 0: // partition unknown
				want[verifC23Item{t, p}] = -1
			case 1:
				mp := kmsg.NewMetadataResponseTopicPartition()
				mp.Partition, mp.ErrorCode = p, kerr.LeaderNotAvailable.Code
				mt.ps[p] = mp
				want[verifC23Item{t, p}] = -1
			case 2:
				mp := kmsg.NewMetadataResponseTopicPartition()
				mp.Partition, mp.Leader = p, -1
				mt.ps[p] = mp
				want[verifC23Item{t, p}] = -1
			default:
				mp := kmsg.NewMetadataResponseTopicPartition()
				mp.Partition, mp.Leader = p, int32(pk-3) // leader 0 or 1
				mt.ps[p] = mp
				want[verifC23Item{t, p}] = int32(pk - 3)
			}
			if kind == 2 {
				want[verifC23Item{t, p}] = -1
			}
		}
		verifC23.meta[t] = mt
	}
	return want
}

func verifC23Request() ([]string, [][]int32) {
	topics := []string{"a"}
	parts := [][]int32{{0}}
	if verifChoose(2) == 1 {
		parts[0] = []int32{0, 1}
	}
	switch verifChoose(3) {
	case 1:
		topics = append(topics, "b")
		parts = append(parts, []int32{0})
	case 2:
		// the same topic listed in two request entries (legal on the wire)
		topics = append(topics, "a")
		parts = append(parts, []int32{2})
	}
	return topics, parts
}

func VerifC23_listOffsets() {
	cl := &Client{}
	cl.cfg.logger = new(nopLogger)
	topics, parts := verifC23Request()
	want := verifC23Meta(topics, parts)
	req := kmsg.NewPtrListOffsetsRequest()
	for ti, t := range topics {
		rt := kmsg.NewListOffsetsRequestTopic()
		rt.Topic = t
		for _, p := range parts[ti] {
			rp := kmsg.NewListOffsetsRequestTopicPartition()
			rp.Partition = p
			rp.Timestamp = verifNondetInt64("ts")
			rt.Partitions = append(rt.Partitions, rp)
		}
		req.Topics = append(req.Topics, rt)
	}
	sh := &listOffsetsSharder{cl}
	issues, _, err := sh.shard(context.Background(), req, nil)
	verifAssert(err == nil, "sharding succeeds when metadata loads")
	seen := map[verifC23Item]int{}
	ok := true
	var sresps []ResponseShard
	for _, is := range issues {
		r := is.req.(*kmsg.ListOffsetsRequest)
		resp := kmsg.NewPtrListOffsetsResponse()
		for _, t := range r.Topics {
			rt := kmsg.NewListOffsetsResponseTopic()
			rt.Topic = t.Topic
			for _, p := range t.Partitions {
				it := verifC23Item{t.Topic, p.Partition}
				seen[it]++
				w, known := want[it]
				ok = ok && known
				if w >= 0 {
					ok = ok && is.err == nil && is.broker == w
				} else {
					ok = ok && is.err != nil
				}
				rp := kmsg.NewListOffsetsResponseTopicPartition()
				rp.Partition = p.Partition
				rt.Partitions = append(rt.Partitions, rp)
			}
			resp.Topics = append(resp.Topics, rt)
		}
		if is.err != nil {
			sresps = append(sresps, ResponseShard{Req: is.req, Err: is.err})
		} else {
			sresps = append(sresps, ResponseShard{Req: is.req, Resp: resp})
		}
	}
	verifAssert(ok, "every shard item is a requested item, sent to its leader or carried in an error shard")
	all := len(seen) == len(want)
	for it := range want {
		all = all && seen[it] == 1
	}
	verifAssert(all, "every requested partition appears in exactly one shard")
	merged, _ := sh.merge(sresps)
	got := map[verifC23Item]int{}
	for _, t := range merged.(*kmsg.ListOffsetsResponse).Topics {
		for _, p := range t.Partitions {
			got[verifC23Item{t.Topic, p.Partition}]++
		}
	}
	mok := true
	for it, w := range want {
		if w >= 0 {
			mok = mok && got[it] == 1
		} else {
			mok = mok && got[it] == 0 // error shards carry no response
		}
	}
	verifAssert(mok, "merge contains every answered partition exactly once")
	verifReached("c23-list-offsets")
}

func VerifC23_deleteRecords() {
	cl := &Client{}
	cl.cfg.logger = new(nopLogger)
	topics, parts := verifC23Request()
	want := verifC23Meta(topics, parts)
	req := kmsg.NewPtrDeleteRecordsRequest()
	for ti, t := range topics {
		rt := kmsg.NewDeleteRecordsRequestTopic()
		rt.Topic = t
		for _, p := range parts[ti] {
			rp := kmsg.NewDeleteRecordsRequestTopicPartition()
			rp.Partition = p
			rp.Offset = verifNondetInt64("off")
			rt.Partitions = append(rt.Partitions, rp)
		}
		req.Topics = append(req.Topics, rt)
	}
	sh := &deleteRecordsSharder{cl}
	issues, _, err := sh.shard(context.Background(), req, nil)
	verifAssert(err == nil, "sharding succeeds when metadata loads")
	seen := map[verifC23Item]int{}
	ok := true
	for _, is := range issues {
		for _, t := range is.req.(*kmsg.DeleteRecordsRequest).Topics {
			for _, p := range t.Partitions {
				it := verifC23Item{t.Topic, p.Partition}
				seen[it]++
				w, known := want[it]
				ok = ok && known
				if w >= 0 {
					ok = ok && is.err == nil && is.broker == w
				} else {
					ok = ok && is.err != nil
				}
			}
		}
	}
	verifAssert(ok, "every shard item is a requested item, sent to its leader or carried in an error shard")
	all := len(seen) == len(want)
	for it := range want {
		all = all && seen[it] == 1
	}
	verifAssert(all, "every requested partition appears in exactly one shard")
	verifReached("c23-delete-records")
}

func verifC23Groups() ([]string, map[string]int32) {
	n := 1 + verifChoose(3)
	groups := []string{"g0", "g1", "g2"}[:n]
	if n >= 2 && verifChoose(2) == 1 {
		groups[1] = "g0" // duplicate request entry
	}
	verifC23.coords = map[string]brokerOrErr{}
	want := map[string]int32{}
	for _, g := range groups {
		if _, done := want[g]; done {
			continue
		}
		switch k := verifChoose(4); k {
		case 0:
			verifC23.coords[g] = brokerOrErr{err: kerr.CoordinatorNotAvailable}
			want[g] = -1
		case 1:
			verifC23.coords[g] = brokerOrErr{err: errors.New("verif: dial failure")}
			want[g] = -1
		default:
			b := &broker{}
			b.meta.NodeID = int32(k - 2)
			verifC23.coords[g] = brokerOrErr{b: b}
			want[g] = int32(k - 2)
		}
	}
	return groups, want
}

func VerifC23_describeGroups() {
	cl := &Client{}
	cl.cfg.logger = new(nopLogger)
	groups, want := verifC23Groups()
	req := kmsg.NewPtrDescribeGroupsRequest()
	req.Groups = groups
	sh := &describeGroupsSharder{cl}
	issues, _, err := sh.shard(context.Background(), req, nil)
	verifAssert(err == nil, "sharding succeeds")
	var seen []string
	ok := true
	var sresps []ResponseShard
	for _, is := range issues {
		resp := kmsg.NewPtrDescribeGroupsResponse()
		for _, g := range is.req.(*kmsg.DescribeGroupsRequest).Groups {
			seen = append(seen, g)
			w, known := want[g]
			ok = ok && known
			if w >= 0 {
				ok = ok && is.err == nil && is.broker == w
			} else {
				ok = ok && is.err != nil
			}
			rg := kmsg.NewDescribeGroupsResponseGroup()
			rg.Group = g
			resp.Groups = append(resp.Groups, rg)
		}
		if is.err != nil {
			sresps = append(sresps, ResponseShard{Req: is.req, Err: is.err})
		} else {
			sresps = append(sresps, ResponseShard{Req: is.req, Resp: resp})
		}
	}
	verifAssert(ok, "every group goes to its coordinator or travels in an error shard")
	// multiset equality with the request
	cnt := map[string]int{}
	for _, g := range groups {
		cnt[g]++
	}
	for _, g := range seen {
		cnt[g]--
	}
	eq := true
	for _, c := range cnt {
		eq = eq && c == 0
	}
	verifAssert(eq, "the shards carry exactly the requested groups (as a multiset)")
	merged, _ := sh.merge(sresps)
	mcnt := map[string]int{}
	for _, g := range merged.(*kmsg.DescribeGroupsResponse).Groups {
		mcnt[g.Group]++
	}
	mok := true
	for _, g := range groups {
		if want[g] < 0 {
			mok = mok && mcnt[g] == 0
		}
	}
	for g, w := range want {
		if w >= 0 {
			n := 0
			for _, x := range groups {
				if x == g {
					n++
				}
			}
			mok = mok && mcnt[g] == n
		}
	}
	verifAssert(mok, "merge contains every answered group exactly as often as requested")
	verifReached("c23-describe-groups")
}

func VerifC23_deleteGroups() {
	cl := &Client{}
	cl.cfg.logger = new(nopLogger)
	groups, want := verifC23Groups()
	req := kmsg.NewPtrDeleteGroupsRequest()
	req.Groups = groups
	sh := &deleteGroupsSharder{cl}
	issues, _, err := sh.shard(context.Background(), req, nil)
	verifAssert(err == nil, "sharding succeeds")
	cnt := map[string]int{}
	for _, g := range groups {
		cnt[g]++
	}
	ok := true
	for _, is := range issues {
		for _, g := range is.req.(*kmsg.DeleteGroupsRequest).Groups {
			cnt[g]--
			w, known := want[g]
			ok = ok && known
			if w >= 0 {
				ok = ok && is.err == nil && is.broker == w
			} else {
				ok = ok && is.err != nil
			}
		}
	}
	verifAssert(ok, "every group goes to its coordinator or travels in an error shard")
	eq := true
	for _, c := range cnt {
		eq = eq && c == 0
	}
	verifAssert(eq, "the shards carry exactly the requested groups (as a multiset)")
	verifReached("c23-delete-groups")
}
