package kgo

// VerifC25_range: the range balancer (no rack information).
func VerifC25_range() {
	var in *verifBalIn
	if verifThorough() {
		in = verifBalShape(1, 3, []int{3, 3}, true, true, false)
	} else {
		in = verifBalShape(1, 3, []int{3, 1}, false, false, false)
	}
	if in.nMembers > 1 {
		in.instance[1] = verifBalPick(2) == 1
	}
	in.verifBalance(RangeBalancer(), nil, "range", false)
	verifReached("c25-range")
}

// VerifC25_rangeRacks: the range balancer's rack-aware first phase; member racks and
// partition leader racks from {none, a, b}.
func VerifC25_rangeRacks() {
	var in *verifBalIn
	wide := false
	if verifThorough() {
		if verifBalPick(2) == 0 {
			in = verifBalShape(2, 2, []int{2, 2}, false, false, true)
			wide = true
		} else {
			in = verifBalShape(3, 3, []int{2, 1}, false, false, true)
		}
	} else {
		in = verifBalShape(2, 2, []int{2, 1}, false, false, true)
	}
	racks := [...]string{"", "a", "b"}
	for m := 0; m < in.nMembers; m++ {
		if m == 0 {
			in.racks[m] = racks[verifBalPick(2)] // rack names matter only up to equality
		} else {
			in.racks[m] = racks[verifBalPick(3)]
		}
	}
	partitionRacks := make(map[string][]string)
	for _, t := range in.order {
		var rs []string
		for p := int32(0); p < in.topics[t]; p++ {
			if verifThorough() || (p == 0 && t == "t0") {
				rs = append(rs, racks[verifBalPick(3)])
			} else {
				rs = append(rs, racks[1+verifBalPick(2)])
			}
		}
		partitionRacks[t] = rs
	}
	t := in.order[0]
	shapes := 1
	if wide {
		shapes = 4
	}
	switch verifBalPick(shapes) {
	case 1:
		partitionRacks[t] = append(partitionRacks[t], "a") // longer than the partition count
	case 2:
		if rs := partitionRacks[t]; len(rs) > 0 {
			partitionRacks[t] = rs[:len(rs)-1] // shorter
		}
	case 3:
		delete(partitionRacks, t) // topic missing from the rack map
	}
	in.verifBalance(RangeBalancer(), partitionRacks, "range rack-aware", false)
	verifReached("c25-range-racks")
}

// VerifC25_roundRobin: the round-robin balancer.
func VerifC25_roundRobin() {
	var in *verifBalIn
	if verifThorough() {
		in = verifBalShape(1, 3, []int{3, 3}, true, true, false)
	} else {
		in = verifBalShape(1, 3, []int{3, 1}, false, true, false)
	}
	if verifThorough() && in.nMembers > 1 {
		in.instance[1] = verifBalPick(2) == 1
	}
	in.verifBalance(RoundRobinBalancer(), nil, "roundrobin", false)
	verifReached("c25-roundrobin")
}

// VerifC25_sticky: the eager sticky balancer through the ConsumerBalancer wrapper
// (JoinGroupMetadata -> NewConsumerBalancer -> sticky.BalanceWithRacks -> BalancePlan).
func VerifC25_sticky() {
	var in *verifBalIn
	if verifThorough() {
		in = verifBalShape(1, 2, []int{2, 1}, false, false, false)
		in.verifBalClaims()
	} else {
		in = verifBalShape(2, 2, []int{2, 1}, false, false, true)
		in.verifBalOwnerClaims(false)
	}
	in.verifBalance(StickyBalancer(), nil, "sticky", false)
	verifReached("c25-sticky")
}

// VerifC25_cooperativeSticky: cooperative-sticky including AdjustCooperative: a valid
// assignment except that a partition may be withheld while a member still owns it.
func VerifC25_cooperativeSticky() {
	var in *verifBalIn
	if verifThorough() {
		in = verifBalShape(1, 2, []int{2, 2}, false, false, false)
		in.verifBalClaims()
	} else {
		in = verifBalShapeN(2, 2, []int{1, 0}, []int{2, 1}, false, false, true)
		in.verifBalOwnerClaims(true)
	}
	in.verifBalance(CooperativeStickyBalancer(), nil, "cooperative-sticky", true)
	verifReached("c25-cooperative-sticky")
}

// VerifC25_cooperativeSticky3: three members (thorough: conflicting claims).
func VerifC25_cooperativeSticky3() {
	var in *verifBalIn
	if verifThorough() {
		in = verifBalShape(3, 3, []int{1, 1}, false, false, true)
		in.verifBalOwnerClaims(true)
	} else {
		in = verifBalShape(3, 3, []int{1, 1}, false, false, true)
		in.verifBalOwnerClaims(false)
		in.fixedGens = true
	}
	in.verifBalance(CooperativeStickyBalancer(), nil, "cooperative-sticky (3 members)", true)
	verifReached("c25-cooperative-sticky3")
}

// VerifC25_stickyRacksWrapper: rack information flows from member metadata and the
// balancer's partition racks into sticky.BalanceWithRacks.
func VerifC25_stickyRacksWrapper() {
	in := verifBalShapeN(2, 2, []int{1, 1}, []int{2, 1}, false, false, true)
	racks := [...]string{"", "a", "b"}
	in.racks[0] = racks[verifBalPick(2)]
	in.racks[1] = racks[verifBalPick(3)]
	partitionRacks := make(map[string][]string)
	for _, t := range in.order {
		var rs []string
		for p := int32(0); p < in.topics[t]; p++ {
			rs = append(rs, racks[1+verifBalPick(2)])
		}
		partitionRacks[t] = rs
	}
	if verifBalPick(2) == 0 {
		in.verifBalance(StickyBalancer(), partitionRacks, "sticky rack-aware", false)
	} else {
		in.verifBalance(CooperativeStickyBalancer(), partitionRacks, "cooperative-sticky rack-aware", true)
	}
	verifReached("c25-sticky-racks-wrapper")
}
