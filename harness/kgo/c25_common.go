package kgo

import (
	"github.com/twmb/franz-go/pkg/kmsg"
)

// ---------------------------------------------------------------------------
// Shared input enumeration and reference predicates for C25/C27 (package kgo).
//
// Shape (members, topics, partition counts, subscriptions, which member claims which
// partition) is chosen per path with verifChoose; generations are symbolic int32 or
// picked from {-1,1,2}. Member metadata is produced by the balancers' real
// JoinGroupMetadata and parsed back by the real NewConsumerBalancer.
// ---------------------------------------------------------------------------

var verifBalTopicNames = [...]string{"t0", "t1", "t2"}
var verifBalMemberNames = [...]string{"m0", "m1", "m2"}

type verifBalIn struct {
	nMembers    int
	topics      map[string]int32 // topic => partition count (the balancer's input)
	order       []string         // topics in map insertion order
	subs        [][]string       // per member: subscribed topics (sorted)
	claims      []map[string][]int32
	gens        []int32
	racks       []string // per member, "" = none
	instance    []bool   // member joins with a static instance id
	symGens     bool
	fixedGens   bool
	adopted     bool // generations were set by the harness (later rounds)
	nextGen     int32
	gensChosen  bool
	gens0       []int32 // first-round generations
	genOverride []int32 // fixed per-member generations for the first round
}

// verifBalPick is verifChoose that makes no choice when there is only one option (the
// native replay runtime would otherwise consume a recorded choice the executor never made).
func verifBalPick(n int) int {
	if n <= 1 {
		return 0
	}
	return verifChoose(n)
}

func (in *verifBalIn) subscribes(m int, topic string) bool {
	for _, t := range in.subs[m] {
		if t == topic {
			return true
		}
	}
	return false
}

func (in *verifBalIn) anySubscriber(topic string) bool {
	for m := 0; m < in.nMembers; m++ {
		if in.subscribes(m, topic) {
			return true
		}
	}
	return false
}

func (in *verifBalIn) memberIndex(id string) int {
	for i := 0; i < in.nMembers; i++ {
		if verifBalMemberNames[i] == id {
			return i
		}
	}
	return -1
}

// verifBalShape chooses minM..maxM members, len(maxParts) topics (topic i with
// 0..maxParts[i] partitions; revOrder also explores the reversed insertion order of the
// topics map) and each member's subscription (nonEmptySubs: at least one topic;
// extraSub: m0 may also subscribe to a topic missing from the topic set).
func verifBalShape(minM, maxM int, maxParts []int, revOrder, extraSub, nonEmptySubs bool) *verifBalIn {
	return verifBalShapeN(minM, maxM, make([]int, len(maxParts)), maxParts, revOrder, extraSub, nonEmptySubs)
}

// verifBalShapeN: topic i has minParts[i]..maxParts[i] partitions.
func verifBalShapeN(minM, maxM int, minParts, maxParts []int, revOrder, extraSub, nonEmptySubs bool) *verifBalIn {
	in := &verifBalIn{topics: make(map[string]int32)}
	in.nMembers = minM + verifBalPick(maxM-minM+1)
	nTopics := len(maxParts)
	rev := revOrder && nTopics > 1 && verifBalPick(2) == 1
	for i := 0; i < nTopics; i++ {
		j := i
		if rev {
			j = nTopics - 1 - i
		}
		t := verifBalTopicNames[j]
		in.topics[t] = int32(minParts[j] + verifBalPick(maxParts[j]-minParts[j]+1))
		in.order = append(in.order, t)
	}
	in.subs = make([][]string, in.nMembers)
	in.claims = make([]map[string][]int32, in.nMembers)
	in.gens = make([]int32, in.nMembers)
	in.racks = make([]string, in.nMembers)
	in.instance = make([]bool, in.nMembers)
	for m := 0; m < in.nMembers; m++ {
		mask := 0
		if nonEmptySubs {
			mask = 1 + verifBalPick(1<<nTopics-1)
		} else {
			mask = verifBalPick(1 << nTopics)
		}
		for i := 0; i < nTopics; i++ {
			if mask&(1<<i) != 0 {
				in.subs[m] = append(in.subs[m], verifBalTopicNames[i])
			}
		}
		if extraSub && m == 0 && verifBalPick(2) == 1 {
			in.subs[m] = append(in.subs[m], "unknown")
		}
		in.claims[m] = make(map[string][]int32)
	}
	return in
}

// verifBalClaims: every member claims an arbitrary subset of the existing partitions
// (subscribed or not), so conflicting claims arise.
func (in *verifBalIn) verifBalClaims() {
	for m := 0; m < in.nMembers; m++ {
		for _, t := range in.order {
			for p := int32(0); p < in.topics[t]; p++ {
				if verifBalPick(2) == 1 {
					in.claims[m][t] = append(in.claims[m][t], p)
				}
			}
		}
	}
}

// verifBalOwnerClaims: every partition gets an owner set from {nobody, one member} plus,
// with conflicts, a pair of members.
func (in *verifBalIn) verifBalOwnerClaims(conflicts bool) {
	type pair struct{ a, b int }
	var pairs []pair
	if conflicts {
		for a := 0; a < in.nMembers; a++ {
			for b := a + 1; b < in.nMembers; b++ {
				pairs = append(pairs, pair{a, b})
			}
		}
	}
	for _, t := range in.order {
		for p := int32(0); p < in.topics[t]; p++ {
			c := verifBalPick(1 + in.nMembers + len(pairs))
			switch {
			case c == 0:
			case c <= in.nMembers:
				in.claims[c-1][t] = append(in.claims[c-1][t], p)
			default:
				pr := pairs[c-1-in.nMembers]
				in.claims[pr.a][t] = append(in.claims[pr.a][t], p)
				in.claims[pr.b][t] = append(in.claims[pr.b][t], p)
			}
		}
	}
}

func (in *verifBalIn) verifBalGen(m int) int32 {
	if in.genOverride != nil {
		return in.genOverride[m]
	}
	if in.symGens {
		return verifNondetInt32("gen" + verifBalMemberNames[m])
	}
	if in.fixedGens || len(in.claims[m]) == 0 {
		return 1
	}
	if !in.conflicted(m) {
		// generations are only compared between claimants of the same partition
		// (the sign of the others only selects Owned vs UserData, which carry the
		// same claim; the symbolic-generation harnesses cover it)
		return 1
	}
	return [...]int32{-1, 1, 2}[verifBalPick(3)]
}

// conflicted: does member m claim a partition that another member claims too?
func (in *verifBalIn) conflicted(m int) bool {
	for t, ps := range in.claims[m] {
		for _, p := range ps {
			for o := 0; o < in.nMembers; o++ {
				if o != m && verifBalHas(in.claims[o][t], p) {
					return true
				}
			}
		}
	}
	return false
}

func verifBalCloneClaims(c map[string][]int32) map[string][]int32 {
	out := make(map[string][]int32, len(c))
	for t, ps := range c {
		out[t] = append([]int32(nil), ps...)
	}
	return out
}

// joinMembers builds the JoinGroup response members the leader balances: metadata comes
// from the balancer's real JoinGroupMetadata (sorted interests, current assignment,
// generation); a rack is injected the way (*groupConsumer).joinGroupProtocols does.
func (in *verifBalIn) joinMembers(bal GroupBalancer) []kmsg.JoinGroupResponseMember {
	var members []kmsg.JoinGroupResponseMember
	for m := 0; m < in.nMembers; m++ {
		switch {
		case in.adopted:
			in.gens[m] = in.nextGen
		case !in.gensChosen:
			in.gens[m] = in.verifBalGen(m)
			in.gens0 = append(in.gens0, in.gens[m])
		default:
			in.gens[m] = in.gens0[m]
		}
		md := bal.JoinGroupMetadata(append([]string(nil), in.subs[m]...), verifBalCloneClaims(in.claims[m]), in.gens[m])
		if in.racks[m] != "" {
			var meta kmsg.ConsumerMemberMetadata
			if err := meta.ReadFrom(md); err != nil {
				verifFail("JoinGroupMetadata output does not parse")
			}
			rack := in.racks[m]
			meta.Rack = &rack
			md = meta.AppendTo(nil)
		}
		jm := kmsg.NewJoinGroupResponseMember()
		jm.MemberID = verifBalMemberNames[m]
		if in.instance[m] {
			// static members sort first, by instance id; make the order differ from
			// the member id order
			id := "i" + verifBalMemberNames[in.nMembers-1-m]
			jm.InstanceID = &id
		}
		jm.ProtocolMetadata = md
		members = append(members, jm)
	}
	in.gensChosen = true // choices / symbolic inputs are made once; repeats reuse them
	return members
}

// verifBalCheck is the C25 reference predicate, written from the property statement:
// every partition of every topic with at least one subscriber is assigned to exactly one
// member, that member subscribes to the topic, and nothing else is assigned. With
// mayWithhold (cooperative-sticky) a partition may be unassigned, but only if some
// member currently claims ownership of it (it is moving away from that member).
func (in *verifBalIn) verifBalCheck(plan map[string]map[string][]int32, who string, mayWithhold bool) {
	for id, topics := range plan {
		m := in.memberIndex(id)
		if m < 0 {
			verifFail(who + ": plan names a member that is not in the group")
			return
		}
		for topic, parts := range topics {
			n, known := in.topics[topic]
			if !known {
				verifFail(who + ": plan assigns a topic that is not in the topic set")
				return
			}
			for _, p := range parts {
				if p < 0 || p >= n {
					verifFail(who + ": plan assigns a partition that does not exist")
					return
				}
				if !in.subscribes(m, topic) {
					verifFail(who + ": plan assigns a partition to a member not subscribed to its topic")
					return
				}
			}
		}
	}
	for topic, n := range in.topics {
		want := 0
		if in.anySubscriber(topic) {
			want = 1
		}
		for p := int32(0); p < n; p++ {
			owners := 0
			for _, topics := range plan {
				for _, q := range topics[topic] {
					if q == p {
						owners++
					}
				}
			}
			if owners > want {
				if want == 0 {
					verifFail(who + ": partition of an unsubscribed topic is assigned")
				} else {
					verifFail(who + ": partition is assigned more than once")
				}
				return
			}
			if owners < want {
				if !mayWithhold {
					verifFail(who + ": partition of a subscribed topic is left unassigned")
					return
				}
				claimed := false
				for m := 0; m < in.nMembers; m++ {
					if verifBalHas(in.claims[m][topic], p) {
						claimed = true
					}
				}
				if !claimed {
					verifFail(who + ": partition is withheld although no member owns it")
					return
				}
			}
		}
	}
}

func verifBalHas(ps []int32, p int32) bool {
	for _, q := range ps {
		if q == p {
			return true
		}
	}
	return false
}

// verifBalRuns: natively (replay of a counterexample) Go randomises map iteration and
// the balancers iterate maps; repeat so that a replay does not hinge on one lucky order.
func verifBalRuns() int {
	if verifSymbolic() {
		return 1
	}
	return 64
}

// verifBalance drives a balancer the way (*groupConsumer).balanceGroup does: sort the
// members, MemberBalancer (NewConsumerBalancer parses the metadata), BalanceOrError,
// IntoSyncAssignment; it checks the plan and the encoded sync assignments and returns the
// plan.
func (in *verifBalIn) verifBalance(bal GroupBalancer, partitionRacks map[string][]string, who string, mayWithhold bool) map[string]map[string][]int32 {
	var last map[string]map[string][]int32
	for i := verifBalRuns(); i > 0; i-- {
		members := in.joinMembers(bal)
		sortJoinMembers(members)
		mb, memberTopics, err := bal.MemberBalancer(members)
		if err != nil {
			verifFail(who + ": well-formed member metadata is rejected")
			return nil
		}
		for m := 0; m < in.nMembers; m++ {
			for _, t := range in.subs[m] {
				if _, ok := memberTopics[t]; !ok {
					verifFail(who + ": a subscribed topic is missing from the member topics")
				}
			}
		}
		cb := mb.(*ConsumerBalancer)
		cb.partitionRacks = partitionRacks
		into, err := mb.(GroupMemberBalancerOrError).BalanceOrError(in.topics)
		if err != nil || into == nil {
			verifFail(who + ": balancing fails")
			return nil
		}
		plan := into.(*BalancePlan).AsMemberIDMap()
		in.verifBalCheck(plan, who, mayWithhold)

		// what goes on the wire
		sync := into.IntoSyncAssignment()
		wire := make(map[string]map[string][]int32)
		for _, a := range sync {
			if _, dup := wire[a.MemberID]; dup {
				verifFail(who + ": a member appears twice in the sync assignments")
			}
			parsed, err := bal.ParseSyncAssignment(a.MemberAssignment)
			if err != nil {
				verifFail(who + ": an encoded member assignment does not parse")
				return nil
			}
			wire[a.MemberID] = parsed
		}
		for m := 0; m < in.nMembers; m++ {
			if _, ok := wire[verifBalMemberNames[m]]; !ok {
				verifFail(who + ": a member is missing from the sync assignments")
			}
		}
		in.verifBalCheck(wire, who+" (sync assignment)", mayWithhold)
		last = plan
	}
	return last
}
