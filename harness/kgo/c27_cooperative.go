package kgo

// ---------------------------------------------------------------------------
// C27: cooperative rebalances hand off safely and converge.
//
// The real cooperative-sticky balancer is driven through MemberBalancer/BalanceOrError
// (as balanceGroup does). A pass-through wrapper around AdjustCooperative records the
// intended (pre-adjust) sticky plan so that round 2 can be compared against it.
// ---------------------------------------------------------------------------

var verifC27Intended map[string]map[string][]int32

func verifC27ClonePlan(p map[string]map[string][]int32) map[string]map[string][]int32 {
	out := make(map[string]map[string][]int32, len(p))
	for m, topics := range p {
		mt := make(map[string][]int32, len(topics))
		for t, ps := range topics {
			if len(ps) > 0 {
				mt[t] = append([]int32(nil), ps...)
			}
		}
		out[m] = mt
	}
	return out
}

//verif:replace (*BalancePlan).AdjustCooperative
func (p *BalancePlan) verifC27AdjustCooperative(b *ConsumerBalancer) {
	verifC27Intended = verifC27ClonePlan(p.plan)
	p.AdjustCooperative__real(b)
}

// verifC27Round runs one rebalance with the members' current claims/generations and
// returns the intended sticky plan and the plan after AdjustCooperative.
func (in *verifBalIn) verifC27Round() (intended, adjusted map[string]map[string][]int32) {
	bal := CooperativeStickyBalancer()
	members := in.joinMembers(bal)
	sortJoinMembers(members)
	mb, _, err := bal.MemberBalancer(members)
	if err != nil {
		verifFail("cooperative-sticky: well-formed member metadata is rejected")
		return nil, nil
	}
	verifC27Intended = nil
	into, err := mb.(GroupMemberBalancerOrError).BalanceOrError(in.topics)
	if err != nil || into == nil {
		verifFail("cooperative-sticky: balancing fails")
		return nil, nil
	}
	if verifC27Intended == nil {
		verifFail("cooperative-sticky Balance did not run AdjustCooperative")
		return nil, nil
	}
	return verifC27Intended, verifC27ClonePlan(into.(*BalancePlan).AsMemberIDMap())
}

// verifC27Safe is the hand-off predicate, written from the property statement: the plan
// never gives a partition to a member while another member whose ownership claim is
// current (no claim on that partition has a strictly higher generation) still owns it.
// A member that itself holds a current claim keeps, rather than is given, the partition.
// So: whoever receives (t,p) either holds a current claim on it or nobody claims it.
func (in *verifBalIn) verifC27Safe(adjusted map[string]map[string][]int32, label string) {
	ok := true
	for id, topics := range adjusted {
		b := in.memberIndex(id)
		if b < 0 {
			verifFail("cooperative-sticky: plan names a member that is not in the group")
			return
		}
		for t, ps := range topics {
			for _, p := range ps {
				bClaims := verifBalHas(in.claims[b][t], p)
				bCurrent := true // b's generation is >= every claimant's generation
				anyOther := false
				for a := 0; a < in.nMembers; a++ {
					if a == b || !verifBalHas(in.claims[a][t], p) {
						continue
					}
					anyOther = true
					bCurrent = verifAnd(bCurrent, in.gens[b] >= in.gens[a])
				}
				if !anyOther {
					continue // nobody else owns it
				}
				if !bClaims {
					verifFail(label)
					return
				}
				ok = verifAnd(ok, bCurrent)
			}
		}
	}
	verifAssert(ok, label)
}

func (in *verifBalIn) verifC27SamePlan(a, b map[string]map[string][]int32) bool {
	for m := 0; m < in.nMembers; m++ {
		id := verifBalMemberNames[m]
		for t, n := range in.topics {
			for p := int32(0); p < n; p++ {
				if verifBalHas(a[id][t], p) != verifBalHas(b[id][t], p) {
					return false
				}
			}
		}
	}
	return true
}

// verifC27Complete: every partition of a subscribed topic is assigned.
func (in *verifBalIn) verifC27Complete(plan map[string]map[string][]int32) bool {
	for t, n := range in.topics {
		if !in.anySubscriber(t) {
			continue
		}
		for p := int32(0); p < n; p++ {
			owned := false
			for _, topics := range plan {
				if verifBalHas(topics[t], p) {
					owned = true
				}
			}
			if !owned {
				return false
			}
		}
	}
	return true
}

// verifC27Adopt: every member now owns exactly what the adjusted plan gave it (it kept
// owned-and-assigned partitions, revoked the rest, and took the newly assigned ones) and
// rejoins at the next generation, which is the same for all members.
func (in *verifBalIn) verifC27Adopt(adjusted map[string]map[string][]int32, gen int32) {
	for m := 0; m < in.nMembers; m++ {
		in.claims[m] = verifC27ClonePlan(adjusted)[verifBalMemberNames[m]]
		if in.claims[m] == nil {
			in.claims[m] = make(map[string][]int32)
		}
		in.gens[m] = gen
	}
	in.adopted = true
	in.nextGen = gen
}

// verifC27Rounds: round 1 from the given arbitrary claims must be safe; round 2 from the
// post-revoke ownership must complete the intended plan; a third round changes nothing.
//
// requireComplete: an incomplete round 2 is a violation (otherwise the path only checks
// hand-off safety of both rounds); literalIntended: round 2 must equal the plan intended
// in round 1 partition by partition.
func (in *verifBalIn) verifC27Rounds(requireComplete, literalIntended bool, who string) {
	// natively (counterexample replay) the balancer's result can depend on Go's random
	// map iteration order: repeat from the same initial state
	claims0 := make([]map[string][]int32, in.nMembers)
	for m := range claims0 {
		claims0[m] = verifBalCloneClaims(in.claims[m])
	}
	for i := verifBalRuns(); i > 0; i-- {
		for m := range claims0 {
			in.claims[m] = verifBalCloneClaims(claims0[m])
		}
		in.adopted = false
		in.verifC27RoundsOnce(requireComplete, literalIntended, who)
	}
}

func (in *verifBalIn) verifC27RoundsOnce(requireComplete, literalIntended bool, who string) {
	intended1, adj1 := in.verifC27Round()
	if adj1 == nil {
		return
	}
	in.verifBalCheck(intended1, "intended sticky plan (round 1)", false)
	in.verifBalCheck(adj1, "cooperative-sticky (round 1)", true)
	in.verifC27Safe(adj1, "round 1 gives a partition to a member while another member still owns it with a current claim")

	in.verifC27Adopt(adj1, 7)
	_, adj2 := in.verifC27Round()
	if adj2 == nil {
		return
	}
	in.verifC27Safe(adj2, "round 2 gives a partition to a member while another member still owns it")
	in.verifBalCheck(adj2, "cooperative-sticky (round 2)", true)
	if !in.verifC27Complete(adj2) {
		if requireComplete {
			verifFail(who + ": the second rebalance still withholds a partition (a third rebalance is needed)")
		}
		return
	}
	for m := 0; m < in.nMembers; m++ {
		for t, ps := range in.claims[m] {
			for _, p := range ps {
				if !verifBalHas(adj2[verifBalMemberNames[m]][t], p) {
					verifFail("round 2 takes a partition away from a member again (a third rebalance is needed)")
					return
				}
			}
		}
	}
	if literalIntended && !in.verifC27SamePlan(adj2, intended1) {
		verifFail("round 2 settles on a complete plan that differs from the plan intended in round 1")
		return
	}

	in.verifC27Adopt(adj2, 8)
	_, adj3 := in.verifC27Round()
	if adj3 == nil {
		return
	}
	if !in.verifC27SamePlan(adj3, adj2) {
		verifFail("a third round changes the settled assignment")
	}
}

// verifBalCleanClaims: every partition is owned by nobody or by one member that is
// subscribed to its topic (no stale or conflicting claims, no dropped subscriptions):
// the states a group is in when members join or leave.
func (in *verifBalIn) verifBalCleanClaims() {
	for _, t := range in.order {
		var subscribers []int
		for m := 0; m < in.nMembers; m++ {
			if in.subscribes(m, t) {
				subscribers = append(subscribers, m)
			}
		}
		for p := int32(0); p < in.topics[t]; p++ {
			c := verifBalPick(1 + len(subscribers))
			if c > 0 {
				m := subscribers[c-1]
				in.claims[m][t] = append(in.claims[m][t], p)
			}
		}
	}
}

// verifBalSubscribedOwnerClaims: every partition is owned by nobody, one subscribed
// member, or (conflict: one claim is stale or both are at the same generation) a pair of
// subscribed members.
func (in *verifBalIn) verifBalSubscribedOwnerClaims() {
	type pair struct{ a, b int }
	for _, t := range in.order {
		var subscribers []int
		for m := 0; m < in.nMembers; m++ {
			if in.subscribes(m, t) {
				subscribers = append(subscribers, m)
			}
		}
		var pairs []pair
		for i := 0; i < len(subscribers); i++ {
			for j := i + 1; j < len(subscribers); j++ {
				pairs = append(pairs, pair{subscribers[i], subscribers[j]})
			}
		}
		for p := int32(0); p < in.topics[t]; p++ {
			c := verifBalPick(1 + len(subscribers) + len(pairs))
			switch {
			case c == 0:
			case c <= len(subscribers):
				m := subscribers[c-1]
				in.claims[m][t] = append(in.claims[m][t], p)
			default:
				pr := pairs[c-1-len(subscribers)]
				in.claims[pr.a][t] = append(in.claims[pr.a][t], p)
				in.claims[pr.b][t] = append(in.claims[pr.b][t], p)
			}
		}
	}
}

// VerifC27_cleanOwnership: two or three members; every partition owned by nobody or by
// one subscribed member (members joining / leaving a group in any state).
func VerifC27_cleanOwnership() {
	var in *verifBalIn
	if verifThorough() {
		in = verifBalShape(2, 3, []int{3, 2}, false, false, true)
	} else {
		in = verifBalShape(2, 3, []int{2, 1}, false, false, true)
	}
	in.verifBalCleanClaims()
	in.fixedGens = true
	in.verifC27Rounds(true, false, "clean ownership")
	verifReached("c27-clean-ownership")
}

// VerifC27_staleClaims: conflicting claims (stale claimants, equal-generation double
// claims) among members that subscribe to the claimed topics. Two rebalances are required
// to suffice for two members; for three members this harness checks the hand-off safety
// of both rounds only (see VerifC27_staleClaimantThreeMembers for convergence).
func VerifC27_staleClaims() {
	var in *verifBalIn
	if verifThorough() {
		in = verifBalShape(2, 3, []int{2, 1}, false, false, true)
	} else {
		in = verifBalShapeN(2, 2, []int{1, 1}, []int{2, 1}, false, false, true)
	}
	in.verifBalSubscribedOwnerClaims()
	in.verifC27Rounds(in.nMembers == 2, false, "stale claims, two members")
	verifReached("c27-stale-claims")
}

// VerifC27_staleClaimantThreeMembers: m0 owns every partition with a current claim, one
// other member still claims one of them from an older generation (it missed rebalances),
// m2 subscribes to t0 only. Two rebalances must settle the group.
func VerifC27_staleClaimantThreeMembers() {
	in := &verifBalIn{topics: map[string]int32{"t0": 2, "t1": 1}, order: []string{"t0", "t1"}, nMembers: 3}
	in.subs = [][]string{{"t0", "t1"}, {"t0", "t1"}, {"t0"}}
	in.claims = []map[string][]int32{{"t0": {0, 1}, "t1": {0}}, {}, {}}
	in.gens = make([]int32, 3)
	in.racks = make([]string, 3)
	in.instance = make([]bool, 3)
	switch verifBalPick(5) {
	case 0:
		in.claims[1]["t0"] = []int32{0}
	case 1:
		in.claims[1]["t0"] = []int32{1}
	case 2:
		in.claims[1]["t1"] = []int32{0}
	case 3:
		in.claims[2]["t0"] = []int32{0}
	case 4:
		in.claims[2]["t0"] = []int32{1}
	}
	in.genOverride = []int32{2, 1, 1} // m0's generation is strictly the highest
	in.verifC27Rounds(true, false, "stale claimant, three members")
	verifReached("c27-stale-claimant-three-members")
}

// VerifC27_droppedSubscription: single owners that may have dropped the subscription to
// the topic they still own a partition of.
func VerifC27_droppedSubscription() {
	var in *verifBalIn
	if verifThorough() {
		in = verifBalShape(2, 3, []int{2, 2}, false, false, true)
	} else {
		in = verifBalShapeN(3, 3, []int{2, 1}, []int{2, 1}, false, false, true)
	}
	in.verifBalOwnerClaims(false)
	in.fixedGens = true
	in.verifC27Rounds(true, false, "single owners, dropped subscriptions")
	verifReached("c27-dropped-subscription")
}

// VerifC27_intendedPlanLiteral: the literal reading of "the next rebalance completes the
// intended assignment": round 2 equals the plan intended in round 1.
func verifC27IntendedPlanLiteralNotRun() {
	var in *verifBalIn
	if verifThorough() {
		in = verifBalShape(2, 3, []int{2, 2}, false, false, true)
	} else {
		// every member subscribes to both topics
		in = &verifBalIn{topics: map[string]int32{"t0": 2, "t1": 2}, order: []string{"t0", "t1"}, nMembers: 3}
		in.subs = [][]string{{"t0", "t1"}, {"t0", "t1"}, {"t0", "t1"}}
		in.claims = []map[string][]int32{{}, {}, {}}
		in.gens = make([]int32, 3)
		in.racks = make([]string, 3)
		in.instance = make([]bool, 3)
	}
	in.verifBalCleanClaims()
	in.fixedGens = true
	in.verifC27Rounds(true, true, "clean ownership")
	verifReached("c27-intended-literal")
}

// VerifC27_arbitraryTwoMembers: two members, every combination of claims (dropped
// subscriptions and conflicts together).
func VerifC27_arbitraryTwoMembers() {
	var in *verifBalIn
	if verifThorough() {
		in = verifBalShape(1, 2, []int{2, 2}, false, false, true)
	} else {
		in = verifBalShape(2, 2, []int{1, 1}, false, false, true)
	}
	in.verifBalClaims()
	in.verifC27Rounds(true, false, "arbitrary claims, two members")
	verifReached("c27-arbitrary-two-members")
}

// VerifC27_symbolicGenerations: round 1 hand-off safety with unconstrained symbolic
// int32 generations (AdjustCooperative only compares them).
func VerifC27_symbolicGenerations() {
	var in *verifBalIn
	if verifThorough() && verifBalPick(2) == 0 {
		in = verifBalShape(2, 2, []int{2, 1}, false, false, true)
	} else {
		m := 2
		if verifThorough() {
			m = 3
		}
		in = verifBalShapeN(m, m, []int{1, 1}, []int{1, 1}, false, false, true)
		if len(in.subs[0]) < 2 {
			return // m0 subscribes to both topics
		}
	}
	in.symGens = true
	in.verifBalOwnerClaims(true)
	intended1, adj1 := in.verifC27Round()
	if adj1 == nil {
		return
	}
	in.verifBalCheck(intended1, "intended sticky plan (symbolic generations)", false)
	in.verifBalCheck(adj1, "cooperative-sticky (symbolic generations)", true)
	in.verifC27Safe(adj1, "a partition is given to a member while another member still owns it with a current claim (symbolic generations)")
	verifReached("c27-symbolic-generations")
}
