package kgo

import "math/rand"

// Reference: Kafka's Utils.murmur2 transcribed in int32 arithmetic with unsigned shifts.
func verifJavaMurmur2(data []byte) int32 {
	length := int32(len(data))
	const seed int32 = -1756908916 // 0x9747b28c
	const m int32 = 0x5bd1e995
	const r = 24
	h := seed ^ length
	length4 := length / 4
	for i := int32(0); i < length4; i++ {
		i4 := i * 4
		k := (int32(data[i4+0]) & 0xff) + ((int32(data[i4+1]) & 0xff) << 8) + ((int32(data[i4+2]) & 0xff) << 16) + ((int32(data[i4+3]) & 0xff) << 24)
		k *= m
		k ^= int32(uint32(k) >> r)
		k *= m
		h *= m
		h ^= k
	}
	switch length % 4 {
	case 3:
		h ^= (int32(data[(length & ^3)+2]) & 0xff) << 16
		fallthrough
	case 2:
		h ^= (int32(data[(length & ^3)+1]) & 0xff) << 8
		fallthrough
	case 1:
		h ^= int32(data[length & ^3]) & 0xff
		h *= m
	}
	h ^= int32(uint32(h) >> 13)
	h *= m
	h ^= int32(uint32(h) >> 15)
	return h
}

func verifC28MaxKey() int {
	if verifThorough() {
		return 32
	}
	return 16
}

// murmur2 equals the Java reference for every key of length 0..16 (32 thorough).
func VerifC28_murmur2() {
	n := verifRange("len", 0, verifC28MaxKey())
	n = verifConcretize(n)
	key := verifNondetBytes("key", n)
	got := murmur2(key)
	want := verifJavaMurmur2(key)
	verifAssert(int32(got) == want, "murmur2 equals Kafka's Utils.murmur2")
	verifReached("c28-murmur2")
}

// KafkaHasher: (h & 0x7fffffff) % n for every 32-bit hash and every n in [1, 2^31).
func VerifC28_kafkaHasher() {
	h := verifNondetUint32("h")
	n := verifNondetInt("n")
	verifAssume(verifAnd(n >= 1, n < 1<<31))
	got := KafkaHasher(func([]byte) uint32 { return h })([]byte{1}, n)
	want := int(int32(h)&0x7fffffff) % n
	verifAssert(got == want, "KafkaHasher is toPositive(hash) % n")
	verifAssert(verifAnd(got >= 0, got < n), "KafkaHasher result in [0,n)")
	verifReached("c28-kafka-hasher")
}

func VerifC28_saramaHashers() {
	h := verifNondetUint32("h")
	n := verifNondetInt("n")
	verifAssume(verifAnd(n >= 1, n < 1<<31))
	hf := func([]byte) uint32 { return h }
	got := SaramaCompatHasher(hf)(nil, n)
	p := int32(h) % int32(n)
	if p < 0 {
		p = -p
	}
	verifAssert(got == int(p), "SaramaCompatHasher is abs(int32(hash) % int32(n))")
	verifAssert(verifAnd(got >= 0, got < n), "SaramaCompatHasher result in [0,n)")
	got2 := SaramaHasher(hf)(nil, n)
	verifAssert(verifAnd(got2 >= 0, got2 < n), "SaramaHasher result in [0,n)")
	verifReached("c28-sarama-hashers")
}

// The default key partitioner composed with murmur2 on short keys picks Kafka's partition.
func VerifC28_keyPartitionerKafkaCompat() {
	l := verifRange("len", 0, 5)
	l = verifConcretize(l)
	key := verifNondetBytes("key", l)
	n := verifNondetInt("n")
	verifAssume(verifAnd(n >= 1, n < 1<<31))
	tp := StickyKeyPartitioner(nil).ForTopic("t")
	rec := &Record{Key: key}
	verifAssert(tp.RequiresConsistency(rec), "keyed records require consistency")
	got := tp.Partition(rec, n)
	want := int(verifJavaMurmur2(key)&0x7fffffff) % n
	verifAssert(got == want, "StickyKeyPartitioner picks toPositive(murmur2(key)) % n")
	// equal keys give equal partitions whatever sticky state lies in between
	sk := tp.(*stickyKeyTopicPartitioner)
	sk.onPart, sk.lastPart = verifNondetInt("onPart"), verifNondetInt("lastPart")
	sk.OnNewBatch()
	key2 := make([]byte, len(key))
	copy(key2, key)
	verifAssert(tp.Partition(&Record{Key: key2}, n) == got, "equal keys map to equal partitions")
	ub := UniformBytesPartitioner(verifNondetInt("bytes"), verifNondetBool("adaptive"), true, nil).ForTopic("t").(*uniformBytesTopicPartitioner)
	verifAssert(ub.RequiresConsistency(rec), "uniform-bytes keyed records require consistency")
	verifAssert(ub.PartitionByBackup(rec, n, nil) == want, "UniformBytesPartitioner with keys picks Kafka's partition")
	verifReached("c28-key-partitioner")
}

// ---- range: one inductive step from an arbitrary partitioner state ----

func VerifC28_roundRobinStep() {
	p := &roundRobinTopicPartitioner{on: verifNondetInt("on")}
	n := verifNondetInt("n")
	verifAssume(verifAnd(p.on >= 0, verifAnd(n >= 1, n < 1<<31)))
	got := p.Partition(nil, n)
	verifAssert(verifAnd(got >= 0, got < n), "round robin result in [0,n)")
	verifAssert(p.on >= 0, "round robin state invariant (on >= 0) preserved")
	// next call with a possibly different partition count
	n2 := verifNondetInt("n2")
	verifAssume(verifAnd(n2 >= 1, n2 < 1<<31))
	got2 := p.Partition(nil, n2)
	verifAssert(verifAnd(got2 >= 0, got2 < n2), "round robin result in range after partition count change")
	verifReached("c28-round-robin")
}

func VerifC28_stickyStep() {
	p := &stickyTopicPartitioner{lastPart: verifNondetInt("lastPart"), onPart: verifNondetInt("onPart"), rng: rand.New(rand.NewSource(1))}
	n := verifNondetInt("n")
	verifAssume(verifAnd(p.onPart >= -1, verifAnd(p.lastPart >= -1, verifAnd(n >= 1, n < 1<<31))))
	if verifNondetBool("newBatch") {
		p.OnNewBatch()
	}
	got := p.Partition(&Record{}, n)
	verifAssert(verifAnd(got >= 0, got < n), "sticky result in [0,n)")
	verifAssert(verifAnd(p.onPart >= -1, p.lastPart >= -1), "sticky state invariant preserved")
	verifAssert(p.Partition(&Record{}, n) == got, "sticky stays pinned until a new batch")
	verifReached("c28-sticky")
}

type verifBackupIter struct {
	backups []int64
}

func (i *verifBackupIter) Next() (int, int64) {
	last := len(i.backups) - 1
	b := i.backups[last]
	i.backups = i.backups[:last]
	return last, b
}
func (i *verifBackupIter) Rem() int { return len(i.backups) }

func VerifC28_leastBackupStep() {
	n := verifRange("n", 1, 3)
	n = verifConcretize(n)
	it := &verifBackupIter{}
	for k := 0; k < n; k++ {
		it.backups = append(it.backups, verifNondetInt64("backup"))
	}
	p := &leastBackupTopicPartitioner{onPart: verifNondetInt("onPart"), rng: rand.New(rand.NewSource(1))}
	verifAssume(p.onPart >= -1)
	min := it.backups[0]
	for _, b := range it.backups {
		min = verifIteInt64(b < min, b, min)
	}
	all := append([]int64(nil), it.backups...)
	repick := verifOr(p.onPart == -1, p.onPart >= n)
	got := p.PartitionByBackup(nil, n, it)
	verifAssert(verifAnd(got >= 0, got < n), "least-backup result in [0,n)")
	if repick {
		g := verifConcretize(got)
		verifAssert(all[g] == min, "least-backup picks a least backed-up partition")
	}
	verifReached("c28-least-backup")
}

func VerifC28_uniformBytesStep() {
	n := verifRange("n", 1, 3)
	n = verifConcretize(n)
	it := &verifBackupIter{}
	for k := 0; k < n; k++ {
		it.backups = append(it.backups, int64([]int{0, 1, 7}[verifChoose(3)]))
	}
	adaptive := verifNondetBool("adaptive")
	p := &uniformBytesTopicPartitioner{
		u:      uniformBytesPartitioner{bytes: verifNondetInt("cfgbytes"), adaptive: adaptive, keys: verifNondetBool("keys")},
		bytes:  verifNondetInt("bytes"),
		onPart: verifNondetInt("onPart"),
		rng:    rand.New(rand.NewSource(1)),
	}
	verifAssume(verifAnd(p.onPart >= -1, verifAnd(p.bytes >= 0, p.bytes < 1<<40)))
	rec := &Record{Value: make([]byte, verifRange("vlen", 0, 2))}
	got := p.PartitionByBackup(rec, n, it)
	verifAssert(verifAnd(got >= 0, got < n), "uniform-bytes result in [0,n)")
	verifAssert(p.onPart == got, "uniform-bytes pins the returned partition")
	verifReached("c28-uniform-bytes")
}
