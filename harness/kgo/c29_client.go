package kgo

// C29 (client half): incrementSequence(s, n) == (s + n) mod 2^31 for every s, n in [0, 2^31).
func VerifC29_client() {
	s, n := verifNondetInt32("s"), verifNondetInt32("n")
	verifAssume(verifAnd(s >= 0, n >= 0))
	got := incrementSequence(s, n)
	want := int32((int64(s) + int64(n)) & 0x7fffffff)
	verifAssert(got == want, "client next sequence is (s+n) mod 2^31")
	verifAssert(got >= 0, "client next sequence is non-negative")
	verifReached("c29-client")
}

// Two consecutive increments compose: inc(inc(s,a),b) == (s+a+b) mod 2^31.
func VerifC29_clientCompose() {
	s, a, b := verifNondetInt32("s"), verifNondetInt32("a"), verifNondetInt32("b")
	verifAssume(verifAnd(s >= 0, verifAnd(a >= 0, b >= 0)))
	got := incrementSequence(incrementSequence(s, a), b)
	want := int32((int64(s) + int64(a) + int64(b)) & 0x7fffffff)
	verifAssert(got == want, "client sequence increments compose mod 2^31")
	verifReached("c29-client-compose")
}
