package kgo

// ---------- ring: sequential refinement of an abstract FIFO, one step from any state ----------

func verifC30Ring() (*ring[int], []int) {
	caps := []int{0, 8, 16}
	if verifThorough() {
		caps = append(caps, 32)
	}
	c := caps[verifChoose(len(caps))]
	r := &ring[int]{}
	if c > 0 {
		r.elems = make([]int, c)
		for i := range r.elems {
			r.elems[i] = verifNondetInt("elem")
		}
		r.head = verifConcretize(verifRange("head", 0, c-1))
		r.l = verifConcretize(verifRange("l", 0, c))
		// representation invariant reached by real histories: capacity above the minimum
		// is only kept while more than minRingCap/2 elements are queued (dropPeek shrinks)
		// -- except right after a growth, so no constraint is assumed here.
	}
	r.dead = verifNondetBool("dead")
	return r, verifC30Queue(r)
}

func verifC30Queue(r *ring[int]) []int {
	q := make([]int, 0, r.l)
	for i := 0; i < r.l; i++ {
		q = append(q, r.elems[(r.head+i)%cap(r.elems)])
	}
	return q
}

func verifC30SameQueue(a, b []int) bool {
	if len(a) != len(b) {
		return false
	}
	ok := true
	for i := range a {
		ok = verifAnd(ok, a[i] == b[i])
	}
	return ok
}

func verifC30Inv(r *ring[int]) bool {
	c := cap(r.elems)
	if c == 0 {
		return r.l == 0 && r.head == 0
	}
	return r.head >= 0 && r.head < c && r.l >= 0 && r.l <= c && len(r.elems) == c && c >= minRingCap
}

func VerifC30_ringPushStep() {
	r, q := verifC30Ring()
	dead0 := r.dead
	e := verifNondetInt("pushed")
	force := verifNondetBool("force")
	var first, dead bool
	if force {
		first, dead = r.pushForce(e)
	} else {
		first, dead = r.push(e) // maxLen == 0: never waits
	}
	q2 := verifC30Queue(r)
	verifAssert(verifC30Inv(r), "ring invariant holds after push")
	if dead0 {
		verifAssert(verifAnd(dead, !first), "push on a dead ring is rejected")
		verifAssert(verifC30SameQueue(q, q2), "rejected push leaves the queue unchanged")
	} else {
		verifAssert(!dead, "push on a live ring is accepted")
		verifAssert(first == (len(q) == 0), "first is reported exactly when the queue was empty")
		verifAssert(verifC30SameQueue(append(q, e), q2), "push appends at the tail (growth preserves order)")
	}
	verifReached("c30-ring-push")
}

func VerifC30_ringDropPeekStep() {
	r, q := verifC30Ring()
	dead0 := r.dead
	next, more, dead := r.dropPeek()
	q2 := verifC30Queue(r)
	verifAssert(verifC30Inv(r), "ring invariant holds after dropPeek")
	verifAssert(dead == dead0, "dropPeek reports the dead flag")
	if len(q) == 0 {
		verifAssert(verifAnd(!more, next == 0), "dropPeek on empty returns nothing")
		verifAssert(len(q2) == 0, "empty stays empty")
	} else {
		verifAssert(verifC30SameQueue(q[1:], q2), "dropPeek removes exactly the head (shrink preserves order)")
		verifAssert(more == (len(q) > 1), "more is reported exactly when elements remain")
		if len(q) > 1 {
			verifAssert(next == q[1], "dropPeek returns the new head")
		} else {
			verifAssert(next == 0, "dropPeek returns zero when drained")
		}
	}
	verifAssert(r.empty() == (len(q2) == 0), "empty agrees with the abstract queue")
	verifReached("c30-ring-droppeek")
}

// k pushes then drops: FIFO order end to end from the empty ring (covers growth + wrap).
func VerifC30_ringFifoSequence() {
	r := &ring[int]{}
	n := 11
	if verifThorough() {
		n = 20
	}
	var model []int
	for step := 0; step < n; step++ {
		if verifNondetBool("doPush") || len(model) == 0 {
			e := verifNondetInt("e")
			first, dead := r.push(e)
			verifAssert(verifAnd(!dead, first == (len(model) == 0)), "push result matches the model")
			model = append(model, e)
		} else {
			next, more, _ := r.dropPeek()
			model = model[1:]
			verifAssert(more == (len(model) > 0), "more matches the model")
			if len(model) > 0 {
				verifAssert(next == model[0], "next matches the model head")
			}
		}
	}
	verifAssert(verifC30SameQueue(model, verifC30Queue(r)), "ring content equals the model queue")
	verifReached("c30-ring-fifo-seq")
}

// ---------- ring: concurrent pushers + single worker, bounded schedules ----------

type verifC30World struct {
	r        ring[int]
	handled  []int
	active   int
	overlap  bool
	workers  int
	accepted int
	rejected int
	done     int
}

func (w *verifC30World) work(e int) {
	w.workers++
	for {
		w.active++
		if w.active > 1 {
			w.overlap = true
		}
		w.handled = append(w.handled, e)
		verifYield()
		w.active--
		var more bool
		e, more, _ = w.r.dropPeek()
		if !more {
			return
		}
	}
}

func (w *verifC30World) pusher(base int, n int, force bool) {
	for i := 0; i < n; i++ {
		var first, dead bool
		if force {
			first, dead = w.r.pushForce(base + i)
		} else {
			first, dead = w.r.push(base + i)
		}
		if dead {
			w.rejected++
			continue
		}
		w.accepted++
		if first {
			go w.work(base + i)
		}
	}
	w.done++
}

func VerifC30_ringConcurrent() {
	if verifThorough() {
		verifPreemptions(6)
	} else {
		verifPreemptions(4)
	}
	w := &verifC30World{}
	w.r.initMaxLen(1) // blocking pusher waits while one element is queued
	withDie := verifChoose(2) == 1
	go w.pusher(100, 2, false)
	go w.pusher(200, 2, true)
	if withDie {
		go w.r.die()
	}
	verifRunAll()
	verifAssert(w.done == 2, "no pusher stays blocked (a blocked push resumes after a drop or die)")
	verifAssert(!w.overlap, "never two workers handle elements at once")
	verifAssert(len(w.handled) == w.accepted, "every accepted element is handled exactly once")
	if !withDie {
		verifAssert(w.accepted == 4, "all pushes accepted on a live ring")
	}
	// per-pusher order is preserved and nothing is handled twice
	last1, last2 := 99, 199
	ok := true
	for _, e := range w.handled {
		if e < 200 {
			ok = ok && e == last1+1
			last1 = e
		} else {
			ok = ok && e == last2+1
			last2 = e
		}
	}
	verifAssert(ok || withDie, "elements are handled in each pusher's push order")
	verifAssert(verifBlockedCount() == 0, "no goroutine is left blocked")
	verifReached("c30-ring-concurrent")
}

// Several pushers parked on a full bounded ring (maxLen 2): every one of them must resume as
// space frees, however the worker's drops interleave with their wake-ups.
func VerifC30_ringManyBlocked() {
	if verifThorough() {
		verifPreemptions(5)
	} else {
		verifPreemptions(3)
	}
	w := &verifC30World{}
	w.r.initMaxLen(2)
	go w.pusher(100, 2, true) // fills the ring
	go w.pusher(200, 1, false)
	go w.pusher(300, 1, false)
	if verifThorough() {
		go w.pusher(400, 1, false)
	}
	verifRunAll()
	n := 3
	if verifThorough() {
		n = 4
	}
	verifAssert(w.done == n, "no pusher stays parked once the ring has space")
	verifAssert(!w.overlap, "never two workers handle elements at once")
	verifAssert(len(w.handled) == w.accepted && w.accepted == n+1, "every element is accepted and handled exactly once")
	verifAssert(verifBlockedCount() == 0, "no goroutine is left blocked")
	verifReached("c30-ring-many-blocked")
}

// ---------- workLoop ----------

type verifC30Latch struct {
	l         workLoop
	clock     int
	inBody    int
	overlap   bool
	sigStart  []int
	lastBody  int
	bodies    int
	workers   int
	iterLimit int
}

func (x *verifC30Latch) worker() {
	x.workers++
	for again := true; again; {
		x.inBody++
		if x.inBody > 1 {
			x.overlap = true
		}
		x.clock++
		x.lastBody = x.clock
		x.bodies++
		verifYield()
		x.inBody--
		again = x.l.maybeFinish(false)
	}
}

func (x *verifC30Latch) signal() {
	x.clock++
	x.sigStart = append(x.sigStart, x.clock)
	if x.l.maybeBegin() {
		go x.worker()
	}
}

func VerifC30_workLoop() {
	verifPreemptions(4)
	x := &verifC30Latch{}
	n := 3
	if verifThorough() {
		verifPreemptions(6)
		n = 4
	}
	for i := 0; i < n; i++ {
		go x.signal()
	}
	verifRunAll()
	verifAssert(!x.overlap, "never two workers inside the body at once")
	verifAssert(len(x.sigStart) == n, "all signallers ran")
	ok := true
	for _, s := range x.sigStart {
		ok = ok && x.lastBody > s
	}
	verifAssert(ok, "every signal is followed by a body run (no lost wake-up)")
	verifAssert(x.l.state.Load() == stateUnstarted, "latch returns to unstarted at quiescence")
	verifAssert(verifBlockedCount() == 0, "no goroutine is left blocked")
	verifReached("c30-workloop")
}

// hardFinish: only mutual exclusion is promised by its documentation.
func VerifC30_workLoopHardFinish() {
	verifPreemptions(4)
	x := &verifC30Latch{}
	go x.signal()
	go x.signal()
	go func() {
		if x.l.maybeBegin() {
			x.inBody++
			if x.inBody > 1 {
				x.overlap = true
			}
			verifYield()
			x.inBody--
			x.l.hardFinish()
		}
	}()
	verifRunAll()
	verifAssert(verifBlockedCount() == 0, "no goroutine is left blocked")
	verifReached("c30-workloop-hardfinish")
}

// A bounded ring can be pushed past its limit by pushForce (promises of records that failed
// before buffering must never block). A blocking push then has to wait until the ring is back
// BELOW its limit, not merely until it stops being exactly full: limit 2, two pushes, one
// pushForce (length 3), then a blocking push from another goroutine. It stays parked while
// the worker drops the ring to 2 (still full) and is admitted only once a further drop makes
// room; nothing is lost and the order is kept.
func VerifC30_ringForcedPastLimit() {
	verifPreemptions(2)
	var r ring[int]
	r.initMaxLen(2)
	r.push(1)
	r.push(2)
	r.pushForce(3)
	admitted := false
	go func() {
		r.push(4)
		admitted = true
	}()
	verifRunAll()
	verifAssert(!admitted, "a blocking push waits while the ring is over its limit")
	next, more, _ := r.dropPeek() // 3 -> 2 elements: still at the limit
	verifRunAll()
	verifAssert(!admitted, "a blocking push keeps waiting while the ring is exactly at its limit")
	verifAssert(more && next == 2, "dropPeek hands out the elements in order")
	next, more, _ = r.dropPeek() // 2 -> 1: room
	verifRunAll()
	verifAssert(admitted, "a blocking push is admitted once the ring is below its limit")
	verifAssert(more && next == 3, "dropPeek hands out the elements in order")
	next, more, _ = r.dropPeek()
	verifAssert(more && next == 4, "the admitted element is queued behind the forced one")
	verifAssert(verifBlockedCount() == 0, "no goroutine is left blocked")
	verifReached("c30-ring-forced-past-limit")
}
