package kgo

import "sync"

func verifC31Consumer() *consumer {
	cl := &Client{}
	cl.cfg.blockRebalanceOnPoll = true
	c := &cl.consumer
	c.cl = cl
	c.pollWaitC = sync.NewCond(&c.pollWaitMu)
	return c
}

// ---- packed-counter arithmetic: one step from any state with counts < 2^31 ----

func VerifC31_gateArithmetic() {
	c := verifC31Consumer()
	p, r := verifNondetUint32("pollers"), verifNondetUint32("rebalances")
	verifAssume(verifAnd(p < 1<<31, r < 1<<31))
	c.pollWaitState = uint64(r)<<32 | uint64(p)
	switch verifChoose(5) {
	case 0:
		verifAssume(verifOr(p > 0, r == 0)) // otherwise it blocks (covered by the schedule harness)
		c.waitAndAddPoller()
		verifAssert(verifAnd(uint32(c.pollWaitState) == p+1, uint32(c.pollWaitState>>32) == r), "adding a poller touches only the poller half")
	case 1:
		c.unaddPoller()
		want := p
		if p > 0 {
			want = p - 1
		}
		verifAssert(verifAnd(uint32(c.pollWaitState) == want, uint32(c.pollWaitState>>32) == r), "removing a poller never borrows from the rebalance half (also after a force-clear)")
	case 2:
		c.allowRebalance()
		verifAssert(verifAnd(uint32(c.pollWaitState) == 0, uint32(c.pollWaitState>>32) == r), "allowRebalance clears exactly the poller half")
	case 3:
		verifAssume(p == 0)
		c.waitAndAddRebalance()
		verifAssert(verifAnd(uint32(c.pollWaitState) == 0, uint32(c.pollWaitState>>32) == r+1), "adding a rebalance touches only the rebalance half")
	case 4:
		verifAssume(r >= 1)
		c.unaddRebalance()
		verifAssert(verifAnd(uint32(c.pollWaitState) == p, uint32(c.pollWaitState>>32) == r-1), "removing a rebalance touches only the rebalance half")
	}
	verifReached("c31-gate-arith")
}

// ---- schedules: pollers vs rebalancers ----

type verifC31World struct {
	c          *consumer
	active     int // admitted pollers not yet released / force-cleared (ghost)
	inCritical int
	bad        string
	done       int
	inflight   int
	held       int
	umu        sync.Mutex
}

func (w *verifC31World) fail(s string) {
	if w.bad == "" {
		w.bad = s
	}
}

// poller models the documented protocol of BlockRebalanceOnPoll: a poll that returns nothing
// releases itself (unaddPoller); a poll that returns records keeps rebalances blocked until
// the user calls AllowRebalance, which the user may only do once no poll is in flight
// ("AllowRebalance means all pollers are done").
func (w *verifC31World) poller(nonEmpty bool) {
	// umu models the user's own coordination: deciding "no poll is in flight" and calling
	// AllowRebalance is atomic with respect to other goroutines starting a poll.
	w.umu.Lock()
	w.inflight++
	w.umu.Unlock()
	w.c.waitAndAddPoller()
	if w.inCritical > 0 {
		w.fail("poller admitted during a rebalance critical section")
	}
	w.active++
	verifYield()
	if !nonEmpty {
		w.c.pollWaitMu.Lock() // ghost update atomic with the release
		w.active--
		w.c.pollWaitMu.Unlock()
		w.c.unaddPoller()
	} else {
		w.held++
	}
	w.umu.Lock()
	w.inflight--
	if w.inflight == 0 && w.held > 0 {
		w.c.pollWaitMu.Lock()
		w.active, w.held = 0, 0
		w.c.pollWaitMu.Unlock()
		w.c.allowRebalance()
	}
	w.umu.Unlock()
	w.done++
}

func (w *verifC31World) rebalancer() {
	w.c.waitAndAddRebalance()
	if w.active > 0 {
		w.fail("rebalance entered while an admitted poller has not released")
	}
	w.inCritical++
	verifYield()
	if w.active > 0 {
		w.fail("poller became active inside the rebalance critical section")
	}
	w.inCritical--
	w.c.unaddRebalance()
	w.done++
}

func VerifC31_gateSchedules() {
	delays := 3
	if verifThorough() {
		delays = 5
	}
	verifPreemptions(delays)
	w := &verifC31World{c: verifC31Consumer()}
	np, nr := 2, 1
	if verifChoose(2) == 1 {
		np, nr = 1, 2
	}
	if verifThorough() {
		np, nr = 2, 2
	}
	for i := 0; i < np; i++ {
		go w.poller(verifChoose(2) == 1)
	}
	for i := 0; i < nr; i++ {
		go w.rebalancer()
	}
	verifRunAll()
	verifAssert(w.bad != "poller admitted during a rebalance critical section", "no poller is admitted during a rebalance critical section")
	verifAssert(w.bad != "rebalance entered while an admitted poller has not released", "no rebalance enters while an admitted poller has not released")
	verifAssert(w.bad == "", "rebalance critical sections exclude admitted pollers")
	verifAssert(w.done == np+nr, "no poller or rebalancer stays blocked (no deadlock)")
	verifAssert(w.c.pollWaitState == 0, "gate state returns to zero at quiescence")
	verifReached("c31-gate-schedules")
}
