package kgo

import (
	"context"
	"sync"
)

// C31, the gate against the consumer mutex: the REAL PollRecords (gate first, then c.mu, then
// the buffered sources) racing the REAL LeaveGroupContext (its goroutine waits at the gate for
// polls to finish, then takes c.mu to invalidate the assignment). A poll that returns records
// holds the gate until AllowRebalance; if LeaveGroup's goroutine took c.mu BEFORE waiting at
// the gate, the poll would wait for c.mu forever while the leave waits for the poll. One
// source with one buffered record, one goroutine polling and then calling AllowRebalance, one
// calling LeaveGroupContext; every schedule within the delay budget ends with both returned.
// What lies behind the locks is stubbed (assignPartitions, the group's leave request,
// uncommitted bookkeeping); the lock acquisitions themselves are the real functions'.

//verif:replace (*consumer).assignPartitions
func (c *consumer) verifC31AssignPartitions(assignments map[string]map[int32]Offset, how assignHow, tps *topicsPartitions, why string) {
}

//verif:replace (*groupConsumer).leave
func (g *groupConsumer) verifC31Leave(ctx context.Context) { close(g.left) }

//verif:replace (*groupConsumer).undirtyUncommitted
func (g *groupConsumer) verifC31UndirtyUncommitted() {}

//verif:replace (*groupConsumer).updateUncommitted
func (g *groupConsumer) verifC31UpdateUncommitted(fetches Fetches) {}

//verif:replace (*source).maybeConsume
func (s *source) verifC31MaybeConsume() {}

func VerifC31_pollVsLeaveGroup() {
	delays := 2
	if verifThorough() {
		delays = 3
	}
	verifPreemptions(delays)
	cl := &Client{}
	cl.cfg.logger = new(nopLogger)
	cl.cfg.blockRebalanceOnPoll = true
	cl.ctx = context.Background()
	c := &cl.consumer
	c.cl = cl
	c.pollWaitC = sync.NewCond(&c.pollWaitMu)
	c.sourcesReadyCond = sync.NewCond(&c.sourcesReadyMu)
	c.storePaused(make(pausedTopics))
	g := &groupConsumer{c: c, cl: cl, cfg: &cl.cfg, left: make(chan struct{})}
	c.g = g

	s := &source{cl: cl, sem: make(chan struct{})}
	s.buffered.doneFetch = make(chan bool, 4)
	s.buffered.usedOffsets = make(usedOffsets)
	cur := &cursor{topic: "t", partition: 0, source: s}
	cur.offset = 10
	r := &Record{Topic: "t", Partition: 0, Offset: 10, Value: []byte{1}}
	s.buffered.usedOffsets["t"] = map[int32]*cursorOffsetNext{0: {cursorOffset: cursorOffset{offset: 11, lastConsumedEpoch: 3}, from: cur}}
	s.buffered.fetch.Topics = []FetchTopic{{Topic: "t", Partitions: []FetchPartition{{Partition: 0, Records: []*Record{r}}}}}
	c.sourcesReadyForDraining = []*source{s}

	polled, left := false, false
	nrec := -1
	go func() {
		fs := cl.PollRecords(context.Background(), 10)
		nrec = fs.NumRecords()
		cl.AllowRebalance()
		polled = true
	}()
	go func() {
		cl.LeaveGroupContext(context.Background())
		left = true
	}()
	verifRunAll()
	verifAssert(polled && left, "a poll (followed by AllowRebalance) racing a LeaveGroup never deadlocks: both return")
	verifAssert(verifBlockedCount() == 0, "no goroutine is left blocked")
	verifAssert(nrec == 0 || nrec == 1, "the poll returns the buffered record, or nothing if the leave invalidated first")
	verifReached("c31-poll-vs-leave")
}
