package kgo

import "errors"

// C38: Fetches accessors agree with each other.
//
// The reference is the plain nested-loop reading of a Fetches value, written here from the
// property statement: the record sequence is "fetch by fetch, topic by topic, partition by
// partition, record by record"; partitions are the leaves; a partition carries an error iff
// Err != nil.

type verifC38Part struct {
	topic string
	part  *FetchPartition // address inside the Fetches under test
}

type verifC38Ref struct {
	recs  []*Record
	parts []verifC38Part
	errs  []verifC38Part
}

func verifC38Reference(fs Fetches) (ref verifC38Ref) {
	for fi := 0; fi < len(fs); fi++ {
		for ti := 0; ti < len(fs[fi].Topics); ti++ {
			t := &fs[fi].Topics[ti]
			for pi := 0; pi < len(t.Partitions); pi++ {
				p := &t.Partitions[pi]
				ref.parts = append(ref.parts, verifC38Part{t.Topic, p})
				if p.Err != nil {
					ref.errs = append(ref.errs, verifC38Part{t.Topic, p})
				}
				for ri := 0; ri < len(p.Records); ri++ {
					ref.recs = append(ref.recs, p.Records[ri])
				}
			}
		}
	}
	return ref
}

func verifC38SameRecs(got, want []*Record, label string) {
	verifAssert(len(got) == len(want), label+": same number of records")
	for i := range want {
		verifAssert(got[i] == want[i], label+": same record at every position")
	}
}

// verifC38SamePart says whether the FetchPartition value handed to a callback is the
// partition p of the input (all fields, records by identity).
func verifC38SamePart(got *FetchPartition, p *FetchPartition) bool {
	if got.Err != p.Err || len(got.Records) != len(p.Records) {
		return false
	}
	for i := range p.Records {
		if got.Records[i] != p.Records[i] {
			return false
		}
	}
	return verifAnd(got.Partition == p.Partition,
		verifAnd(got.HighWatermark == p.HighWatermark,
			verifAnd(got.LastStableOffset == p.LastStableOffset, got.LogStartOffset == p.LogStartOffset)))
}

// verifC38CheckAll runs every accessor of fs against the reference.
func verifC38CheckAll(fs Fetches) {
	ref := verifC38Reference(fs)

	// --- record traversals ---
	var viaIter []*Record
	for it := fs.RecordIter(); !it.Done(); {
		viaIter = append(viaIter, it.Next())
	}
	verifC38SameRecs(viaIter, ref.recs, "RecordIter")

	var viaAll []*Record
	for r := range fs.RecordsAll() {
		viaAll = append(viaAll, r)
	}
	verifC38SameRecs(viaAll, ref.recs, "RecordsAll")

	// early break of the native iterator stops after exactly one record
	if len(ref.recs) > 0 {
		n := 0
		for r := range fs.RecordsAll() {
			verifAssert(r == ref.recs[0], "RecordsAll: first record is the first record")
			n++
			break
		}
		verifAssert(n == 1, "RecordsAll: break stops the iteration")
	}

	var viaEach []*Record
	fs.EachRecord(func(r *Record) { viaEach = append(viaEach, r) })
	verifC38SameRecs(viaEach, ref.recs, "EachRecord")

	verifC38SameRecs(fs.Records(), ref.recs, "Records")

	verifAssert(fs.NumRecords() == len(ref.recs), "NumRecords equals the number of records visited")
	verifAssert(fs.Empty() == (len(ref.recs) == 0), "Empty is true exactly when there are zero records")

	// --- EachPartition: every partition exactly once (here: in order), with its topic ---
	k := 0
	fs.EachPartition(func(tp FetchTopicPartition) {
		verifAssert(k < len(ref.parts), "EachPartition visits no more partitions than exist")
		if k < len(ref.parts) {
			verifAssert(tp.Topic == ref.parts[k].topic, "EachPartition reports the partition's topic")
			verifAssert(verifC38SamePart(&tp.FetchPartition, ref.parts[k].part), "EachPartition hands out the partition unchanged")
		}
		k++
	})
	verifAssert(k == len(ref.parts), "EachPartition visits every partition exactly once")

	// --- EachTopic: each distinct topic name once, union of its partitions, ID kept ---
	var seenTopics []string
	used := make([]bool, len(ref.parts))
	fs.EachTopic(func(t FetchTopic) {
		for _, s := range seenTopics {
			verifAssert(s != t.Topic, "EachTopic visits a topic name at most once")
		}
		seenTopics = append(seenTopics, t.Topic)
		// the partitions handed out are exactly this topic's partitions across all
		// fetches, in fetch order
		j := 0
		for i := range ref.parts {
			if ref.parts[i].topic != t.Topic {
				continue
			}
			verifAssert(j < len(t.Partitions), "EachTopic carries every partition of the topic")
			if j < len(t.Partitions) {
				verifAssert(verifC38SamePart(&t.Partitions[j], ref.parts[i].part), "EachTopic hands out the topic's partitions unchanged")
			}
			verifAssert(!used[i], "EachTopic hands out a partition at most once")
			used[i] = true
			j++
		}
		verifAssert(j == len(t.Partitions), "EachTopic carries no foreign partition")
		// topic ID: non-zero if any fetch carried a non-zero one (and then that one)
		var wantID [16]byte
		for fi := range fs {
			for ti := range fs[fi].Topics {
				ft := &fs[fi].Topics[ti]
				if ft.Topic == t.Topic && ft.TopicID != ([16]byte{}) {
					wantID = ft.TopicID
				}
			}
		}
		verifAssert(t.TopicID == wantID, "EachTopic keeps the topic ID")
	})
	for fi := range fs {
		for ti := range fs[fi].Topics {
			found := false
			for _, s := range seenTopics {
				if s == fs[fi].Topics[ti].Topic {
					found = true
				}
			}
			verifAssert(found, "EachTopic visits every topic")
		}
	}
	for i := range used {
		verifAssert(used[i], "EachTopic covers every partition")
	}

	// --- errors ---
	errs := fs.Errors()
	verifAssert(len(errs) == len(ref.errs), "Errors lists exactly the partitions that carry errors")
	for i := range ref.errs {
		if i < len(errs) {
			verifAssert(errs[i].Topic == ref.errs[i].topic, "Errors reports the topic")
			verifAssert(errs[i].Partition == ref.errs[i].part.Partition, "Errors reports the partition")
			verifAssert(errs[i].Err == ref.errs[i].part.Err, "Errors reports the partition's error")
		}
	}
	e := 0
	fs.EachError(func(topic string, p int32, err error) {
		verifAssert(e < len(ref.errs), "EachError visits only partitions that carry errors")
		if e < len(ref.errs) {
			verifAssert(topic == ref.errs[e].topic, "EachError reports the topic")
			verifAssert(p == ref.errs[e].part.Partition, "EachError reports the partition")
			verifAssert(err == ref.errs[e].part.Err, "EachError reports the partition's error")
		}
		e++
	})
	verifAssert(e == len(ref.errs), "EachError visits every partition that carries an error")

	if len(ref.errs) > 0 {
		verifAssert(fs.Err() == ref.errs[0].part.Err, "Err is the first partition error")
	} else {
		verifAssert(fs.Err() == nil, "Err is nil when no partition carries an error")
	}
	if len(fs) > 0 && len(fs[0].Topics) > 0 && len(fs[0].Topics[0].Partitions) > 0 {
		verifAssert(fs.Err0() == fs[0].Topics[0].Partitions[0].Err, "Err0 is the error of partition [0][0][0]")
	} else {
		verifAssert(fs.Err0() == nil, "Err0 is nil when there is no partition [0][0][0]")
	}
	verifAssert(fs.IsClientClosed() == (len(ref.parts) == 1 && len(fs) == 1 && len(fs[0].Topics) == 1 && errors.Is(ref.parts[0].part.Err, ErrClientClosed)),
		"IsClientClosed recognises exactly the single injected closed-partition fetch")
}

// ---- shape builders ----

var verifC38Errs = []error{errors.New("verif: e0"), errors.New("verif: e1"), ErrClientClosed}

type verifC38Builder struct {
	maxFetches, maxTopics, maxParts, maxRecs int
	// per-dimension mode: -1 = choose freely per element (forks), otherwise a pattern id
	recPattern int // 0: no records, 1: maxRecs everywhere, 2: alternate 0/1/2..., -1 free
	errPattern int // 0: none, 1: all, 2: alternate, -1 free
	namesFree  bool
	idsFree    bool
	symParts   bool // partition numbers / watermarks symbolic (else concrete, distinct)
	symIDs     bool // topic IDs symbolic non-zero (else concrete)
	full       bool // no shape choice: the maximal shape
	seq        int
	idA, idB   [16]byte
}

func (b *verifC38Builder) pick(n int) int {
	if b.full {
		return n - 1
	}
	return verifChoose(n)
}

func (b *verifC38Builder) partition() FetchPartition {
	b.seq++
	p := FetchPartition{
		Partition:        int32(b.seq),
		HighWatermark:    int64(1000 + b.seq),
		LastStableOffset: int64(2000 + b.seq),
		LogStartOffset:   int64(3000 + b.seq),
	}
	if b.symParts {
		p = FetchPartition{
			Partition:        verifNondetInt32("partition"),
			HighWatermark:    verifNondetInt64("hwm"),
			LastStableOffset: verifNondetInt64("lso"),
			LogStartOffset:   verifNondetInt64("lstart"),
		}
	}
	var nrec int
	switch b.recPattern {
	case -1:
		nrec = verifChoose(b.maxRecs + 1)
	case 0:
		nrec = 0
	case 1:
		nrec = b.maxRecs
	default:
		nrec = b.seq % (b.maxRecs + 1)
	}
	for i := 0; i < nrec; i++ {
		p.Records = append(p.Records, &Record{Offset: int64(b.seq*10 + i)})
	}
	var haveErr bool
	switch b.errPattern {
	case -1:
		haveErr = verifChoose(2) == 1
	case 0:
	case 1:
		haveErr = true
	default:
		haveErr = b.seq%2 == 0
	}
	if haveErr {
		p.Err = verifC38Errs[b.seq%len(verifC38Errs)]
	}
	return p
}

func (b *verifC38Builder) fetch(fi int) Fetch {
	var f Fetch
	nt := b.pick(b.maxTopics + 1)
	// topic names are distinct within one fetch (one broker response lists a topic once);
	// across fetches they may repeat.
	first := 0
	if b.namesFree {
		first = verifChoose(2)
	} else {
		first = fi % 2
	}
	names := [3]string{"a", "b", "c"}
	for ti := 0; ti < nt; ti++ {
		idx := (first + ti) % 2
		if ti >= 2 {
			idx = 2
		}
		t := FetchTopic{Topic: names[idx]}
		// a topic's ID is either absent (zero) or the topic's one ID
		withID := (fi+ti)%2 == 0
		if b.idsFree {
			withID = verifChoose(2) == 1
		}
		if withID {
			switch idx {
			case 0:
				t.TopicID = b.idA
			case 1:
				t.TopicID = b.idB
			default:
				t.TopicID = [16]byte{15: 0xcc}
			}
		}
		np := b.pick(b.maxParts + 1)
		for pi := 0; pi < np; pi++ {
			t.Partitions = append(t.Partitions, b.partition())
		}
		f.Topics = append(f.Topics, t)
	}
	return f
}

func (b *verifC38Builder) build() Fetches {
	b.idA, b.idB = [16]byte{0: 0xaa}, [16]byte{15: 0xbb}
	if b.symIDs {
		// symbolic non-zero topic IDs
		copy(b.idA[:], verifNondetBytes("idA", 16))
		copy(b.idB[:], verifNondetBytes("idB", 16))
		nzA, nzB := false, false
		for i := 0; i < 16; i++ {
			nzA = verifOr(nzA, b.idA[i] != 0)
			nzB = verifOr(nzB, b.idB[i] != 0)
		}
		verifAssume(verifAnd(nzA, nzB))
	}
	var fs Fetches
	nf := b.pick(b.maxFetches + 1)
	for fi := 0; fi < nf; fi++ {
		fs = append(fs, b.fetch(fi))
	}
	return fs
}

// Every record-count shape (0..2 records in every partition, every nesting shape); error
// placement by pattern. Quick explores three sub-bounds of the thorough one.
func VerifC38_recordShapes() {
	b := &verifC38Builder{maxFetches: 2, maxTopics: 2, maxParts: 2, maxRecs: 2, recPattern: -1}
	if verifThorough() {
		b.errPattern = verifChoose(3)
	} else {
		b.errPattern = 2
		switch verifChoose(3) {
		case 0:
			b.maxRecs = 1
		case 1:
			b.maxFetches = 1
		case 2:
			b.maxTopics = 1
		}
	}
	fs := b.build()
	verifC38CheckAll(fs)
	verifReached("c38-record-shapes")
}

// Every error placement (nil / non-nil per partition, every nesting shape) with symbolic
// partition numbers and watermarks; record counts by pattern.
func VerifC38_errorShapes() {
	b := &verifC38Builder{maxFetches: 2, maxTopics: 2, maxParts: 2, maxRecs: 2, errPattern: -1}
	b.symParts = verifThorough()
	b.recPattern = verifChoose(3)
	fs := b.build()
	verifC38CheckAll(fs)
	verifReached("c38-error-shapes")
}

// Topic repetition across fetches with every combination of topic-ID presence (IDs symbolic),
// all map iteration orders of EachTopic.
func VerifC38_topicShapes() {
	verifMapOrderAll(true)
	b := &verifC38Builder{maxFetches: 2, maxTopics: 2, maxParts: 2, maxRecs: 1, namesFree: true, idsFree: true, recPattern: 2, errPattern: 2}
	if verifThorough() {
		b.symIDs = true
		if verifChoose(2) == 1 {
			b.maxFetches = 3
			b.maxParts = 1
			b.symIDs = false
		}
	}
	fs := b.build()
	verifC38CheckAll(fs)
	verifReached("c38-topic-shapes")
}

// One fixed non-trivial shape with every scalar symbolic: the accessors pass data through.
func VerifC38_symbolicData() {
	b := &verifC38Builder{maxFetches: 2, maxTopics: 2, maxParts: 2, maxRecs: 2, recPattern: 2, errPattern: 2, symParts: true, symIDs: true}
	b.full = true
	fs := b.build()
	verifC38CheckAll(fs)
	verifReached("c38-symbolic-data")
}
