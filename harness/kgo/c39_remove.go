package kgo

import "regexp"

// C39 kernel, removal side: RemoveConsumePartitions and topic purges against later metadata
// updates. The fetch machinery behind assignPartitions is replaced by a recorder (which, for a
// purge, drops the topics from the consumer's topic set as the real one does); everything that
// decides WHICH partitions are selected — RemoveConsumePartitions, consumer.purgeTopics,
// mtmps.remove, filterMetadataAllTopics, findNewAssignments — is the real code.

var verifC39Assigns []struct {
	how assignHow
	m   map[string]map[int32]Offset
}

//verif:replace (*consumer).assignPartitions
func (c *consumer) verifC39AssignPartitions(assignments map[string]map[int32]Offset, how assignHow, tps *topicsPartitions, why string) {
	verifC39Assigns = append(verifC39Assigns, struct {
		how assignHow
		m   map[string]map[int32]Offset
	}{how, assignments})
	if how == assignPurgeMatching {
		var topics []string
		for t := range assignments {
			topics = append(topics, t)
		}
		tps.purgeTopics(topics)
	}
}

// A non-regex direct consumer consumes topic "a" whole (2..3 partitions) and optionally the
// pinned partition b/1. The application removes one partition with RemoveConsumePartitions;
// metadata updates follow, with or without partition growth. The removed partition is never
// handed out again and nothing already in use is handed out twice.
func VerifC39_removeThenRefresh() {
	verifC39Assigns = nil
	cl := &Client{}
	cl.cfg.logger = new(nopLogger)
	cl.cfg.startOffset = NewOffset().AtStart()
	c := &cl.consumer
	c.cl = cl
	d := &directConsumer{cfg: &cl.cfg, reSeen: map[string]bool{}, using: make(mtmps), m: make(mtmps), ps: map[string]map[int32]Offset{}}
	c.d = d
	d.m.addt("a")
	pinB := verifChoose(2) == 1
	if pinB {
		d.m.add("b", 1)
		d.ps["b"] = map[int32]Offset{1: NewOffset().At(5)}
	}
	na := 2 + verifChoose(2)
	d.tps = verifC39Topics([]string{"a"}, []int{na}, []bool{false})
	first := verifC39Flatten(d.findNewAssignments())
	verifAssert(len(first) == na+map[bool]int{false: 0, true: 1}[pinB], "the first update hands out every selected partition")

	var rm verifC39TP
	if pinB && verifChoose(2) == 1 {
		rm = verifC39TP{"b", 1}
	} else {
		rm = verifC39TP{"a", int32(verifChoose(na))}
	}
	cl.RemoveConsumePartitions(map[string][]int32{rm.t: {rm.p}})
	invalidated := false
	for _, a := range verifC39Assigns {
		if a.how == assignInvalidateMatching {
			_, ok := a.m[rm.t][rm.p]
			invalidated = invalidated || ok
		}
	}
	verifAssert(invalidated, "RemoveConsumePartitions invalidates the removed partition's fetching")
	_, still := d.using[rm.t][rm.p]
	verifAssert(!still, "the removed partition leaves the in-use set")

	grow := verifChoose(2)
	for round := 0; round < 2; round++ {
		d.tps = verifC39Topics([]string{"a"}, []int{na + grow*round}, []bool{false})
		got := verifC39Flatten(d.findNewAssignments())
		verifAssert(!got[rm], "after RemoveConsumePartitions a metadata update never hands the removed partition out again")
		for k := range got {
			verifAssert(!first[k] || k == rm, "a metadata update never hands out a partition that is already in use")
		}
	}
	verifReached("c39-remove")
}

// A regex direct consumer consumes the matching topic "a" (2 partitions). The topic is purged
// (PurgeTopicsFromConsuming, or the automatic purge of a deleted topic); later a topic of the
// same name exists again. It matches the regex, so every partition of it is handed out again.
func VerifC39_regexPurgeThenRecreate() {
	verifC39Assigns = nil
	cl := &Client{}
	cl.cfg.logger = new(nopLogger)
	cl.cfg.regex = true
	cl.cfg.startOffset = NewOffset().AtStart()
	cl.cfg.topics = map[string]*regexp.Regexp{"^a": regexp.MustCompile("^a")}
	c := &cl.consumer
	c.cl = cl
	d := &directConsumer{cfg: &cl.cfg, reSeen: map[string]bool{}, using: make(mtmps), m: make(mtmps), ps: map[string]map[int32]Offset{}}
	c.d = d
	other := verifChoose(2) == 1 // a second matching topic that is NOT purged
	names, np, internal := []string{"a"}, []int{2}, []bool{false}
	if other {
		names, np, internal = append(names, "ab"), append(np, 1), append(internal, false)
	}
	c.filterMetadataAllTopics(append([]string(nil), names...))
	d.tps = verifC39Topics(names, np, internal)
	first := verifC39Flatten(d.findNewAssignments())
	verifAssert(first[verifC39TP{"a", 0}] && first[verifC39TP{"a", 1}], "the matching topic's partitions are handed out")

	c.purgeTopics([]string{"a"})
	_, inTps := d.tps.load()["a"]
	verifAssert(!inTps, "a purged topic leaves the consumer's topic set")
	got := verifC39Flatten(d.findNewAssignments())
	verifAssert(len(got) == 0, "nothing is handed out for a purged topic while it does not exist")

	// the name exists again (metadata for all topics lists it): partitions 0..n2-1
	n2 := 1 + verifChoose(3)
	c.filterMetadataAllTopics(append([]string(nil), names...))
	np2 := append([]int{n2}, np[1:]...)
	d.tps = verifC39Topics(names, np2, internal)
	again := verifC39Flatten(d.findNewAssignments())
	ok := len(again) == n2
	for p := 0; p < n2; p++ {
		ok = ok && again[verifC39TP{"a", int32(p)}]
	}
	verifAssert(ok, "a matching topic created again after a purge has every one of its partitions handed out (and nothing else is)")
	verifReached("c39-regex-purge")
}
