package kgo

import "regexp"

// C39 kernel: which partitions a direct consumer newly assigns after a metadata update.

type verifC39TP struct {
	t string
	p int32
}

func verifC39Topics(names []string, nparts []int, internal []bool) *topicsPartitions {
	tps := newTopicsPartitions()
	data := make(topicsPartitionsData)
	for i, n := range names {
		tp := newTopicPartitions()
		d := &topicPartitionsData{topic: n, isInternal: internal[i]}
		for p := 0; p < nparts[i]; p++ {
			d.partitions = append(d.partitions, &topicPartition{})
		}
		tp.v.Store(d)
		data[n] = tp
	}
	tps.storeData(data)
	return tps
}

func verifC39Flatten(m map[string]map[int32]Offset) map[verifC39TP]bool {
	out := map[verifC39TP]bool{}
	for t, ps := range m {
		for p := range ps {
			out[verifC39TP{t, p}] = true
		}
	}
	return out
}

// Topic/partition configuration (non-regex): whole topics, explicit partitions, growth of
// partitions and topics between two metadata updates, prior "using" state.
func VerifC39_findNewAssignmentsDirect() {
	cl := &Client{}
	cl.cfg.logger = new(nopLogger)
	cl.cfg.startOffset = NewOffset().AtStart()
	d := &directConsumer{cfg: &cl.cfg, reSeen: map[string]bool{}, using: make(mtmps), m: make(mtmps), ps: map[string]map[int32]Offset{}}
	// selection: topic "a" whole (or not), topic "b" partition 1 explicitly (or not)
	selA := verifChoose(2) == 1
	selB1 := verifChoose(2) == 1
	selInternal := verifChoose(2) == 1 // internal topic named explicitly
	if selA {
		d.m.addt("a")
	}
	if selB1 {
		d.m.add("b", 1)
		d.ps["b"] = map[int32]Offset{1: NewOffset().At(5)}
	}
	if selInternal {
		d.m.addt("__x")
	}
	na1 := verifChoose(3)     // partitions of a in the first metadata: 0..2
	na2 := na1 + verifChoose(2) // grows by 0..1
	hasC := verifChoose(2) == 1 // unselected topic c exists
	names := []string{"a", "__x"}
	internal := []bool{false, true}
	n1, n2 := []int{na1, 1}, []int{na2, 1}
	if hasC {
		names, internal = append(names, "c"), append(internal, false)
		n1, n2 = append(n1, 2), append(n2, 2)
	}
	d.tps = verifC39Topics(names, n1, internal)
	got1 := verifC39Flatten(d.findNewAssignments())
	want1 := map[verifC39TP]bool{}
	if selA {
		for p := 0; p < na1; p++ {
			want1[verifC39TP{"a", int32(p)}] = true
		}
	}
	if selB1 {
		want1[verifC39TP{"b", 1}] = true
	}
	if selInternal {
		want1[verifC39TP{"__x", 0}] = true
	}
	ok := len(got1) == len(want1)
	for k := range want1 {
		ok = ok && got1[k]
	}
	verifAssert(ok, "first update assigns exactly the selected partitions (whole topics from metadata, explicit partitions as given, internal topics only when named)")
	// second update after growth: only what is new
	d.tps = verifC39Topics(names, n2, internal)
	got2 := verifC39Flatten(d.findNewAssignments())
	want2 := map[verifC39TP]bool{}
	if selA {
		for p := na1; p < na2; p++ {
			want2[verifC39TP{"a", int32(p)}] = true
		}
	}
	ok2 := len(got2) == len(want2)
	for k := range want2 {
		ok2 = ok2 && got2[k] && !got1[k]
	}
	verifAssert(ok2, "a later update assigns exactly the partitions added since, never one already in use")
	third := d.findNewAssignments()
	verifAssert(third == nil, "an update without changes assigns nothing")
	// using mirrors everything handed out
	cnt := 0
	for _, ps := range d.using {
		cnt += len(ps)
	}
	verifAssert(cnt == len(want1)+len(want2), "the in-use set is exactly what was handed out")
	verifReached("c39-direct")
}

// Regex configuration with exclusions; internal topics are never consumed via regex; verdicts
// are cached per topic.
func VerifC39_regexSelection() {
	cl := &Client{}
	cl.cfg.logger = new(nopLogger)
	cl.cfg.regex = true
	cl.cfg.startOffset = NewOffset().AtStart()
	c := &cl.consumer
	c.cl = cl
	d := &directConsumer{cfg: &cl.cfg, reSeen: map[string]bool{}, using: make(mtmps), m: make(mtmps), ps: map[string]map[int32]Offset{}}
	c.d = d
	inc := [][]string{{"^a"}, {"^a", "^c$"}, {"b"}}[verifChoose(3)]
	exc := [][]string{nil, {"^ab$"}, {"c"}}[verifChoose(3)]
	cl.cfg.topics = map[string]*regexp.Regexp{}
	for _, r := range inc {
		cl.cfg.topics[r] = regexp.MustCompile(r)
	}
	cl.cfg.excludeTopics = map[string]*regexp.Regexp{}
	for _, r := range exc {
		cl.cfg.excludeTopics[r] = regexp.MustCompile(r)
	}
	// hand-written match table (reference): does pattern match topic?
	match := func(pat, topic string) bool {
		switch pat {
		case "^a":
			return len(topic) > 0 && topic[0] == 'a'
		case "^c$":
			return topic == "c"
		case "b":
			for i := 0; i < len(topic); i++ {
				if topic[i] == 'b' {
					return true
				}
			}
			return false
		case "^ab$":
			return topic == "ab"
		case "c":
			for i := 0; i < len(topic); i++ {
				if topic[i] == 'c' {
					return true
				}
			}
			return false
		}
		return false
	}
	all := []string{"a", "ab", "b", "c", "abc"}
	var topics []string
	for _, t := range all {
		if verifChoose(2) == 1 {
			topics = append(topics, t)
		}
	}
	orig := append([]string(nil), topics...)
	keep := c.filterMetadataAllTopics(topics)
	kept := map[string]bool{}
	for _, t := range keep {
		kept[t] = true
	}
	ok := true
	for _, t := range orig {
		want := false
		for _, r := range inc {
			want = want || match(r, t)
		}
		for _, r := range exc {
			if match(r, t) {
				want = false
			}
		}
		ok = ok && kept[t] == want && d.reSeen[t] == want
	}
	verifAssert(ok && len(kept) <= len(orig), "regex selection keeps exactly the topics matching an include pattern and no exclude pattern, and caches each verdict")
	// metadata now has every listed topic with 1 partition, plus an internal topic that matched
	names := append([]string(nil), orig...)
	np := make([]int, len(names))
	internal := make([]bool, len(names))
	for i := range names {
		np[i] = 1
	}
	names, np, internal = append(names, "a__internal"), append(np, 1), append(internal, true)
	d.reSeen["a__internal"] = true // even if a pattern matched an internal topic
	d.tps = verifC39Topics(names, np, internal)
	got := verifC39Flatten(d.findNewAssignments())
	ok3 := true
	for _, t := range orig {
		ok3 = ok3 && got[verifC39TP{t, 0}] == kept[t]
	}
	verifAssert(ok3, "exactly the partitions of selected topics are assigned")
	verifAssert(!got[verifC39TP{"a__internal", 0}], "internal topics are not consumed through a regex")
	verifReached("c39-regex")
}
