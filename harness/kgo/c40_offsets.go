package kgo

import (
	"context"
	"errors"
	"sync"

	"github.com/twmb/franz-go/pkg/kerr"

	"github.com/twmb/franz-go/pkg/kmsg"
)

// C40 — start offsets resolve as documented.
//
// Kernel: an Offset built with the real builders is handed to the real assignment / list-offsets
// code; the two ListOffsets requests the client builds are answered by a model broker (stub of
// (*broker).waitResp) from a symbolic log {start S, high watermark, last stable offset, result of
// the by-timestamp lookup}; the resolved offset must equal the documented rule
//
//	clamp(base + relative, S, E)   base = x (At) | S (AtStart) | E (AtEnd)
//	AfterMilli(t): first offset with timestamp >= t, else E
//
// with E = last stable offset under read_committed, else the high watermark.

const verifC40Max = int64(1) << 61 // offsets, |relative| below 2^61: no int64 overflow in x+r, S+r, E+r

type verifC40Log struct {
	start, hwm, lso int64
	tsOffset        int64 // answer to a by-timestamp lookup: -1 = no record at or after t
	leaderEpoch     int32
	errCode         int16
}

var verifC40 struct {
	logs   map[int32]*verifC40Log // partition -> log (topic "t")
	reqs   []*kmsg.ListOffsetsRequest
	loads  []listOrEpochLoads
	rev2nd bool // answer the second request with partitions in reversed order
	errOn  int  // inject NOT_LEADER_FOR_PARTITION into the answers of: bit 0 the first request, bit 1 the second
}

//verif:replace (*broker).waitResp
func (b *broker) verifC40WaitResp(ctx context.Context, req kmsg.Request) (kmsg.Response, error) {
	lr, ok := req.(*kmsg.ListOffsetsRequest)
	if !ok {
		return nil, errUnknownBroker
	}
	verifC40.reqs = append(verifC40.reqs, lr)
	second := len(verifC40.reqs) == 2
	resp := kmsg.NewPtrListOffsetsResponse()
	for _, t := range lr.Topics {
		rt := kmsg.NewListOffsetsResponseTopic()
		rt.Topic = t.Topic
		for _, p := range t.Partitions {
			rp := kmsg.NewListOffsetsResponseTopicPartition()
			rp.Partition = p.Partition
			l := verifC40.logs[p.Partition]
			if l == nil {
				rp.ErrorCode = 3
			} else {
				end := l.hwm
				if lr.IsolationLevel == 1 {
					end = l.lso
				}
				rp.ErrorCode = l.errCode
				rp.LeaderEpoch = l.leaderEpoch
				rp.Timestamp = -1
				switch {
				case p.Timestamp == -2:
					rp.Offset = l.start
				case p.Timestamp == -1:
					rp.Offset = end
				case p.Timestamp >= 0:
					rp.Offset = l.tsOffset
				default:
					rp.ErrorCode = 42 // INVALID_REQUEST: the builders can never produce this
				}
			}
			if (!second && verifC40.errOn&1 != 0) || (second && verifC40.errOn&2 != 0) {
				rp.ErrorCode = 6
			}
			rt.Partitions = append(rt.Partitions, rp)
		}
		if second && verifC40.rev2nd {
			for i, j := 0, len(rt.Partitions)-1; i < j; i, j = i+1, j-1 {
				rt.Partitions[i], rt.Partitions[j] = rt.Partitions[j], rt.Partitions[i]
			}
		}
		resp.Topics = append(resp.Topics, rt)
	}
	return resp, nil
}

//verif:replace (listOrEpochLoads).loadWithSession
func (l listOrEpochLoads) verifC40LoadWithSession(s *consumerSession, why string) {
	verifC40.loads = append(verifC40.loads, l)
}

//verif:replace (*source).maybeConsume
func (s *source) verifC40MaybeConsume() {}

// verifC40SymLog returns a log with 0 <= start <= lso <= hwm < 2^61.
func verifC40SymLog() *verifC40Log {
	l := &verifC40Log{start: verifNondetInt64("log.start"), hwm: verifNondetInt64("log.hwm"), lso: verifNondetInt64("log.lso"), leaderEpoch: verifNondetInt32("log.leaderEpoch")}
	verifAssume(verifAnd(verifAnd(l.start >= 0, l.start <= l.lso), verifAnd(l.lso <= l.hwm, l.hwm < verifC40Max)))
	return l
}

func verifC40Clamp(x, lo, hi int64) int64 {
	return verifIteInt64(x < lo, lo, verifIteInt64(x > hi, hi, x))
}

// verifC40Offset builds an Offset through the public builders only. shape: 0 At(x).Relative(r),
// 1 AtStart().Relative(r), 2 AtEnd().Relative(r), 3 AfterMilli(t), 4 At(x) (no Relative call).
// The receiver is NewOffset() or NoResetOffset(), optionally WithEpoch(e) applied before or after
// (an epoch on a non-exact offset is documented to be meaningless).
func verifC40Offset(shape int) (o Offset, x, r int64) {
	if verifNondetBool("offset.noReset") {
		return verifC40OffsetFrom(NoResetOffset(), shape)
	}
	return verifC40OffsetFrom(NewOffset(), shape)
}

func verifC40OffsetFrom(o Offset, shape int) (_ Offset, x, r int64) {
	x, r = verifNondetInt64("offset.x"), verifNondetInt64("offset.relative")
	verifAssume(verifAnd(verifAnd(x > -verifC40Max, x < verifC40Max), verifAnd(r > -verifC40Max, r < verifC40Max)))
	switch shape {
	case 0:
		o = o.At(x).Relative(r)
	case 1:
		o = o.AtStart().Relative(r)
	case 2:
		o = o.AtEnd().Relative(r)
	case 3:
		verifAssume(x >= 0) // a millisecond timestamp
		o = o.Relative(r).AfterMilli(x)
	case 4:
		o = o.At(x)
		r = 0
	}
	return o, x, r
}

// verifC40Want is the documented rule. x is the argument of At / AfterMilli.
func verifC40Want(shape int, x, r int64, l *verifC40Log, readCommitted bool) int64 {
	end := l.hwm
	if readCommitted {
		end = l.lso
	}
	switch shape {
	case 0, 4:
		// At: -1 means end, anything <= -2 means start
		base := verifIteInt64(x >= 0, x, verifIteInt64(x == -1, end, l.start))
		return verifC40Clamp(base+r, l.start, end)
	case 1:
		return verifC40Clamp(l.start+r, l.start, end)
	case 2:
		return verifC40Clamp(end+r, l.start, end)
	default:
		return verifIteInt64(l.tsOffset == -1, end, l.tsOffset)
	}
}

func verifC40Client(readCommitted bool) (*Client, *broker, *topicsPartitions, []*cursor) {
	cl := &Client{}
	cl.cfg.logger = new(nopLogger)
	cl.ctx = context.Background()
	if readCommitted {
		cl.cfg.isolationLevel = 1
	}
	b := &broker{cl: cl}
	b.meta.NodeID = 1
	cl.brokers = []*broker{b}
	cl.seeds.Store([]*broker{b})
	src := &source{cl: cl, nodeID: 1}
	tps := newTopicsPartitions()
	tp := newTopicPartitions()
	d := &topicPartitionsData{topic: "t"}
	var cursors []*cursor
	for p := int32(0); p < 2; p++ {
		c := &cursor{topic: "t", partition: p, source: src}
		c.cursorOffset = cursorOffset{offset: -1, lastConsumedEpoch: -1}
		part := &topicPartition{cursor: c}
		part.leader = 1
		part.leaderEpoch = 7
		d.partitions = append(d.partitions, part)
		cursors = append(cursors, c)
	}
	tp.v.Store(d)
	tps.storeData(topicsPartitionsData{"t": tp})
	return cl, b, tps, cursors
}

// Builders produce the documented field state (what every later stage keys on).
func VerifC40_builders() {
	x, r, e := verifNondetInt64("x"), verifNondetInt64("r"), verifNondetInt32("e")
	base := NewOffset()
	verifAssert(base.at == -1 && base.epoch == -1 && base.relative == 0 && !base.noReset && !base.afterMilli, "NewOffset is the end, no epoch")
	nr := NoResetOffset()
	verifAssert(nr.noReset && nr.at == -1 && nr.epoch == -1, "NoResetOffset opts out of resetting")
	a := base.At(x)
	verifAssert(a.at == verifIteInt64(x < -2, -2, x), "At(x) is exact, values below -2 mean start")
	verifAssert(!a.afterMilli && a.relative == 0 && a.epoch == -1, "At keeps relative/epoch and clears the millisecond mode")
	verifAssert(base.AtStart().at == -2 && base.AtEnd().at == -1, "AtStart/AtEnd are -2/-1")
	rel := base.AtStart().Relative(r)
	verifAssert(rel.relative == r && rel.at == -2, "Relative keeps the base and records n")
	am := base.At(5).Relative(r).WithEpoch(3).AfterMilli(x)
	verifAssert(am.afterMilli && am.at == x && am.relative == 0 && am.epoch == -1, "AfterMilli clears exact/relative/epoch state")
	verifAssert(!am.At(x).afterMilli && !am.Relative(r).afterMilli && !am.AtStart().afterMilli && !am.AtEnd().afterMilli && !am.WithEpoch(e).afterMilli && !am.AtCommitted().afterMilli, "every other builder clears the millisecond mode")
	we := base.WithEpoch(e)
	verifAssert(we.epoch == verifIteInt32(e < 0, -1, e), "WithEpoch stores non-negative epochs, -1 otherwise")
	ac := base.AtCommitted()
	verifAssert(ac.noReset && ac.at == atCommitted && ac.at < -2, "AtCommitted is a distinct sentinel and implies no reset")
	eo := a.WithEpoch(e).EpochOffset()
	verifAssert(eo.Offset == a.at && eo.Epoch == verifIteInt32(e < 0, -1, e), "EpochOffset exposes at/epoch")
	verifReached("c40-builders")
}

// One partition, every builder shape, list-offsets resolution as used for unknown partitions and
// for ConsumeResetOffset after OffsetOutOfRange (the Offset reaches the load unmodified).
func VerifC40_listResolve() {
	shape := verifChoose(5)
	rc := verifChoose(2) == 1
	o, x, r := verifC40Offset(shape)
	if verifNondetBool("offset.withEpoch") && shape != 3 {
		o = o.WithEpoch(verifNondetInt32("offset.epoch"))
	}
	verifC40Resolve(shape, rc, o, x, r)
}

func verifC40Resolve(shape int, rc bool, o Offset, x, r int64) {
	cl, b, tps, cursors := verifC40Client(rc)
	l := verifC40SymLog()
	end := l.hwm
	if rc {
		end = l.lso
	}
	l.tsOffset = verifNondetInt64("log.tsOffset")
	verifAssume(verifOr(l.tsOffset == -1, verifAnd(l.tsOffset >= l.start, l.tsOffset < end)))
	verifC40.logs = map[int32]*verifC40Log{0: l}
	verifC40.reqs = nil
	verifC40.rev2nd = false
	verifC40.errOn = 0

	o.currentEpoch = 7
	load := offsetLoadMap{"t": {0: offsetLoad{replica: -1, Offset: o}}}
	results := make(chan loadedOffsets, 1)
	cl.listOffsetsForBrokerLoad(context.Background(), b, load, tps, results)
	verifRunAll()
	res := <-results

	verifAssert(len(res.loaded) == 1 && res.loadType == loadTypeList && res.broker == 1, "one result for the one partition")
	if len(res.loaded) != 1 {
		return
	}
	got := res.loaded[0]
	verifAssert(got.err == nil, "a well-formed broker answer resolves without error")
	if got.err != nil {
		return
	}
	want := verifC40Want(shape, x, r, l, rc)
	verifAssert(got.offset == want, "the resolved start offset is the documented position (clamped to [log start, end]; end = LSO under read_committed)")
	verifAssert(verifAnd(got.offset >= l.start, got.offset <= end), "the resolved start offset lies within [log start, end]")
	verifAssert(got.cursor == cursors[0] && got.leaderEpoch == l.leaderEpoch && got.topic == "t" && got.partition == 0, "the result names the partition's cursor and the broker's leader epoch")
	iso := int8(0)
	if rc {
		iso = 1
	}
	okReq := true
	for _, rq := range verifC40.reqs {
		okReq = okReq && rq.IsolationLevel == iso && rq.ReplicaID == -1 && len(rq.Topics) == 1 && len(rq.Topics[0].Partitions) == 1 && rq.Topics[0].Partitions[0].CurrentLeaderEpoch == 7
	}
	verifAssert(okReq, "every ListOffsets request carries the configured isolation level and the current leader epoch")
	verifReached("c40-list")
}

// Two partitions with different shapes in one load, the second response delivered in reversed
// partition order: each partition resolves by its own rule (response matching by topic/partition).
func VerifC40_listResolveTwoPartitions() {
	rc := verifChoose(2) == 1
	cl, b, tps, cursors := verifC40Client(rc)
	// partition 0: At(x).Relative(r) or AfterMilli(t); partition 1: AtEnd().Relative(r)
	// (thorough: AtStart/AtEnd)
	sh := [2]int{3 * verifChoose(2), 2}
	if verifThorough() {
		sh[1] = 1 + verifChoose(2)
	}
	var os [2]Offset
	var xs, rs [2]int64
	var ls [2]*verifC40Log
	verifC40.logs = map[int32]*verifC40Log{}
	for i := 0; i < 2; i++ {
		os[i], xs[i], rs[i] = verifC40OffsetFrom(NewOffset(), sh[i])
		l := verifC40SymLog()
		end := l.hwm
		if rc {
			end = l.lso
		}
		l.tsOffset = verifNondetInt64("log.tsOffset")
		verifAssume(verifOr(l.tsOffset == -1, verifAnd(l.tsOffset >= l.start, l.tsOffset < end)))
		ls[i] = l
		verifC40.logs[int32(i)] = l
	}
	verifC40.reqs = nil
	verifC40.rev2nd = verifChoose(2) == 1
	load := offsetLoadMap{"t": {0: offsetLoad{replica: -1, Offset: os[0]}, 1: offsetLoad{replica: -1, Offset: os[1]}}}
	results := make(chan loadedOffsets, 1)
	cl.listOffsetsForBrokerLoad(context.Background(), b, load, tps, results)
	verifRunAll()
	res := <-results
	verifAssert(len(res.loaded) == 2, "one result per partition")
	seen := [2]bool{}
	for _, got := range res.loaded {
		i := int(got.partition)
		if i < 0 || i > 1 || seen[i] {
			verifFail("results name each requested partition once")
			continue
		}
		seen[i] = true
		verifAssert(got.err == nil && got.cursor == cursors[i], "each partition resolves without error onto its own cursor")
		if got.err == nil {
			verifAssert(got.offset == verifC40Want(sh[i], xs[i], rs[i], ls[i], rc), "each partition resolves by its own Offset and its own log")
		}
	}
	verifReached("c40-list2")
}

// A broker answer that violates the protocol (negative start/end, end below start, arbitrary
// by-timestamp answer) never yields a negative start offset: it is an error or non-negative.
func VerifC40_listHostile() {
	shape := verifChoose(4)
	rc := verifChoose(2) == 1
	o, _, _ := verifC40Offset(shape)
	cl, b, tps, _ := verifC40Client(rc)
	l := &verifC40Log{start: verifNondetInt64("log.start"), hwm: verifNondetInt64("log.hwm"), lso: verifNondetInt64("log.lso"), tsOffset: verifNondetInt64("log.tsOffset")}
	verifAssume(verifAnd(verifAnd(l.start > -verifC40Max, l.start < verifC40Max), verifAnd(verifAnd(l.hwm > -verifC40Max, l.hwm < verifC40Max), verifAnd(l.lso > -verifC40Max, l.lso < verifC40Max))))
	verifC40.logs = map[int32]*verifC40Log{0: l}
	verifC40.reqs = nil
	verifC40.rev2nd = false
	load := offsetLoadMap{"t": {0: offsetLoad{replica: -1, Offset: o}}}
	results := make(chan loadedOffsets, 1)
	cl.listOffsetsForBrokerLoad(context.Background(), b, load, tps, results)
	verifRunAll()
	res := <-results
	verifAssert(len(res.loaded) == 1, "one result for the one partition")
	if len(res.loaded) == 1 {
		got := res.loaded[0]
		verifAssert(got.err != nil || got.offset >= 0, "a protocol-violating answer never resolves to a negative offset")
		if got.err != nil {
			verifAssert(got.err == errNegativeListedOffset && got.cursor == nil, "negative listings are surfaced as errNegativeListedOffset")
		}
	}
	verifReached("c40-hostile")
}

// Assignment routing (real assignPartitions, additive mode) followed by list resolution and
// handleListOrEpochResults: where does the partition's cursor end up?
//   - exact offset (At(x).Relative(r), x >= 0) on a known partition: cursor set directly to
//     max(x+r, 0); this equals the documented clamp whenever x+r lies within [log start, end]
//     (out-of-range positions are resolved later by the fetch path's OffsetOutOfRange reset,
//     outside this kernel);
//   - exact offset with an epoch: epoch validation load (outside), nothing listed;
//   - start/end/relative/after-milli: list load carrying the Offset unchanged, resolved per rule,
//     cursor set to the rule's position and made usable;
//   - AtCommitted without a commit: errNoCommittedOffset injected, cursor untouched;
//   - a committed offset c (what fetchOffsets assigns: exact c): cursor at c.
func VerifC40_assignAndResolve() {
	shape := verifChoose(6) // 5 = AtCommitted with no commit
	rc := verifChoose(2) == 1
	var o Offset
	var x, r int64
	if shape == 5 {
		o = NewOffset().AtCommitted()
	} else {
		o, x, r = verifC40Offset(shape)
	}
	withEpoch := false
	if shape != 3 && shape != 5 && verifChoose(2) == 1 {
		e := verifNondetInt32("offset.epoch")
		verifAssume(e >= 0)
		o = o.WithEpoch(e)
		withEpoch = true
	}
	cl, b, tps, cursors := verifC40Client(rc)
	c := &cl.consumer
	c.cl = cl
	c.sourcesReadyCond = sync.NewCond(&c.sourcesReadyMu)
	session := &consumerSession{c: c, tps: tps}
	session.workersCond = sync.NewCond(&session.workersMu)
	c.session.Store(session)

	l := verifC40SymLog()
	end := l.hwm
	if rc {
		end = l.lso
	}
	l.tsOffset = verifNondetInt64("log.tsOffset")
	verifAssume(verifOr(l.tsOffset == -1, verifAnd(l.tsOffset >= l.start, l.tsOffset < end)))
	verifC40.logs = map[int32]*verifC40Log{0: l}
	verifC40.reqs = nil
	verifC40.loads = nil
	verifC40.rev2nd = false

	c.mu.Lock()
	c.assignPartitions(map[string]map[int32]Offset{"t": {0: o}}, assignWithoutInvalidating, tps, "")
	c.mu.Unlock()

	verifAssert(len(verifC40.loads) == 1, "assignment hands its loads to the session exactly once")
	if len(verifC40.loads) != 1 {
		return
	}
	loads := verifC40.loads[0]
	cur := cursors[0]
	exact := (shape == 0 || shape == 4) && x >= 0
	switch {
	case shape == 5:
		verifAssert(loads.isEmpty() && !cur.usable(), "AtCommitted without a commit neither lists nor consumes")
		verifAssert(len(c.fakeReadyForDraining) == 1 && c.fakeReadyForDraining[0].Topics[0].Partitions[0].Err == errNoCommittedOffset, "AtCommitted without a commit surfaces errNoCommittedOffset")
		verifReached("c40-assign-uncommitted")
		return
	case exact && withEpoch:
		verifAssert(len(loads.List) == 0 && len(loads.Epoch) == 1 && !cur.usable(), "an exact offset with an epoch is validated before use")
		eo := loads.Epoch["t"][0]
		verifAssert(eo.at == verifIteInt64(x+r < 0, 0, x+r) && eo.relative == 0, "the validated position is x+r floored at 0")
		verifReached("c40-assign-epoch")
		return
	case exact:
		verifAssert(loads.isEmpty() && cur.usable(), "an exact offset on a known partition is used directly")
		pos := verifIteInt64(x+r < 0, 0, x+r)
		verifAssert(cur.offset == pos && cur.lastConsumedEpoch == -1, "the cursor starts at x+r floored at 0")
		if verifAnd(pos >= l.start, pos <= end) {
			verifAssert(cur.offset == verifC40Want(shape, x, r, l, rc), "within the log the direct position is the documented position")
		}
		verifReached("c40-assign-direct")
		return
	}
	verifAssert(len(loads.Epoch) == 0 && len(loads.List) == 1 && len(loads.List["t"]) == 1 && !cur.usable(), "start/end/relative/after-milli offsets are listed before use")
	if len(loads.List["t"]) != 1 {
		return
	}
	results := make(chan loadedOffsets, 1)
	byBroker := session.mapLoadsToBrokers(loads)
	verifAssert(len(byBroker) == 1 && len(byBroker[b].List) == 1 && len(byBroker[b].Epoch) == 0, "the load is routed to the partition leader")
	cl.listOffsetsForBrokerLoad(context.Background(), b, byBroker[b].List, tps, results)
	verifRunAll()
	res := <-results
	reloads := session.handleListOrEpochResults(res)
	verifAssert(reloads.isEmpty(), "a clean answer needs no reload")
	verifAssert(cur.usable(), "the cursor becomes usable once resolved")
	verifAssert(cur.offset == verifC40Want(shape, x, r, l, rc), "the cursor starts at the documented position")
	verifAssert(cur.lastConsumedEpoch == l.leaderEpoch, "the cursor adopts the listed leader epoch")
	_, used := c.usingCursors[cur]
	verifAssert(used, "the resolved cursor is tracked as in use")
	verifReached("c40-assign-list")
}

// A per-partition error in EITHER of the two ListOffsets answers (start listing, end listing)
// makes the partition's load fail with that error; it is never turned into a resolved offset.
// Offsets that consult both listings (relative to start/end, exact with bounds), error injected
// into the first answer, the second, or both.
func VerifC40_listResolvePartitionError() {
	shape := verifChoose(3) // At(x).Relative(r), AtStart().Relative(r), AtEnd().Relative(r)
	rc := verifChoose(2) == 1
	o, _, _ := verifC40Offset(shape)
	cl, b, tps, _ := verifC40Client(rc)
	l := verifC40SymLog()
	l.tsOffset = -1
	verifC40.logs = map[int32]*verifC40Log{0: l}
	verifC40.reqs = nil
	verifC40.rev2nd = false
	verifC40.errOn = 1 + verifChoose(3)
	defer func() { verifC40.errOn = 0 }()

	o.currentEpoch = 7
	load := offsetLoadMap{"t": {0: offsetLoad{replica: -1, Offset: o}}}
	results := make(chan loadedOffsets, 1)
	cl.listOffsetsForBrokerLoad(context.Background(), b, load, tps, results)
	verifRunAll()
	res := <-results
	verifAssert(len(res.loaded) >= 1, "the partition's load is answered")
	if len(res.loaded) < 1 {
		return
	}
	if len(verifC40.reqs) < 2 && verifC40.errOn == 2 {
		verifReached("c40-list-error-single-request") // only one listing was needed: nothing was injected
		return
	}
	// (the failed partition is reported with the broker's error and, because it also stays in
	// the load map, once more as unknown: every entry must be an error, none a resolved offset)
	allErr, sawBrokerErr := true, false
	for _, lo := range res.loaded {
		allErr = allErr && lo.err != nil && lo.cursor == nil
		sawBrokerErr = sawBrokerErr || errors.Is(lo.err, kerr.NotLeaderForPartition)
	}
	verifAssert(allErr, "a partition error in either ListOffsets answer fails the partition's load instead of resolving an offset")
	verifAssert(sawBrokerErr, "the load fails with the broker's error for that partition")
	verifReached("c40-list-error")
}
