package kmsg

// VerifC15_stickyMetadataReusedReceiver: StickyMemberMetadata is hand-written (api.go) and its
// readFrom does not start from Default(): whatever a decode does not find on the wire must
// still be reset. A receiver holding an arbitrary Generation (a reused struct, or a zero value)
// decodes v0 user data (no generation on the wire; 0..1 topics with 0..1 symbolic partitions):
// the result must be generation -1 ("absent"), and encoding it must reproduce the v0 bytes
// exactly - not grow a trailing generation. With v1 data the wire generation wins.
func VerifC15_stickyMetadataReusedReceiver() {
	var wire []byte
	nt := verifChoose(2)
	wire = append(wire, 0, 0, 0, byte(nt))
	if nt == 1 {
		wire = append(wire, 0, 1, 't')
		np := verifChoose(2)
		wire = append(wire, 0, 0, 0, byte(np))
		if np == 1 {
			p := verifNondetBytes("partition", 4)
			wire = append(wire, p...)
		}
	}
	v1 := verifChoose(2) == 1
	g := verifNondetBytes("wireGeneration", 4)
	if v1 {
		wire = append(wire, g...)
	}
	var s StickyMemberMetadata
	s.Generation = verifNondetInt32("staleGeneration")
	err := s.ReadFrom(wire)
	verifAssert(err == nil, "well-formed sticky user data decodes")
	if err != nil {
		return
	}
	if v1 {
		want := int32(uint32(g[0])<<24 | uint32(g[1])<<16 | uint32(g[2])<<8 | uint32(g[3]))
		verifAssert(s.Generation == want, "v1 sticky user data: the decoded generation is the one on the wire")
		verifReached("c15-sticky-reuse-v1")
		return
	}
	verifAssert(s.Generation == -1, "v0 sticky user data decodes to generation -1 whatever the receiver held before")
	out := s.AppendTo(nil)
	verifAssert(verifC16EqB(out, wire), "v0 sticky user data re-encodes to the same bytes (no generation appended)")
	verifReached("c15-sticky-reuse-v0")
}
