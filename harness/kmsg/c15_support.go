package kmsg

// C15 — the generated codec matches the protocol definitions. Support code for the harnesses
// that tools/kmsggen c15 generates from generate/definitions/* on every run: the shape chooser
// and a reference encoding library written from the Kafka protocol's description of its
// primitive encodings (big-endian integers, zig-zag/LEB128 varints, int16/int32 or compact
// length prefixes). Nothing here calls kbin.

// verifC15Shape fixes, per path, every length / null-ness / tag-presence decision, so that the
// executor only runs straight-line code; contents stay symbolic. Profiles:
//
//	0: minimal   arrays empty, strings empty, nullable = null, tagged = default, no unknown tags
//	1: maximal   arrays 1, strings 1, nullable set, every tagged field set, one unknown tag per struct
//	2: plain     arrays 1, strings 2, nullable set, tagged default, no unknown tags
//	3,4,7..: mixed  every decision from a hash of (seed, profile, decision id)
//	5: wide      arrays 2, strings 1, nullable set, tagged set, no unknown tags
//	6: boundary  like 1, but the first string/bytes of the value has 127 and the second 128 bytes
//	             (compact length prefix grows from one to two bytes at 127)
type verifC15Shape struct {
	prof     int
	seed     uint32
	thorough bool
	strings  int // string/bytes lengths handed out so far (profile 6)
}

func (s *verifC15Shape) h(id int, salt uint32) uint32 {
	x := uint32(id)*2654435761 ^ s.seed ^ uint32(s.prof)*40503 ^ salt*2246822519
	x ^= x >> 15
	x *= 2246822519
	x ^= x >> 13
	x *= 3266489917
	x ^= x >> 16
	return x
}

func (s *verifC15Shape) arrLen(id int, atLeastOne bool) int {
	n := 0
	switch s.prof {
	case 0:
		n = 0
	case 1, 2, 6:
		n = 1
	case 5:
		n = 2
	default:
		if s.thorough {
			n = int(s.h(id, 1) % 3)
		} else {
			n = int(s.h(id, 1) % 2)
		}
	}
	if atLeastOne && n == 0 {
		n = 1
	}
	return n
}

func (s *verifC15Shape) strLen(id int, atLeastOne bool) int {
	n := 0
	switch s.prof {
	case 0:
		n = 0
	case 1, 5:
		n = 1
	case 2:
		n = 2
	case 6:
		s.strings++
		switch s.strings {
		case 1:
			n = 127
		case 2:
			n = 128
		default:
			n = 1
		}
	default:
		n = int(s.h(id, 2) % 3)
	}
	if atLeastOne && n == 0 {
		n = 1
	}
	return n
}

func (s *verifC15Shape) null(id int) bool {
	switch s.prof {
	case 0:
		return true
	case 1, 2, 5, 6:
		return false
	}
	return s.h(id, 3)%2 == 0
}

// boolVal: bool fields are fixed by the shape (both values occur across profiles): a symbolic
// bool would fork in every AppendBool.
func (s *verifC15Shape) boolVal(id int) bool {
	switch s.prof {
	case 0:
		return false
	case 1:
		return true
	}
	return s.h(id, 8)%2 == 0
}

func (s *verifC15Shape) tagSet(id int) bool {
	switch s.prof {
	case 0, 2:
		return false
	case 1, 5, 6:
		return true
	}
	return s.h(id, 4)%2 == 0
}

func (s *verifC15Shape) unknown(id int) bool {
	switch s.prof {
	case 0, 2, 5:
		return false
	case 1, 6:
		return true
	}
	return s.h(id, 5)%3 == 0
}

// unknownKey: a tag number above every tag the definitions use (the generator rejects known
// tags >= 40), covering the one/two/three byte uvarint forms.
func (s *verifC15Shape) unknownKey(id int) uint32 {
	return [...]uint32{40, 127, 128, 300, 16383, 16384}[s.h(id, 6)%6]
}

func (s *verifC15Shape) unknownLen(id int) int { return int(s.h(id, 7) % 3) }

// ---- reference encoders ------------------------------------------------------------------

func verifC15Bool(dst []byte, x bool) []byte {
	if x {
		return append(dst, 1)
	}
	return append(dst, 0)
}
func verifC15I8(dst []byte, x int8) []byte   { return append(dst, byte(x)) }
func verifC15I16(dst []byte, x int16) []byte { return append(dst, byte(uint16(x)>>8), byte(x)) }
func verifC15U16(dst []byte, x uint16) []byte { return append(dst, byte(x>>8), byte(x)) }
func verifC15I32(dst []byte, x int32) []byte { return verifC15U32(dst, uint32(x)) }
func verifC15U32(dst []byte, x uint32) []byte {
	return append(dst, byte(x>>24), byte(x>>16), byte(x>>8), byte(x))
}
func verifC15I64(dst []byte, x int64) []byte { return verifC15U64(dst, uint64(x)) }
func verifC15U64(dst []byte, x uint64) []byte {
	return append(dst, byte(x>>56), byte(x>>48), byte(x>>40), byte(x>>32), byte(x>>24), byte(x>>16), byte(x>>8), byte(x))
}

// unsigned LEB128: seven bits per byte, least significant group first, high bit = continuation
func verifC15Uvarint(dst []byte, u uint32) []byte {
	for u >= 0x80 {
		dst = append(dst, byte(u&0x7f)|0x80)
		u >>= 7
	}
	return append(dst, byte(u))
}

func verifC15Uvarlong(dst []byte, u uint64) []byte {
	for u >= 0x80 {
		dst = append(dst, byte(u&0x7f)|0x80)
		u >>= 7
	}
	return append(dst, byte(u))
}

// zig-zag: 0, -1, 1, -2, ... -> 0, 1, 2, 3, ...
func verifC15Varint(dst []byte, x int32) []byte {
	return verifC15Uvarint(dst, uint32(x)<<1^uint32(x>>31))
}

func verifC15Varlong(dst []byte, x int64) []byte {
	return verifC15Uvarlong(dst, uint64(x)<<1^uint64(x>>63))
}

// length prefix of a non-null string (plainWidth 2) / bytes or array (plainWidth 4)
func verifC15Len(dst []byte, n int, flex bool, plainWidth int, varint bool) []byte {
	switch {
	case varint:
		return verifC15Varint(dst, int32(n))
	case flex:
		return verifC15Uvarint(dst, uint32(n)+1)
	case plainWidth == 2:
		return verifC15I16(dst, int16(n))
	}
	return verifC15I32(dst, int32(n))
}

// null marker of a nullable string / bytes / array
func verifC15NullLen(dst []byte, flex bool, plainWidth int, varint bool) []byte {
	switch {
	case varint:
		return verifC15Varint(dst, -1)
	case flex:
		return append(dst, 0)
	case plainWidth == 2:
		return append(dst, 0xff, 0xff)
	}
	return append(dst, 0xff, 0xff, 0xff, 0xff)
}

func verifC15Str(dst []byte, s string, flex bool, varint bool) []byte {
	dst = verifC15Len(dst, len(s), flex, 2, varint)
	return append(dst, s...)
}

func verifC15Bytes(dst []byte, b []byte, flex bool, varint bool) []byte {
	dst = verifC15Len(dst, len(b), flex, 4, varint)
	return append(dst, b...)
}

func verifC15ArrLen(dst []byte, n int, flex bool, varint bool) []byte {
	return verifC15Len(dst, n, flex, 4, varint)
}

// verifC15Check compares AppendTo with the reference bytes and checks the decode round trip.
func verifC15Check(x verifC16Msg, exp []byte, mk func() verifC16Msg, eq func(a, b verifC16Msg) bool) {
	got := x.AppendTo(nil)
	verifAssert(len(got) == len(exp), "AppendTo produces as many bytes as the definitions prescribe")
	if len(got) != len(exp) {
		return
	}
	verifAssert(verifC16EqB(got, exp), "AppendTo bytes equal the reference encoding of the definitions")
	y := mk()
	err := y.ReadFrom(got)
	verifAssert(err == nil, "ReadFrom accepts what AppendTo produced")
	if err != nil {
		return
	}
	// every field, present or absent at this version (absent ones keep their defaults on both
	// sides), unknown tags included; nil and empty slices compare equal here, null versus empty
	// is distinguished by the byte comparison of the re-encoding below
	verifAssert(eq(x, y), "ReadFrom recovers every field, tagged fields and unknown tags, and leaves absent fields at their defaults")
	again := y.AppendTo(nil)
	verifAssert(verifC16EqB(again, got), "re-encoding the decoded value gives the same bytes")
	z := mk()
	verifAssert(z.UnsafeReadFrom(got) == nil, "UnsafeReadFrom accepts what AppendTo produced")
	verifAssert(eq(x, z), "UnsafeReadFrom recovers the same value")
	verifReached("encoding compared with the definitions and round-tripped")
}
