package kmsg

import (
	"github.com/twmb/franz-go/pkg/kmsg/internal/kbin"
)

// VerifC16_recordWideTimestampDelta: the generated Record harnesses keep the symbolic window
// short, so a timestamp delta never needs more than a few varlong bytes there. Here the delta
// is a full-width symbolic int64 (every varlong length 1..10), the other integers are symbolic
// too (offset delta full int32, attributes full int8), key / value / header shapes are chosen
// per path. The record is laid out on the wire by kbin (the reference encoding, itself decided
// by C17), decoded by the real Record.ReadFrom, re-encoded by the real AppendTo and decoded
// again: decoding succeeds both times, the decoded value carries exactly the integers that
// were put on the wire, and the second decode yields the same value as the first.
func VerifC16_recordWideTimestampDelta() {
	d := verifNondetInt64("timestampDelta")
	off := verifNondetInt32("offsetDelta")
	attrs := verifNondetInt8("attributes")
	var key, val []byte
	switch verifChoose(3) {
	case 1:
		key = []byte{}
	case 2:
		key = verifNondetBytes("key", 1)
	}
	switch verifChoose(2) {
	case 1:
		val = verifNondetBytes("value", 2)
	}
	nh := verifChoose(2)

	var body []byte
	body = kbin.AppendInt8(body, attrs)
	body = kbin.AppendVarlong(body, d)
	body = kbin.AppendVarint(body, off)
	body = kbin.AppendVarintBytes(body, key)
	body = kbin.AppendVarintBytes(body, val)
	body = kbin.AppendVarint(body, int32(nh))
	for i := 0; i < nh; i++ {
		body = kbin.AppendVarintString(body, "h")
		body = kbin.AppendVarintBytes(body, verifNondetBytes("hval", 1))
	}
	wire := kbin.AppendVarint(nil, int32(len(body)))
	wire = append(wire, body...)

	var r1 Record
	err := r1.ReadFrom(wire)
	verifAssert(err == nil, "a well-formed record decodes without error")
	if err != nil {
		return
	}
	verifAssert(r1.TimestampDelta64 == d, "the decoded record carries the full 64-bit timestamp delta that is on the wire")
	verifAssert(verifAnd(r1.OffsetDelta == off, r1.Attributes == attrs), "the decoded record carries the offset delta and attributes that are on the wire")

	e1 := r1.AppendTo(nil)
	var r2 Record
	err2 := r2.ReadFrom(e1)
	verifAssert(err2 == nil, "the re-encoding of a decoded record decodes without error")
	if err2 != nil {
		return
	}
	verifAssert(r2.TimestampDelta64 == r1.TimestampDelta64, "re-encoding a decoded record keeps its 64-bit timestamp delta")
	verifAssert(r2.TimestampDelta == r1.TimestampDelta, "re-encoding a decoded record keeps its legacy 32-bit timestamp delta")
	verifAssert(verifAnd(r2.OffsetDelta == r1.OffsetDelta, verifAnd(r2.Attributes == r1.Attributes, r2.Length == r1.Length)), "re-encoding a decoded record keeps offset delta, attributes and length")
	verifAssert((r2.Key == nil) == (r1.Key == nil) && (r2.Value == nil) == (r1.Value == nil), "re-encoding keeps null vs empty key and value")
	verifAssert(verifAnd(verifC16EqB(r2.Key, r1.Key), verifC16EqB(r2.Value, r1.Value)), "re-encoding a decoded record keeps key and value bytes")
	verifAssert(len(r2.Headers) == len(r1.Headers), "re-encoding a decoded record keeps its header count")
	verifAssert(verifC16EqB(e1, wire), "re-encoding a decoded well-formed record reproduces the wire bytes")
	verifReached("c16-record-wide")
}
