package kmsg

// C16 — protocol decoders are total and bounded. Support code shared by the generated
// per-type harnesses (tools/kmsggen c16 writes one VerifC16_sym_<T> and one VerifC16_mut_<T>
// per codec type into the overlay on every run).

import (
	"github.com/twmb/franz-go/pkg/kmsg/internal/kbin"
)

// verifUnwindCut(k): loops are explored up to k iterations; longer executions are cut (a
// declared bound, reported as a note), not failed. Intercepted by the executor.
func verifUnwindCut(k int) {}

type verifC16Msg interface {
	ReadFrom([]byte) error
	UnsafeReadFrom([]byte) error
	AppendTo([]byte) []byte
}

func verifC16EqB(a, b []byte) bool {
	if len(a) != len(b) {
		return false
	}
	ok := true
	for i := range a {
		ok = verifAnd(ok, a[i] == b[i])
	}
	return ok
}

// verifC16Decode runs one decoder on src under the allocation budget c*len(src)+c0 and, when
// it succeeds, checks that encode/decode of the decoded value is stable.
func verifC16Decode(mk func() verifC16Msg, eq func(a, b verifC16Msg) bool, src []byte, unsafe bool, c, c0 int64) {
	v := mk()
	n := len(src)
	// Every loop of a decoder is bounded by the input length (array lengths are checked
	// against the remaining bytes) except the tag loops, which iterate the claimed tag count
	// even after the reader ran dry; after n/2+1 iterations the reader is exhausted and all
	// further iterations repeat the same no-op, so they are cut at n+2.
	verifUnwindCut(n + 2)
	verifAllocBudget(c*int64(n) + c0)
	var err error
	if unsafe {
		err = v.UnsafeReadFrom(src)
	} else {
		err = v.ReadFrom(src)
	}
	verifAllocBudget(1 << 40)
	verifUnwindCut(1 << 20)
	if err != nil {
		verifReached("input rejected with an error")
		return
	}
	e1 := v.AppendTo(nil)
	w := mk()
	err2 := w.ReadFrom(e1)
	verifAssert(err2 == nil, "the re-encoding of a decoded value decodes without error")
	if err2 != nil {
		return
	}
	e2 := w.AppendTo(nil)
	verifAssert(verifC16EqB(e1, e2), "encode(decode(encode(x))) equals encode(x) for a decoded x")
	// same value: field by field, unknown tags included; a nil and an empty slice are the same
	// value here (where null and empty differ on the wire the byte comparison above sees it)
	verifAssert(eq(v, w), "decoding the re-encoding yields the same value")
	verifReached("input decoded and round-tripped")
}

// verifC16Sym: all byte strings of length n.
func verifC16Sym(mk func() verifC16Msg, eq func(a, b verifC16Msg) bool, n int, unsafe bool, c, c0 int64) {
	src := verifNondetBytes("b", n)
	verifC16Decode(mk, eq, src, unsafe, c, c0)
}

func verifC16EqTags(a, b *Tags) bool {
	if len(a.keyvals) != len(b.keyvals) {
		return false
	}
	ok := true
	for k, av := range a.keyvals {
		bv, has := b.keyvals[k]
		if !has {
			return false
		}
		ok = verifAnd(ok, verifC16EqB(av, bv))
	}
	return ok
}

// verifC16Mut: a valid encoding of a populated value with a window of w arbitrary bytes at a
// position (every position when npos == 0, else npos seeded positions), full length or
// truncated right after the window.
func verifC16Mut(mk func() verifC16Msg, eq func(a, b verifC16Msg) bool, tmpl verifC16Msg, w int, npos int, seed uint32, unsafe bool, c, c0 int64) {
	e := tmpl.AppendTo(nil)
	chk := mk()
	verifAssert(chk.ReadFrom(e) == nil, "the encoding of a populated value decodes without error")
	if len(e) == 0 {
		verifReached("empty encoding")
		return
	}
	var p int
	if npos == 0 || npos >= len(e) {
		p = verifChoose(len(e))
	} else {
		// seeded positions: one per stratum of the encoding, offset by the seed
		i := verifChoose(npos)
		stride := (len(e) + npos - 1) / npos
		p = (i*stride + int(seed)%stride) % len(e)
	}
	m := make([]byte, len(e))
	copy(m, e)
	sym := verifNondetBytes("m", w)
	end := p
	for i := 0; i < w && p+i < len(m); i++ {
		m[p+i] = sym[i]
		end = p + i + 1
	}
	if verifChoose(2) == 1 {
		m = m[:end]
	}
	verifC16Decode(mk, eq, m, unsafe, c, c0)
}

// ReadTags / SkipTags over a TagReader (the kbin.Reader) on arbitrary bytes.
func VerifC16_tags() {
	nmax := 4
	if verifThorough() {
		nmax = 6
	}
	n := verifChoose(nmax + 1)
	src := verifNondetBytes("b", n)
	verifUnwindCut(n + 2)
	verifAllocBudget(int64(64*n + 512))
	switch verifChoose(2) {
	case 0:
		r := &kbin.Reader{Src: src}
		t := ReadTags(r)
		verifAllocBudget(1 << 40)
		verifUnwindCut(1 << 20)
		if r.Complete() == nil {
			// every tag costs at least two bytes
			verifAssert(t.Len()*2 <= n, "ReadTags returns at most one tag per two input bytes")
			e1 := t.AppendEach(nil)
			verifAssert(len(e1) <= n, "re-encoded tags are not longer than the input")
			// round trip: count prefix + tags
			enc := kbin.AppendUvarint(nil, uint32(t.Len()))
			enc = append(enc, e1...)
			r2 := &kbin.Reader{Src: enc}
			t2 := ReadTags(r2)
			verifAssert(r2.Complete() == nil, "re-encoded tags decode")
			verifAssert(len(r2.Src) == 0, "re-encoded tags are consumed entirely")
			verifAssert(verifC16EqTags(&t, &t2), "tags survive a round trip")
		}
	case 1:
		r := &kbin.Reader{Src: src}
		r2 := &kbin.Reader{Src: src}
		SkipTags(r)
		ReadTags(r2)
		verifAllocBudget(1 << 40)
		verifUnwindCut(1 << 20)
		verifAssert((r.Complete() == nil) == (r2.Complete() == nil), "SkipTags and ReadTags accept the same inputs")
		verifAssert(len(r.Src) == len(r2.Src), "SkipTags and ReadTags consume the same number of bytes")
	}
	verifReached("tags done")
}

// StickyMemberMetadata.ReadFrom grows its slices by capacity so that one value can be decoded
// into repeatedly (the sticky balancer decodes every member's user data). Three well-formed
// messages of independent shapes (1..3 assignments x 0/1/3 partitions, symbolic partition
// numbers and generation) are decoded one after another into the SAME value, alternating
// ReadFrom/UnsafeReadFrom: each decode succeeds and leaves exactly what a decode into a fresh
// value gives — no panic, no stale or missing elements.
func VerifC16_stickyMetadataReuse() {
	var reused StickyMemberMetadata
	for round := 0; round < 3; round++ {
		nA := 1 + verifChoose(3)
		nP := []int{0, 1, 3}[verifChoose(3)]
		var src StickyMemberMetadata
		for a := 0; a < nA; a++ {
			ca := StickyMemberMetadataCurrentAssignment{Topic: []string{"a", "bb", "ccc"}[a]}
			for p := 0; p < nP; p++ {
				ca.Partitions = append(ca.Partitions, verifNondetInt32("partition"))
			}
			src.CurrentAssignment = append(src.CurrentAssignment, ca)
		}
		src.Generation = verifNondetInt32("generation")
		verifAssume(src.Generation != -1)
		wire := src.AppendTo(nil)
		var err error
		if round%2 == 0 {
			err = reused.ReadFrom(wire)
		} else {
			err = reused.UnsafeReadFrom(wire)
		}
		verifAssert(err == nil, "a well-formed sticky metadata message decodes into a reused value")
		ok := len(reused.CurrentAssignment) == nA
		verifAssert(ok, "decoding into a reused value yields exactly the message's assignments")
		if !ok {
			return
		}
		same := reused.Generation == src.Generation
		for a := 0; a < nA; a++ {
			got := reused.CurrentAssignment[a]
			if got.Topic != src.CurrentAssignment[a].Topic || len(got.Partitions) != nP {
				verifFail("decoding into a reused value yields the message's topics and partition counts")
				return
			}
			for p := 0; p < nP; p++ {
				same = verifAnd(same, got.Partitions[p] == src.CurrentAssignment[a].Partitions[p])
			}
		}
		verifAssert(same, "decoding into a reused value yields the message's partitions and generation")
	}
	verifReached("c16-sticky-reuse")
}
