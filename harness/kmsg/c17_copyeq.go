package kmsg

import (
	pub "github.com/twmb/franz-go/pkg/kbin"
	priv "github.com/twmb/franz-go/pkg/kmsg/internal/kbin"
)

func verifC17EqB(a, b []byte) bool {
	if len(a) != len(b) || (a == nil) != (b == nil) {
		return false
	}
	ok := true
	for i := range a {
		ok = verifAnd(ok, a[i] == b[i])
	}
	return ok
}

// Copy equivalence (translation validation): the public kbin package and kmsg's private copy
// produce identical outputs for identical inputs, function by function.
func VerifC17_copyEncoders() {
	i32, u32, i64 := verifNondetInt32("i32"), verifNondetUint32("u32"), verifNondetInt64("i64")
	i16, u16, i8, bo := verifNondetInt16("i16"), verifNondetUint16("u16"), verifNondetInt8("i8"), verifNondetBool("bo")
	n := verifRange("len", 0, 2)
	s := verifNondetString("s", n)
	b := verifNondetBytes("b", n)
	isNil := verifNondetBool("nil")
	var sp *string
	bp := b
	if isNil {
		bp = nil
	} else {
		sp = &s
	}
	l := verifNondetInt("l")
	_, _, _, _, _, _, _, _, _, _, _, _ = i32, u32, i64, i16, u16, i8, bo, sp, bp, l, s, b
	// one function pair per path (choice), so forks add instead of multiplying
	switch verifChoose(27) {
	case 0:
		verifAssert(verifC17EqB(pub.AppendVarint(nil, i32), priv.AppendVarint(nil, i32)), "AppendVarint copies agree")
	case 1:
		verifAssert(verifC17EqB(pub.AppendUvarint(nil, u32), priv.AppendUvarint(nil, u32)), "AppendUvarint copies agree")
	case 2:
		verifAssert(verifC17EqB(pub.AppendVarlong(nil, i64), priv.AppendVarlong(nil, i64)), "AppendVarlong copies agree")
	case 3:
		verifAssert(pub.VarintLen(i32) == priv.VarintLen(i32), "VarintLen copies agree")
	case 4:
		verifAssert(pub.UvarintLen(u32) == priv.UvarintLen(u32), "UvarintLen copies agree")
	case 5:
		verifAssert(pub.VarlongLen(i64) == priv.VarlongLen(i64), "VarlongLen copies agree")
	case 6:
		verifAssert(verifC17EqB(pub.AppendInt16(nil, i16), priv.AppendInt16(nil, i16)), "AppendInt16 copies agree")
	case 7:
		verifAssert(verifC17EqB(pub.AppendUint16(nil, u16), priv.AppendUint16(nil, u16)), "AppendUint16 copies agree")
	case 8:
		verifAssert(verifC17EqB(pub.AppendInt8(nil, i8), priv.AppendInt8(nil, i8)), "AppendInt8 copies agree")
	case 9:
		verifAssert(verifC17EqB(pub.AppendBool(nil, bo), priv.AppendBool(nil, bo)), "AppendBool copies agree")
	case 10:
		verifAssert(verifC17EqB(pub.AppendInt32(nil, i32), priv.AppendInt32(nil, i32)), "AppendInt32 copies agree")
	case 11:
		verifAssert(verifC17EqB(pub.AppendUint32(nil, u32), priv.AppendUint32(nil, u32)), "AppendUint32 copies agree")
	case 12:
		verifAssert(verifC17EqB(pub.AppendInt64(nil, i64), priv.AppendInt64(nil, i64)), "AppendInt64 copies agree")
	case 13:
		verifAssert(verifC17EqB(pub.AppendString(nil, s), priv.AppendString(nil, s)), "AppendString copies agree")
	case 14:
		verifAssert(verifC17EqB(pub.AppendCompactString(nil, s), priv.AppendCompactString(nil, s)), "AppendCompactString copies agree")
	case 15:
		verifAssert(verifC17EqB(pub.AppendNullableString(nil, sp), priv.AppendNullableString(nil, sp)), "AppendNullableString copies agree")
	case 16:
		verifAssert(verifC17EqB(pub.AppendCompactNullableString(nil, sp), priv.AppendCompactNullableString(nil, sp)), "AppendCompactNullableString copies agree")
	case 17:
		verifAssert(verifC17EqB(pub.AppendBytes(nil, b), priv.AppendBytes(nil, b)), "AppendBytes copies agree")
	case 18:
		verifAssert(verifC17EqB(pub.AppendCompactBytes(nil, b), priv.AppendCompactBytes(nil, b)), "AppendCompactBytes copies agree")
	case 19:
		verifAssert(verifC17EqB(pub.AppendNullableBytes(nil, bp), priv.AppendNullableBytes(nil, bp)), "AppendNullableBytes copies agree")
	case 20:
		verifAssert(verifC17EqB(pub.AppendCompactNullableBytes(nil, bp), priv.AppendCompactNullableBytes(nil, bp)), "AppendCompactNullableBytes copies agree")
	case 21:
		verifAssert(verifC17EqB(pub.AppendVarintString(nil, s), priv.AppendVarintString(nil, s)), "AppendVarintString copies agree")
	case 22:
		verifAssert(verifC17EqB(pub.AppendVarintBytes(nil, bp), priv.AppendVarintBytes(nil, bp)), "AppendVarintBytes copies agree")
	case 23:
		verifAssert(verifC17EqB(pub.AppendArrayLen(nil, l), priv.AppendArrayLen(nil, l)), "AppendArrayLen copies agree")
	case 24:
		verifAssert(verifC17EqB(pub.AppendCompactArrayLen(nil, l), priv.AppendCompactArrayLen(nil, l)), "AppendCompactArrayLen copies agree")
	case 25:
		verifAssert(verifC17EqB(pub.AppendNullableArrayLen(nil, l, isNil), priv.AppendNullableArrayLen(nil, l, isNil)), "AppendNullableArrayLen copies agree")
	case 26:
		verifAssert(verifC17EqB(pub.AppendCompactNullableArrayLen(nil, l, isNil), priv.AppendCompactNullableArrayLen(nil, l, isNil)), "AppendCompactNullableArrayLen copies agree")
	}
	verifReached("c17-copy-encoders")
}

func VerifC17_copyDecoders() {
	n := verifRange("len", 0, 11)
	in := verifNondetBytes("in", n)
	a, an := pub.Varint(in)
	b, bn := priv.Varint(in)
	verifAssert(verifAnd(a == b, an == bn), "Varint copies agree")
	c, cn := pub.Uvarint(in)
	d, dn := priv.Uvarint(in)
	verifAssert(verifAnd(c == d, cn == dn), "Uvarint copies agree")
	e, en := pub.Varlong(in)
	f, fn := priv.Varlong(in)
	verifAssert(verifAnd(e == f, en == fn), "Varlong copies agree")
	verifReached("c17-copy-decoders")
}

// Reader methods: same bytes, same method => same result and same reader state.
func VerifC17_copyReader() {
	n := verifRange("len", 0, 6)
	in := verifNondetBytes("in", n)
	in2 := append([]byte(nil), in...)
	p := &pub.Reader{Src: in}
	q := &priv.Reader{Src: in2}
	which := verifChoose(16)
	same := true
	switch which {
	case 0:
		same = p.Bool() == q.Bool()
	case 1:
		same = p.Int8() == q.Int8()
	case 2:
		same = p.Int16() == q.Int16()
	case 3:
		same = p.Uint16() == q.Uint16()
	case 4:
		same = p.Int32() == q.Int32()
	case 5:
		same = p.Uint32() == q.Uint32()
	case 6:
		same = p.Varint() == q.Varint()
	case 7:
		same = p.Uvarint() == q.Uvarint()
	case 8:
		same = p.Varlong() == q.Varlong()
	case 9:
		same = p.ArrayLen() == q.ArrayLen()
	case 10:
		same = p.CompactArrayLen() == q.CompactArrayLen()
	case 11:
		same = p.VarintArrayLen() == q.VarintArrayLen()
	case 12:
		same = verifC17EqB(p.Bytes(), q.Bytes())
	case 13:
		same = verifC17EqB(p.CompactNullableBytes(), q.CompactNullableBytes())
	case 14:
		same = p.String() == q.String()
	case 15:
		same = verifC17EqB(p.VarintBytes(), q.VarintBytes())
	}
	verifAssert(same, "Reader method results agree between the copies")
	verifAssert(verifAnd(p.Ok() == q.Ok(), verifC17EqB(p.Src, q.Src)), "Reader state agrees between the copies")
	verifReached("c17-copy-reader")
}
