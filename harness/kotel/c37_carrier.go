package kotel

import "github.com/twmb/franz-go/pkg/kgo"

// The carrier is specified as a string map laid over the record's header list:
//   Get(k)   = value of the first header whose key is k, "" if there is none
//   Set(k,v) = afterwards Get(k) = v, Get(k') unchanged for k' != k, and the header list
//              changes in exactly one place (one value replaced, or one header appended)
//   Keys()   = the header keys in list order
// The assertions below are these map laws; they are not derived from carrier.go.

// verifC37Record builds a record with 0..3 headers; keys are 0..2 symbolic bytes (so
// duplicates and empty keys occur), values 0..2 symbolic bytes.
func verifC37Record() (*kgo.Record, []kgo.RecordHeader) {
	return verifC37RecordN(3, true, true)
}

func verifC37RecordN(maxN int, spare, varyFirst bool) (*kgo.Record, []kgo.RecordHeader) {
	n := verifChoose(maxN + 1)
	hs := make([]kgo.RecordHeader, n)
	for i := range hs {
		hs[i].Key = verifNondetString("hkey", verifChoose(3))
		// value lengths do not influence the carrier: fixed at 1, 2, 0 (nil) by position;
		// thorough varies the first header's value length 0..2
		vl := (i + 1) % 3
		if i == 0 && varyFirst && verifThorough() {
			vl = verifChoose(3)
		}
		if vl > 0 {
			hs[i].Value = verifNondetBytes("hval", vl)
		}
	}
	snap := make([]kgo.RecordHeader, n)
	for i := range hs {
		snap[i] = kgo.RecordHeader{Key: hs[i].Key, Value: append([]byte(nil), hs[i].Value...)}
	}
	// spare capacity: append in place vs reallocation
	if spare && verifChoose(2) == 1 {
		hs = append(make([]kgo.RecordHeader, 0, n+2), hs...)
	}
	return &kgo.Record{Headers: hs}, snap
}

func verifC37ValLen() int {
	if verifThorough() {
		return verifChoose(3)
	}
	return 2
}

func verifC37StrBytesEq(s string, b []byte) bool {
	if len(s) != len(b) {
		return false
	}
	ok := true
	for i := 0; i < len(s); i++ {
		ok = verifAnd(ok, s[i] == b[i])
	}
	return ok
}

func verifC37BytesEq(a, b []byte) bool {
	if len(a) != len(b) {
		return false
	}
	ok := true
	for i := range a {
		ok = verifAnd(ok, a[i] == b[i])
	}
	return ok
}

// refGet: first header with key k.
func verifC37RefGet(hs []kgo.RecordHeader, k string) (val []byte, found bool) {
	for i := range hs {
		if hs[i].Key == k {
			return hs[i].Value, true
		}
	}
	return nil, false
}

// Get and Keys on an arbitrary header list.
func VerifC37_getKeys() {
	r, snap := verifC37RecordN(3, false, true)
	c := NewRecordCarrier(r)
	k := verifNondetString("k", verifChoose(3))
	got := c.Get(k)
	want, found := verifC37RefGet(snap, k)
	if found {
		verifAssert(verifC37StrBytesEq(got, want), "Get returns the value of the first header with that key")
	} else {
		verifAssert(got == "", "Get of an absent key is empty")
	}
	keys := c.Keys()
	verifAssert(len(keys) == len(snap), "Keys lists one key per header")
	for i := range snap {
		verifAssert(keys[i] == snap[i].Key, "Keys lists the header keys in order")
	}
	verifAssert(len(r.Headers) == len(snap), "Get and Keys do not change the header count")
	for i := range snap {
		verifAssert(verifAnd(r.Headers[i].Key == snap[i].Key, verifC37BytesEq(r.Headers[i].Value, snap[i].Value)), "Get and Keys do not change headers")
	}
	verifReached("c37-get-keys")
}

// One Set on an arbitrary header list.
func VerifC37_set() {
	r, snap := verifC37Record()
	c := NewRecordCarrier(r)
	k := verifNondetString("k", verifChoose(3))
	v := verifNondetString("v", verifC37ValLen())
	k2 := verifNondetString("k2", verifChoose(3))
	before2 := c.Get(k2)
	_, present := verifC37RefGet(snap, k)

	c.Set(k, v)

	verifAssert(c.Get(k) == v, "after Set(k, v), Get(k) returns v")
	if k2 != k {
		verifAssert(c.Get(k2) == before2, "Set(k, v) leaves Get(k') unchanged for k' != k")
	}
	hs := r.Headers
	if present {
		verifAssert(len(hs) == len(snap), "Set of a present key keeps the header count")
	} else {
		verifAssert(len(hs) == len(snap)+1, "Set of an absent key adds exactly one header")
		last := hs[len(hs)-1]
		verifAssert(verifAnd(last.Key == k, verifC37StrBytesEq(v, last.Value)), "the added header is (k, v) at the end")
	}
	changed := 0
	for i := range snap {
		verifAssert(hs[i].Key == snap[i].Key, "Set never changes an existing header's key")
		if !verifC37BytesEq(hs[i].Value, snap[i].Value) {
			changed++
			verifAssert(hs[i].Key == k, "Set changes only a header whose key is k")
			for j := 0; j < i; j++ {
				verifAssert(snap[j].Key != k, "Set changes the first header with key k")
			}
		}
	}
	verifAssert(changed <= 1, "Set changes at most one existing header")
	keys := c.Keys()
	verifAssert(len(keys) == len(hs), "Keys lists one key per header after Set")
	for i := range hs {
		verifAssert(keys[i] == hs[i].Key, "Keys lists the header keys in order after Set")
	}
	verifReached("c37-set")
}

// Set/Set/Get sequences behave as a map: the last write to a key wins, other keys keep
// their values; a fresh carrier over the same headers (the consumer side) reads the same.
func VerifC37_setSetGet() {
	r, _ := verifC37RecordN(2, false, false)
	c := NewRecordCarrier(r)
	k1 := verifNondetString("k1", verifChoose(3))
	k2 := verifNondetString("k2", verifChoose(3))
	v1 := verifNondetString("v1", 1)
	v2 := verifNondetString("v2", verifC37ValLen())
	k3 := verifNondetString("k3", verifChoose(3))
	before3 := c.Get(k3)
	c.Set(k1, v1)
	c.Set(k2, v2)

	// the record "crosses the wire": headers are carried byte for byte (C18/C06)
	wire := &kgo.Record{}
	for _, h := range r.Headers {
		wire.Headers = append(wire.Headers, kgo.RecordHeader{Key: h.Key, Value: append([]byte(nil), h.Value...)})
	}
	c2 := NewRecordCarrier(wire)
	verifAssert(c2.Get(k2) == v2, "last Set wins")
	if k1 != k2 {
		verifAssert(c2.Get(k1) == v1, "earlier Set to a different key survives")
	}
	if k3 != k1 && k3 != k2 {
		verifAssert(c2.Get(k3) == before3, "untouched key keeps its value through two Sets")
	}
	verifReached("c37-set-set-get")
}

// Headers of a consumed record are sub-slices of one shared buffer (that is what decoding a
// fetch response produces), and applications shallow-copy header lists between records. "No
// other header changes" has to hold for the BYTES too: Set(k, v) on such a record must not
// write through the old value's backing array — neither into the neighbouring header that
// follows it in the buffer nor into another record that shares the array.
func VerifC37_setSharedBuffer() {
	buf := verifNondetBytes("buf", 6)
	mk := func() []kgo.RecordHeader {
		return []kgo.RecordHeader{
			{Key: verifNondetString("hkey", 1), Value: buf[0:2]},
			{Key: verifNondetString("hkey", 1), Value: buf[2:4]},
			{Key: verifNondetString("hkey", 1), Value: buf[4:6]},
		}
	}
	hs := mk()
	a := &kgo.Record{Headers: hs}
	b := &kgo.Record{Headers: append([]kgo.RecordHeader(nil), hs...)} // shallow copy: same value arrays
	snap := append([]byte(nil), buf...)
	k := verifNondetString("k", 1)
	v := verifNondetString("v", 1+verifChoose(3))
	idx := -1
	for i := range hs {
		if idx < 0 && hs[i].Key == k {
			idx = i
		}
	}
	NewRecordCarrier(a).Set(k, v)
	verifAssert(NewRecordCarrier(a).Get(k) == v, "after Set(k, v), Get(k) returns v")
	for i := 0; i < 3; i++ {
		if i != idx {
			verifAssert(verifC37BytesEq(a.Headers[i].Value, snap[2*i:2*i+2]), "Set(k, v) leaves every other header's value bytes unchanged, also when header values share one buffer")
		}
		verifAssert(verifC37BytesEq(b.Headers[i].Value, snap[2*i:2*i+2]), "Set on one record does not change a record that shares header value arrays with it")
	}
	verifReached("c37-shared-buffer")
}
