package kotel

import (
	"context"

	"go.opentelemetry.io/otel/attribute"
	"go.opentelemetry.io/otel/codes"
	"go.opentelemetry.io/otel/propagation"
	"go.opentelemetry.io/otel/trace"
	"go.opentelemetry.io/otel/trace/embedded"

	"github.com/twmb/franz-go/pkg/kgo"
)

// Producer hook -> wire -> consumer hook with a harness propagator standing in for the
// third-party otel propagator (two fields with symbolic names and values): what Inject wrote
// through the carrier is what Extract reads through the carrier on the other side.

type verifC37Prop struct {
	k1, v1, k2, v2      string
	got1, got2          string
	injected, extracted int
}

func (p *verifC37Prop) Inject(_ context.Context, c propagation.TextMapCarrier) {
	p.injected++
	c.Set(p.k1, p.v1)
	c.Set(p.k2, p.v2)
}

func (p *verifC37Prop) Extract(ctx context.Context, c propagation.TextMapCarrier) context.Context {
	p.extracted++
	p.got1 = c.Get(p.k1)
	p.got2 = c.Get(p.k2)
	// like a real propagator: the extracted (remote) span travels in the returned context
	return trace.ContextWithSpan(ctx, &verifC37Span{})
}

func (p *verifC37Prop) Fields() []string { return []string{p.k1, p.k2} }

// Harness tracer/span (the otel SDK is a third-party dependency and is not executed): Start
// stores the span in the context the way the otel API does, so the Unbuffered hooks find it.
type verifC37Tracer struct {
	embedded.Tracer
	started int
	spans   []*verifC37Span
}

type verifC37Span struct {
	trace.Span
	ended int
}

func (s *verifC37Span) End(...trace.SpanEndOption)              { s.ended++ }
func (s *verifC37Span) SetAttributes(...attribute.KeyValue)     {}
func (s *verifC37Span) SetStatus(codes.Code, string)            {}
func (s *verifC37Span) RecordError(error, ...trace.EventOption) {}
func (s *verifC37Span) IsRecording() bool                       { return true }
func (s *verifC37Span) SpanContext() trace.SpanContext          { return trace.SpanContext{} }

func (t *verifC37Tracer) Start(ctx context.Context, _ string, _ ...trace.SpanStartOption) (context.Context, trace.Span) {
	t.started++
	sp := &verifC37Span{}
	t.spans = append(t.spans, sp)
	return trace.ContextWithSpan(ctx, sp), sp
}

func VerifC37_hooks() {
	p := &verifC37Prop{}
	p.k1 = verifNondetString("pk1", 1+verifChoose(2))
	p.k2 = verifNondetString("pk2", 1+verifChoose(2))
	p.v1 = verifNondetString("pv1", 2)
	p.v2 = verifNondetString("pv2", verifC37ValLen())
	verifAssume(p.k1 != p.k2)
	tr := &verifC37Tracer{}
	linked := verifChoose(2) == 1
	t := &Tracer{propagators: p, tracer: tr, linkSpans: linked, clientID: "c", consumerGroup: "g"}

	r, snap := verifC37RecordN(2, false, false)
	r.Topic = "t"
	r.Context = context.Background()
	t.OnProduceRecordBuffered(r)
	verifAssert(p.injected == 1, "producer hook injects once into the record's carrier")

	wire := &kgo.Record{Topic: "t"}
	for _, h := range r.Headers {
		wire.Headers = append(wire.Headers, kgo.RecordHeader{Key: h.Key, Value: append([]byte(nil), h.Value...)})
	}
	t.OnFetchRecordBuffered(wire)
	verifAssert(p.extracted == 1, "consumer hook extracts once from the record's carrier")
	verifAssert(p.got1 == p.v1, "first injected field is extracted unchanged")
	verifAssert(p.got2 == p.v2, "second injected field is extracted unchanged")
	// pre-existing headers with other keys are still present
	for i := range snap {
		if snap[i].Key != p.k1 && snap[i].Key != p.k2 {
			verifAssert(verifAnd(wire.Headers[i].Key == snap[i].Key, verifC37BytesEq(wire.Headers[i].Value, snap[i].Value)), "user headers survive injection")
		}
	}
	verifAssert(wire.Context != nil, "consumer hook sets the record context")
	t.OnProduceRecordUnbuffered(r, nil)
	t.OnFetchRecordUnbuffered(wire, false)
	verifAssert(tr.started == 2, "one span per buffered hook")
	verifAssert(verifAnd(tr.spans[0].ended == 1, tr.spans[1].ended == 1), "each span is ended once by its unbuffered hook")
	verifReached("c37-hooks")
}
