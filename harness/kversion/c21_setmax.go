package kversion

// C21 (user bound): a version cap set by the user is the cap that is looked up — for every key
// of every named release and every cap value, SetMaxKeyVersion(k, v) followed by
// LookupMaxKeyVersion(k) returns v (the negotiation in kgo clamps to what Lookup returns, so a
// cap silently raised here lets a request be written above the user's limit).
func VerifC21_userCapIsWhatIsLookedUp() {
	verifUnwind(400) // release tables have more than 64 keys
	var vs *Versions
	switch verifChoose(4) {
	case 0:
		vs = Stable()
	case 1:
		vs = V2_8_0()
	case 2:
		vs = V4_0_0()
	case 3:
		vs = Tip()
	}
	k := verifNondetInt16("key")
	v := verifNondetInt16("cap")
	verifAssume(verifAnd(verifAnd(k >= 0, k <= 80), verifAnd(v >= 0, v <= 30)))
	kk := int16(verifConcretize(int(k)))
	vs.SetMaxKeyVersion(kk, v)
	got, ok := vs.LookupMaxKeyVersion(kk)
	verifAssert(ok, "a key whose cap was set is known")
	verifAssert(got == v, "LookupMaxKeyVersion returns exactly the cap the user set")
	verifReached("c21-user-cap")
}
