package sr

import "runtime"

// ---------------------------------------------------------------------------------------
// Reference model, written from the Confluent wire-format description and the property
// statement (not from serde.go):
//
//   header  = 0x00 ‖ BE32(id) ‖ index?
//   index   = 0x00                      if the index path is exactly [0]
//           = zz(len) ‖ zz(i_0) ‖ ...   otherwise (absent when there is no index path)
//   zz(x)   = protobuf zig-zag varint of the int64 x: u = (x<<1) ^ (x>>63), little-endian
//             groups of 7 bits, high bit = continuation, at most 10 bytes.

func verifC36RefPutVarint(b []byte, x int64) []byte {
	u := uint64(x<<1) ^ uint64(x>>63)
	for u >= 0x80 {
		b = append(b, byte(u)|0x80)
		u >>= 7
	}
	return append(b, byte(u))
}

// verifC36RefVarint decodes one zig-zag varint. ok=false: truncated input or a value that
// does not fit 64 bits (more than 10 bytes / 10th byte above 1).
func verifC36RefVarint(b []byte) (x int64, n int, ok bool) {
	var u uint64
	for i := 0; i < 10; i++ {
		if i >= len(b) {
			return 0, 0, false
		}
		c := b[i]
		if i == 9 && c > 1 {
			return 0, 0, false
		}
		u |= uint64(c&0x7f) << (7 * uint(i))
		if c < 0x80 {
			return int64(u>>1) ^ -int64(u&1), i + 1, true
		}
	}
	return 0, 0, false
}

func verifC36RefHeader(id uint32, index []int) []byte {
	b := []byte{0, byte(id >> 24), byte(id >> 16), byte(id >> 8), byte(id)}
	if len(index) == 0 {
		return b
	}
	if len(index) == 1 && index[0] == 0 {
		return append(b, 0)
	}
	b = verifC36RefPutVarint(b, int64(len(index)))
	for _, i := range index {
		b = verifC36RefPutVarint(b, int64(i))
	}
	return b
}

const (
	verifC36OK            = iota
	verifC36Malformed     // truncated / overflowing varint: some error
	verifC36Negative      // negative count: ErrBadHeader
	verifC36TooDeep       // count above maxLength>0: ErrNotRegistered
	verifC36CountTooLarge // count above the number of remaining bytes: some error (every index needs >= 1 byte)
)

// verifC36RefIndex is the reference for DecodeIndex. cnt is the decoded count (valid when
// the count varint itself was well-formed).
func verifC36RefIndex(b []byte, maxLength int) (index []int, rest []byte, cnt int64, res int) {
	l, n, ok := verifC36RefVarint(b)
	if !ok {
		return nil, nil, 0, verifC36Malformed
	}
	b = b[n:]
	if l == 0 {
		return []int{0}, b, l, verifC36OK
	}
	if l < 0 {
		return nil, nil, l, verifC36Negative
	}
	if maxLength > 0 && l > int64(maxLength) {
		return nil, nil, l, verifC36TooDeep
	}
	if l > int64(len(b)) {
		return nil, nil, l, verifC36CountTooLarge
	}
	for i := int64(0); i < l; i++ {
		v, n, ok := verifC36RefVarint(b)
		if !ok {
			return nil, nil, l, verifC36Malformed
		}
		index = append(index, int(v))
		b = b[n:]
	}
	return index, b, l, verifC36OK
}

func verifC36BytesEq(a, b []byte) bool {
	if len(a) != len(b) {
		return false
	}
	ok := true
	for i := range a {
		ok = verifAnd(ok, a[i] == b[i])
	}
	return ok
}

func verifC36IntsEq(a, b []int) bool {
	if len(a) != len(b) {
		return false
	}
	ok := true
	for i := range a {
		ok = verifAnd(ok, a[i] == b[i])
	}
	return ok
}

// ---------------------------------------------------------------------------------------
// Registered value types: the codec is the identity on bytes.

type verifC36A struct{ b []byte }
type verifC36B struct{ b []byte }

func verifC36Opts(tag *int, which int, index []int) []EncodingOpt {
	opts := []EncodingOpt{
		EncodeFn(func(v any) ([]byte, error) {
			switch v := v.(type) {
			case *verifC36A:
				return v.b, nil
			case *verifC36B:
				return v.b, nil
			}
			return nil, ErrNotRegistered
		}),
		DecodeFn(func(b []byte, v any) error {
			*tag = which
			switch v := v.(type) {
			case *verifC36A:
				v.b = b
			case *verifC36B:
				v.b = b
			default:
				return ErrNotRegistered
			}
			return nil
		}),
	}
	if which == 1 {
		opts = append(opts, GenerateFn(func() any { return new(verifC36A) }))
	} else {
		opts = append(opts, GenerateFn(func() any { return new(verifC36B) }))
	}
	if len(index) > 0 {
		opts = append(opts, Index(index...))
	}
	return opts
}

func verifC36Payload(v any) []byte {
	switch v := v.(type) {
	case *verifC36A:
		return v.b
	case *verifC36B:
		return v.b
	}
	verifFail("decoded value has an unexpected type")
	return nil
}

func verifC36MaxDepth() int {
	if verifThorough() {
		return 3
	}
	return 2
}

func verifC36Index(name string, depth int) []int {
	index := make([]int, depth)
	for i := range index {
		index[i] = verifNondetInt(name)
	}
	return index
}

// Encode writes exactly the reference header followed by the payload; Decode / DecodeNew /
// DecodeID / DecodeIndex of that output recover id, index path and payload.
func VerifC36_roundTrip() {
	id := verifNondetUint32("id")
	depth := verifChoose(verifC36MaxDepth() + 1)
	index := verifC36Index("idx", depth)
	if depth >= 3 {
		// depth 3 only adds a loop iteration: keep its values in the one-byte varint range
		for _, v := range index {
			verifAssume(verifAnd(v >= -64, v <= 63))
		}
	}
	plen := 2
	if depth == 0 {
		plen = verifChoose(3)
	}
	payload := verifNondetBytes("payload", plen)

	var tag int
	s := NewSerde()
	s.Register(int(id), &verifC36A{}, verifC36Opts(&tag, 1, index)...)

	prefixed := depth <= 1 && verifChoose(2) == 1
	var pre []byte
	if prefixed {
		pre = []byte{0xaa, 0xbb}
	}
	enc, err := s.AppendEncode(pre, &verifC36A{payload})
	verifAssert(err == nil, "Encode of a registered value succeeds")
	want := append(append(append([]byte{}, pre...), verifC36RefHeader(id, index)...), payload...)
	verifAssert(verifC36BytesEq(enc, want), "Encode output is prefix, Confluent header (magic 0, BE32 id, index with [0] shortcut), payload")
	enc = enc[len(pre):]

	// all three modes up to depth 1 (depth 2 in thorough); deeper paths: DecodeNew and
	// header-level decode with maxLength = depth only
	full := depth <= 1 || (verifThorough() && depth <= 2)
	mode := 0
	if full {
		mode = verifChoose(3)
	} else {
		mode = 1 + verifChoose(2)
	}
	switch mode {
	case 0:
		var out verifC36A
		err = s.Decode(enc, &out)
		verifAssert(err == nil, "Decode of Encode output succeeds")
		verifAssert(tag == 1, "Decode goes through the registered decoder")
		verifAssert(verifC36BytesEq(out.b, payload), "Decode recovers the payload")
	case 1:
		v, err := s.DecodeNew(enc)
		verifAssert(err == nil, "DecodeNew of Encode output succeeds")
		out, ok := v.(*verifC36A)
		verifAssert(ok, "DecodeNew returns the generated value type")
		verifAssert(verifC36BytesEq(out.b, payload), "DecodeNew recovers the payload")
	case 2:
		var h ConfluentHeader
		gotID, rest, err := h.DecodeID(enc)
		verifAssert(err == nil, "DecodeID of Encode output succeeds")
		verifAssert(uint32(gotID) == id, "DecodeID recovers the id")
		verifAssert(gotID >= 0, "DecodeID returns a non-negative id")
		if depth > 0 {
			maxLength := depth
			if full {
				maxLength = verifChoose(3) - 1 + depth // depth-1 (0 => unlimited), depth, depth+1
			}
			if maxLength == depth-1 && maxLength > 0 {
				_, _, err := h.DecodeIndex(rest, maxLength)
				verifAssert(err == ErrNotRegistered, "DecodeIndex rejects a path longer than maxLength with ErrNotRegistered")
			} else {
				gotIdx, rest2, err := h.DecodeIndex(rest, maxLength)
				verifAssert(err == nil, "DecodeIndex of Encode output succeeds")
				verifAssert(verifC36IntsEq(gotIdx, index), "DecodeIndex recovers the index path")
				verifAssert(verifC36BytesEq(rest2, payload), "DecodeIndex leaves the payload")
			}
		} else {
			verifAssert(verifC36BytesEq(rest, payload), "DecodeID leaves the payload")
		}
		// UpdateID rewrites only the id.
		nid := verifNondetUint32("newid")
		verifAssert(h.UpdateID(enc, nid) == nil, "UpdateID accepts a valid header")
		want2 := append(verifC36RefHeader(nid, index), payload...)
		verifAssert(verifC36BytesEq(enc, want2), "UpdateID replaces exactly the id bytes")
	}
	verifReached("c36-round-trip")
}

// Two registrations (different value types) under arbitrary ids / index paths: each value
// encodes with its own header and decodes through its own decoder.
func VerifC36_twoRegistrations() {
	id1, id2 := verifNondetUint32("id1"), verifNondetUint32("id2")
	d1 := 1 + verifChoose(2)
	d2 := 1 + verifChoose(2)
	var idx1, idx2 []int
	if verifChoose(2) == 0 {
		// no index paths at all: ids must differ
		d1, d2 = 0, 0
		verifAssume(id1 != id2)
	} else {
		// Small symbolic index values keep varints one byte; widths are covered by roundTrip.
		idx1, idx2 = make([]int, d1), make([]int, d2)
		for i := range idx1 {
			idx1[i] = int(verifNondetUint8("idx1") & 3)
		}
		for i := range idx2 {
			idx2[i] = int(verifNondetUint8("idx2") & 3)
		}
		same := id1 == id2
		if d1 == d2 {
			eq := true
			for i := range idx1 {
				eq = verifAnd(eq, idx1[i] == idx2[i])
			}
			verifAssume(verifNot(verifAnd(same, eq)))
		}
	}
	p1 := verifNondetBytes("p1", 1)
	p2 := verifNondetBytes("p2", 2)
	var tag int
	s := NewSerde()
	s.Register(int(id1), &verifC36A{}, verifC36Opts(&tag, 1, idx1)...)
	s.Register(int(id2), &verifC36B{}, verifC36Opts(&tag, 2, idx2)...)

	if verifChoose(2) == 0 {
		enc, err := s.Encode(&verifC36A{p1})
		verifAssert(err == nil, "Encode of first registered value succeeds")
		verifAssert(verifC36BytesEq(enc, append(verifC36RefHeader(id1, idx1), p1...)), "first value carries its own header")
		v, err := s.DecodeNew(enc)
		verifAssert(err == nil, "DecodeNew of first value succeeds")
		out, ok := v.(*verifC36A)
		verifAssert(verifAnd(ok, tag == 1), "first value decodes through the first registration")
		verifAssert(verifC36BytesEq(out.b, p1), "first value payload recovered")
	} else {
		enc, err := s.Encode(&verifC36B{p2})
		verifAssert(err == nil, "Encode of second registered value succeeds")
		verifAssert(verifC36BytesEq(enc, append(verifC36RefHeader(id2, idx2), p2...)), "second value carries its own header")
		v, err := s.DecodeNew(enc)
		verifAssert(err == nil, "DecodeNew of second value succeeds")
		out, ok := v.(*verifC36B)
		verifAssert(verifAnd(ok, tag == 2), "second value decodes through the second registration")
		verifAssert(verifC36BytesEq(out.b, p2), "second value payload recovered")
	}
	verifReached("c36-two-registrations")
}

func verifC36HostileLen() int {
	if verifThorough() {
		return 6
	}
	return 5
}

// verifC36Measure returns the heap bytes allocated by f (native replay only).
func verifC36Measure(f func()) int64 {
	var m0, m1 runtime.MemStats
	best := int64(-1)
	for i := 0; i < 3; i++ {
		runtime.ReadMemStats(&m0)
		f()
		runtime.ReadMemStats(&m1)
		if d := int64(m1.TotalAlloc - m0.TotalAlloc); best < 0 || d < best {
			best = d
		}
	}
	return best
}

// ConfluentHeader.DecodeIndex on arbitrary bytes with any maxLength: never panics, allocates
// at most 8 bytes per input byte plus a constant, and returns exactly the reference result.
func VerifC36_decodeIndexHostile() {
	n := verifChoose(verifC36HostileLen() + 1)
	in := verifNondetBytes("in", n)
	verifC36CheckDecodeIndex(in, verifNondetInt("maxLength"))
	verifReached("c36-decode-index-hostile")
}

// Same check for inputs whose count varint is 6..10 bytes wide (quick: 7 or 10; counts up to
// the full int64 range), followed by 0..2 (quick 0..1) arbitrary bytes.
func VerifC36_decodeIndexWideCount() {
	var k, tail int
	if verifThorough() {
		k, tail = 6+verifChoose(5), verifChoose(3)
	} else {
		k, tail = 7+3*verifChoose(2), verifChoose(2) // 7 or 10 bytes wide, 0..1 more bytes
	}
	in := verifNondetBytes("in", k+tail)
	for i := 0; i < k-1; i++ {
		verifAssume(in[i] >= 0x80)
	}
	verifAssume(in[k-1] < 0x80)
	verifC36CheckDecodeIndex(in, verifNondetInt("maxLength"))
	verifReached("c36-decode-index-wide-count")
}

func verifC36CheckDecodeIndex(in []byte, maxLength int) {
	n := len(in)
	wantIdx, wantRest, cnt, res := verifC36RefIndex(in, maxLength)
	// A caller-chosen positive maxLength legitimately permits 8*maxLength bytes; the budget
	// below covers maxLength <= 4. For larger maxLength only counts up to 4 are explored.
	verifAssume(verifOr(maxLength <= 4, cnt <= 4))

	budget := int64(8*n + 64 + 8*4)
	var h ConfluentHeader
	var idx []int
	var rest []byte
	var err error
	if verifSymbolic() {
		verifAllocBudget(budget)
		idx, rest, err = h.DecodeIndex(in, maxLength)
		verifAllocBudget(1 << 40)
	} else {
		// Native replay: measure the real allocation (since fix f71316c a count larger than the
		// remaining input is refused before anything is allocated, so every input is safe to run).
		got := verifC36Measure(func() { idx, rest, err = h.DecodeIndex(in, maxLength) })
		verifAssert(got <= budget, "allocation budget exceeded")
	}

	verifAssert((err != nil) == (res != verifC36OK), "DecodeIndex errors exactly on malformed, negative, too deep or truncated input")
	switch res {
	case verifC36OK:
		verifAssert(verifC36IntsEq(idx, wantIdx), "DecodeIndex returns the encoded index path")
		verifAssert(verifC36BytesEq(rest, wantRest), "DecodeIndex returns the unread bytes")
	case verifC36Negative:
		verifAssert(err == ErrBadHeader, "negative index count is ErrBadHeader")
	case verifC36TooDeep:
		verifAssert(err == ErrNotRegistered, "index count above maxLength is ErrNotRegistered")
	}
	if err != nil {
		verifAssert(verifAnd(idx == nil, rest == nil), "no partial result on error")
	}
}

// DecodeID on arbitrary bytes.
func VerifC36_decodeIDHostile() {
	n := verifChoose(8)
	in := verifNondetBytes("in", n)
	var h ConfluentHeader
	id, rest, err := h.DecodeID(in)
	if n < 5 {
		verifAssert(err == ErrBadHeader, "short header is ErrBadHeader")
	} else {
		verifAssert((err != nil) == (in[0] != 0), "DecodeID errors exactly on a bad magic byte")
		if err != nil {
			verifAssert(err == ErrBadHeader, "bad magic byte is ErrBadHeader")
		} else {
			want := uint32(in[1])<<24 | uint32(in[2])<<16 | uint32(in[3])<<8 | uint32(in[4])
			verifAssert(uint32(id) == want, "DecodeID reads the big-endian id")
			verifAssert(verifC36BytesEq(rest, in[5:]), "DecodeID returns the bytes after the header")
		}
	}
	err2 := h.UpdateID(in, 0x01020304)
	verifAssert((err2 != nil) == (err != nil), "UpdateID accepts exactly the headers DecodeID accepts")
	verifReached("c36-decode-id-hostile")
}

// Serde.Decode / DecodeNew on arbitrary bytes against a Serde with three registrations:
// idA without index, idB with index paths [p] and [q, r]. Error or the right decoder with the
// right remaining bytes; never a panic; bounded allocation.
func VerifC36_serdeDecodeHostile() {
	idA, idB := verifNondetUint32("idA"), verifNondetUint32("idB")
	verifAssume(idA != idB)
	p, q, r := verifNondetInt("p"), verifNondetInt("q"), verifNondetInt("r")
	verifAssume(p != q)
	var tag int
	s := NewSerde()
	s.Register(int(idA), &verifC36A{}, verifC36Opts(&tag, 1, nil)...)
	s.Register(int(idB), &verifC36B{}, verifC36Opts(&tag, 2, []int{p})...)
	s.Register(int(idB), &verifC36A{}, verifC36Opts(&tag, 3, []int{q, r})...)

	extra := verifChoose(verifC36HostileLen() + 1)
	hdr := verifChoose(6) // 0..4: truncated header; 5: full header
	var in []byte
	if hdr < 5 {
		in = verifNondetBytes("in", hdr)
	} else {
		in = verifNondetBytes("in", 5+extra)
	}

	verifAllocBudget(int64(8*len(in) + 256))
	var out any
	var err error
	useNew := verifChoose(2) == 1
	var dst verifC36A
	if useNew {
		out, err = s.DecodeNew(in)
	} else {
		// the test codec accepts either value type as destination
		err = s.Decode(in, &dst)
		out = &dst
	}
	verifAllocBudget(1 << 40)

	if len(in) < 5 {
		verifAssert(err == ErrBadHeader, "Serde: short input is ErrBadHeader")
		verifReached("c36-serde-hostile-short")
		return
	}
	if in[0] != 0 {
		verifAssert(err == ErrBadHeader, "Serde: bad magic byte is ErrBadHeader")
		verifReached("c36-serde-hostile-magic")
		return
	}
	id := uint32(in[1])<<24 | uint32(in[2])<<16 | uint32(in[3])<<8 | uint32(in[4])
	body := in[5:]
	switch {
	case id == idA:
		verifAssert(err == nil, "Serde: registered id without index decodes")
		verifAssert(tag == 1, "Serde: id without index uses its decoder")
		verifAssert(verifC36BytesEq(verifC36Payload(out), body), "Serde: payload is everything after the id")
	case id == idB:
		idx, rest, _, res := verifC36RefIndex(body, 2)
		switch {
		case res != verifC36OK:
			verifAssert(err != nil, "Serde: malformed index is an error")
			if res == verifC36TooDeep {
				verifAssert(err == ErrNotRegistered, "Serde: index deeper than any registration is ErrNotRegistered")
			}
		case len(idx) == 1 && idx[0] == p:
			verifAssert(err == nil, "Serde: registered path [p] decodes")
			verifAssert(tag == 2, "Serde: path [p] uses its decoder")
			if useNew {
				_, ok := out.(*verifC36B)
				verifAssert(ok, "Serde: DecodeNew of path [p] yields its value type")
			}
			verifAssert(verifC36BytesEq(verifC36Payload(out), rest), "Serde: path [p] payload")
		case len(idx) == 2 && idx[0] == q && idx[1] == r:
			verifAssert(err == nil, "Serde: registered path [q r] decodes")
			verifAssert(tag == 3, "Serde: path [q r] uses its decoder")
			verifAssert(verifC36BytesEq(verifC36Payload(out), rest), "Serde: path [q r] payload")
		default:
			verifAssert(err == ErrNotRegistered, "Serde: unregistered index path is ErrNotRegistered")
		}
	default:
		verifAssert(err == ErrNotRegistered, "Serde: unregistered id is ErrNotRegistered")
	}
	verifReached("c36-serde-hostile")
}
