package sticky

import (
	"github.com/twmb/franz-go/pkg/kmsg"
)

// ---------------------------------------------------------------------------
// Shared input enumeration and reference predicates for C25/C26 (package sticky).
//
// Shape (members, topics, partition counts, subscriptions, which member claims which
// partition) is chosen per path with verifChoose; generations are symbolic int32.
// ---------------------------------------------------------------------------

var verifTopicNames = [...]string{"t0", "t1", "t2"}
var verifMemberNames = [...]string{"m0", "m1", "m2", "m3"}

type verifGroupIn struct {
	nMembers  int
	topics    map[string]int32 // topic => partition count (the balancer's input)
	order     []string         // topics in map insertion order
	subs      [][]string       // per member: subscribed topics
	claims    []map[string][]int32
	gens      []int32
	symGens   bool
	fixedGens bool
}

func (in *verifGroupIn) subscribes(m int, topic string) bool {
	for _, t := range in.subs[m] {
		if t == topic {
			return true
		}
	}
	return false
}

func (in *verifGroupIn) anySubscriber(topic string) bool {
	for m := 0; m < in.nMembers; m++ {
		if in.subscribes(m, topic) {
			return true
		}
	}
	return false
}

func (in *verifGroupIn) claimed(m int, topic string, p int32) bool {
	for _, q := range in.claims[m][topic] {
		if q == p {
			return true
		}
	}
	return false
}

// verifPick is verifChoose that makes no choice when there is only one option (the native
// replay runtime would otherwise consume a recorded choice the executor never made).
func verifPick(n int) int {
	if n <= 1 {
		return 0
	}
	return verifChoose(n)
}

// verifShape chooses members, topics, partition counts and subscriptions.
//   - minM..maxM members
//   - len(maxParts) topics, topic i with 0..maxParts[i] partitions
//   - revOrder: also explore the reversed insertion order of the topics map (the
//     balancer numbers topics in map iteration order)
//   - extraSub: additionally let m0 subscribe to a topic that is not in the topics map
func verifShape(minM, maxM int, maxParts []int, revOrder, extraSub bool) *verifGroupIn {
	return verifShapeSubs(minM, maxM, maxParts, revOrder, extraSub, false)
}

// verifShapeSubs: with nonEmptySubs every member subscribes to at least one topic.
func verifShapeSubs(minM, maxM int, maxParts []int, revOrder, extraSub, nonEmptySubs bool) *verifGroupIn {
	in := &verifGroupIn{topics: make(map[string]int32)}
	in.nMembers = minM + verifPick(maxM-minM+1)
	nTopics := len(maxParts)
	rev := revOrder && nTopics > 1 && verifPick(2) == 1
	for i := 0; i < nTopics; i++ {
		j := i
		if rev {
			j = nTopics - 1 - i
		}
		t := verifTopicNames[j]
		in.topics[t] = int32(verifPick(maxParts[j] + 1))
		in.order = append(in.order, t)
	}
	in.subs = make([][]string, in.nMembers)
	in.claims = make([]map[string][]int32, in.nMembers)
	in.gens = make([]int32, in.nMembers)
	for m := 0; m < in.nMembers; m++ {
		if nonEmptySubs {
			mask := 1 + verifPick(1<<nTopics-1)
			for i := 0; i < nTopics; i++ {
				if mask&(1<<i) != 0 {
					in.subs[m] = append(in.subs[m], verifTopicNames[i])
				}
			}
		} else {
			for i := 0; i < nTopics; i++ {
				if verifPick(2) == 1 {
					in.subs[m] = append(in.subs[m], verifTopicNames[i])
				}
			}
		}
		if extraSub && m == 0 && verifPick(2) == 1 {
			in.subs[m] = append(in.subs[m], "unknown")
		}
		in.claims[m] = make(map[string][]int32)
	}
	return in
}

// verifClaims lets every member claim an arbitrary subset of the existing partitions
// (whether or not it subscribes to the topic: a subscription may have just been dropped),
// so conflicting claims arise; wild additionally lets m0 claim a partition that does not
// exist (index == count or -1) and a topic that does not exist.
func (in *verifGroupIn) verifClaims(wild bool) {
	for m := 0; m < in.nMembers; m++ {
		for _, t := range in.order {
			n := in.topics[t]
			for p := int32(0); p < n; p++ {
				if verifPick(2) == 1 {
					in.claims[m][t] = append(in.claims[m][t], p)
				}
			}
		}
	}
	if wild {
		in.verifClaimsWild()
	}
}

// verifClaimsWild lets m0 additionally claim a partition index == count or -1 of the
// first topic, or partition 0 of a topic that does not exist.
func (in *verifGroupIn) verifClaimsWild() {
	t := in.order[0]
	switch verifPick(4) {
	case 1:
		in.claims[0][t] = append(in.claims[0][t], in.topics[t])
	case 2:
		in.claims[0][t] = append(in.claims[0][t], -1)
	case 3:
		in.claims[0]["gone"] = []int32{0}
	}
}

func verifGenName(m int) string { return "gen" + verifMemberNames[m] }

// verifGen picks member m's generation: a symbolic int32 (symGens) or, to keep the
// solver out of wide shape sweeps, one of {-1, 1, 2} (-1 = "no generation": sticky v0
// user data / pre-KIP-792 cooperative metadata), which realises every order and tie
// between two members and every tie pattern between three.
func (in *verifGroupIn) verifGen(m int) int32 {
	if in.symGens {
		return verifNondetInt32(verifGenName(m))
	}
	if in.fixedGens || len(in.claims[m]) == 0 {
		return 1
	}
	if !in.conflicted(m) {
		// generations are only compared between claimants of the same partition
		// (the sign of the others only selects Owned vs UserData, which carry the
		// same claim; the symbolic-generation harnesses cover it)
		return 1
	}
	return [...]int32{-1, 1, 2}[verifPick(3)]
}

// conflicted: does member m claim a partition that another member claims too?
func (in *verifGroupIn) conflicted(m int) bool {
	for t, ps := range in.claims[m] {
		for _, p := range ps {
			for o := 0; o < in.nMembers; o++ {
				if o != m && in.claimed(o, t, p) {
					return true
				}
			}
		}
	}
	return false
}

// eager members: claims travel in sticky UserData (v1 with symbolic generation, or v0
// without a generation field).
func (in *verifGroupIn) eagerMembers() []GroupMember {
	var members []GroupMember
	for m := 0; m < in.nMembers; m++ {
		in.gens[m] = in.verifGen(m)
		gm := GroupMember{ID: verifMemberNames[m], Topics: in.subs[m]}
		if len(in.claims[m]) > 0 {
			s := kmsg.StickyMemberMetadata{Generation: in.gens[m]}
			for topic, parts := range in.claims[m] {
				s.CurrentAssignment = append(s.CurrentAssignment, kmsg.StickyMemberMetadataCurrentAssignment{
					Topic:      topic,
					Partitions: parts,
				})
			}
			gm.UserData = s.AppendTo(nil)
		}
		members = append(members, gm)
	}
	return members
}

// cooperative members: claims travel in Owned with a symbolic generation; UserData
// carries the same claim (as the real JoinGroupMetadata does) and is what the balancer
// falls back to when the generation is negative.
func (in *verifGroupIn) coopMembers() []GroupMember {
	var members []GroupMember
	for m := 0; m < in.nMembers; m++ {
		in.gens[m] = in.verifGen(m)
		gm := GroupMember{ID: verifMemberNames[m], Topics: in.subs[m], Cooperative: true, Generation: in.gens[m]}
		if len(in.claims[m]) > 0 {
			s := kmsg.StickyMemberMetadata{Generation: in.gens[m]}
			for topic, parts := range in.claims[m] {
				s.CurrentAssignment = append(s.CurrentAssignment, kmsg.StickyMemberMetadataCurrentAssignment{
					Topic:      topic,
					Partitions: parts,
				})
				gm.Owned = append(gm.Owned, kmsg.ConsumerMemberMetadataOwnedPartition{Topic: topic, Partitions: parts})
			}
			gm.UserData = s.AppendTo(nil)
		}
		members = append(members, gm)
	}
	return members
}

// verifPlanSizes returns the number of partitions the plan gives each member.
func (in *verifGroupIn) verifPlanSizes(plan Plan) []int {
	sizes := make([]int, in.nMembers)
	for m := 0; m < in.nMembers; m++ {
		for _, parts := range plan[verifMemberNames[m]] {
			sizes[m] += len(parts)
		}
	}
	return sizes
}

// verifCheckValid is the C25 reference predicate, written from the property statement:
// every partition of every topic with at least one subscriber is assigned to exactly one
// member, that member subscribes to the topic, and nothing else is assigned.
func (in *verifGroupIn) verifCheckValid(plan Plan, who string) {
	// nothing else assigned: only known members, known topics, existing partitions,
	// subscribed owners
	for id, topics := range plan {
		m := -1
		for i := 0; i < in.nMembers; i++ {
			if verifMemberNames[i] == id {
				m = i
			}
		}
		if m < 0 {
			verifFail(who + ": plan names a member that is not in the group")
			return
		}
		for topic, parts := range topics {
			n, known := in.topics[topic]
			if !known {
				verifFail(who + ": plan assigns a topic that is not in the topic set")
				return
			}
			for _, p := range parts {
				if p < 0 || p >= n {
					verifFail(who + ": plan assigns a partition that does not exist")
					return
				}
				if !in.subscribes(m, topic) {
					verifFail(who + ": plan assigns a partition to a member not subscribed to its topic")
					return
				}
			}
		}
	}
	// exactly one owner for every partition of a subscribed topic; none otherwise
	for topic, n := range in.topics {
		want := 0
		if in.anySubscriber(topic) {
			want = 1
		}
		for p := int32(0); p < n; p++ {
			owners := 0
			for _, topics := range plan {
				for _, q := range topics[topic] {
					if q == p {
						owners++
					}
				}
			}
			if owners > want {
				if want == 0 {
					verifFail(who + ": partition of an unsubscribed topic is assigned")
				} else {
					verifFail(who + ": partition is assigned more than once")
				}
				return
			}
			if owners < want {
				verifFail(who + ": partition of a subscribed topic is left unassigned")
				return
			}
		}
	}
}

// verifOwnerClaims gives every existing partition an owner set chosen from: nobody, one
// member, or (conflicts) a pair of members.
func (in *verifGroupIn) verifOwnerClaims(conflicts bool) {
	type pair struct{ a, b int }
	var pairs []pair
	if conflicts {
		for a := 0; a < in.nMembers; a++ {
			for b := a + 1; b < in.nMembers; b++ {
				pairs = append(pairs, pair{a, b})
			}
		}
	}
	for _, t := range in.order {
		for p := int32(0); p < in.topics[t]; p++ {
			c := verifPick(1 + in.nMembers + len(pairs))
			switch {
			case c == 0:
			case c <= in.nMembers:
				in.claims[c-1][t] = append(in.claims[c-1][t], p)
			default:
				pr := pairs[c-1-in.nMembers]
				in.claims[pr.a][t] = append(in.claims[pr.a][t], p)
				in.claims[pr.b][t] = append(in.claims[pr.b][t], p)
			}
		}
	}
}

// verifRuns: natively (replay of a counterexample) Go randomises map iteration, and the
// balancer numbers topics in map order; repeat the call so that a replay does not depend
// on one lucky order. Symbolically maps are insertion-ordered (both orders are explored
// through revOrder) and one run is made.
func verifRuns() int {
	if verifSymbolic() {
		return 1
	}
	return 64
}

// verifBalanceValid runs the balancer and checks the C25 predicate on its plan.
func (in *verifGroupIn) verifBalanceValid(members []GroupMember, partitionRacks map[string][]string, who string) Plan {
	var plan Plan
	for i := verifRuns(); i > 0; i-- {
		if partitionRacks == nil {
			plan = Balance(members, in.topics)
		} else {
			plan = BalanceWithRacks(members, in.topics, partitionRacks)
		}
		in.verifCheckValid(plan, who)
	}
	return plan
}
