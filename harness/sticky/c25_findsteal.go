package sticky

// VerifC25_findStealStep: ONE findSteal from an arbitrary valid steal-graph state (the
// "arbitrary pre-state, one step" idiom): every partition move balanceComplex ever makes is a
// segment of a path returned by findSteal, so if every returned path only hands a partition to
// a member subscribed to its topic, taking it from the member that owns it, along a connected
// chain that ends at the searching member, no sequence of steals can produce an invalid plan.
//
// State family: 4 members; one single-partition topic for each of the 6 member pairs,
// subscribed by exactly that pair (so subscriptions are heterogeneous and every member can
// reach every other one directly or through intermediaries). The CURRENT OWNER of each partition
// is chosen per path and its ORIGINAL OWNER is symbolic (each one of the topic's two subscribers
// - the invariant assignUnassignedAndInitGraph and reassignPartition maintain; the solver decides
// every "would this steal restore the original owner" branch); the searching member is chosen
// per path; the load level of each member is chosen per path relative to the searcher
// (searcher 0, others 1..2 (thorough: 0..3)). Levels are NOT tied to the ownership bits: a
// superset of the reachable states (a member may hold further partitions of private topics),
// which findSteal must handle just the same because it reads nothing but len(plan[m]).
//
// Checked on the returned path (found): non-empty; last segment hands to the searcher;
// consecutive segments connect (dst of k = src of k+1); every segment's src owns the partition,
// its dst subscribes to the partition's topic and differs from src; the path starts at a member
// at least two levels above the searcher; no member appears twice. Not found: no member two
// levels up is reachable at all (reference: transitive closure over subscriptions/ownership).
func VerifC25_findStealStep() {
	verifUnwind(512)
	const nm = 4
	pairs := [6][2]uint16{{0, 1}, {0, 2}, {0, 3}, {1, 2}, {1, 3}, {2, 3}}
	from := uint16(verifPick(nm))
	minLevel, maxLevel := 1, 2
	if verifThorough() {
		minLevel, maxLevel = 0, 3
	}
	b := &balancer{members: make([]GroupMember, nm), plan: make(membersPartitions, nm)}
	var level [nm]int
	for m := 0; m < nm; m++ {
		if uint16(m) != from {
			level[m] = minLevel + verifPick(maxLevel-minLevel+1)
		}
		b.plan[m] = make(memberPartitions, level[m])
	}
	topicPotentials := make([][]uint16, len(pairs))
	cxns := make([]partitionConsumer, len(pairs))
	var owner [6]uint16
	for t, p := range pairs {
		b.topicInfos = append(b.topicInfos, topicInfo{partNum: int32(t), partitions: 1, topic: verifTopicNamesPair[t]})
		topicPotentials[t] = []uint16{p[0], p[1]}
		owner[t] = p[verifPick(2)]
		orig := uint16(verifIteInt(verifNondetBool("orig"), int(p[0]), int(p[1])))
		cxns[t] = partitionConsumer{memberNum: owner[t], originalNum: orig}
	}
	g := b.newGraph(cxns, topicPotentials)
	b.stealGraph = g

	path, found := g.findSteal(from)

	// reference reachability (no forking: term-level connectives)
	var reach [nm]bool
	reach[from] = true
	for round := 0; round < nm; round++ {
		for t, p := range pairs {
			for _, u := range p {
				for m := uint16(0); m < nm; m++ {
					if m == p[0] || m == p[1] {
						reach[m] = verifOr(reach[m], verifAnd(reach[u], owner[t] == m))
					}
				}
			}
		}
	}
	stealable := false
	for m := 0; m < nm; m++ {
		if level[m] > level[from]+1 {
			stealable = verifOr(stealable, reach[m])
		}
	}
	if !found {
		verifAssert(!stealable, "findSteal finds a path whenever a member two levels up is reachable through subscriptions")
		verifAssert(len(path) == 0, "findSteal returns no path when it reports none found")
		verifReached("c25-findsteal-none")
		return
	}
	verifAssert(stealable, "findSteal reports a path only if a member two levels up is reachable")
	n := len(path)
	verifAssert(n >= 1 && n <= nm-1, "a steal path has between 1 and members-1 segments")
	if n < 1 || n > nm-1 {
		return
	}
	verifAssert(path[n-1].dst == from, "the last segment of a steal path hands a partition to the searching member")
	verifAssert(level[path[0].src] > level[from]+1, "a steal path starts at a member at least two levels above the searching member")
	var seen [nm]bool
	seen[from] = true
	for k := 0; k < n; k++ {
		s := path[k]
		verifAssert(s.part >= 0 && int(s.part) < len(pairs) && s.src < nm && s.dst < nm, "steal segment names an existing partition and members")
		if !(s.part >= 0 && int(s.part) < len(pairs) && s.src < nm && s.dst < nm) {
			return
		}
		verifAssert(owner[s.part] == s.src, "a steal segment takes the partition from the member that owns it")
		p := pairs[s.part]
		verifAssert(verifOr(s.dst == p[0], s.dst == p[1]), "a steal segment hands a partition only to a member subscribed to its topic")
		verifAssert(s.src != s.dst, "a steal segment moves the partition to a different member")
		if k+1 < n {
			verifAssert(s.dst == path[k+1].src, "consecutive steal segments connect (the receiver of one is the giver of the next)")
		}
		verifAssert(!seen[s.src], "no member gives twice on one steal path")
		seen[s.src] = true
	}
	verifReached("c25-findsteal-found")
}

var verifTopicNamesPair = [...]string{"p01", "p02", "p03", "p12", "p13", "p23"}
