package sticky

// VerifC25_stickyEager: sticky.Balance with arbitrary (possibly conflicting, stale)
// UserData claims yields a valid assignment.
func VerifC25_stickyEager() {
	var in *verifGroupIn
	if verifThorough() {
		in = verifShape(1, 2, []int{2, 2}, true, false)
	} else {
		in = verifShape(1, 2, []int{1, 1}, true, false)
	}
	in.verifClaims(false)
	in.verifBalanceValid(in.eagerMembers(), nil, "sticky")
	verifReached("c25-sticky-eager")
}

// VerifC25_stickyEager3: three members (quick keeps a thin slice).
func VerifC25_stickyEager3() {
	var in *verifGroupIn
	if verifThorough() {
		in = verifShapeSubs(3, 3, []int{2, 1}, false, false, true)
		in.verifOwnerClaims(true)
	} else {
		in = verifShapeSubs(3, 3, []int{1, 1}, false, false, true)
		in.verifOwnerClaims(false)
	}
	in.verifBalanceValid(in.eagerMembers(), nil, "sticky (3 members)")
	verifReached("c25-sticky-eager3")
}

// VerifC25_stickyCooperative: the cooperative input path (Owned + Generation, UserData
// fallback for negative generations).
func VerifC25_stickyCooperative() {
	var in *verifGroupIn
	if verifThorough() {
		in = verifShape(1, 2, []int{2, 2}, false, false)
	} else {
		in = verifShape(1, 2, []int{2, 1}, false, false)
	}
	in.verifClaims(false)
	in.verifBalanceValid(in.coopMembers(), nil, "sticky cooperative input")
	verifReached("c25-sticky-coop")
}

// VerifC25_stickySymbolicGenerations: generations are unconstrained symbolic int32 (the
// balancer only compares them), on a narrower shape sweep: every partition has an owner
// set from {nobody, one member, a conflicting pair}.
func VerifC25_stickySymbolicGenerations() {
	var in *verifGroupIn
	if verifThorough() {
		if verifPick(2) == 0 {
			in = verifShape(2, 2, []int{2, 1}, false, false)
		} else {
			in = verifShapeSubs(3, 3, []int{1, 1}, false, false, true)
			if len(in.subs[0]) < 2 || in.topics["t0"] == 0 || in.topics["t1"] == 0 {
				return // three members: m0 subscribes to both topics, one partition each
			}
		}
	} else {
		in = verifShapeSubs(2, 2, []int{1, 1}, false, false, true)
	}
	in.symGens = true
	in.verifOwnerClaims(true)
	// the cooperative input path falls back to the eager one (UserData) for negative
	// generations, so only it is run
	var members []GroupMember
	members = in.coopMembers()
	in.verifBalanceValid(members, nil, "sticky (symbolic generations)")
	verifReached("c25-sticky-symgen")
}

// VerifC25_stickyWildClaims: claims naming partitions / topics that do not exist, and a
// subscription to a topic that is not in the topic set.
func VerifC25_stickyWildClaims() {
	var in *verifGroupIn
	if verifThorough() {
		in = verifShape(1, 2, []int{2, 1}, false, true)
		in.verifClaims(true)
	} else {
		in = verifShapeSubs(2, 2, []int{1, 1}, false, true, true)
		in.verifOwnerClaims(true)
		in.verifClaimsWild()
	}
	var members []GroupMember
	if verifThorough() && verifPick(2) == 0 {
		members = in.eagerMembers()
	} else {
		members = in.coopMembers()
	}
	in.verifBalanceValid(members, nil, "sticky (wild claims)")
	verifReached("c25-sticky-wild")
}

// VerifC25_stickyRacks: BalanceWithRacks with member racks and partition racks from
// {none, a, b} (rack names only matter up to equality, so m0 is in {none, a}); rack lists
// may be shorter or longer than the partition count or miss a topic.
func VerifC25_stickyRacks() {
	var in *verifGroupIn
	wide := false // thorough: two members on (2,2) with odd rack lists, or three members
	if verifThorough() {
		if verifPick(2) == 0 {
			in = verifShapeSubs(2, 2, []int{2, 2}, false, false, true)
			wide = true
		} else {
			in = verifShapeSubs(3, 3, []int{2, 1}, false, false, true)
		}
	} else {
		in = verifShapeSubs(2, 2, []int{2, 1}, false, false, true)
	}
	// a few prior-ownership patterns (racks only steer unassigned partitions); no
	// conflicting claims, so generations are irrelevant
	nPatterns := 2
	if wide {
		nPatterns = 3
	}
	switch verifPick(nPatterns) {
	case 1:
		for _, t := range in.order {
			for p := int32(0); p < in.topics[t]; p++ {
				in.claims[0][t] = append(in.claims[0][t], p)
			}
		}
	case 2:
		if in.topics[in.order[0]] > 0 {
			in.claims[0][in.order[0]] = []int32{0}
		}
	}
	in.fixedGens = true
	racks := [...]string{"", "a", "b"}
	var members []GroupMember
	members = in.eagerMembers()
	for m := range members {
		if m == 0 {
			members[m].Rack = racks[verifPick(2)]
		} else {
			members[m].Rack = racks[verifPick(3)]
		}
	}
	partitionRacks := make(map[string][]string)
	for _, t := range in.order {
		var rs []string
		for p := int32(0); p < in.topics[t]; p++ {
			rs = append(rs, racks[verifPick(3)])
		}
		partitionRacks[t] = rs
	}
	if wide {
		t := in.order[0]
		switch verifPick(4) {
		case 1:
			partitionRacks[t] = append(partitionRacks[t], "a") // longer than the partition count
		case 2:
			if rs := partitionRacks[t]; len(rs) > 0 {
				partitionRacks[t] = rs[:len(rs)-1] // shorter
			}
		case 3:
			delete(partitionRacks, t) // topic missing from the rack map
		}
	}
	in.verifBalanceValid(members, partitionRacks, "sticky rack-aware")
	verifReached("c25-sticky-racks")
}

// VerifC25_stickyDuplicateSubscription: a member's subscription list names a topic twice
// (the wire format is a list; the kgo wrapper sorts but does not de-duplicate it). Two
// members, one partition per topic, no prior ownership.
func VerifC25_stickyDuplicateSubscription() {
	in := verifShapeSubs(2, 2, []int{0, 0}, true, false, true)
	in.topics["t0"], in.topics["t1"] = 1, 1
	in.fixedGens = true
	members := in.eagerMembers()
	d := verifPick(in.nMembers)
	members[d].Topics = append([]string{members[d].Topics[0]}, members[d].Topics...)
	in.verifBalanceValid(members, nil, "sticky (duplicate topic in a subscription)")
	verifReached("c25-sticky-dupsub")
}
