package sticky

// ---------------------------------------------------------------------------
// C26 reference predicates, written from the property statement.
// ---------------------------------------------------------------------------

// verifOwnsTopic: does member m own a partition of topic in plan?
func verifOwnsTopic(plan Plan, m int, topic string) bool {
	return len(plan[verifMemberNames[m]][topic]) > 0
}

// verifImprovable reports whether some partition can move, directly or through a chain of
// moves, from a member to one holding at least two fewer partitions: a hop x -> y exists
// when x owns a partition of a topic y subscribes to (x gives it to y); along a chain
// only the first member loses one partition and the last gains one.
func (in *verifGroupIn) verifImprovable(plan Plan) bool {
	sizes := in.verifPlanSizes(plan)
	n := in.nMembers
	reach := make([][]bool, n)
	for x := 0; x < n; x++ {
		reach[x] = make([]bool, n)
		for y := 0; y < n; y++ {
			if x == y {
				continue
			}
			for _, t := range in.subs[y] {
				if verifOwnsTopic(plan, x, t) {
					reach[x][y] = true
				}
			}
		}
	}
	for k := 0; k < n; k++ { // transitive closure
		for x := 0; x < n; x++ {
			for y := 0; y < n; y++ {
				if reach[x][k] && reach[k][y] {
					reach[x][y] = true
				}
			}
		}
	}
	for x := 0; x < n; x++ {
		for y := 0; y < n; y++ {
			if x != y && reach[x][y] && sizes[y] <= sizes[x]-2 {
				return true
			}
		}
	}
	return false
}

// verifPriorPlan renders the members' claims as a plan.
func (in *verifGroupIn) verifPriorPlan() Plan {
	prior := make(Plan)
	for m := 0; m < in.nMembers; m++ {
		prior[verifMemberNames[m]] = in.claims[m]
	}
	return prior
}

func verifSamePlan(in *verifGroupIn, a, b Plan) bool {
	for m := 0; m < in.nMembers; m++ {
		id := verifMemberNames[m]
		for t, n := range in.topics {
			for p := int32(0); p < n; p++ {
				if verifHas(a[id][t], p) != verifHas(b[id][t], p) {
					return false
				}
			}
		}
	}
	return true
}

func verifHas(ps []int32, p int32) bool {
	for _, q := range ps {
		if q == p {
			return true
		}
	}
	return false
}

func (in *verifGroupIn) verifBalanceOptimal(members []GroupMember, who string) {
	for i := verifRuns(); i > 0; i-- {
		plan := Balance(members, in.topics)
		in.verifCheckValid(plan, who)
		if in.verifImprovable(plan) {
			verifFail(who + ": a partition could still move (directly or through a chain) to a member with at least two fewer")
		}
	}
}

// VerifC26_optimal2: one or two members, arbitrary (conflicting, stale) claims.
func VerifC26_optimal2() {
	var in *verifGroupIn
	if verifThorough() {
		in = verifShape(1, 2, []int{2, 2}, true, false)
	} else {
		in = verifShape(1, 2, []int{2, 1}, false, false)
	}
	in.verifClaims(false)
	// quick: the cooperative input path only (it falls back to the eager UserData path
	// for negative generations)
	if verifThorough() && verifPick(2) == 0 {
		in.verifBalanceOptimal(in.eagerMembers(), "sticky")
	} else {
		in.verifBalanceOptimal(in.coopMembers(), "sticky cooperative input")
	}
	verifReached("c26-optimal2")
}

// VerifC26_optimal3: three members (chains of two hops exist), every member subscribed
// to at least one topic; per partition an owner from {nobody, one member} on (<=2,<=2)
// partitions (thorough: also nobody/one/conflicting pair on (<=2,<=1)).
func VerifC26_optimal3() {
	var in *verifGroupIn
	if verifThorough() && verifPick(2) == 1 {
		// conflicting claims on a smaller shape, cooperative input (it also reaches the
		// UserData parser for negative generations)
		in = verifShapeSubs(3, 3, []int{2, 1}, false, false, true)
		in.verifOwnerClaims(true)
		in.verifBalanceOptimal(in.coopMembers(), "sticky cooperative input (3 members)")
	} else {
		in = verifShapeSubs(3, 3, []int{2, 2}, false, false, true)
		in.verifOwnerClaims(false)
		in.fixedGens = true // without conflicting claims generations are never compared
		in.verifBalanceOptimal(in.eagerMembers(), "sticky (3 members)")
	}
	verifReached("c26-optimal3")
}

// VerifC26_optimal3wide: three members, one topic up to 3 partitions (thorough).
func VerifC26_optimal3wide() {
	var in *verifGroupIn
	if verifThorough() {
		in = verifShapeSubs(3, 3, []int{3, 2}, true, false, true)
	} else {
		in = verifShapeSubs(3, 3, []int{3, 1}, false, false, true)
	}
	in.verifOwnerClaims(false)
	in.fixedGens = true
	in.verifBalanceOptimal(in.eagerMembers(), "sticky (3 members, wide)")
	verifReached("c26-optimal3wide")
}

// verifValidPrior gives every partition of a subscribed topic exactly one owner among the
// topic's subscribers.
func (in *verifGroupIn) verifValidPrior() {
	for _, t := range in.order {
		var subscribers []int
		for m := 0; m < in.nMembers; m++ {
			if in.subscribes(m, t) {
				subscribers = append(subscribers, m)
			}
		}
		if len(subscribers) == 0 {
			continue
		}
		for p := int32(0); p < in.topics[t]; p++ {
			m := subscribers[verifPick(len(subscribers))]
			in.claims[m][t] = append(in.claims[m][t], p)
		}
	}
}

// VerifC26_keepsBalanced: when the members' current assignments are valid (every
// partition of a subscribed topic owned by exactly one subscriber, nothing else claimed)
// and not improvable, the plan equals the current assignment.
func VerifC26_keepsBalanced() {
	var in *verifGroupIn
	if verifThorough() {
		in = verifShapeSubs(1, 3, []int{3, 2}, true, false, true)
	} else {
		in = verifShapeSubs(1, 3, []int{2, 2}, false, false, true)
	}
	in.verifValidPrior()
	prior := in.verifPriorPlan()
	if in.verifImprovable(prior) {
		return // not optimally balanced: nothing is promised
	}
	// valid claims never conflict, so generations must not matter: quick fixes them
	// (VerifC26_keepsBalancedAnyGeneration has them symbolic), thorough sweeps {-1,1,2}
	in.fixedGens = !verifThorough()
	var members []GroupMember
	if verifPick(2) == 0 {
		members = in.eagerMembers()
	} else {
		members = in.coopMembers()
	}
	for i := verifRuns(); i > 0; i-- {
		plan := Balance(members, in.topics)
		in.verifCheckValid(plan, "sticky on a balanced group")
		if !verifSamePlan(in, plan, prior) {
			verifFail("a valid, optimally balanced current assignment is changed by the sticky balancer")
		}
	}
	verifReached("c26-keeps-balanced")
}

// VerifC26_keepsBalancedAnyGeneration: as above on a small shape with unconstrained
// symbolic generations.
func VerifC26_keepsBalancedAnyGeneration() {
	var in *verifGroupIn
	if verifThorough() {
		in = verifShapeSubs(2, 3, []int{2, 1}, false, false, true)
	} else {
		in = verifShapeSubs(2, 2, []int{2, 1}, false, false, true)
	}
	in.verifValidPrior()
	prior := in.verifPriorPlan()
	if in.verifImprovable(prior) {
		return
	}
	in.symGens = true
	members := in.coopMembers()
	// a cooperative member may carry its current assignment ONLY in the KIP-429 owned-partitions
	// field (no sticky user data: other clients do that); then every generation >= 0 counts,
	// including 0, the first generation of a group
	if verifPick(2) == 1 {
		for i := range members {
			members[i].UserData = nil
			verifAssume(members[i].Generation >= 0)
		}
	}
	plan := Balance(members, in.topics)
	in.verifCheckValid(plan, "sticky on a balanced group")
	if !verifSamePlan(in, plan, prior) {
		verifFail("a valid, optimally balanced current assignment is changed by the sticky balancer (symbolic generations)")
	}
	verifReached("c26-keeps-balanced-symgen")
}

// VerifC26_chain4: the smallest family in which an improving chain has THREE hops and may have
// to pass through a member that holds fewer partitions than the one the search came from.
// Four members in a line, topic ti shared by members i and i+1 only:
//
//	m0 {t0}   m1 {t0,t1}   m2 {t1,t2}   m3 {t2}
//
// Partition counts from a list of triples (both orientations of each lopsided one); every
// partition has exactly one prior owner, chosen per path among its two subscribers (a valid,
// conflict-free prior assignment); both topic numberings. The plan must be valid and not
// improvable by any chain (reference: transitive closure over the returned plan).
func VerifC26_chain4() {
	triples := [][3]int32{{3, 1, 4}, {4, 1, 3}, {1, 1, 4}, {4, 1, 1}}
	if verifThorough() {
		triples = append(triples, [3]int32{2, 2, 4}, [3]int32{4, 2, 2}, [3]int32{3, 2, 3}, [3]int32{1, 2, 4}, [3]int32{4, 2, 1}, [3]int32{2, 1, 4}, [3]int32{4, 1, 2})
	}
	tr := triples[verifPick(len(triples))]
	in := &verifGroupIn{nMembers: 4, topics: map[string]int32{}, fixedGens: true}
	in.order = []string{"t0", "t1", "t2"}
	if verifPick(2) == 1 {
		in.order = []string{"t2", "t1", "t0"}
	}
	for _, t := range in.order {
		in.topics[t] = tr[int(t[1]-'0')]
	}
	in.subs = [][]string{{"t0"}, {"t0", "t1"}, {"t1", "t2"}, {"t2"}}
	in.claims = make([]map[string][]int32, 4)
	in.gens = make([]int32, 4)
	for m := range in.claims {
		in.claims[m] = map[string][]int32{}
	}
	for ti, t := range []string{"t0", "t1", "t2"} {
		for p := int32(0); p < tr[ti]; p++ {
			owner := ti + verifPick(2) // member ti or ti+1
			in.claims[owner][t] = append(in.claims[owner][t], p)
		}
	}
	in.verifBalanceOptimal(in.eagerMembers(), "sticky (4-member chain)")
	verifReached("c26-chain4")
}

// VerifC26_joiners4: four members over two topics — the smallest shapes in which the complex
// path has a middle load level that empties while lighter members are still being served
// (incumbents holding whole topics, empty joiners). Each member subscribes to t0, t1 or both;
// t0 has 2 or 4 partitions, t1 1 or 2; per topic one incumbent (any subscriber, or nobody)
// owns all of its partitions before the rebalance. Balance must return (every loop within 200
// iterations) with a plan that is valid and not improvable.
// verifTerminatesWithin(k): a loop of the code under test running more than k iterations is a
// violation (the balancer's loops are bounded by members x partitions); intercepted by the
// executor, a no-op natively (a non-terminating replay ends at the test timeout).
func verifTerminatesWithin(k int) {}

func VerifC26_joiners4() {
	verifTerminatesWithin(200)
	in := &verifGroupIn{nMembers: 4, topics: map[string]int32{}, fixedGens: true}
	in.order = []string{"t0", "t1"}
	in.topics["t0"] = int32(2 + 2*verifPick(2))
	in.topics["t1"] = int32(1 + verifPick(2))
	in.claims = make([]map[string][]int32, 4)
	in.gens = make([]int32, 4)
	for m := 0; m < 4; m++ {
		in.claims[m] = map[string][]int32{}
		in.subs = append(in.subs, [][]string{{"t0"}, {"t1"}, {"t0", "t1"}}[verifPick(3)])
	}
	for _, t := range in.order {
		var subs []int
		for m := 0; m < 4; m++ {
			if in.subscribes(m, t) {
				subs = append(subs, m)
			}
		}
		if len(subs) == 0 {
			continue
		}
		k := verifPick(len(subs) + 1)
		if k == len(subs) {
			continue // nobody owns this topic yet
		}
		for p := int32(0); p < in.topics[t]; p++ {
			in.claims[subs[k]][t] = append(in.claims[subs[k]][t], p)
		}
	}
	in.verifBalanceOptimal(in.eagerMembers(), "sticky (4 members, incumbents and joiners)")
	verifReached("c26-joiners4")
}
