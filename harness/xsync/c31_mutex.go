package xsync

type verifC31M struct {
	mu      Mutex
	rw      RWMutex
	writers int
	readers int
	bad     string
	done    int
}

func (w *verifC31M) fail(s string) {
	if w.bad == "" {
		w.bad = s
	}
}

func (w *verifC31M) enterW() {
	if w.writers > 0 || w.readers > 0 {
		w.fail("writer entered while the lock was held")
	}
	w.writers++
	verifYield()
	w.writers--
}

func (w *verifC31M) enterR() {
	if w.writers > 0 {
		w.fail("reader entered while a writer held the lock")
	}
	w.readers++
	verifYield()
	w.readers--
}

func (w *verifC31M) mutexUser(kind int) {
	switch kind {
	case 0:
		w.mu.Lock()
		w.enterW()
		w.mu.Unlock()
	case 1:
		if w.mu.TryLock() {
			w.enterW()
			w.mu.Unlock()
		}
	}
	w.done++
}

func (w *verifC31M) rwUser(kind int) {
	switch kind {
	case 0:
		w.rw.Lock()
		w.enterW()
		w.rw.Unlock()
	case 1:
		w.rw.RLock()
		w.enterR()
		w.rw.RUnlock()
	case 2:
		if w.rw.TryLock() {
			w.enterW()
			w.rw.Unlock()
		}
	case 3:
		if w.rw.TryRLock() {
			w.enterR()
			w.rw.RUnlock()
		}
	}
	w.done++
}

func verifC31Delays() int {
	if verifThorough() {
		return 5
	}
	return 3
}

// Channel-backed Mutex (build tag synctests): exclusion, TryLock truthfulness, no deadlock.
func VerifC31_synctestMutex() {
	verifPreemptions(verifC31Delays())
	w := &verifC31M{}
	n := 3
	for i := 0; i < n; i++ {
		go w.mutexUser(verifChoose(2))
	}
	verifRunAll()
	verifAssert(w.bad == "", "synctest Mutex excludes")
	verifAssert(w.done == n, "synctest Mutex never deadlocks on matched Lock/Unlock pairs")
	verifAssert(w.mu.TryLock(), "mutex is free at quiescence")
	verifReached("c31-synctest-mutex")
}

// Channel-backed RWMutex: writers exclude everyone, readers exclude writers, Try* truthful.
func VerifC31_synctestRWMutex() {
	verifPreemptions(verifC31Delays() - 1)
	w := &verifC31M{}
	n := 3
	for i := 0; i < n; i++ {
		go w.rwUser(verifChoose(4))
	}
	verifRunAll()
	verifAssert(w.bad == "", "synctest RWMutex: writers exclude all, readers exclude writers")
	verifAssert(w.done == n, "synctest RWMutex never deadlocks on matched pairs")
	verifAssert(w.rw.TryLock(), "rwmutex is free at quiescence")
	verifReached("c31-synctest-rwmutex")
}
