#!/bin/sh
# Builds the gosym engine and verifctl from files on disk only (offline).
set -e
cd "$(dirname "$0")"
export GOFLAGS=-mod=mod GOPROXY=off GOTOOLCHAIN=auto GOWORK=off
mkdir -p engine/bin evidence replays work
(cd engine && go build -o bin/verifctl ./cmd/verifctl)
# warm the build cache for the work module (packages under test + replay test deps)
(cd ws && go build ./... && go vet -vettool=/bin/true ./... >/dev/null 2>&1 || true)
echo setup-ok
