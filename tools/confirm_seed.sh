#!/bin/sh
# usage: tools/confirm_seed.sh <worktree> <seed-dir> <pkg-dir-relative> <go-test-run-regex> [module-dir-relative]
# SEED_TESTFLAGS: extra go test flags for the demo (e.g. -tags synctests, -modfile=...)
# Confirms a seeded change in its scratch worktree: demo passes without the change, fails with it,
# the module builds and the stable tests of the package still pass.
wt=$1; sd=$2; pkg=$3; run=$4; mod=${5:-.}
export GOFLAGS=-mod=mod GOPROXY=off
cd $wt || exit 2
git checkout -- . 
demo=$(ls $sd/*test.go.txt | head -1)
cp $demo $pkg/zz_seed_demo_test.go
echo "--- without change:"; (cd $mod && go test $SEED_TESTFLAGS -vet=off -count=1 -run "$run" ./$(realpath --relative-to=$mod $pkg)/ 2>&1 | tail -2)
git apply $sd/patch.diff || { echo "PATCH DOES NOT APPLY"; rm -f $pkg/zz_seed_demo_test.go; exit 1; }
echo "--- with change:"; (cd $mod && go test $SEED_TESTFLAGS -vet=off -count=1 -run "$run" ./$(realpath --relative-to=$mod $pkg)/ 2>&1 | tail -3)
rm -f $pkg/zz_seed_demo_test.go
echo "--- build:"; (cd $mod && go build ./... 2>&1 | tail -2; echo "build exit $?")
if [ "$pkg" = "pkg/kgo" ]; then
  pat=$(python3 -c "
import json
b=json.load(open('/root/.vp/BASELINE.json'))
ts=sorted(set(x.split('::')[1].split('/')[0] for x in b['stable_pass'] if x.startswith('github.com/twmb/franz-go/pkg/kgo::')))
print('^('+'|'.join(ts)+')\$')")
  echo "--- stable kgo tests with change:"; go test -vet=off -count=1 -run "$pat" ./pkg/kgo/ 2>&1 | tail -1
else
  echo "--- package tests with change:"; (cd $mod && go test $SEED_TESTFLAGS -vet=off -count=1 ${SEED_PKGRUN:+-run "$SEED_PKGRUN"} ./$(realpath --relative-to=$mod $pkg)/ 2>&1 | tail -1)
fi
