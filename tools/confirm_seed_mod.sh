#!/bin/sh
# usage: tools/confirm_seed_mod.sh <worktree> <seed-dir>   (demo is a standalone module under <seed-dir>/demo)
wt=$1; sd=$2
export GOFLAGS=-mod=mod GOPROXY=off
cd $wt && git checkout -- . 
echo "--- without change:"; (cd $sd/demo && go test -vet=off -count=1 . 2>&1 | tail -1)
git apply $sd/patch.diff || { echo "PATCH DOES NOT APPLY"; exit 1; }
echo "--- with change:"; (cd $sd/demo && go test -vet=off -count=1 . 2>&1 | tail -1)
echo "--- build:"; go build ./... 2>&1 | tail -1; echo "build exit $?"
pat=$(python3 -c "
import json
b=json.load(open('/root/.vp/BASELINE.json'))
ts=sorted(set(x.split('::')[1].split('/')[0] for x in b['stable_pass'] if x.startswith('github.com/twmb/franz-go/pkg/kgo::')))
print('^('+'|'.join(ts)+')\$')")
echo "--- stable kgo tests with change:"; go test -vet=off -count=1 -run "$pat" ./pkg/kgo/ 2>&1 | tail -1
