#!/usr/bin/env python3
"""usage: keep_seed.py <ID> <mX> <detected: yes|no|after-strengthening> <check label that caught it or ''> [note]
Copies a confirmed seeded change from /tmp/seed/<ID>/_seed/<mX> into /verif/seeded/<ID>-<mX>/."""
import sys, os, json, shutil, glob
pid, m, det, label = sys.argv[1:5]
note = sys.argv[5] if len(sys.argv) > 5 else ''
src = f'/tmp/seed/{pid}/_seed/{m}'
dst = f"/verif/seeded/{pid}-{os.environ.get('KEEP_AS', m)}"  # KEEP_AS: store under another name (later batches reuse m1..m3)
os.makedirs(dst, exist_ok=True)
shutil.copy(f'{src}/patch.diff', f'{dst}/patch.diff')
for f in glob.glob(f'{src}/*test.go.txt') + glob.glob(f'{src}/demo_output.txt') + glob.glob(f'{src}/RUN.txt'):
    shutil.copy(f, dst)
if os.path.isdir(f'{src}/demo'):
    shutil.copytree(f'{src}/demo', f'{dst}/demo', dirs_exist_ok=True, ignore=shutil.ignore_patterns('*.test','*.out'))
meta = {}
try:
    meta = json.load(open(f'{src}/meta.json'))
except Exception as e:
    meta = {'note': 'agent meta.json unreadable: %s' % e}
meta['property'] = pid
meta['confirmed_by_main'] = {
    'what_i_ran': 'tools/confirm_seed.sh (tools/confirm_seed_mod.sh for a standalone demo module) in the scratch worktree /tmp/seed/%s: demo passes without the change, fails with it; go build ./... ok; stable tests of the package still pass' % pid,
    'check_run': 'tools/try_seed.sh %s /tmp/seed/%s (verifctl check against the worktree with the change applied, VERIF_REPO)' % (pid, pid),
    'detected': det, 'caught_by': label, 'note': note}
json.dump(meta, open(f'{dst}/meta.json', 'w'), indent=1)
print('kept', dst)
