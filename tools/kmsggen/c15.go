package main

func genC15(gm *GoModel) {}
