package main

// C15 generator: a reference interpreter of the protocol definitions (dsl.go) is specialised,
// per definition struct, into Go harness code that (a) fills the corresponding kmsg value field
// by field from symbolic inputs and (b) appends the bytes the *definitions* prescribe for those
// values, using the small reference encoding library of harness/kmsg/c15_support.go (not kbin).
// The correspondence between a definition and the Go struct is by field name at each nesting
// level; the Go field's element type supplies the nested Go struct.

import (
	"fmt"
	"sort"
	"strings"
)

type c15gen struct {
	gm       *GoModel
	dsl      *DSL
	code     strings.Builder
	builders map[string]bool // Go struct name -> builder emitted
	isdefs   map[string]bool
	defchk   map[string]bool
	defOrder []string
	problems map[string][]string // top-level type -> generation problems
	cur      string              // current top-level type
	nextID   int
	tmp      int
	eq       *c16gen
}

func (g *c15gen) problem(format string, a ...interface{}) {
	msg := fmt.Sprintf(format, a...)
	for _, p := range g.problems[g.cur] {
		if p == msg {
			return
		}
	}
	g.problems[g.cur] = append(g.problems[g.cur], msg)
}

func (g *c15gen) id() int { g.nextID++; return g.nextID }

func (g *c15gen) t(prefix string) string { g.tmp++; return fmt.Sprintf("%s%d", prefix, g.tmp) }

type cw struct {
	b   *strings.Builder
	ind int
}

func (w *cw) p(format string, a ...interface{}) {
	w.b.WriteString(strings.Repeat("\t", w.ind))
	fmt.Fprintf(w.b, format, a...)
	w.b.WriteString("\n")
}

func presentExpr(f *DField) string {
	var cs []string
	if f.MinVer > 0 {
		cs = append(cs, fmt.Sprintf("ver >= %d", f.MinVer))
	}
	if f.MaxVer >= 0 {
		cs = append(cs, fmt.Sprintf("ver <= %d", f.MaxVer))
	}
	if len(cs) == 0 {
		return "true"
	}
	return strings.Join(cs, " && ")
}

func nullableExpr(t *DType) string {
	if t.Nullable {
		return "true"
	}
	if t.NullableFrom >= 0 {
		return fmt.Sprintf("ver >= %d", t.NullableFrom)
	}
	return "false"
}

// goDefault renders the Go literal of a field's default per the definitions.
func goDefault(f *DField, gt *GoType) string {
	if f.HasDefault {
		switch f.Default {
		case "null":
			return "nil"
		}
		return f.Default
	}
	switch gt.Kind {
	case "bool":
		return "false"
	case "string":
		return `""`
	case "nstring", "bytes", "slice", "ptr":
		return "nil"
	case "uuid":
		return "[16]byte{}"
	}
	return "0"
}

var primGoKind = map[string]string{"bool": "bool", "int8": "int8", "int16": "int16", "uint16": "uint16", "int32": "int32",
	"uint32": "uint32", "int64": "int64", "float64": "float64", "varint": "int32", "varlong": "int64", "uuid": "uuid"}

var primNondet = map[string]string{"bool": "verifNondetBool", "int8": "verifNondetInt8", "int16": "verifNondetInt16", "uint16": "verifNondetUint16",
	"int32": "verifNondetInt32", "uint32": "verifNondetUint32", "int64": "verifNondetInt64", "varint": "verifNondetInt32", "varlong": "verifNondetInt64"}

var primEnc = map[string]string{"bool": "verifC15Bool", "int8": "verifC15I8", "int16": "verifC15I16", "uint16": "verifC15U16", "int32": "verifC15I32",
	"uint32": "verifC15U32", "int64": "verifC15I64", "varint": "verifC15Varint", "varlong": "verifC15Varlong"}

// emitValue writes code that gives lv (of Go type gt) a value of definition type t and appends
// its reference encoding to buf. forceSet: the value must differ from the field's default
// (tagged field in the "set" shape).
func (g *c15gen) emitValue(w *cw, f *DField, t *DType, gt *GoType, lv, buf, name string, fid int, forceSet bool, lenOverride string) {
	switch t.Kind {
	case "prim":
		want := primGoKind[t.Prim]
		if gt.Kind != want {
			g.problem("field %s: definition type %s but Go type %s", name, t.Prim, gt.GoExpr())
			return
		}
		switch t.Prim {
		case "uuid":
			x := g.t("u")
			w.p("%s := verifNondetBytes(%q, 16)", x, name)
			w.p("copy(%s[:], %s)", lv, x)
			w.p("%s = append(%s, %s...)", buf, buf, x)
			if forceSet {
				w.p("verifAssume(%s != [16]byte{})", lv)
			}
		case "float64":
			x := g.t("u")
			w.p("%s := verifNondetUint64(%q)", x, name)
			w.p("%s = math.Float64frombits(%s)", lv, x)
			w.p("%s = verifC15U64(%s, %s)", buf, buf, x)
			if forceSet {
				g.problem("field %s: tagged float64 not supported by the generator", name)
			}
		default:
			x := g.t("x")
			if lenOverride != "" {
				w.p("%s := %s(%s)", x, want, lenOverride)
			} else if t.Prim == "bool" {
				// a symbolic bool forks in every encoder (if v {1} else {0}); the shape fixes it
				if forceSet {
					w.p("%s := !(%s)", x, goDefault(f, gt))
				} else {
					w.p("%s := sh.boolVal(%d)", x, fid)
				}
			} else {
				w.p("%s := %s(%q)", x, primNondet[t.Prim], name)
			}
			if gt.Name != "" {
				w.p("%s = %s(%s)", lv, gt.Name, x)
			} else {
				w.p("%s = %s", lv, x)
			}
			w.p("%s = %s(%s, %s)", buf, primEnc[t.Prim], buf, x)
			if forceSet {
				w.p("verifAssume(%s != %s)", x, goDefault(f, gt))
			}
		}
	case "string":
		ptr := t.Nullable || t.NullableFrom >= 0
		if (ptr && gt.Kind != "nstring") || (!ptr && gt.Kind != "string") {
			g.problem("field %s: definition string (nullable=%v) but Go type %s", name, ptr, gt.GoExpr())
			return
		}
		n, s := g.t("n"), g.t("s")
		emitSet := func() {
			w.p("%s := sh.strLen(%d, %v)", n, fid, forceSet && !ptr)
			w.p("%s := verifNondetString(%q, %s)", s, name, n)
			if ptr {
				w.p("%s = &%s", lv, s)
			} else {
				w.p("%s = %s", lv, s)
			}
			w.p("%s = verifC15Str(%s, %s, flex, %v)", buf, buf, s, t.VarintLen)
		}
		if ptr {
			w.p("if (%s) && sh.null(%d) && !%v {", nullableExpr(t), fid, forceSet)
			w.ind++
			w.p("%s = nil", lv)
			w.p("%s = verifC15NullLen(%s, flex, 2, %v)", buf, buf, t.VarintLen)
			w.ind--
			w.p("} else {")
			w.ind++
			emitSet()
			w.ind--
			w.p("}")
		} else {
			emitSet()
		}
	case "bytes":
		if gt.Kind != "bytes" {
			g.problem("field %s: definition bytes but Go type %s", name, gt.GoExpr())
			return
		}
		n, s := g.t("n"), g.t("s")
		emitSet := func(nonNil bool) {
			w.p("%s := sh.strLen(%d, %v)", n, fid, forceSet && !t.Nullable)
			w.p("%s := verifNondetBytes(%q, %s)", s, name, n)
			if nonNil {
				w.p("if %s == 0 {", n)
				w.p("\t%s = []byte{}", s)
				w.p("}")
			} else {
				w.p("if %s == 0 {", n)
				w.p("\t%s = nil", s)
				w.p("}")
			}
			w.p("%s = %s", lv, s)
			w.p("%s = verifC15Bytes(%s, %s, flex, %v)", buf, buf, s, t.VarintLen)
		}
		if t.Nullable {
			w.p("if sh.null(%d) && !%v {", fid, forceSet)
			w.ind++
			w.p("%s = nil", lv)
			w.p("%s = verifC15NullLen(%s, flex, 4, %v)", buf, buf, t.VarintLen)
			w.ind--
			w.p("} else {")
			w.ind++
			emitSet(true)
			w.ind--
			w.p("}")
		} else {
			emitSet(false)
		}
	case "lenminus":
		if gt.Kind != "bytes" {
			g.problem("field %s: length-field-minus but Go type %s", name, gt.GoExpr())
			return
		}
		s := g.t("s")
		w.p("%s := verifNondetBytes(%q, %s)", s, name, lenOverride)
		w.p("%s = %s", lv, s)
		w.p("%s = append(%s, %s...)", buf, buf, s)
	case "array":
		if gt.Kind != "slice" && !(gt.Kind == "bytes" && t.Elem.Kind == "prim" && t.Elem.Prim == "int8") {
			g.problem("field %s: definition array but Go type %s", name, gt.GoExpr())
			return
		}
		if gt.Kind != "slice" {
			g.problem("field %s: array of int8 represented as []byte is not supported by the generator", name)
			return
		}
		n, iv := g.t("n"), g.t("i")
		nullable := t.Nullable || t.NullableFrom >= 0
		emitSet := func() {
			w.p("%s := sh.arrLen(%d, %v)", n, fid, forceSet && !nullable)
			w.p("%s = nil", lv)
			w.p("if %s > 0 || (%s) {", n, nullableExpr(t))
			w.p("\t%s = make(%s, %s)", lv, gt.GoExpr(), n)
			w.p("}")
			w.p("%s = verifC15ArrLen(%s, %s, flex, %v)", buf, buf, n, t.VarintLen)
			w.p("for %s := 0; %s < %s; %s++ {", iv, iv, n, iv)
			w.ind++
			g.emitValue(w, f, t.Elem, gt.Elem, fmt.Sprintf("%s[%s]", lv, iv), buf, name+"[]", fid, false, "")
			w.ind--
			w.p("}")
		}
		if nullable {
			w.p("if (%s) && sh.null(%d) && !%v {", nullableExpr(t), fid, forceSet)
			w.ind++
			w.p("%s = nil", lv)
			w.p("%s = verifC15NullLen(%s, flex, 4, %v)", buf, buf, t.VarintLen)
			w.ind--
			w.p("} else {")
			w.ind++
			emitSet()
			w.ind--
			w.p("}")
		} else {
			emitSet()
		}
	case "struct":
		if t.Nullable {
			if gt.Kind != "ptr" {
				g.problem("field %s: nullable struct but Go type %s", name, gt.GoExpr())
				return
			}
			bn := g.builder(t.Struct, gt.Name)
			w.p("if sh.null(%d) && !%v {", fid, forceSet)
			w.ind++
			w.p("%s = nil", lv)
			w.p("%s = append(%s, 0xff)", buf, buf)
			w.ind--
			w.p("} else {")
			w.ind++
			w.p("%s = new(%s)", lv, gt.Name)
			w.p("%s = append(%s, 1)", buf, buf)
			w.p("%s = %s(%s, %s, ver, flex, sh)", buf, bn, buf, lv)
			w.ind--
			w.p("}")
			return
		}
		if gt.Kind != "struct" {
			g.problem("field %s: struct but Go type %s", name, gt.GoExpr())
			return
		}
		bn := g.builder(t.Struct, gt.Name)
		w.p("%s = %s(%s, &%s, ver, flex, sh)", buf, bn, buf, lv)
		if forceSet {
			dn := g.isDef(t.Struct, gt.Name)
			w.p("verifAssume(verifNot(%s(&%s)))", dn, lv)
		}
	}
}

// builder emits (once) the builder of a definition struct against a Go struct and returns its name.
func (g *c15gen) builder(ds *DStruct, goName string) string {
	fn := "verifC15B_" + goName
	if g.builders[goName] {
		return fn
	}
	g.builders[goName] = true
	gs := g.gm.Structs[goName]
	if gs == nil {
		g.problem("Go struct %s (for definition %s) not found", goName, ds.Name)
		fmt.Fprintf(&g.code, "func %s(dst []byte, v *struct{}, ver int, flex bool, sh *verifC15Shape) []byte { return dst }\n\n", fn)
		return fn
	}
	var body strings.Builder
	w := &cw{b: &body, ind: 1}
	w.p("v.Default()")
	// every field of the Go struct other than Version / UnknownTags must be a definition field
	dnames := map[string]bool{}
	for _, f := range ds.Fields {
		dnames[f.Name] = true
	}
	for _, gf := range gs.Fields {
		if gf.Name == "UnknownTags" || (gf.Name == "Version" && (ds.TopLevel || ds.WithVersionField)) {
			continue
		}
		if !dnames[gf.Name] {
			g.problem("Go struct %s has field %s that definition %s lacks", goName, gf.Name, ds.Name)
		}
	}
	// length-field-minus: the referenced length field takes the concrete value len+K
	lenOver := map[string]string{}
	for _, f := range ds.Fields {
		if f.T.Kind == "lenminus" {
			v := g.t("lm")
			fid := g.id()
			w.p("%s := sh.strLen(%d, false)", v, fid)
			lenOver[f.T.LenField] = fmt.Sprintf("%s + %d", v, f.T.LenMinus)
			lenOver[f.Name] = v
		}
	}
	var tagged []*DField
	for _, f := range ds.Fields {
		if f.Tag >= 0 {
			tagged = append(tagged, f)
			continue
		}
		gf := gs.Field(f.Name)
		if gf == nil {
			g.problem("definition %s field %s not found in Go struct %s", ds.Name, f.Name, goName)
			continue
		}
		name := goName + "." + f.Name
		if f.Name == "Version" && ds.WithVersionField && f == ds.Fields[0] {
			w.p("v.Version = int16(ver)")
			w.p("dst = verifC15I16(dst, int16(ver))")
			continue
		}
		pe := presentExpr(f)
		if pe != "true" {
			w.p("if %s {", pe)
			w.ind++
		}
		g.emitValue(w, f, f.T, gf.T, "v."+f.Name, "dst", name, g.id(), false, lenOver[f.Name])
		if pe != "true" {
			w.ind--
			w.p("}")
		}
	}
	sort.SliceStable(tagged, func(i, j int) bool { return tagged[i].Tag < tagged[j].Tag })
	hasTagsField := gs.Field("UnknownTags") != nil
	w.p("if flex {")
	w.ind++
	w.p("ntags := 0")
	type tg struct{ buf, has string }
	var tgs []tg
	for _, f := range tagged {
		gf := gs.Field(f.Name)
		if gf == nil {
			g.problem("definition %s tagged field %s not found in Go struct %s", ds.Name, f.Name, goName)
			continue
		}
		if f.Tag >= 40 {
			g.problem("definition %s: tag %d collides with the unknown-tag keys of the harness", ds.Name, f.Tag)
		}
		tb, has := g.t("tb"), g.t("has")
		tgs = append(tgs, tg{tb, has})
		w.p("var %s []byte", tb)
		w.p("%s := false", has)
		w.p("if (%s) && sh.tagSet(%d) {", presentExpr(f), g.id())
		w.ind++
		g.emitValue(w, f, f.T, gf.T, "v."+f.Name, tb, goName+"."+f.Name, g.id(), true, "")
		w.p("%s = true", has)
		w.p("ntags++")
		w.ind--
		w.p("}")
	}
	uid := g.id()
	w.p("nunk := 0")
	w.p("var ukey uint32")
	w.p("var uval []byte")
	if hasTagsField {
		w.p("if sh.unknown(%d) {", uid)
		w.ind++
		w.p("ukey = sh.unknownKey(%d)", uid)
		w.p("uval = verifNondetBytes(%q, sh.unknownLen(%d))", goName+".UnknownTag", uid)
		w.p("v.UnknownTags.Set(ukey, uval)")
		w.p("nunk = 1")
		w.ind--
		w.p("}")
	}
	w.p("dst = verifC15Uvarint(dst, uint32(ntags+nunk))")
	for i, f := range tagged {
		if i >= len(tgs) {
			break
		}
		w.p("if %s {", tgs[i].has)
		w.p("\tdst = verifC15Uvarint(dst, %d)", f.Tag)
		w.p("\tdst = verifC15Uvarint(dst, uint32(len(%s)))", tgs[i].buf)
		w.p("\tdst = append(dst, %s...)", tgs[i].buf)
		w.p("}")
	}
	w.p("if nunk == 1 {")
	w.p("\tdst = verifC15Uvarint(dst, ukey)")
	w.p("\tdst = verifC15Uvarint(dst, uint32(len(uval)))")
	w.p("\tdst = append(dst, uval...)")
	w.p("}")
	w.ind--
	w.p("}")
	w.p("return dst")
	fmt.Fprintf(&g.code, "// definition %s (%s)\nfunc %s(dst []byte, v *%s, ver int, flex bool, sh *verifC15Shape) []byte {\n%s}\n\n", ds.Name, ds.File, fn, goName, body.String())
	return fn
}

// isDef emits (once) "every field of the struct has its default value" per the definitions.
func (g *c15gen) isDef(ds *DStruct, goName string) string {
	fn := "verifC15IsDef_" + goName
	if g.isdefs[goName] {
		return fn
	}
	g.isdefs[goName] = true
	gs := g.gm.Structs[goName]
	var body strings.Builder
	w := &cw{b: &body, ind: 1}
	w.p("ok := true")
	for _, f := range ds.Fields {
		gf := gs.Field(f.Name)
		if gf == nil {
			continue
		}
		lv := "v." + f.Name
		switch gf.T.Kind {
		case "bool", "int8", "int16", "uint16", "int32", "uint32", "int64", "uuid", "string":
			w.p("ok = verifAnd(ok, %s == %s)", lv, goDefault(f, gf.T))
		case "float64":
			w.p("ok = verifAnd(ok, math.Float64bits(%s) == math.Float64bits(%s))", lv, goDefault(f, gf.T))
		case "nstring", "ptr":
			w.p("ok = verifAnd(ok, %s == nil)", lv)
		case "bytes", "slice":
			if f.T.Nullable || f.T.NullableFrom >= 0 {
				w.p("ok = verifAnd(ok, %s == nil)", lv)
			} else {
				w.p("ok = verifAnd(ok, len(%s) == 0)", lv)
			}
		case "struct":
			dn := g.isDef(f.T.Struct, gf.T.Name)
			w.p("ok = verifAnd(ok, %s(&%s))", dn, lv)
		}
	}
	if gs.Field("UnknownTags") != nil {
		w.p("ok = verifAnd(ok, v.UnknownTags.Len() == 0)")
	}
	w.p("return ok")
	fmt.Fprintf(&g.code, "func %s(v *%s) bool {\n%s}\n\n", fn, goName, body.String())
	return fn
}

// defCheck emits (once) the concrete check that Default() sets exactly the definitions' defaults.
func (g *c15gen) defCheck(ds *DStruct, goName string) {
	if g.defchk[goName] {
		return
	}
	g.defchk[goName] = true
	gs := g.gm.Structs[goName]
	if gs == nil {
		return
	}
	var body strings.Builder
	w := &cw{b: &body, ind: 1}
	w.p("var v %s", goName)
	w.p("v.Default()")
	for _, f := range ds.Fields {
		gf := gs.Field(f.Name)
		if gf == nil {
			continue
		}
		lv := "v." + f.Name
		label := fmt.Sprintf("%s.Default() sets %s to the definitions' default %s", goName, f.Name, goDefault(f, gf.T))
		switch gf.T.Kind {
		case "bool", "int8", "int16", "uint16", "int32", "uint32", "int64", "uuid", "string":
			w.p("verifAssert(%s == %s, %q)", lv, goDefault(f, gf.T), label)
		case "float64":
			w.p("verifAssert(math.Float64bits(%s) == math.Float64bits(%s), %q)", lv, goDefault(f, gf.T), label)
		case "nstring", "ptr", "bytes":
			w.p("verifAssert(%s == nil, %q)", lv, label)
		case "slice":
			w.p("verifAssert(len(%s) == 0, %q)", lv, label)
			if f.T.Elem != nil && f.T.Elem.Kind == "struct" && gf.T.Elem.Kind == "struct" {
				g.defCheck(f.T.Elem.Struct, gf.T.Elem.Name)
			}
		case "struct":
			g.defCheck(f.T.Struct, gf.T.Name)
		}
		if gf.T.Kind == "ptr" && f.T.Kind == "struct" {
			g.defCheck(f.T.Struct, gf.T.Name)
		}
	}
	fmt.Fprintf(&g.code, "func verifC15Def_%s() {\n%s}\n\n", goName, body.String())
	g.defOrder = append(g.defOrder, goName)
}

func genC15(gm *GoModel) {
	thorough := tier == "thorough"
	dsl := loadDSL(repoRoot + "/generate/definitions")
	g := &c15gen{gm: gm, dsl: dsl, builders: map[string]bool{}, isdefs: map[string]bool{}, defchk: map[string]bool{}, problems: map[string][]string{}}
	g.eq = &c16gen{gm: gm, fillSet: map[string]bool{}, eqSet: map[string]bool{}, eqPrefix: "verifC15Eq_"}

	// types under check: every definition struct with an encoding
	var all []*DStruct
	for _, n := range dsl.Order {
		s := dsl.Structs[n]
		if s.NoEncoding {
			continue
		}
		all = append(all, s)
	}
	// encoders are straight-line, so both tiers take every type at every version; the tiers
	// differ in the number of shape profiles
	selected := map[string]bool{}
	for _, s := range all {
		selected[s.Name] = true
	}
	profiles := []int{0, 1, 3}
	if thorough {
		profiles = []int{0, 1, 2, 3, 4, 5, 6, 7, 8, 9, 10}
	}
	var ps []string
	for _, p := range profiles {
		ps = append(ps, fmt.Sprint(p))
	}

	var hb strings.Builder
	var summary []string
	nH := 0
	for ti, s := range all {
		g.cur = s.Name
		gs := gm.Structs[s.Name]
		if gs == nil {
			g.problem("definition %s has no Go struct", s.Name)
		} else if !gs.Methods["AppendTo"] || !gs.Methods["ReadFrom"] {
			g.problem("Go struct %s lacks AppendTo/ReadFrom although the definition has an encoding", s.Name)
		}
		// Default() of every struct is checked in both tiers (concrete, cheap)
		if gs != nil {
			g.defCheck(s, s.Name)
		}
		if !selected[s.Name] || gs == nil {
			continue
		}
		maxV := s.MaxVersion
		if !s.TopLevel {
			maxV = 0
			if s.WithVersionField {
				maxV = s.maxMentionedVersion()
			}
		}
		// every version in both tiers (encoders are straight-line: one path per version and shape)
		var vers []int
		for v := 0; v <= maxV; v++ {
			vers = append(vers, v)
		}
		var vs []string
		for _, v := range vers {
			vs = append(vs, fmt.Sprint(v))
		}
		bn := g.builder(s, s.Name)
		g.eq.emitEq(s.Name)
		setVer := ""
		if gs.HasVersionField {
			setVer = "v.Version = int16(ver); "
		}
		flexExpr := "false"
		if s.FlexAt >= 0 {
			flexExpr = fmt.Sprintf("ver >= %d", s.FlexAt)
		}
		fmt.Fprintf(&hb, "func VerifC15_%s() {\n", s.Name)
		for _, p := range g.problems[s.Name] {
			fmt.Fprintf(&hb, "\tverifFail(%q)\n", "generator: "+p)
		}
		fmt.Fprintf(&hb, "\tvers := [...]int{%s}\n\tver := vers[verifChoose(len(vers))]\n\tprofs := [...]int{%s}\n\tsh := &verifC15Shape{prof: profs[verifChoose(len(profs))], seed: %d, thorough: %v}\n",
			strings.Join(vs, ", "), strings.Join(ps, ", "), uint32(rnd(uint64(3000+ti))), thorough)
		fmt.Fprintf(&hb, "\tx := new(%s)\n\tflex := %s\n\texp := %s(nil, x, ver, flex, sh)\n", s.Name, flexExpr, bn)
		if gs.HasVersionField {
			fmt.Fprintf(&hb, "\tx.Version = int16(ver)\n")
		}
		fmt.Fprintf(&hb, "\tverifC15Check(x, exp, func() verifC16Msg { v := new(%s); %sreturn v }, func(a, b verifC16Msg) bool { return verifC15Eq_%s(a.(*%s), b.(*%s)) })\n}\n\n",
			s.Name, setVer, s.Name, s.Name, s.Name)
		nH++
		summary = append(summary, fmt.Sprintf("%s versions %v", s.Name, vers))
	}
	// problems of unselected types and parser errors still surface
	var gp []string
	for _, e := range dsl.Errors {
		gp = append(gp, "definitions: "+e)
	}
	for _, s := range all {
		if selected[s.Name] && gm.Structs[s.Name] != nil {
			continue
		}
		for _, p := range g.problems[s.Name] {
			gp = append(gp, s.Name+": "+p)
		}
	}
	// codec types of the Go package that no definition describes
	defined := map[string]bool{}
	for _, s := range all {
		defined[s.Name] = true
	}
	var undefined []string
	for _, s := range gm.CodecTypes() {
		if !defined[s.Name] {
			undefined = append(undefined, s.Name)
		}
	}
	// Key(), MaxVersion(), IsFlexible() of every request and response against the definitions
	fmt.Fprintf(&hb, "func VerifC15_keys() {\n")
	for _, s := range all {
		gs := gm.Structs[s.Name]
		if !s.TopLevel || gs == nil {
			continue
		}
		if !gs.Methods["Key"] || !gs.Methods["MaxVersion"] || !gs.Methods["IsFlexible"] {
			fmt.Fprintf(&hb, "\tverifFail(%q)\n", "generator: "+s.Name+" lacks Key/MaxVersion/IsFlexible")
			continue
		}
		fmt.Fprintf(&hb, "\tverifAssert(new(%s).Key() == %d, %q)\n", s.Name, s.Key, fmt.Sprintf("%s.Key() is the definitions' key %d", s.Name, s.Key))
		fmt.Fprintf(&hb, "\tverifAssert(new(%s).MaxVersion() == %d, %q)\n", s.Name, s.MaxVersion, fmt.Sprintf("%s.MaxVersion() is the definitions' max version %d", s.Name, s.MaxVersion))
		flexAt := s.FlexAt
		if flexAt < 0 {
			flexAt = 1 << 14
		}
		fmt.Fprintf(&hb, "\tfor v := 0; v <= %d; v++ {\n\t\tverifAssert((&%s{Version: int16(v)}).IsFlexible() == (v >= %d), %q)\n\t}\n", s.MaxVersion+1, s.Name, flexAt,
			fmt.Sprintf("%s.IsFlexible() switches at the definitions' flexible version", s.Name))
	}
	fmt.Fprintf(&hb, "\tverifReached(\"keys, max versions and flexible versions checked\")\n}\n\n")
	fmt.Fprintf(&hb, "func VerifC15_defaults() {\n")
	for _, p := range gp {
		fmt.Fprintf(&hb, "\tverifFail(%q)\n", "generator: "+p)
	}
	for _, n := range g.defOrder {
		fmt.Fprintf(&hb, "\tverifC15Def_%s()\n", n)
	}
	fmt.Fprintf(&hb, "\tverifReached(\"defaults checked\")\n}\n\n")

	out := "// Code generated by tools/kmsggen c15 from generate/definitions and the current kmsg source. DO NOT EDIT.\n\npackage kmsg\n\nimport \"math\"\n\nvar _ = math.Float64bits\n\n"
	out += fmt.Sprintf("// tier=%s seed=%d: %d of %d definition structs with an encoding; shape profiles %v\n", tier, seed, nH, len(all), profiles)
	out += fmt.Sprintf("// codec types without a definition (outside C15): %v\n", undefined)
	for _, l := range summary {
		out += "// " + l + "\n"
	}
	out += "\n" + hb.String() + g.code.String() + g.eq.eqs.String()
	writeOut("c15_gen.go", out)
	fmt.Printf("kmsggen c15: tier=%s seed=%d harnesses=%d/%d builders=%d problems=%d dslerrors=%d undefined=%v\n", tier, seed, nH, len(all), len(g.builders), len(g.problems), len(dsl.Errors), undefined)
}
