package main

import (
	"fmt"
	"os"
	"sort"
	"strconv"
	"strings"
)

// Types always checked in the quick tier.
var c16Core = []string{
	"ProduceRequest", "ProduceResponse", "FetchRequest", "FetchResponse",
	"MetadataRequest", "MetadataResponse", "OffsetCommitRequest", "OffsetCommitResponse",
	"JoinGroupRequest", "JoinGroupResponse", "SyncGroupRequest", "SyncGroupResponse",
	"ApiVersionsRequest", "ApiVersionsResponse", "ShareFetchRequest", "ShareFetchResponse",
	"ShareAcknowledgeRequest", "ShareAcknowledgeResponse",
	"RecordBatch", "Record", "MessageV0", "MessageV1",
	"ConsumerMemberMetadata", "StickyMemberMetadata",
}

func envInt(name string, d int) int {
	if e := os.Getenv(name); e != "" {
		if n, err := strconv.Atoi(e); err == nil {
			return n
		}
	}
	return d
}

func versionsOf(s *GoStruct) []int {
	if s.MaxVersion < 0 {
		return nil
	}
	var vs []int
	for v := 0; v <= s.MaxVersion; v++ {
		vs = append(vs, v)
	}
	return vs
}

// boundaryVersions: min, max and the first flexible version.
func boundaryVersions(s *GoStruct) []int {
	if s.MaxVersion < 0 {
		return nil
	}
	set := map[int]bool{0: true, s.MaxVersion: true}
	if s.FlexAt > 0 && s.FlexAt <= s.MaxVersion {
		set[s.FlexAt] = true
	}
	var vs []int
	for v := range set {
		vs = append(vs, v)
	}
	sort.Ints(vs)
	return vs
}

func addVersion(vs []int, v int) []int {
	for _, x := range vs {
		if x == v {
			return vs
		}
	}
	vs = append(vs, v)
	sort.Ints(vs)
	return vs
}

// wireVersionMax: for "with version field" types the version is the first int16 on the wire;
// the largest version mentioned in a field comment (or the flexible switch) bounds the range
// of versions whose layout differs.
func wireVersionMax(s *GoStruct, gm *GoModel) int {
	max := 0
	if s.FlexAt > max {
		max = s.FlexAt
	}
	var walk func(t *GoType, seen map[string]bool)
	walk = func(t *GoType, seen map[string]bool) {
		switch t.Kind {
		case "slice":
			walk(t.Elem, seen)
		case "struct", "ptr":
			st := gm.Structs[t.Name]
			if st == nil || seen[t.Name] {
				return
			}
			seen[t.Name] = true
			for _, f := range st.Fields {
				lo, hi, _ := fieldRange(f.Comment)
				if lo > max {
					max = lo
				}
				if hi < 1<<30 && hi+1 > max {
					max = hi + 1
				}
				walk(f.T, seen)
			}
		}
	}
	walk(&GoType{Kind: "struct", Name: s.Name}, map[string]bool{})
	return max
}

type c16gen struct {
	gm      *GoModel
	fills   strings.Builder
	eqs     strings.Builder
	fillSet map[string]bool
	eqSet   map[string]bool
	eqPrefix string
}

func (g *c16gen) eqName(n string) string {
	if g.eqPrefix == "" {
		return "verifC16Eq_" + n
	}
	return g.eqPrefix + n
}

func (g *c16gen) emitFill(name string) {
	if g.fillSet[name] {
		return
	}
	g.fillSet[name] = true
	st := g.gm.Structs[name]
	var body strings.Builder
	for i, f := range st.Fields {
		k := i%5 + 1
		lhs := "v." + f.Name
		switch f.T.Kind {
		case "bool":
			fmt.Fprintf(&body, "\t%s = true\n", lhs)
		case "int8", "int16", "uint16", "int32", "uint32", "int64":
			if f.Name == "Version" && i == 0 {
				continue
			}
			fmt.Fprintf(&body, "\t%s = %d\n", lhs, k)
		case "float64":
			fmt.Fprintf(&body, "\t%s = 1.5\n", lhs)
		case "string":
			fmt.Fprintf(&body, "\t%s = \"a\"\n", lhs)
		case "nstring":
			fmt.Fprintf(&body, "\t{\n\t\ts := \"b\"\n\t\t%s = &s\n\t}\n", lhs)
		case "bytes":
			fmt.Fprintf(&body, "\t%s = []byte{%d}\n", lhs, k)
		case "uuid":
			fmt.Fprintf(&body, "\t%s = [16]byte{%d, 2, 3}\n", lhs, k)
		case "tags":
			// left empty here; the harness adds one unknown tag at the top level
		case "struct":
			g.emitFill(f.T.Name)
			fmt.Fprintf(&body, "\tverifC16Fill_%s(&%s)\n", f.T.Name, lhs)
		case "ptr":
			g.emitFill(f.T.Name)
			fmt.Fprintf(&body, "\t%s = new(%s)\n\tverifC16Fill_%s(%s)\n", lhs, f.T.Name, f.T.Name, lhs)
		case "slice":
			el := f.T.Elem
			switch el.Kind {
			case "struct":
				g.emitFill(el.Name)
				fmt.Fprintf(&body, "\t%s = make([]%s, 1)\n\tverifC16Fill_%s(&%s[0])\n", lhs, el.Name, el.Name, lhs)
			case "string":
				fmt.Fprintf(&body, "\t%s = []string{\"c\"}\n", lhs)
			case "nstring":
				fmt.Fprintf(&body, "\t{\n\t\ts := \"d\"\n\t\t%s = []*string{&s}\n\t}\n", lhs)
			case "bytes":
				fmt.Fprintf(&body, "\t%s = [][]byte{{%d}}\n", lhs, k)
			case "uuid":
				fmt.Fprintf(&body, "\t%s = [][16]byte{{%d, 9}}\n", lhs, k)
			case "bool":
				fmt.Fprintf(&body, "\t%s = []bool{true}\n", lhs)
			case "slice", "ptr", "tags":
				fmt.Fprintf(&body, "\t%s = make(%s, 1)\n", lhs, f.T.GoExpr())
			default:
				fmt.Fprintf(&body, "\t%s = %s{%d}\n", lhs, f.T.GoExpr(), k)
			}
		}
	}
	fmt.Fprintf(&g.fills, "func verifC16Fill_%s(v *%s) {\n%s}\n\n", name, name, body.String())
}

// eqExpr returns statements that fold "a equals b" for two expressions of type t into ok.
func (g *c16gen) eqStmts(t *GoType, a, b string, depth int) string {
	ind := strings.Repeat("\t", depth)
	switch t.Kind {
	case "bool", "int8", "int16", "uint16", "int32", "uint32", "int64", "string", "uuid":
		return fmt.Sprintf("%sok = verifAnd(ok, %s == %s)\n", ind, a, b)
	case "float64":
		return fmt.Sprintf("%sok = verifAnd(ok, math.Float64bits(%s) == math.Float64bits(%s))\n", ind, a, b)
	case "nstring":
		return fmt.Sprintf("%sif (%s == nil) != (%s == nil) {\n%s\treturn false\n%s}\n%sif %s != nil {\n%s\tok = verifAnd(ok, *%s == *%s)\n%s}\n", ind, a, b, ind, ind, ind, a, ind, a, b, ind)
	case "bytes":
		return fmt.Sprintf("%sok = verifAnd(ok, verifC16EqB(%s, %s))\n", ind, a, b)
	case "tags":
		return fmt.Sprintf("%sok = verifAnd(ok, verifC16EqTags(&%s, &%s))\n", ind, a, b)
	case "struct":
		g.emitEq(t.Name)
		return fmt.Sprintf("%sok = verifAnd(ok, %s(&%s, &%s))\n", ind, g.eqName(t.Name), a, b)
	case "ptr":
		g.emitEq(t.Name)
		return fmt.Sprintf("%sif (%s == nil) != (%s == nil) {\n%s\treturn false\n%s}\n%sif %s != nil {\n%s\tok = verifAnd(ok, %s(%s, %s))\n%s}\n", ind, a, b, ind, ind, ind, a, ind, g.eqName(t.Name), a, b, ind)
	case "slice":
		iv := fmt.Sprintf("i%d", depth)
		inner := g.eqStmts(t.Elem, fmt.Sprintf("%s[%s]", a, iv), fmt.Sprintf("%s[%s]", b, iv), depth+1)
		return fmt.Sprintf("%sif len(%s) != len(%s) {\n%s\treturn false\n%s}\n%sfor %s := range %s {\n%s%s}\n", ind, a, b, ind, ind, ind, iv, a, inner, ind)
	}
	return ""
}

func (g *c16gen) emitEq(name string) {
	if g.eqSet[name] {
		return
	}
	g.eqSet[name] = true
	st := g.gm.Structs[name]
	var body strings.Builder
	for _, f := range st.Fields {
		body.WriteString(g.eqStmts(f.T, "a."+f.Name, "b."+f.Name, 1))
	}
	fmt.Fprintf(&g.eqs, "func %s(a, b *%s) bool {\n\tok := true\n%s\treturn ok\n}\n\n", g.eqName(name), name, body.String())
}

func genC16(gm *GoModel) {
	thorough := tier == "thorough"
	types := gm.CodecTypes()
	byName := map[string]*GoStruct{}
	for _, s := range types {
		byName[s.Name] = s
	}
	selected := map[string]bool{}
	sampled := map[string]bool{}
	if thorough {
		for _, s := range types {
			selected[s.Name] = true
		}
	} else {
		for _, n := range c16Core {
			if byName[n] != nil {
				selected[n] = true
			}
		}
		var rest []string
		for _, s := range types {
			if !selected[s.Name] {
				rest = append(rest, s.Name)
			}
		}
		for i := 0; i < envInt("KMSGGEN_SAMPLE", 8) && len(rest) > 0; i++ {
			k := int(rnd(uint64(i)) % uint64(len(rest)))
			selected[rest[k]] = true
			sampled[rest[k]] = true
			rest = append(rest[:k], rest[k+1:]...)
		}
	}
	// bounds
	k := 3    // symbolic bytes past the fixed-width prefix
	npos := 8 // mutated positions per (type, version); 0 = every position
	win := 1  // mutation window
	if thorough {
		k, npos, win = 3, 6, 1
	}
	k = envInt("KMSGGEN_K", k)
	npos = envInt("KMSGGEN_NPOS", npos)
	win = envInt("KMSGGEN_WIN", win)

	g := &c16gen{gm: gm, fillSet: map[string]bool{}, eqSet: map[string]bool{}}
	var b strings.Builder
	nSym, nMut := 0, 0
	var summary []string
	for ti, s := range types {
		if !selected[s.Name] {
			continue
		}
		elem, depth := gm.allocShape(s.Name)
		// allocation bound: every array holds at most one element per remaining input byte and
		// sibling arrays share the input, so the element count over all arrays is at most
		// depth*n; make+append charge an array twice.
		c := 2*elem*depth + 2
		size, _ := gm.sizeAlign(&GoType{Kind: "struct", Name: s.Name}, map[string]bool{})
		c0 := 1024 + 2*size
		var symVers, mutVers []int
		if s.MaxVersion >= 0 {
			if thorough {
				symVers = versionsOf(s)
				mutVers = []int{s.MaxVersion}
				if s.FlexAt > 0 && s.FlexAt <= s.MaxVersion {
					mutVers = addVersion(mutVers, s.FlexAt-1)
				}
			} else {
				symVers = boundaryVersions(s)
				mutVers = []int{s.MaxVersion}
				if sampled[s.Name] {
					symVers = addVersion(symVers, int(rnd(uint64(1000+ti))%uint64(s.MaxVersion+1)))
				}
			}
		}
		g.emitEq(s.Name)
		g.emitFill(s.Name)
		eq := fmt.Sprintf("func(a, b verifC16Msg) bool { return verifC16Eq_%s(a.(*%s), b.(*%s)) }", s.Name, s.Name, s.Name)
		mk := fmt.Sprintf("func() verifC16Msg { return new(%s) }", s.Name)
		if s.MaxVersion >= 0 {
			mk = fmt.Sprintf("func() verifC16Msg { v := new(%s); v.Version = ver; return v }", s.Name)
		}
		verDecl := func(vers []int) string {
			if vers == nil {
				return ""
			}
			var vs []string
			for _, v := range vers {
				vs = append(vs, fmt.Sprint(v))
			}
			return fmt.Sprintf("\tvers := [...]int16{%s}\n\tvi := verifChoose(len(vers))\n\tver := vers[vi]\n", strings.Join(vs, ", "))
		}
		nDecl := ""
		nDesc := ""
		if symVers != nil {
			var ns []string
			for _, v := range symVers {
				f, fv := gm.fixedPrefix(s, v, true)
				f += lenPrefixExtra(fv, s.FlexAt >= 0 && v >= s.FlexAt)
				ns = append(ns, fmt.Sprint(f+k+1))
			}
			nDecl = fmt.Sprintf("\tn := verifChoose([...]int{%s}[vi])\n", strings.Join(ns, ", "))
			nDesc = "n<" + strings.Join(ns, "/")
		} else {
			f := 0
			for v := 0; v <= wireVersionMax(s, gm); v++ {
				fv, kind := gm.fixedPrefix(s, v, true)
				if fv += lenPrefixExtra(kind, false); fv > f {
					f = fv
				}
			}
			kk := k
			if s.HasVersionField && kk > 1 {
				kk-- // the two version bytes are symbolic as well and multiply the layouts explored
			}
			nDecl = fmt.Sprintf("\tn := verifChoose(%d)\n", f+kk+1)
			nDesc = fmt.Sprintf("n<%d", f+kk+1)
		}
		unsafeExpr := "verifChoose(2) == 1"
		if !thorough {
			// quick: the two entry points differ only in the string reader; alternate by type
			if (uint64(ti)+uint64(seed))%2 == 0 {
				unsafeExpr = "false"
			} else {
				unsafeExpr = "true"
			}
		}
		fmt.Fprintf(&b, "func VerifC16_sym_%s() {\n%s%s\tunsafe := %s\n\tverifC16Sym(%s, %s, n, unsafe, %d, %d)\n}\n\n",
			s.Name, verDecl(symVers), nDecl, unsafeExpr, mk, eq, c, c0)
		nSym++
		// --- mutations of a valid encoding
		fillVer := ""
		if mutVers != nil {
			fillVer = "\ttmpl.Version = ver\n"
		} else if s.HasVersionField {
			fillVer = fmt.Sprintf("\ttmpl.Version = int16(verifChoose(%d))\n", wireVersionMax(s, gm)+1)
		}
		extra := ""
		if f := s.Field("UnknownTags"); f != nil && f.T.Kind == "tags" {
			extra += "\ttmpl.UnknownTags.Set(200, []byte{7})\n"
		}
		fixLen := ""
		if s.Name == "RecordBatch" {
			fixLen = "\ttmpl.Length = int32(49 + len(tmpl.Records))\n"
		}
		fmt.Fprintf(&b, "func VerifC16_mut_%s() {\n%s\tunsafe := %s\n\ttmpl := new(%s)\n\tverifC16Fill_%s(tmpl)\n%s%s%s\tverifC16Mut(%s, %s, tmpl, %d, %d, %d, unsafe, %d, %d)\n}\n\n",
			s.Name, verDecl(mutVers), unsafeExpr, s.Name, s.Name, extra, fillVer, fixLen, mk, eq, win, npos, uint32(rnd(uint64(5000+ti))), c, c0)
		nMut++
		summary = append(summary, fmt.Sprintf("%s sym v%v %s c=%d mut v%v", s.Name, symVers, nDesc, c, mutVers))
	}
	out := "// Code generated by tools/kmsggen c16 from the current kmsg source. DO NOT EDIT.\n\npackage kmsg\n\n"
	if strings.Contains(g.eqs.String(), "math.") {
		out += "import \"math\"\n\n"
	}
	out += fmt.Sprintf("// tier=%s seed=%d: %d of %d codec types; k=%d symbolic bytes past the fixed-width prefix; mutation window %d at %d positions (0 = all)\n", tier, seed, len(selected), len(types), k, win, npos)
	for _, l := range summary {
		out += "// " + l + "\n"
	}
	out += "\n" + b.String() + g.fills.String() + g.eqs.String()
	writeOut("c16_gen.go", out)
	fmt.Printf("kmsggen c16: tier=%s seed=%d types=%d/%d sym=%d mut=%d k=%d npos=%d win=%d\n", tier, seed, len(selected), len(types), nSym, nMut, k, npos, win)
}
