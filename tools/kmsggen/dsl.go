package main

// Independent parser for the protocol definition DSL (generate/README.md). It shares nothing
// with generate/parse.go: it is written from the README's description of the language.

import (
	"fmt"
	"os"
	"path/filepath"
	"sort"
	"strconv"
	"strings"
)

type DType struct {
	Kind string // prim string bytes array struct lenminus
	// prim: bool int8 int16 uint16 int32 uint32 int64 float64 varint varlong uuid
	Prim string
	Enum string // enum name when the prim came from enum-X
	// string / bytes / array / struct
	Nullable     bool // nullable at every version where the field exists
	NullableFrom int  // >=0: nullable from this version on (nullable-string-vN+, nullable-vN+[..]); else -1
	VarintLen    bool // varint length prefix (varint-string, varint-bytes, varint[..])
	Elem         *DType
	Struct       *DStruct // struct: anonymous or named
	// length-field-minus
	LenField string
	LenMinus int
}

type DField struct {
	Name       string
	T          *DType
	HasDefault bool
	Default    string // literal text inside (...)
	MinVer     int
	MaxVer     int // -1: unbounded
	Tag        int // -1: not tagged
	Line       string
}

type DStruct struct {
	Name             string
	Anonymous        bool
	TopLevel         bool
	IsRequest        bool
	IsResponse       bool
	WithVersionField bool
	NoEncoding       bool
	FlexAt           int // -1: never
	Key              int
	MaxVersion       int // -1 unknown
	Fields           []*DField
	File             string
}

type DSL struct {
	Structs map[string]*DStruct
	Order   []string
	Enums   map[string]string // name -> backing primitive
	Errors  []string
}

func (d *DSL) errf(format string, a ...interface{}) {
	d.Errors = append(d.Errors, fmt.Sprintf(format, a...))
}

func loadDSL(dir string) *DSL {
	d := &DSL{Structs: map[string]*DStruct{}, Enums: map[string]string{}}
	d.parseEnums(filepath.Join(dir, "enums"))
	files, _ := filepath.Glob(filepath.Join(dir, "*"))
	sort.Strings(files)
	// misc first: named structs must be defined before use, and numbered files use them
	var ordered []string
	for _, f := range files {
		if filepath.Base(f) == "misc" {
			ordered = append(ordered, f)
		}
	}
	for _, f := range files {
		b := filepath.Base(f)
		if b != "misc" && b != "enums" {
			ordered = append(ordered, f)
		}
	}
	for _, f := range ordered {
		d.parseFile(f)
	}
	return d
}

func (d *DSL) parseEnums(path string) {
	b, err := os.ReadFile(path)
	if err != nil {
		d.errf("enums: %v", err)
		return
	}
	in := false
	for _, line := range strings.Split(string(b), "\n") {
		t := strings.TrimSpace(line)
		if t == "" || strings.HasPrefix(t, "//") {
			continue
		}
		if in {
			if t == ")" {
				in = false
			}
			continue
		}
		if strings.HasSuffix(t, "(") {
			parts := strings.Fields(strings.TrimSuffix(t, "("))
			if len(parts) >= 2 {
				d.Enums[parts[0]] = parts[1]
				in = true
				continue
			}
		}
		d.errf("enums: cannot parse %q", line)
	}
}

type srcLine struct {
	indent int
	text   string // without indentation and without trailing version comment
	vcmt   string // trailing comment text (after //), trimmed
	raw    string
}

func (d *DSL) parseFile(path string) {
	b, err := os.ReadFile(path)
	if err != nil {
		d.errf("%s: %v", path, err)
		return
	}
	base := filepath.Base(path)
	var lines []srcLine
	flush := func() {
		if len(lines) > 0 {
			d.parseBlock(base, lines)
		}
		lines = nil
	}
	for _, raw := range strings.Split(string(b), "\n") {
		if strings.TrimSpace(raw) == "" {
			flush()
			continue
		}
		trim := strings.TrimLeft(raw, " ")
		if strings.HasPrefix(trim, "//") {
			continue // struct / field documentation
		}
		sl := srcLine{indent: len(raw) - len(trim), raw: raw}
		if i := strings.Index(trim, " // "); i >= 0 {
			sl.vcmt = strings.TrimSpace(trim[i+4:])
			trim = trim[:i]
		}
		sl.text = strings.TrimRight(trim, " ")
		lines = append(lines, sl)
	}
	flush()
}

var lastRequest *DStruct

func (d *DSL) parseBlock(file string, lines []srcLine) {
	head := lines[0]
	if head.indent != 0 || !strings.Contains(head.text, "=>") {
		d.errf("%s: block does not start with a struct header: %q", file, head.raw)
		return
	}
	i := strings.Index(head.text, "=>")
	s := &DStruct{Name: strings.TrimSpace(head.text[:i]), FlexAt: -1, Key: -1, MaxVersion: -1, File: file}
	mods := strings.TrimSpace(head.text[i+2:])
	s.TopLevel = true
	if mods != "" {
		for _, m := range strings.Split(mods, ",") {
			m = strings.TrimSpace(m)
			switch {
			case m == "not top level":
				s.TopLevel = false
			case m == "with version field":
				s.WithVersionField = true
			case m == "no encoding":
				s.NoEncoding = true
			case strings.HasPrefix(m, "flexible v") && strings.HasSuffix(m, "+"):
				n, err := strconv.Atoi(m[len("flexible v") : len(m)-1])
				if err != nil {
					d.errf("%s: bad flexible modifier %q", file, m)
				}
				s.FlexAt = n
			case strings.HasPrefix(m, "key "):
				s.Key, _ = strconv.Atoi(m[4:])
			case strings.HasPrefix(m, "max version "):
				s.MaxVersion, _ = strconv.Atoi(m[len("max version "):])
			case m == "admin", m == "group coordinator", m == "txn coordinator", m == "share coordinator":
			default:
				d.errf("%s: unknown modifier %q on %s", file, m, s.Name)
			}
		}
	}
	if s.TopLevel {
		if strings.HasSuffix(s.Name, "Request") && s.Key >= 0 {
			s.IsRequest = true
			lastRequest = s
		} else if strings.HasSuffix(s.Name, "Response") {
			s.IsResponse = true
			if lastRequest == nil || strings.TrimSuffix(lastRequest.Name, "Request") != strings.TrimSuffix(s.Name, "Response") {
				d.errf("%s: response %s does not follow its request", file, s.Name)
			} else {
				s.Key, s.MaxVersion, s.FlexAt = lastRequest.Key, lastRequest.MaxVersion, lastRequest.FlexAt
			}
		} else {
			d.errf("%s: top level struct %s is neither request nor response", file, s.Name)
		}
	}
	pos := 1
	s.Fields = d.parseFields(file, s.Name, lines, &pos, 2)
	if pos != len(lines) {
		d.errf("%s: %s: unexpected indentation at %q", file, s.Name, lines[pos].raw)
	}
	if _, dup := d.Structs[s.Name]; dup {
		d.errf("%s: duplicate struct %s", file, s.Name)
	}
	d.Structs[s.Name] = s
	d.Order = append(d.Order, s.Name)
}

func parseVersionComment(c string) (min, max, tag int, ok bool) {
	min, max, tag, ok = 0, -1, -1, true
	if c == "" {
		return
	}
	for _, part := range strings.Split(c, ",") {
		part = strings.TrimSpace(part)
		switch {
		case strings.HasPrefix(part, "tag "):
			n, err := strconv.Atoi(part[4:])
			if err != nil {
				ok = false
			}
			tag = n
		case strings.HasPrefix(part, "v") && strings.HasSuffix(part, "+"):
			n, err := strconv.Atoi(part[1 : len(part)-1])
			if err != nil {
				ok = false
			}
			min = n
		case strings.HasPrefix(part, "v") && strings.Contains(part, "-v"):
			i := strings.Index(part, "-v")
			a, e1 := strconv.Atoi(part[1:i])
			b, e2 := strconv.Atoi(part[i+2:])
			if e1 != nil || e2 != nil {
				ok = false
			}
			min, max = a, b
		default:
			ok = false
		}
	}
	return
}

func (d *DSL) parseFields(file, owner string, lines []srcLine, pos *int, indent int) []*DField {
	var out []*DField
	for *pos < len(lines) {
		l := lines[*pos]
		if l.indent < indent {
			return out
		}
		if l.indent > indent {
			d.errf("%s: %s: over-indented line %q", file, owner, l.raw)
			*pos++
			continue
		}
		*pos++
		f := &DField{Tag: -1, MaxVer: -1, Line: strings.TrimSpace(l.raw)}
		var okc bool
		f.MinVer, f.MaxVer, f.Tag, okc = parseVersionComment(l.vcmt)
		if !okc {
			d.errf("%s: %s: bad version comment %q", file, owner, l.raw)
		}
		text := l.text
		// special fields without ": "
		if strings.HasPrefix(text, "ThrottleMillis") || strings.HasPrefix(text, "TimeoutMillis") {
			if !strings.Contains(text, ": ") {
				name := "ThrottleMillis"
				if strings.HasPrefix(text, "TimeoutMillis") {
					name = "TimeoutMillis"
				}
				f.Name = name
				f.T = &DType{Kind: "prim", Prim: "int32", NullableFrom: -1}
				rest := text[len(name):]
				if name == "TimeoutMillis" {
					f.HasDefault, f.Default = true, "15000"
					if strings.HasPrefix(rest, "(") && strings.HasSuffix(rest, ")") {
						f.Default = rest[1 : len(rest)-1]
					}
				}
				// ThrottleMillis(N): N is the version at which throttling moved after the
				// response; it does not affect the wire format.
				out = append(out, f)
				continue
			}
		}
		ci := strings.Index(text, ": ")
		if ci < 0 {
			d.errf("%s: %s: cannot parse field %q", file, owner, l.raw)
			continue
		}
		f.Name = text[:ci]
		ts := text[ci+2:]
		// length-field-minus => Length - 49
		if strings.HasPrefix(ts, "length-field-minus => ") {
			parts := strings.Fields(strings.TrimPrefix(ts, "length-field-minus => "))
			if len(parts) == 3 && parts[1] == "-" {
				n, _ := strconv.Atoi(parts[2])
				f.T = &DType{Kind: "lenminus", LenField: parts[0], LenMinus: n, NullableFrom: -1}
			} else {
				d.errf("%s: %s: bad length-field-minus %q", file, owner, l.raw)
			}
			out = append(out, f)
			continue
		}
		// default value
		if strings.HasSuffix(ts, ")") {
			if oi := strings.LastIndex(ts, "("); oi >= 0 {
				f.HasDefault = true
				f.Default = ts[oi+1 : len(ts)-1]
				ts = ts[:oi]
			}
		}
		f.T = d.parseType(file, owner+"."+f.Name, ts, lines, pos, indent)
		out = append(out, f)
	}
	return out
}

var dslPrims = map[string]bool{"bool": true, "int8": true, "int16": true, "uint16": true, "int32": true, "uint32": true,
	"int64": true, "float64": true, "varint": true, "varlong": true, "uuid": true}

func (d *DSL) parseType(file, where, ts string, lines []srcLine, pos *int, indent int) *DType {
	t := &DType{NullableFrom: -1}
	switch {
	case dslPrims[ts]:
		t.Kind, t.Prim = "prim", ts
		return t
	case strings.HasPrefix(ts, "enum-"):
		name := ts[5:]
		base, ok := d.Enums[name]
		if !ok {
			d.errf("%s: %s: unknown enum %q", file, where, name)
			base = "int8"
		}
		t.Kind, t.Prim, t.Enum = "prim", base, name
		return t
	case ts == "string":
		t.Kind = "string"
		return t
	case ts == "nullable-string":
		t.Kind, t.Nullable = "string", true
		return t
	case ts == "varint-string":
		t.Kind, t.VarintLen = "string", true
		return t
	case strings.HasPrefix(ts, "nullable-string-v") && strings.HasSuffix(ts, "+"):
		n, err := strconv.Atoi(ts[len("nullable-string-v") : len(ts)-1])
		if err != nil {
			d.errf("%s: %s: bad type %q", file, where, ts)
		}
		t.Kind, t.NullableFrom = "string", n
		return t
	case ts == "bytes":
		t.Kind = "bytes"
		return t
	case ts == "nullable-bytes":
		t.Kind, t.Nullable = "bytes", true
		return t
	case ts == "varint-bytes":
		t.Kind, t.VarintLen, t.Nullable = "bytes", true, true
		return t
	case ts == "=>":
		t.Kind = "struct"
		t.Struct = &DStruct{Name: where, Anonymous: true, FlexAt: -1, MaxVersion: -1}
		t.Struct.Fields = d.parseFields(file, where, lines, pos, indent+2)
		return t
	case ts == "nullable=>":
		t.Kind, t.Nullable = "struct", true
		t.Struct = &DStruct{Name: where, Anonymous: true, FlexAt: -1, MaxVersion: -1}
		t.Struct.Fields = d.parseFields(file, where, lines, pos, indent+2)
		return t
	}
	// arrays: [T], nullable[T], nullable-vN+[T], varint[T]; T may be =>, =>Hint (anonymous struct)
	if oi := strings.Index(ts, "["); oi >= 0 {
		pre := ts[:oi]
		ci := strings.LastIndex(ts, "]")
		if ci < oi {
			d.errf("%s: %s: bad array type %q", file, where, ts)
			t.Kind, t.Prim = "prim", "int8"
			return t
		}
		inner := ts[oi+1 : ci]
		// a singular-name hint may follow the bracket: [=>]Name
		t.Kind = "array"
		switch {
		case pre == "":
		case pre == "nullable":
			t.Nullable = true
		case pre == "varint":
			t.VarintLen = true
		case strings.HasPrefix(pre, "nullable-v") && strings.HasSuffix(pre, "+"):
			n, err := strconv.Atoi(pre[len("nullable-v") : len(pre)-1])
			if err != nil {
				d.errf("%s: %s: bad array type %q", file, where, ts)
			}
			t.NullableFrom = n
		default:
			d.errf("%s: %s: bad array prefix %q", file, where, ts)
		}
		if strings.HasPrefix(inner, "=>") {
			el := &DType{Kind: "struct", NullableFrom: -1}
			el.Struct = &DStruct{Name: where + "[]", Anonymous: true, FlexAt: -1, MaxVersion: -1}
			el.Struct.Fields = d.parseFields(file, where, lines, pos, indent+2)
			t.Elem = el
		} else {
			t.Elem = d.parseType(file, where+"[]", inner, lines, pos, indent)
		}
		return t
	}
	// named struct
	if s, ok := d.Structs[ts]; ok {
		t.Kind, t.Struct = "struct", s
		return t
	}
	d.errf("%s: %s: unknown type %q", file, where, ts)
	t.Kind, t.Prim = "prim", "int8"
	return t
}

// maxMentionedVersion: the largest version that appears in a version bound inside the struct
// (used as the version range of "with version field" structs, which declare no max version).
func (s *DStruct) maxMentionedVersion() int {
	m := 0
	if s.FlexAt > m {
		m = s.FlexAt
	}
	var walk func(fs []*DField, seen map[*DStruct]bool)
	walkT := func(t *DType, seen map[*DStruct]bool) {}
	walk = func(fs []*DField, seen map[*DStruct]bool) {
		for _, f := range fs {
			if f.MinVer > m {
				m = f.MinVer
			}
			if f.MaxVer >= 0 && f.MaxVer+1 > m {
				m = f.MaxVer + 1
			}
			walkT(f.T, seen)
		}
	}
	walkT = func(t *DType, seen map[*DStruct]bool) {
		if t == nil {
			return
		}
		if t.NullableFrom > m {
			m = t.NullableFrom
		}
		if t.Elem != nil {
			walkT(t.Elem, seen)
		}
		if t.Struct != nil && !seen[t.Struct] {
			seen[t.Struct] = true
			walk(t.Struct.Fields, seen)
		}
	}
	walk(s.Fields, map[*DStruct]bool{s: true})
	return m
}
