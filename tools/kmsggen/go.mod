module verif/tools/kmsggen

go 1.22
