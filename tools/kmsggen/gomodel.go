package main

// Model of the Go side of package kmsg, read from the current source with go/parser.

import (
	"fmt"
	"go/ast"
	"go/parser"
	"go/token"
	"os"
	"path/filepath"
	"sort"
	"strconv"
	"strings"
)

type GoType struct {
	Kind string // bool int8 int16 uint16 int32 uint32 int64 float64 string nstring bytes uuid slice struct ptr tags
	Name string // struct name (struct, ptr) or named scalar type (enums)
	Elem *GoType
}

func (t *GoType) IsScalar() bool {
	switch t.Kind {
	case "bool", "int8", "int16", "uint16", "int32", "uint32", "int64", "float64":
		return true
	}
	return false
}

// GoExpr returns the Go spelling of the type.
func (t *GoType) GoExpr() string {
	switch t.Kind {
	case "nstring":
		return "*string"
	case "bytes":
		return "[]byte"
	case "uuid":
		return "[16]byte"
	case "slice":
		return "[]" + t.Elem.GoExpr()
	case "struct":
		return t.Name
	case "ptr":
		return "*" + t.Name
	case "tags":
		return "Tags"
	}
	if t.Name != "" {
		return t.Name
	}
	return t.Kind
}

type GoField struct {
	Name    string
	T       *GoType
	Comment string // trailing line comment, e.g. "v3+" or "tag 0"
}

type GoStruct struct {
	Name            string
	Fields          []GoField
	Methods         map[string]bool
	MaxVersion      int // -1 if no MaxVersion method
	FlexAt          int // -1 if no IsFlexible or never flexible
	HasVersionField bool
}

func (s *GoStruct) Field(name string) *GoField {
	for i := range s.Fields {
		if s.Fields[i].Name == name {
			return &s.Fields[i]
		}
	}
	return nil
}

type GoModel struct {
	Structs map[string]*GoStruct
	Scalars map[string]string // named scalar type -> underlying basic kind
	Order   []string          // struct names in source order
}

func loadGoModel(dir string) *GoModel {
	fset := token.NewFileSet()
	files, _ := filepath.Glob(filepath.Join(dir, "*.go"))
	sort.Strings(files)
	m := &GoModel{Structs: map[string]*GoStruct{}, Scalars: map[string]string{}}
	var parsed []*ast.File
	for _, f := range files {
		if strings.HasSuffix(f, "_test.go") {
			continue
		}
		af, err := parser.ParseFile(fset, f, nil, parser.ParseComments)
		if err != nil {
			fmt.Fprintln(os.Stderr, "kmsggen: parse", f, err)
			os.Exit(1)
		}
		parsed = append(parsed, af)
	}
	// pass 1: named scalar types
	for _, af := range parsed {
		for _, d := range af.Decls {
			gd, ok := d.(*ast.GenDecl)
			if !ok || gd.Tok != token.TYPE {
				continue
			}
			for _, sp := range gd.Specs {
				ts := sp.(*ast.TypeSpec)
				if id, ok := ts.Type.(*ast.Ident); ok && ts.Assign == token.NoPos {
					switch id.Name {
					case "bool", "int8", "int16", "uint16", "int32", "uint32", "int64", "float64":
						m.Scalars[ts.Name.Name] = id.Name
					}
				}
			}
		}
	}
	// pass 2: structs
	for _, af := range parsed {
		for _, d := range af.Decls {
			gd, ok := d.(*ast.GenDecl)
			if !ok || gd.Tok != token.TYPE {
				continue
			}
			for _, sp := range gd.Specs {
				ts := sp.(*ast.TypeSpec)
				st, ok := ts.Type.(*ast.StructType)
				if !ok || ts.Assign != token.NoPos {
					continue
				}
				gs := &GoStruct{Name: ts.Name.Name, Methods: map[string]bool{}, MaxVersion: -1, FlexAt: -1}
				supported := true
				for _, f := range st.Fields.List {
					t := m.convType(f.Type)
					if t == nil {
						supported = false
						break
					}
					c := ""
					if f.Comment != nil {
						c = strings.TrimSpace(f.Comment.Text())
					}
					for _, n := range f.Names {
						gs.Fields = append(gs.Fields, GoField{Name: n.Name, T: t, Comment: c})
					}
					if len(f.Names) == 0 {
						supported = false
					}
				}
				if !supported {
					continue
				}
				if f := gs.Field("Version"); f != nil && f.T.Kind == "int16" && len(gs.Fields) > 0 && gs.Fields[0].Name == "Version" {
					gs.HasVersionField = true
				}
				m.Structs[gs.Name] = gs
				m.Order = append(m.Order, gs.Name)
			}
		}
	}
	// pass 3: methods
	for _, af := range parsed {
		for _, d := range af.Decls {
			fd, ok := d.(*ast.FuncDecl)
			if !ok || fd.Recv == nil || len(fd.Recv.List) != 1 {
				continue
			}
			rt := fd.Recv.List[0].Type
			if se, ok := rt.(*ast.StarExpr); ok {
				rt = se.X
			}
			id, ok := rt.(*ast.Ident)
			if !ok {
				continue
			}
			gs := m.Structs[id.Name]
			if gs == nil {
				continue
			}
			gs.Methods[fd.Name.Name] = true
			switch fd.Name.Name {
			case "MaxVersion":
				if n, ok := returnedInt(fd); ok {
					gs.MaxVersion = n
				}
			case "IsFlexible":
				if n, ok := flexThreshold(fd); ok {
					gs.FlexAt = n
				}
			}
		}
	}
	return m
}

func returnedInt(fd *ast.FuncDecl) (int, bool) {
	if fd.Body == nil || len(fd.Body.List) != 1 {
		return 0, false
	}
	rs, ok := fd.Body.List[0].(*ast.ReturnStmt)
	if !ok || len(rs.Results) != 1 {
		return 0, false
	}
	if bl, ok := rs.Results[0].(*ast.BasicLit); ok {
		n, err := strconv.Atoi(bl.Value)
		return n, err == nil
	}
	return 0, false
}

// flexThreshold recognises `return v.Version >= N`.
func flexThreshold(fd *ast.FuncDecl) (int, bool) {
	if fd.Body == nil || len(fd.Body.List) != 1 {
		return 0, false
	}
	rs, ok := fd.Body.List[0].(*ast.ReturnStmt)
	if !ok || len(rs.Results) != 1 {
		return 0, false
	}
	be, ok := rs.Results[0].(*ast.BinaryExpr)
	if !ok || be.Op != token.GEQ {
		return 0, false
	}
	if bl, ok := be.Y.(*ast.BasicLit); ok {
		n, err := strconv.Atoi(bl.Value)
		return n, err == nil
	}
	return 0, false
}

func (m *GoModel) convType(e ast.Expr) *GoType {
	switch e := e.(type) {
	case *ast.Ident:
		switch e.Name {
		case "bool", "int8", "int16", "uint16", "int32", "uint32", "int64", "float64", "string":
			return &GoType{Kind: e.Name}
		case "Tags":
			return &GoType{Kind: "tags"}
		}
		if k, ok := m.Scalars[e.Name]; ok {
			return &GoType{Kind: k, Name: e.Name}
		}
		return &GoType{Kind: "struct", Name: e.Name}
	case *ast.StarExpr:
		if id, ok := e.X.(*ast.Ident); ok {
			if id.Name == "string" {
				return &GoType{Kind: "nstring"}
			}
			if _, scalar := m.Scalars[id.Name]; !scalar {
				return &GoType{Kind: "ptr", Name: id.Name}
			}
		}
		return nil
	case *ast.ArrayType:
		if e.Len == nil {
			if id, ok := e.Elt.(*ast.Ident); ok && id.Name == "byte" {
				return &GoType{Kind: "bytes"}
			}
			el := m.convType(e.Elt)
			if el == nil {
				return nil
			}
			return &GoType{Kind: "slice", Elem: el}
		}
		if bl, ok := e.Len.(*ast.BasicLit); ok && bl.Value == "16" {
			if id, ok := e.Elt.(*ast.Ident); ok && id.Name == "byte" {
				return &GoType{Kind: "uuid"}
			}
		}
		return nil
	}
	return nil
}

// Codec types: structs with AppendTo and ReadFrom, in source order.
func (m *GoModel) CodecTypes() []*GoStruct {
	var out []*GoStruct
	for _, n := range m.Order {
		s := m.Structs[n]
		if s.Methods["AppendTo"] && s.Methods["ReadFrom"] {
			out = append(out, s)
		}
	}
	return out
}

// sizeAlign returns the size and alignment (amd64) of a type.
func (m *GoModel) sizeAlign(t *GoType, seen map[string]bool) (int, int) {
	switch t.Kind {
	case "bool", "int8":
		return 1, 1
	case "int16", "uint16":
		return 2, 2
	case "int32", "uint32":
		return 4, 4
	case "int64", "float64":
		return 8, 8
	case "string":
		return 16, 8
	case "nstring", "ptr", "tags":
		return 8, 8
	case "bytes", "slice":
		return 24, 8
	case "uuid":
		return 16, 1
	case "struct":
		s := m.Structs[t.Name]
		if s == nil || seen[t.Name] {
			return 8, 8
		}
		seen[t.Name] = true
		defer delete(seen, t.Name)
		off, al := 0, 1
		for _, f := range s.Fields {
			sz, a := m.sizeAlign(f.T, seen)
			if a > al {
				al = a
			}
			off = (off + a - 1) / a * a
			off += sz
		}
		off = (off + al - 1) / al * al
		return off, al
	}
	return 8, 8
}

// allocShape returns the largest element size of any slice / pointer target reachable from
// the struct and the maximal nesting depth of slices and pointers.
func (m *GoModel) allocShape(name string) (maxElem, depth int) {
	var walk func(t *GoType, d int, seen map[string]bool)
	walk = func(t *GoType, d int, seen map[string]bool) {
		switch t.Kind {
		case "slice":
			sz, _ := m.sizeAlign(t.Elem, map[string]bool{})
			if sz > maxElem {
				maxElem = sz
			}
			if d+1 > depth {
				depth = d + 1
			}
			walk(t.Elem, d+1, seen)
		case "ptr":
			sz, _ := m.sizeAlign(&GoType{Kind: "struct", Name: t.Name}, map[string]bool{})
			if sz > maxElem {
				maxElem = sz
			}
			if d+1 > depth {
				depth = d + 1
			}
			walk(&GoType{Kind: "struct", Name: t.Name}, d+1, seen)
		case "struct":
			s := m.Structs[t.Name]
			if s == nil || seen[t.Name] {
				return
			}
			seen[t.Name] = true
			for _, f := range s.Fields {
				walk(f.T, d, seen)
			}
			delete(seen, t.Name)
		}
	}
	walk(&GoType{Kind: "struct", Name: name}, 0, map[string]bool{})
	return
}

// fieldRange parses a Go struct field's trailing comment ("v3+", "v1-v4", "tag 0").
func fieldRange(c string) (lo, hi int, tagged bool) {
	lo, hi = 0, 1<<30
	for _, part := range strings.Split(c, ",") {
		part = strings.TrimSpace(part)
		switch {
		case strings.HasPrefix(part, "tag "):
			tagged = true
		case strings.HasPrefix(part, "v"):
			if strings.HasSuffix(part, "+") {
				if n, err := strconv.Atoi(part[1 : len(part)-1]); err == nil {
					lo = n
				}
			} else if i := strings.Index(part, "-v"); i > 0 {
				a, e1 := strconv.Atoi(part[1:i])
				b, e2 := strconv.Atoi(part[i+2:])
				if e1 == nil && e2 == nil {
					lo, hi = a, b
				}
			}
		}
	}
	return
}

// fixedPrefix returns the number of wire bytes of fixed-width fields that precede the first
// variable-length item of the struct at the given version, and the kind of that item ("" when
// the struct is all fixed-width). It is an estimate used only to choose how many symbolic input
// bytes a harness gets; it does not affect what is asserted.
func (m *GoModel) fixedPrefix(s *GoStruct, version int, top bool) (n int, firstVar string) {
	if s.Name == "Record" {
		return 0, "varint" // hand-written codec: every integer of a record is a varint on the wire
	}
	for i, f := range s.Fields {
		if top && i == 0 && f.Name == "Version" {
			if s.MaxVersion < 0 {
				n += 2 // "with version field": on the wire
			}
			continue
		}
		lo, hi, tagged := fieldRange(f.Comment)
		if tagged || version < lo || version > hi {
			continue
		}
		switch f.T.Kind {
		case "bool", "int8":
			n++
		case "int16", "uint16":
			n += 2
		case "int32", "uint32":
			n += 4
		case "int64", "float64":
			n += 8
		case "uuid":
			n += 16
		case "struct":
			in := m.Structs[f.T.Name]
			if in == nil {
				return n, "struct"
			}
			k, fv := m.fixedPrefix(in, version, false)
			n += k
			if fv != "" {
				return n, fv
			}
		default:
			return n, f.T.Kind
		}
	}
	return n, ""
}

// lenPrefixExtra: bytes of the length prefix of the first variable item beyond the first one
// (non-flexible encodings use int16/int32 lengths).
func lenPrefixExtra(kind string, flexible bool) int {
	if flexible {
		return 0
	}
	switch kind {
	case "slice", "bytes":
		return 3
	case "string", "nstring":
		return 1
	}
	return 0
}
