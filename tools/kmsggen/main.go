// kmsggen generates the C15 / C16 harness files for package kmsg from the current source of
// the repository under test (VERIF_REPO, default /repo). It runs offline, uses only the
// standard library and writes *.go files (package kmsg) into VERIF_GEN_OUT.
package main

import (
	"fmt"
	"os"
	"path/filepath"
	"strconv"
)

func envOr(k, d string) string {
	if v := os.Getenv(k); v != "" {
		return v
	}
	return d
}

var (
	repoRoot = envOr("VERIF_REPO", "/repo")
	outDir   = envOr("VERIF_GEN_OUT", "")
	tier     = envOr("VERIF_TIER", "quick")
	seed     int64
)

func main() {
	if len(os.Args) < 2 {
		fmt.Fprintln(os.Stderr, "usage: kmsggen c16|c15|dump")
		os.Exit(2)
	}
	seed, _ = strconv.ParseInt(envOr("VERIF_SEED", "0"), 10, 64)
	if outDir == "" && os.Args[1] != "dump" && os.Args[1] != "dsl" {
		fmt.Fprintln(os.Stderr, "kmsggen: VERIF_GEN_OUT not set")
		os.Exit(2)
	}
	gm := loadGoModel(filepath.Join(repoRoot, "pkg/kmsg"))
	switch os.Args[1] {
	case "c16":
		genC16(gm)
	case "c15":
		genC15(gm)
	case "dsl":
		dumpDSL()
	case "dump":
		for _, s := range gm.CodecTypes() {
			e, d := gm.allocShape(s.Name)
			fmt.Printf("%s max=%d flex=%d verfield=%v elem=%d depth=%d\n", s.Name, s.MaxVersion, s.FlexAt, s.HasVersionField, e, d)
		}
		fmt.Println(len(gm.Structs), "structs")
	default:
		fmt.Fprintln(os.Stderr, "unknown command", os.Args[1])
		os.Exit(2)
	}
}

func writeOut(name, content string) {
	if err := os.WriteFile(filepath.Join(outDir, name), []byte(content), 0o644); err != nil {
		fmt.Fprintln(os.Stderr, "kmsggen:", err)
		os.Exit(1)
	}
}

// splitmix64-based deterministic sampling from VERIF_SEED.
func rnd(k uint64) uint64 {
	z := uint64(seed)*0x9E3779B97F4A7C15 + k*0xBF58476D1CE4E5B9 + 0x94D049BB133111EB
	z = (z ^ (z >> 30)) * 0xBF58476D1CE4E5B9
	z = (z ^ (z >> 27)) * 0x94D049BB133111EB
	return z ^ (z >> 31)
}

func init() {
	dumpDSL = func() {
		d := loadDSL(repoRoot + "/generate/definitions")
		for _, e := range d.Errors {
			fmt.Println("ERR", e)
		}
		n := 0
		var cnt func(fs []*DField)
		cnt = func(fs []*DField) {
			for _, f := range fs {
				n++
				if f.T != nil && f.T.Struct != nil && f.T.Struct.Anonymous {
					cnt(f.T.Struct.Fields)
				}
				if f.T != nil && f.T.Elem != nil && f.T.Elem.Struct != nil && f.T.Elem.Struct.Anonymous {
					cnt(f.T.Elem.Struct.Fields)
				}
			}
		}
		for _, name := range d.Order {
			cnt(d.Structs[name].Fields)
		}
		fmt.Println(len(d.Structs), "structs", n, "fields", len(d.Enums), "enums")
	}
}

var dumpDSL func()
