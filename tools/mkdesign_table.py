#!/usr/bin/env python3
"""Regenerates the generated blocks of DESIGN.md (between <!-- gen:NAME --> markers)."""
import json, glob, os, re
root = os.path.dirname(os.path.dirname(os.path.abspath(__file__)))
checks = {os.path.basename(f)[:-5]: json.load(open(f)) for f in sorted(glob.glob(os.path.join(root, 'checks', 'C*.json')))}
props = [json.loads(l) for l in open(os.path.join(root, 'properties.jsonl')) if l.strip()]
meta = json.load(open(os.path.join(root, 'manifest_meta.json')))
known = [json.loads(l) for l in open(os.path.join(root, 'known_findings.jsonl')) if l.strip() and not l.startswith('#')]
def ev(pid):
    try:
        return json.load(open(os.path.join(root, 'evidence', pid + '.json')))
    except Exception:
        return None
rows = ["| id | claimed as | harnesses | paths (quick) | solver queries | quick bound (abridged) | findings |", "|---|---|---|---|---|---|---|"]
for p in props:
    pid = p['id']
    if pid not in checks:
        rows.append(f"| {pid} | **not applicable** | – | – | – | {meta['not_applicable'].get(pid, '')[:160]} | |")
        continue
    c = checks[pid]
    e = ev(pid)
    nh = paths = q = '?'
    if e:
        hs = e['coverage'].get('harnesses', [])
        nh, paths, q = len(hs), sum(h['paths'] for h in hs), e['coverage'].get('queries', 0)
    kind = 'kernel' if 'kernel' in c['title'].lower() else 'claimed'
    f = [("fixed " + k.get('commit', '')) if k['status'] == 'fixed' else 'KNOWN' for k in known if k['property'] == pid]
    b = c.get('bounds', {}).get('quick', '').replace('|', '/').replace('\n', ' ')
    rows.append(f"| {pid} | {kind} | {nh} | {paths} | {q} | {b[:260]}{'…' if len(b) > 260 else ''} | {', '.join(f)} |")
table = "\n".join(rows)
frows = ["| property | status | commit | what |", "|---|---|---|---|"]
for k in known:
    frows.append(f"| {k['property']} | {k['status']} | {k.get('commit','')} | {k['what'].replace('|','/')} (harness `{k.get('harness','')}`) |")
ftable = "\n".join(frows)
srows = ["| seed | property | needs to manifest | detected | caught by |", "|---|---|---|---|---|"]
for d in sorted(glob.glob(os.path.join(root, 'seeded', '*', 'meta.json'))):
    m = json.load(open(d))
    cm = m.get('confirmed_by_main', {})
    need = str(m.get('needs_to_manifest', m.get('summary', '')))[:170].replace('|', '/').replace('\n', ' ')
    srows.append(f"| {os.path.basename(os.path.dirname(d))} | {m.get('property')} | {need} | {cm.get('detected')} | {str(cm.get('caught_by',''))[:150].replace('|','/')} |")
stable = "\n".join(srows)
p = os.path.join(root, 'DESIGN.md')
s = open(p).read()
for name, content in [('status', table), ('findings', ftable), ('seeds', stable)]:
    pat = re.compile(r'(<!-- gen:%s -->).*?(<!-- /gen:%s -->)' % (name, name), re.S)
    if pat.search(s):
        s = pat.sub(lambda m: m.group(1) + "\n" + content + "\n" + m.group(2), s)
    else:
        print('marker missing:', name)
open(p, 'w').write(s)
print('ok')
