#!/usr/bin/env python3
"""Regenerates MANIFEST.json from checks.json + manifest_meta.json (levels, notes, N/A reasons)."""
import json, os
root = os.path.dirname(os.path.dirname(os.path.abspath(__file__)))
import glob
checks = {os.path.basename(f)[:-5]: json.load(open(f)) for f in glob.glob(os.path.join(root, 'checks', 'C*.json'))}
meta = json.load(open(os.path.join(root, 'manifest_meta.json')))
props = [json.loads(l) for l in open(os.path.join(root, 'properties.jsonl')) if l.strip()]
out = {
 "version": 1,
 "setup_cmd": "./setup.sh",
 "hooks": {
  "guard": "verif",
  "enable": "none needed: harnesses are injected in-package with go/packages overlays and `go test -overlay`; /repo carries no hook code",
  "baseline_off_cmd": meta["baseline_off_cmd"],
  "source_commits": [],
  "add_only": True
 },
 "engines": [{
  "name": "gosym",
  "path": "engine/",
  "serves_properties": sorted(checks.keys()),
  "kind_free_text": "bounded symbolic executor for Go SSA (go/ssa from /repo's current source, regenerated each run): concrete heap, bit-vector terms for scalars, forking by re-execution of decision vectors, z3 -in per worker decides every branch and assertion; counterexamples replayed natively with go test -overlay"
 }],
 "checks": [],
 "not_applicable": [],
 "notes": meta.get("notes", "")
}
def default_text(c):
    fn = "; ".join(c.get("functions", []))[:600]
    b = c.get("bounds", {}).get("quick", "")[:700]
    out = c.get("outside", [])
    t = ("Bounded symbolic execution of the real SSA of: " + fn + ". Every assertion on every path within the bound is discharged by the SMT solver (unsat = holds for all inputs of that path) or yields a replayed counterexample. Quick bound: " + b + ".")
    if out:
        t += " Outside the claim: " + "; ".join(out)[:500] + "."
    return t

def default_note(c):
    parts = ["trusted: go/ssa construction, gosym's operational semantics (cross-checked by concrete differential runs against the native build), z3 4.8.12/5.1.0, the harness's reference model"]
    if c.get("stubs"):
        parts.append("stubs: " + "; ".join(c["stubs"])[:500])
    if c.get("assumptions"):
        parts.append("assumes: " + "; ".join(c["assumptions"])[:600])
    return ". ".join(parts)

for p in props:
    pid = p['id']
    if pid in checks:
        c = checks[pid]
        m = meta["checks"].get(pid, {})
        out["checks"].append({
         "property_id": pid,
         "quick_cmd": f"./engine/bin/verifctl check {pid} --tier quick",
         "thorough_cmd": f"./engine/bin/verifctl check {pid} --tier thorough",
         "evidence_file": f"evidence/{pid}.json",
         "replay_cmd_template": "./engine/bin/verifctl replay {path}",
         "engine": "gosym",
         "level_claimed": {"category": c.get("level", "model_checking"), "text": m.get("text", default_text(c)), "design_ref": m.get("design_ref", "DESIGN.md §4 " + pid + " and §10")},
         "level_note": m.get("note", default_note(c)),
         "technique": m.get("technique", "bounded symbolic execution of the real Go SSA, assertions discharged by z3 (SMT, bit-vectors)")
        })
    else:
        out["not_applicable"].append({"property_id": pid, "reason": meta["not_applicable"].get(pid, "no solver-based check of the real code has been built for this property yet; not claimed")})
json.dump(out, open(os.path.join(root, 'MANIFEST.json'), 'w'), indent=1)
print("checks:", len(out["checks"]), "n/a:", len(out["not_applicable"]))
