#!/bin/sh
# Runs every registered check (quick or $1 tier) sequentially against /repo and prints one line each.
tier=${1:-quick}
cd "$(dirname "$0")/.."
export GOFLAGS=-mod=mod GOPROXY=off
for f in checks/C*.json; do
  id=$(basename $f .json)
  s=$(date +%s)
  out=$(VERIF_SEED=${VERIF_SEED:-1} ./engine/bin/verifctl check $id --tier $tier 2>&1)
  rc=$?
  e=$(( $(date +%s) - s ))
  nv=$(echo "$out" | grep -c "^VIOLATION")
  ni=$(echo "$out" | grep -c "^INCONCLUSIVE")
  nk=$(echo "$out" | grep -c "^KNOWN-FINDING")
  echo "$id rc=$rc ${e}s violations=$nv inconclusive=$ni known=$nk"
  echo "$out" | grep "^INCONCLUSIVE\|^VIOLATION" | cut -c1-220 | sed 's/^/    /'
done
