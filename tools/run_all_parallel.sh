#!/bin/sh
# Runs every registered check of one tier concurrently (the way `vp check` exercises them) and prints one line each.
tier=${1:-quick}
cd "$(dirname "$0")/.."
export GOFLAGS=-mod=mod GOPROXY=off
mkdir -p work/par
for f in checks/C*.json; do
  id=$(basename $f .json)
  ( s=$(date +%s); VERIF_SEED=${VERIF_SEED:-1} ./engine/bin/verifctl check $id --tier $tier > work/par/$id.log 2>&1; rc=$?; e=$(( $(date +%s) - s ));
    echo "$id rc=$rc ${e}s violations=$(grep -c '^VIOLATION' work/par/$id.log) inconclusive=$(grep -c '^INCONCLUSIVE' work/par/$id.log) known=$(grep -c '^KNOWN-FINDING' work/par/$id.log)" ) &
done
wait
grep -h "^INCONCLUSIVE\|^VIOLATION" work/par/*.log | cut -c1-220 | sed 's/^/    /'
