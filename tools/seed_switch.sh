#!/bin/sh
# usage: tools/seed_switch.sh <worktree> <patch.diff>   -- reset worktree sources and apply one patch
wt=$1; patch=$2
git -C $wt checkout -- . && git -C $wt apply $patch && git -C $wt status --short | grep -v "^??" 
