#!/bin/sh
# usage: tools/try_seed.sh <property-id> <repo-worktree-with-change-applied> [extra verifctl args]
# Runs the property's quick check against another checkout of the repository (never /repo).
id=$1; wt=$2; shift 2
export GOFLAGS=-mod=mod GOPROXY=off
# evidence written by this run would describe the seeded tree: keep the current one
cp evidence/$id.json work/.evidence-$id.keep 2>/dev/null
VERIF_REPO=$wt ./engine/bin/verifctl check $id --no-tv "$@" 2>&1 | cut -c1-400 | grep -v "^INCONCLUSIVE.*truncated" | tail -8
if [ -f work/.evidence-$id.keep ]; then mv work/.evidence-$id.keep evidence/$id.json; else git checkout -- evidence/$id.json 2>/dev/null; fi
rm -rf work/ws-$(echo $wt | sed 's|^/||; s|/|_|g')
