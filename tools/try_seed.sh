#!/bin/sh
# usage: tools/try_seed.sh <property-id> <repo-worktree-with-change-applied> [extra verifctl args]
# Runs the property's quick check against another checkout of the repository (never /repo).
id=$1; wt=$2; shift 2
export GOFLAGS=-mod=mod GOPROXY=off
VERIF_REPO=$wt ./engine/bin/verifctl check $id --no-tv "$@" 2>&1 | cut -c1-400 | grep -v "^INCONCLUSIVE.*truncated" | tail -8
# evidence written by this run describes the seeded tree: restore the committed one
git checkout -- evidence/$id.json 2>/dev/null
rm -rf work/ws-*
