// Package ws pins the modules under test into one build list.
package ws

import (
	_ "github.com/twmb/franz-go/pkg/kadm"
	_ "github.com/twmb/franz-go/pkg/kfake"
	_ "github.com/twmb/franz-go/pkg/kgo"
	_ "github.com/twmb/franz-go/pkg/kmsg"
	_ "github.com/twmb/franz-go/pkg/sr"
	_ "github.com/twmb/franz-go/plugin/kotel"
)
